import os, sys; sys.path.insert(0, os.getcwd())  # noqa: E702

"""
Equivalence demonstration for p2 (flag checks of decompress_G1 / decompress_G2
factored into the shared helper _decode_flags in py_ecc/bls/point_compression.py).

Part A loads the pristine point_compression module next to the edited one and
compares decompress_G1 / decompress_G2 (result, exception class AND message) on
every flag pattern x boundary coordinates, on every single-bit flip of real
public keys / signatures, on random encodings and on malformed arguments.

Part B runs Verify / PopVerify / KeyValidate of all suites on a candidate family
and compares with the outcomes recorded on the pristine tree
(expected.json, produced by running this script with RECORD=1 on a clean tree).
"""
import importlib.util
import json
import random
import time

T0 = time.time()
HERE = os.path.dirname(os.path.abspath(__file__))
RECORD = os.environ.get("RECORD") == "1"

import py_ecc.bls.point_compression as new  # noqa: E402

assert os.path.abspath(new.__file__).startswith(os.getcwd()), new.__file__
if not RECORD:
    assert hasattr(new, "_decode_flags"), "edited tree expected"

spec = importlib.util.spec_from_file_location(
    "py_ecc.bls.point_compression_pristine",
    os.path.join(HERE, "pristine", "point_compression.py"),
)
old = importlib.util.module_from_spec(spec)
sys.modules[spec.name] = old
spec.loader.exec_module(old)
assert not hasattr(old, "_decode_flags")

from py_ecc.bls import (  # noqa: E402
    G2Basic,
    G2MessageAugmentation,
    G2ProofOfPossession,
)
from py_ecc.bls.g2_primitives import (  # noqa: E402
    G2_to_signature,
    pubkey_to_G1,
    signature_to_G2,
)
from py_ecc.bls.hash import i2osp, os2ip  # noqa: E402
from py_ecc.optimized_bls12_381 import (  # noqa: E402
    G1,
    G2,
    Z1,
    Z2,
    add,
    curve_order,
    field_modulus as q,
    multiply,
    neg,
)

rng = random.Random(0x2C02)
checks = 0
P381, P382, P383 = 1 << 381, 1 << 382, 1 << 383


def outcome(f, *a):
    try:
        r = f(*a)
    except BaseException as e:  # noqa: B902
        return ("exc", type(e).__name__, str(e))
    return ("ok", r)


def same(label, fo, fn, *a):
    global checks
    ro, rn = outcome(fo, *a), outcome(fn, *a)
    assert ro[0] == rn[0], (label, a, ro, rn)
    if ro[0] == "exc":
        assert ro == rn, (label, a, ro, rn)
    else:
        po, pn = ro[1], rn[1]
        assert type(po) is type(pn) is tuple and len(po) == len(pn) == 3
        for co, cn in zip(po, pn):
            assert type(co) is type(cn) and co == cn, (label, a, po, pn)
        # the shared infinity constants are returned as such by both
        assert (po is Z1) == (pn is Z1) and (po is Z2) == (pn is Z2)
    checks += 1
    return rn


# --------------------------------------------------------------------------
# A1. decompress_G1: all 8 flag patterns x boundary / ordinary x values
# --------------------------------------------------------------------------
g1_real = [new.compress_G1(multiply(G1, k)) % P381 for k in (1, 2, 3, curve_order - 1)]
xs = [0, 1, 2, 3, 4, 5, q - 2, q - 1, q, q + 1, P381 - 1] + g1_real
xs += [rng.randrange(q) for _ in range(40)]
for flags in range(8):
    for x in xs:
        same("G1", old.decompress_G1, new.decompress_G1, (flags << 381) + x)
# oversized, negative and non-int arguments
for z in [
    1 << 384,
    (1 << 384) + P383 + g1_real[0],
    (1 << 384) + P383 + P382,
    (1 << 500) + P383,
    -1,
    -P383,
    -(P383 + P382),
    None,
    "abc",
    1.5,
    float(P383 + P382),
    b"\x00" * 48,
    (1, 2),
    True,
]:
    same("G1-odd", old.decompress_G1, new.decompress_G1, z)
print("A1 done", checks, round(time.time() - T0, 1))

# --------------------------------------------------------------------------
# A2. decompress_G2: flag patterns of z1 and of z2 x boundary coordinates
# --------------------------------------------------------------------------
g2_real = [new.compress_G2(multiply(G2, k)) for k in (1, 2, curve_order - 1)]
x1s = [0, 1, q - 1, q, q + 1, P381 - 1] + [c[0] % P381 for c in g2_real]
x1s += [rng.randrange(q) for _ in range(3)]
z2s = [0, 1, 2, q - 1, q, q + 1, P381 - 1, P381, P382, P383, P383 + P382]
z2s += [c[1] for c in g2_real] + [g2_real[0][1] + P381, g2_real[0][1] + P383]
z2s += [rng.randrange(q) for _ in range(3)]
for flags in range(8):
    for x1 in x1s:
        for z2 in z2s:
            same("G2", old.decompress_G2, new.decompress_G2, ((flags << 381) + x1, z2))
for p in [
    (P383 + P382, None),  # "G1 style" infinity handed to the G2 decoder
    (P383 + P382 + P381, None),
    (P383 + 5, None),
    (P382, None),
    (g2_real[0][0], None),
    (g2_real[0][0], -1),
    (g2_real[0][0], -q),
    (g2_real[0][0], g2_real[0][1] - q),
    (-1, 0),
    (-P383, 0),
    ((1 << 384) + g2_real[0][0], g2_real[0][1]),
    (g2_real[0][0], (1 << 384) + g2_real[0][1]),
    (P383 + P382, 0.0),
    (P383 + P382, False),
    (None, 0),
    ("a", "b"),
    (1.5, 0),
    (g2_real[0][0],),
    (g2_real[0][0], g2_real[0][1], 0),
    None,
    5,
    [P383 + P382, 0],
    [g2_real[0][0], g2_real[0][1]],
]:
    same("G2-odd", old.decompress_G2, new.decompress_G2, p)
print("A2 done", checks, round(time.time() - T0, 1))

# --------------------------------------------------------------------------
# A3. the byte-level decoders as Verify uses them: every single-bit flip
# --------------------------------------------------------------------------
def old_sig_to_G2(sig):
    return old.decompress_G2((os2ip(sig[:48]), os2ip(sig[48:])))


def old_pk_to_G1(pk):
    return old.decompress_G1(os2ip(pk))


sk = rng.randrange(1, curve_order)
pk = G2Basic.SkToPk(sk)
sig = G2Basic.Sign(sk, b"equiv-p2")
INF_SIG = i2osp(P383 + P382, 48) + b"\x00" * 48
INF_PK = i2osp(P383 + P382, 48)
same("sig", old_sig_to_G2, signature_to_G2, sig)
same("sig", old_sig_to_G2, signature_to_G2, INF_SIG)
same("pk", old_pk_to_G1, pubkey_to_G1, pk)
same("pk", old_pk_to_G1, pubkey_to_G1, INF_PK)
for base, fo, fn in ((sig, old_sig_to_G2, signature_to_G2), (pk, old_pk_to_G1, pubkey_to_G1)):
    for pos in range(len(base)):
        for bit in range(8):
            if len(base) == 96 and pos not in (0, 48) and bit not in (pos % 8, (pos + 3) % 8):
                continue  # signatures: 2 bits per byte + all bits of both top bytes
            b = bytearray(base)
            b[pos] ^= 1 << bit
            same("flip", fo, fn, bytes(b))
for base, fo, fn in ((INF_SIG, old_sig_to_G2, signature_to_G2), (INF_PK, old_pk_to_G1, pubkey_to_G1)):
    for pos in range(len(base)):
        b = bytearray(base)
        b[pos] ^= 1 << (pos % 8)
        same("flip-inf", fo, fn, bytes(b))
for _ in range(60):
    same("rand-sig", old_sig_to_G2, signature_to_G2, rng.randbytes(96))
    r = bytearray(rng.randbytes(96)); r[0] = (r[0] & 0x1F) | 0x80 | (rng.randrange(2) << 5)  # noqa: E702
    r[48] &= 0x1F
    same("rand-sig-c", old_sig_to_G2, signature_to_G2, bytes(r))
    same("rand-pk", old_pk_to_G1, pubkey_to_G1, rng.randbytes(48))
for odd in (b"", sig[:95], sig + b"\x00", sig[:48], bytearray(sig), pk, pk + pk):
    same("odd-len-sig", old_sig_to_G2, signature_to_G2, odd)
for odd in (b"", pk[:47], pk + b"\x00", bytearray(pk), sig):
    same("odd-len-pk", old_pk_to_G1, pubkey_to_G1, odd)
# compressors are untouched; round trip through both decoders
for k in (1, 2, 5, curve_order - 1):
    assert old.compress_G2(new.decompress_G2(new.compress_G2(multiply(G2, k)))) == old.compress_G2(multiply(G2, k))
    assert old.compress_G1(new.decompress_G1(new.compress_G1(multiply(G1, k)))) == new.compress_G1(multiply(G1, k))
# calling again after all of the above gives the same objects / values
same("again", old_sig_to_G2, signature_to_G2, sig)
assert new.decompress_G1(P383 + P382) is Z1 and new.decompress_G2((P383 + P382, 0)) is Z2
print("A3 done", checks, round(time.time() - T0, 1))

# --------------------------------------------------------------------------
# B. Verify / PopVerify / KeyValidate outcomes vs the pristine tree
# --------------------------------------------------------------------------
def outcome_plain(f, *a):
    try:
        return ["ok", f(*a)]
    except BaseException as e:  # noqa: B902
        return ["exc", type(e).__name__]


msg = b"msg-C02-p2"
sk2 = 1
pk2 = G2Basic.SkToPk(sk2)
suites = {
    "basic": (G2Basic.Verify, G2Basic.Sign),
    "aug": (G2MessageAugmentation.Verify, G2MessageAugmentation.Sign),
    "pop": (G2ProofOfPossession.Verify, G2ProofOfPossession.Sign),
    "popverify": (
        lambda p, m, s: G2ProofOfPossession.PopVerify(p, s),
        lambda k, m: G2ProofOfPossession.PopProve(k),
    ),
}
got = {}
for name, (verify, sign) in suites.items():
    s = sign(sk, msg)
    S = signature_to_G2(s)
    cands = {
        "canonical": s,
        "neg": G2_to_signature(neg(S)),
        "2S": G2_to_signature(add(S, S)),
        "inf": INF_SIG,
        "other-key": sign(sk2, msg),
    }
    for o, (_, osign) in suites.items():
        if o != name:
            cands["as-" + o] = osign(sk, msg)
    for bit in (7, 6, 5):
        b = bytearray(s); b[0] ^= 1 << bit; cands["flag%d" % bit] = bytes(b)  # noqa: E702
        b = bytearray(s); b[48] |= 1 << bit; cands["z2flag%d" % bit] = bytes(b)  # noqa: E702
    for pos in (1, 47, 49, 95):
        b = bytearray(s); b[pos] ^= 1 << (pos % 8); cands["flip%d" % pos] = bytes(b)  # noqa: E702
    cands["inf+a"] = i2osp(P383 + P382 + P381, 48) + b"\x00" * 48
    cands["inf-no-b"] = i2osp(P383, 48) + b"\x00" * 48
    cands["inf-z2"] = i2osp(P383 + P382, 48) + b"\x00" * 47 + b"\x01"
    cands["short"] = s[:95]
    cands["long"] = s + b"\x00"
    for cname, c in cands.items():
        got["%s/%s" % (name, cname)] = outcome_plain(verify, pk, msg, c)
        if not RECORD:
            assert got["%s/%s" % (name, cname)] == ["ok", c == s], (name, cname)
    for kname, k in (("inf", INF_PK), ("pk2", pk2), ("negpk", bytes([pk[0] ^ 0x20]) + pk[1:]),
                     ("noc", bytes([pk[0] & 0x7F]) + pk[1:]), ("b", bytes([pk[0] | 0x40]) + pk[1:])):
        got["%s/key-%s" % (name, kname)] = outcome_plain(verify, k, msg, s)
    got["%s/again" % name] = outcome_plain(verify, pk, msg, s)
    print("B", name, "done", round(time.time() - T0, 1))
for i in range(48):
    b = bytearray(pk); b[i] ^= 1 << (i % 8)  # noqa: E702
    got["kv/%d" % i] = outcome_plain(G2Basic.KeyValidate, bytes(b))
for kname, k in (("ok", pk), ("inf", INF_PK), ("inf+a", i2osp(P383 + P382 + P381, 48)),
                 ("zero", b"\x00" * 48), ("x=q", i2osp(P383 + q, 48))):
    got["kv/" + kname] = outcome_plain(G2ProofOfPossession.KeyValidate, k)

path = os.path.join(HERE, "expected.json")
if RECORD:
    with open(path, "w") as f:
        json.dump(got, f, indent=1, sort_keys=True)
    print("recorded", len(got), "outcomes on the pristine tree")
else:
    with open(path) as f:
        expected = json.load(f)
    assert expected.keys() == got.keys()
    for k in expected:
        assert expected[k] == got[k], (k, expected[k], got[k])
    checks += len(got)
    assert sum(1 for v in got.values() if v == ["ok", True]) >= 8
    print("OK: %d identical outcomes, %.1f s" % (checks, time.time() - T0))
