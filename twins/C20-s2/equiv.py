import os, sys; sys.path.insert(0, os.getcwd())  # noqa: E401,E702

"""
Equivalence demonstration for edit s2 (C20).

s2 rewrites how some BLS12-381 constants / tables are written:
  * constants.P_MINUS_9_DIV_16: 228-digit literal -> (p**2 - 9) // 16 (+ assert)
  * constants.ETAS: list -> tuple (same four FQ2 elements)
  * constants.H_EFF_G1: 0xD201000000010001 -> 0xD201_0000_0001_0001
  * optimized_pairing.pseudo_binary_encoding: list -> tuple (same 64 ints)
  * optimized_pairing.exptable: list comprehension -> tuple(generator)

The pristine constants.py and optimized_pairing.py (and, bound to the pristine
constants, the unchanged optimized_swu.py / optimized_clear_cofactor.py) are
loaded next to the edited ones inside the same package and both are driven with
the same inputs in different orders, with snapshots around every call.
"""

import copy
import hashlib
import importlib.util
import json
import random
import subprocess

HERE = os.path.dirname(os.path.abspath(__file__))
PRIS = os.path.join(HERE, "pristine")

import py_ecc  # noqa: E402

assert os.path.abspath(py_ecc.__file__).startswith(os.getcwd()), py_ecc.__file__

import py_ecc.optimized_bls12_381 as pkg  # noqa: E402
from py_ecc.bls import G2Basic, G2MessageAugmentation, G2ProofOfPossession  # noqa: E402
from py_ecc.bls import hash_to_curve as h2c  # noqa: E402
from py_ecc.fields import (  # noqa: E402
    optimized_bls12_381_FQ as FQ,
    optimized_bls12_381_FQ2 as FQ2,
    optimized_bls12_381_FQ12 as FQ12,
    optimized_bn128_FQ2 as BN_FQ2,
    optimized_bn128_FQ12 as BN_FQ12,
)
from py_ecc.optimized_bls12_381 import (  # noqa: E402
    constants as new_c,
    optimized_clear_cofactor as new_cc,
    optimized_curve as oc,
    optimized_pairing as new_p,
    optimized_swu as new_swu,
)

PKG = "py_ecc.optimized_bls12_381."
PKGDIR = os.path.dirname(pkg.__file__)


def load(name, path, subst=None):
    src = open(path).read()
    if subst:
        for a, b in subst:
            assert a in src, (a, path)
            src = src.replace(a, b)
    spec = importlib.util.spec_from_loader(PKG + name, loader=None, origin=path)
    mod = importlib.util.module_from_spec(spec)
    mod.__file__ = path
    sys.modules[PKG + name] = mod
    exec(compile(src, path, "exec"), mod.__dict__)
    return mod


old_c = load("_pristine_constants", os.path.join(PRIS, "constants.py"))
old_p = load("_pristine_optimized_pairing", os.path.join(PRIS, "optimized_pairing.py"))
# unchanged library files, re-bound to the pristine constants
old_swu = load(
    "_pristine_optimized_swu",
    os.path.join(PKGDIR, "optimized_swu.py"),
    [("from .constants import", "from ._pristine_constants import")],
)
old_cc = load(
    "_pristine_optimized_clear_cofactor",
    os.path.join(PKGDIR, "optimized_clear_cofactor.py"),
    [("from .constants import", "from ._pristine_constants import")],
)
assert old_swu.ETAS is old_c.ETAS and new_swu.ETAS is new_c.ETAS
assert type(old_c.ETAS) is list, "pristine copy is not pristine"
assert type(new_c.ETAS) is tuple, "edit s2 not applied"
assert "(FQ.field_modulus**2 - 9) // 16" in open(new_c.__file__).read()

checks = 0


def ok(cond, msg):
    global checks
    checks += 1
    if not cond:
        raise AssertionError(msg)


def sig(v, seq_as=None):
    """hashable deep description: type names and integer contents."""
    if v is None or isinstance(v, (bool, int, str, bytes)):
        return (type(v).__name__, v)
    if isinstance(v, (tuple, list)):
        return (seq_as or type(v).__name__, tuple(sig(e) for e in v))
    if hasattr(v, "coeffs"):
        return (
            type(v).__name__,
            type(v.coeffs).__name__,
            tuple(sig(c) for c in v.coeffs),
        )
    if hasattr(v, "n"):
        return (type(v).__name__, sig(v.n))
    return (type(v).__name__, repr(v))


# ------------------------------------------------------------ the constants
LIST_TO_TUPLE = {
    "constants": {"ETAS"},
    "pairing": {"pseudo_binary_encoding", "exptable"},
}
for label, o, n in (("constants", old_c, new_c), ("pairing", old_p, new_p)):
    names_o = sorted(k for k in vars(o) if not k.startswith("__"))
    names_n = sorted(k for k in vars(n) if not k.startswith("__"))
    ok(names_o == names_n, label + ": set of module names changed")
    for k in names_o:
        a, b = getattr(o, k), getattr(n, k)
        if callable(a) and not hasattr(a, "coeffs"):
            continue
        if k in LIST_TO_TUPLE[label]:
            ok(type(a) is list and type(b) is tuple, k + " container types")
            ok(len(a) == len(b), k + " length")
            # same elements, same element types, same order
            ok(sig(a, "seq") == sig(b, "seq"), k + " elements differ")
            ok(all(x == y and type(x) is type(y) for x, y in zip(a, b)), k)
            # reads / indexing / slicing / iteration / membership agree
            ok([a[i] for i in range(-len(a), len(a))] == [b[i] for i in range(-len(b), len(b))], k)
            ok(list(a[62::-1]) == list(b[62::-1]) and list(a[::2]) == list(b[::2]), k)
            ok(list(reversed(a)) == list(reversed(b)), k)
            ok(all((x in a) and (x in b) for x in a), k)
        else:
            ok(sig(a) == sig(b), "%s.%s differs: %r" % (label, k, (sig(a), sig(b))[:0]))

p = FQ.field_modulus
ok(type(new_c.P_MINUS_9_DIV_16) is int, "P_MINUS_9_DIV_16 type")
ok(new_c.P_MINUS_9_DIV_16 == old_c.P_MINUS_9_DIV_16, "P_MINUS_9_DIV_16 value")
ok(16 * old_c.P_MINUS_9_DIV_16 + 9 == p * p, "exact division")
ok(type(new_c.H_EFF_G1) is int and new_c.H_EFF_G1 == old_c.H_EFF_G1 == 0xD201000000010001, "H_EFF_G1")
ok(new_swu.P_MINUS_9_DIV_16 == old_swu.P_MINUS_9_DIV_16, "swu binding")
ok(new_cc.H_EFF_G1 == old_cc.H_EFF_G1 and new_cc.H_EFF_G2 == old_cc.H_EFF_G2, "cc binding")
ok(sum(e * 2**i for i, e in enumerate(new_p.pseudo_binary_encoding)) == new_p.ate_loop_count, "pbe")
ok(all(type(e) is int for e in new_p.pseudo_binary_encoding), "pbe element type")
ok(all(type(e) is FQ12 for e in new_p.exptable), "exptable element type")
ok(all(type(e) is FQ2 for e in new_c.ETAS), "ETAS element type")
ok(pkg.final_exponentiate is new_p.final_exponentiate, "package binding")


# ---------------------------------------------------------------- snapshots
def constants_snapshot():
    snap = {}
    for nm in ("G1", "G2", "G12", "Z1", "Z2", "b", "b2", "b12", "w"):
        snap["oc." + nm] = sig(getattr(oc, nm))
    for label, m in (("new_c", new_c), ("old_c", old_c), ("new_p", new_p), ("old_p", old_p)):
        for k, v in vars(m).items():
            if k.startswith("__") or (callable(v) and not hasattr(v, "coeffs")):
                continue
            if type(v).__name__ == "module":
                continue
            snap[label + "." + k] = sig(v)
    snap["cls"] = sig(
        sorted(
            (c.__name__, k, repr(v))
            for c in (FQ, FQ2, FQ12)
            for k, v in vars(c).items()
            # copy.deepcopy in this harness makes copyreg cache __slotnames__
            if not k.startswith("__")
        )
    )
    return snap


BASE = constants_snapshot()


def call(fn, args, kwargs=None):
    kwargs = kwargs or {}
    if os.environ.get("EQUIV_TRACE"):
        import time
        print(time.strftime("%X"), fn.__module__.rsplit(".", 1)[-1], fn.__name__, flush=True)
    before = sig(args) + sig(sorted(kwargs.items()))
    try:
        r = ("ok", sig(fn(*args, **kwargs)))
    except Exception as e:  # noqa: BLE001
        r = ("exc", type(e).__name__)
    ok(sig(args) + sig(sorted(kwargs.items())) == before, "argument mutated")
    ok(constants_snapshot() == BASE, "module constant mutated by %s" % fn.__name__)
    return r


# NB: plain-int arguments are deliberately not fed to sqrt_division_FQ2 or to the
# cofactor multiplications: with ints nothing is reduced mod p, so int ** (758-bit
# exponent) / 64 unreduced doublings do not terminate in either version.
rnd = random.Random(2020)
log = []  # (name, old_fn, new_fn, args, kwargs, old_result, new_result)


def both(name, fo, fn, args, kwargs=None, new_first=False):
    if new_first:
        rn = call(fn, args, kwargs)
        ro = call(fo, args, kwargs)
    else:
        ro = call(fo, args, kwargs)
        rn = call(fn, args, kwargs)
    ok(ro == rn, "%s differs on %r: %r vs %r" % (name, sig(args), ro[0], rn[0]))
    log.append((name, fo, fn, args, kwargs, ro, rn))
    return rn


# ---------------------------------------------------------------- FQ2 / SWU
def rfq2():
    return FQ2([rnd.randrange(p), rnd.randrange(p)])


fq2_vals = [
    FQ2.zero(),
    FQ2.one(),
    FQ2([p - 1, 0]),
    FQ2([0, 1]),
    FQ2([0, p - 1]),
    FQ2([p - 1, p - 1]),
    FQ2([-1, -2]),
    FQ2([p, p + 1]),
    FQ2([2**400, 3]),
    FQ2([1, 1]),
    FQ2([2, 0]),
    FQ2([FQ(5), FQ(7)]),
] + [rfq2() for _ in range(6)]
# elements t with Z*t^2 = -1 style exceptional behaviour are covered by zero; add
# squares and non-squares explicitly
sq = rfq2()
fq2_vals += [sq * sq, sq * sq * FQ2([1, 1])]
malformed = [None, 0, 7, "x", b"\x01", (), [1, 2], FQ(3), BN_FQ2([1, 2]), FQ12.one(), oc.G2]

for i, t in enumerate(fq2_vals + malformed):
    both("optimized_swu_G2", old_swu.optimized_swu_G2, new_swu.optimized_swu_G2, (t,), new_first=i % 2 == 1)

uv = [(u, v) for u in fq2_vals[:8] for v in (fq2_vals[0], fq2_vals[1], fq2_vals[5], fq2_vals[13])]
uv += [(rfq2(), rfq2()) for _ in range(6)]
r_ = rfq2()
v_ = rfq2()
uv += [(r_ * r_ * v_, v_), (r_ * r_ * v_ * FQ2([1, 1]), v_)]  # u/v square, non-square
uv += [(None, FQ2.one()), (FQ2.one(), None), (FQ(3), FQ(5)), (BN_FQ2([1, 2]), BN_FQ2([3, 4])), (FQ2.one(), FQ(2))]
for i, (u, v) in enumerate(uv):
    both("sqrt_division_FQ2", old_swu.sqrt_division_FQ2, new_swu.sqrt_division_FQ2, (u, v), new_first=i % 3 == 0)

fq_vals = [FQ(0), FQ(1), FQ(p - 1), FQ(2), FQ(11), FQ(-11), FQ(2**380)] + [FQ(rnd.randrange(p)) for _ in range(4)]
for t in fq_vals + [None, 5, FQ2.one(), "x"]:
    both("optimized_swu_G1", old_swu.optimized_swu_G1, new_swu.optimized_swu_G1, (t,))
for u in fq_vals[:5]:
    for v in (FQ(0), FQ(1), fq_vals[-1]):
        both("sqrt_division_FQ", old_swu.sqrt_division_FQ, new_swu.sqrt_division_FQ, (u, v))

# iso maps (unchanged tables, but share the constants module)
iso2_in = [(FQ2.zero(), FQ2.zero(), FQ2.zero()), (FQ2.one(), FQ2.one(), FQ2.zero()), (rfq2(), rfq2(), rfq2()), new_swu.optimized_swu_G2(fq2_vals[12]), (None, None, None), (1, 2, 3)]
for a in iso2_in:
    both("iso_map_G2", old_swu.iso_map_G2, new_swu.iso_map_G2, tuple(a))
iso1_in = [(FQ(0), FQ(0), FQ(0)), (FQ(1), FQ(1), FQ(0)), new_swu.optimized_swu_G1(fq_vals[-1]), (None, None, None)]
for a in iso1_in:
    both("iso_map_G1", old_swu.iso_map_G1, new_swu.iso_map_G1, tuple(a))

# cofactor clearing (H_EFF_G1 regrouped literal)
G1, G2, Z1, Z2 = oc.G1, oc.G2, oc.Z1, oc.Z2
g1_pts = [G1, Z1, oc.multiply(G1, 5), (G1[0] * FQ(3), G1[1] * FQ(3), G1[2] * FQ(3)), new_swu.iso_map_G1(*new_swu.optimized_swu_G1(fq_vals[-2])), None, (1, 2)]
for pt in g1_pts:
    both("multiply_clear_cofactor_G1", old_cc.multiply_clear_cofactor_G1, new_cc.multiply_clear_cofactor_G1, (pt,))
g2_pts = [G2, Z2, new_swu.iso_map_G2(*new_swu.optimized_swu_G2(fq2_vals[14])), None]
for pt in g2_pts:
    both("multiply_clear_cofactor_G2", old_cc.multiply_clear_cofactor_G2, new_cc.multiply_clear_cofactor_G2, (pt,))


# full hash_to_G2 / hash_to_G1 (library = new) against the same pipeline built
# from the pristine-bound functions
def old_hash_to_G2(message, DST, hf):
    u0, u1 = h2c.hash_to_field_FQ2(message, 2, DST, hf)
    q0 = old_swu.iso_map_G2(*old_swu.optimized_swu_G2(u0))
    q1 = old_swu.iso_map_G2(*old_swu.optimized_swu_G2(u1))
    return old_cc.multiply_clear_cofactor_G2(oc.add(q0, q1))


def old_hash_to_G1(message, DST, hf):
    u0, u1 = h2c.hash_to_field_FQ(message, 2, DST, hf)
    q0 = old_swu.iso_map_G1(*old_swu.optimized_swu_G1(u0))
    q1 = old_swu.iso_map_G1(*old_swu.optimized_swu_G1(u1))
    return old_cc.multiply_clear_cofactor_G1(oc.add(q0, q1))


DSTS = [G2Basic.DST, G2ProofOfPossession.DST, G2MessageAugmentation.DST, b"", b"QUUX-V01-CS02-with-BLS12381G2_XMD:SHA-256_SSWU_RO_"]
for i, (m, d) in enumerate([(b"", DSTS[0]), (b"abc", DSTS[1]), (b"\x00" * 64, DSTS[2]), (b"abc", DSTS[4])]):
    both("hash_to_G2", old_hash_to_G2, h2c.hash_to_G2, (m, d, hashlib.sha256), new_first=i % 2 == 0)
for m, d in [(b"", DSTS[3]), (b"abcdef0123456789", DSTS[4]), (b"x", b"D" * 300)]:
    both("hash_to_G1", old_hash_to_G1, h2c.hash_to_G1, (m, d, hashlib.sha256))

# ---------------------------------------------------------------- pairing side
pair_val = old_p.pairing(G2, G1, final_exponentiate=False)
fq12_vals = [
    FQ12.zero(),
    FQ12.one(),
    FQ12([p - 1] * 12),
    FQ12([0] * 11 + [1]),
    FQ12([-1, p, 2**400] + [0] * 9),
    pair_val,
    FQ12([rnd.randrange(p) for _ in range(12)]),
]
bad12 = [None, 0, "x", [1] * 12, FQ(1), FQ2.one(), BN_FQ12([3] * 12)]
for i, x in enumerate(fq12_vals + bad12):
    both("exp_by_p", old_p.exp_by_p, new_p.exp_by_p, (x,), new_first=i % 2 == 0)
for x in (fq12_vals[1], fq12_vals[4], fq12_vals[6]):
    ok(new_p.exp_by_p(x) == x**p, "exp_by_p is not Frobenius")
for x in [fq12_vals[0], fq12_vals[1], fq12_vals[5], fq12_vals[6]] + bad12:
    both("final_exponentiate", old_p.final_exponentiate, new_p.final_exponentiate, (x,))

Pproj = (G1[0] * FQ(5), G1[1] * FQ(5), G1[2] * FQ(5))
Qproj = (G2[0] * FQ2([3, 4]), G2[1] * FQ2([3, 4]), G2[2] * FQ2([3, 4]))
bad_P = (G1[0], G1[1] + FQ(1), G1[2])
bad_Q = (G2[0], G2[1] + FQ2([1, 0]), G2[2])
pair_cases = [
    ((G2, G1), {}),
    ((G2, G1), {"final_exponentiate": False}),
    ((Qproj, Pproj), {}),
    ((Z2, G1), {}),
    ((G2, Z1), {"final_exponentiate": False}),
    ((Z2, Z1), {}),
    ((G2, bad_P), {}),
    ((bad_Q, G1), {}),
    ((G1, G2), {}),
    ((None, G1), {}),
    ((G2, None), {}),
]
for i, (a, kw) in enumerate(pair_cases):
    both("pairing", old_p.pairing, new_p.pairing, a, kw, new_first=i % 2 == 1)
for a, kw in [((G2, G1), {"final_exponentiate": False}), ((None, G1), {}), ((G2, None), {}), ((None, None), {"final_exponentiate": False})]:
    both("miller_loop", old_p.miller_loop, new_p.miller_loop, a, kw)

# ---------------------------------------------------------------- histories
# replay a shuffled sample of everything (cheap and a few expensive calls) with
# equal-but-not-identical arguments: results must equal the first round.
EXPENSIVE = {"pairing", "miller_loop", "final_exponentiate", "hash_to_G2", "hash_to_G1", "multiply_clear_cofactor_G2"}
order = list(range(len(log)))
rnd.shuffle(order)
n_exp = 0
for idx in order:
    name, fo, fn, args, kwargs, ro, rn = log[idx]
    if name in EXPENSIVE:
        if n_exp >= 6 or ro[0] == "ok" and name in ("hash_to_G2", "multiply_clear_cofactor_G2"):
            continue
        n_exp += 1
    try:
        a2 = copy.deepcopy(args)
    except Exception:  # noqa: BLE001  (hash constructors are not copyable)
        a2 = args
    ok(call(fn, a2, kwargs) == rn, "history dependence (new) in " + name)
    if idx % 4 == 0:
        ok(call(fo, a2, kwargs) == ro, "history dependence (old) in " + name)

# ---------------------------------------------------------------- BLS level
sk1, sk2 = 1, 2**250 + 99
for suite in (G2Basic, G2ProofOfPossession, G2MessageAugmentation):
    msg = b"C20 twin s2 " + suite.__name__.encode()
    pk1, pk2 = suite.SkToPk(sk1), suite.SkToPk(sk2)
    sg1 = suite.Sign(sk1, msg)
    ok(sg1 == suite.Sign(sk1, msg), "sign repeat")
    ok(suite.Verify(pk1, msg, sg1) is True, "verify")
    ok(suite.Verify(pk2, msg, sg1) is False, "verify wrong key")
    ok(suite.Verify(pk1, b"", sg1) is False, "verify wrong msg")
    ok(suite.Verify(pk1, msg, b"\x00" * 96) is False, "verify malformed")
    ok(suite.AggregateVerify([], [], sg1) is False, "aggverify empty")
    ok(constants_snapshot() == BASE, "constants after BLS")
# signature == sk * old-pipeline hash point (ties Sign to the pristine constants)
from py_ecc.bls.g2_primitives import G2_to_signature  # noqa: E402

msg = b"C20 twin s2 tie"
ok(
    G2Basic.Sign(sk2, msg) == G2_to_signature(oc.multiply(old_hash_to_G2(msg, G2Basic.DST, hashlib.sha256), sk2)),
    "Sign does not match pristine-constant pipeline",
)

# ---------------------------------------------------------------- fresh process
child = r"""
import os, sys; sys.path.insert(0, os.getcwd())
import json, hashlib
from py_ecc.bls import G2ProofOfPossession as S
from py_ecc.bls.hash_to_curve import hash_to_G2
from py_ecc.fields import optimized_bls12_381_FQ2 as FQ2, optimized_bls12_381_FQ12 as FQ12
from py_ecc.optimized_bls12_381 import optimized_swu as swu, optimized_pairing as op, normalize
t = FQ2(json.loads(sys.argv[1])); x = FQ12(json.loads(sys.argv[2]))
sig_ = S.Sign(5, b"fresh")           # other order than in the parent
r_fe = op.final_exponentiate(x)
r_swu = swu.optimized_swu_G2(t)
h = normalize(hash_to_G2(b"abc", S.DST, hashlib.sha256))
print(json.dumps({
  "swu": [[int(c) for c in e.coeffs] for e in r_swu],
  "fe": [int(c) for c in r_fe.coeffs],
  "h": [[int(c) for c in e.coeffs] for e in h],
  "sig": sig_.hex(),
}))
"""
t = fq2_vals[13]
x = fq12_vals[6]
out = subprocess.run(
    [sys.executable, "-c", child, json.dumps([int(c) for c in t.coeffs]), json.dumps([int(c) for c in x.coeffs])],
    capture_output=True,
    text=True,
    cwd=os.getcwd(),
    check=True,
)
got = json.loads(out.stdout)
ok(got["swu"] == [[int(c) for c in e.coeffs] for e in old_swu.optimized_swu_G2(t)], "fresh swu")
ok(got["fe"] == [int(c) for c in old_p.final_exponentiate(x).coeffs], "fresh fe")
ok(
    got["h"] == [[int(c) for c in e.coeffs] for e in oc.normalize(old_hash_to_G2(b"abc", G2ProofOfPossession.DST, hashlib.sha256))],
    "fresh hash_to_G2",
)
ok(
    got["sig"] == G2_to_signature(oc.multiply(old_hash_to_G2(b"fresh", G2ProofOfPossession.DST, hashlib.sha256), 5)).hex(),
    "fresh sign",
)

ok(constants_snapshot() == BASE, "constants at end")
n_ok = sum(1 for e in log if e[6][0] == "ok")
ok(n_ok > 100 and len(log) - n_ok > 20, "harness: unexpected ok/exception mix")
print("compared calls: %d returned, %d raised (same class in both)" % (n_ok, len(log) - n_ok))
print("s2 equivalence: %d checks passed" % checks)
