import os, sys; sys.path.insert(0, os.getcwd())  # noqa: E401,E702

"""
Equivalence demonstration for refactoring r1 (property C01).

Loads the pristine ciphersuites.py (saved next to this script) under another
module name inside the py_ecc.bls package, next to the refactored module of the
current working tree, and compares results / exception classes of
_is_valid_privkey, SkToPk, KeyGen, Sign, PopProve (and the verification
booleans) on boundary, random and malformed inputs.
"""
import decimal
import fractions
import importlib.util
import random
import time

HERE = os.path.dirname(os.path.abspath(__file__))

import py_ecc.bls.ciphersuites as new  # noqa: E402

assert os.path.abspath(new.__file__).startswith(os.getcwd()), new.__file__


def load_pristine(filename, modname):
    spec = importlib.util.spec_from_file_location(
        "py_ecc.bls." + modname, os.path.join(HERE, "pristine", filename)
    )
    mod = importlib.util.module_from_spec(spec)
    sys.modules[spec.name] = mod
    spec.loader.exec_module(mod)
    return mod


old = load_pristine("ciphersuites.py", "_pristine_ciphersuites")
assert old is not new and old.__file__ != new.__file__

r = new.curve_order
assert r == old.curve_order
rng = random.Random(0xC01)
checks = 0


def outcome(f, *a, **k):
    try:
        v = f(*a, **k)
        return ("ok", type(v).__name__, v)
    except BaseException as e:  # noqa: B902
        return ("exc", type(e).__name__)


def same(label, f_old, f_new, *a, **k):
    global checks
    o, n = outcome(f_old, *a, **k), outcome(f_new, *a, **k)
    assert o == n, (label, a, k, o, n)
    checks += 1
    return n


class MyInt(int):
    pass


SUITES = ["G2Basic", "G2MessageAugmentation", "G2ProofOfPossession"]

# ---------------------------------------------------------------- privkey check
valid_sks = [1, 2, 3, r - 2, r - 1, r // 2, True, MyInt(5), MyInt(r - 1)]
valid_sks += [1 << k for k in range(0, 255) if (1 << k) < r]
valid_sks += [(1 << k) - 1 for k in range(1, 255)]
valid_sks += [rng.randrange(1, r) for _ in range(300)]
valid_sks += [rng.getrandbits(255) % (r - 1) + 1 for _ in range(100)]
invalid_sks = [
    0, r, r + 1, -1, -r, 1 - r, 2**255, 2**255 - 1, 2**256, 2 * r, r * r, False,
    MyInt(0), MyInt(r), MyInt(-3),
    1.0, 0.5, float(r), float("nan"), float("inf"), None, "1", b"\x01", b"", (1,),
    [1], {1}, 1 + 0j, fractions.Fraction(1), fractions.Fraction(1, 2),
    decimal.Decimal(1), object(), int, bytearray(b"\x01"),
]
invalid_sks += [r + rng.randrange(0, 2**260) for _ in range(50)]
invalid_sks += [-rng.randrange(0, 2**260) for _ in range(50)]

for name in SUITES + ["BaseG2Ciphersuite"]:
    co, cn = getattr(old, name), getattr(new, name)
    for sk in valid_sks:
        res = same("valid", co._is_valid_privkey, cn._is_valid_privkey, sk)
        assert res == ("ok", "bool", True), (sk, res)
    for sk in invalid_sks:
        res = same("invalid", co._is_valid_privkey, cn._is_valid_privkey, sk)
        assert res == ("ok", "bool", False), (sk, res)

# ------------------------------------------------------------------------ SkToPk
sk_sample = [1, 2, r - 2, r - 1, True, MyInt(7), 2**254, 2**200 + 1] + [
    rng.randrange(1, r) for _ in range(6)
]
pks = {}
for sk in sk_sample:
    res = same("SkToPk", old.G2Basic.SkToPk, new.G2Basic.SkToPk, sk)
    assert res[0] == "ok" and len(res[2]) == 48
    pks[sk] = res[2]
for name in SUITES:
    co, cn = getattr(old, name), getattr(new, name)
    same("SkToPk", co.SkToPk, cn.SkToPk, 1)
    for sk in invalid_sks:
        res = same("SkToPk-bad", co.SkToPk, cn.SkToPk, sk)
        assert res == ("exc", "ValidationError"), (sk, res)

# ------------------------------------------------------------------------ KeyGen
ikms = [b"", b"\x00", b"\x00" * 32, b"\xff" * 32, bytes(range(256)), b"a" * 4096]
ikms += [rng.randbytes(rng.choice([1, 16, 31, 32, 33, 55, 56, 63, 64, 65, 200]))
         for _ in range(300)]
infos = [b"", b"\x00", b"info", bytes(range(256)), b"k" * 1000]
for name in SUITES:
    co, cn = getattr(old, name), getattr(new, name)
    for ikm in ikms:
        res = same("KeyGen", co.KeyGen, cn.KeyGen, ikm)
        assert res[0] == "ok" and res[1] == "int" and 0 < res[2] < r
    for ikm in ikms[:40]:
        for info in infos:
            res = same("KeyGen-info", co.KeyGen, cn.KeyGen, ikm, info)
            assert 0 < res[2] < r
            same("KeyGen-kw", co.KeyGen, cn.KeyGen, IKM=ikm, key_info=info)
    # malformed argument types / arity
    for bad in [None, "str", 5, 1.5, [1], (b"a",), bytearray(b"abc"), memoryview(b"abc")]:
        same("KeyGen-badikm", co.KeyGen, cn.KeyGen, bad)
        same("KeyGen-badinfo", co.KeyGen, cn.KeyGen, b"ikm", bad)
        same("KeyGen-badboth", co.KeyGen, cn.KeyGen, bad, bad)
    same("KeyGen-noargs", co.KeyGen, cn.KeyGen)
    same("KeyGen-3args", co.KeyGen, cn.KeyGen, b"a", b"b", b"c")


# KeyGen retry loop: force the first k candidate keys to be 0 mod r in both
# modules by wrapping os2ip, and check both versions retry identically.
def forced(mod, zeros):
    real = mod.os2ip
    state = {"calls": 0}

    def fake(x):
        state["calls"] += 1
        v = real(x)
        if state["calls"] <= zeros:
            return (v % 7) * r  # a multiple of r (0, r, 2r, ...) -> SK == 0
        return v

    return real, fake, state


for zeros in [0, 1, 2, 5]:
    for ikm in ikms[:10]:
        outs = []
        for mod in (old, new):
            real, fake, state = forced(mod, zeros)
            mod.os2ip = fake
            try:
                outs.append((outcome(mod.G2ProofOfPossession.KeyGen, ikm, b"x"),
                             state["calls"]))
            finally:
                mod.os2ip = real
        assert outs[0] == outs[1], (zeros, ikm, outs)
        assert outs[1][1] == zeros + 1 and 0 < outs[1][0][2] < r
        checks += 1

# ------------------------------------------------- Sign / Verify / Pop round trip
messages = [b"", b"\x00", b"a" * 55, b"b" * 56, b"c" * 63, b"d" * 64, b"e" * 65,
            bytes(range(256)), rng.randbytes(3000)]
t0 = time.time()
for i, name in enumerate(SUITES):
    co, cn = getattr(old, name), getattr(new, name)
    for j, sk in enumerate([1, r - 1, sk_sample[8 + i]]):
        pk = pks[sk]
        for msg in [messages[(3 * i + j) % len(messages)],
                    messages[(3 * i + j + 4) % len(messages)]]:
            res = same("Sign", co.Sign, cn.Sign, sk, msg)
            assert res[0] == "ok" and len(res[2]) == 96
            if j != 1:
                v = same("Verify", co.Verify, cn.Verify, pk, msg, res[2])
                assert v == ("ok", "bool", True), v
    # refused keys and malformed messages
    for sk in [0, r, r + 1, -1, 2**255, None, 1.0, "1", b"\x01"]:
        res = same("Sign-bad", co.Sign, cn.Sign, sk, b"msg")
        assert res == ("exc", "ValidationError"), (sk, res)
        same("Sign-badboth", co.Sign, cn.Sign, sk, "msg")
    for bad_msg in ["msg", None, 5, bytearray(b"m"), [1]]:
        same("Sign-badmsg", co.Sign, cn.Sign, 5, bad_msg)

po, pn = old.G2ProofOfPossession, new.G2ProofOfPossession
for sk in [2, r - 2, sk_sample[-1]]:
    res = same("PopProve", po.PopProve, pn.PopProve, sk)
    assert res[0] == "ok"
    v = same("PopVerify", po.PopVerify, pn.PopVerify, pks[sk], res[2])
    assert v == ("ok", "bool", True)
for sk in invalid_sks[:12] + [None, 1.0, "1"]:
    res = same("PopProve-bad", po.PopProve, pn.PopProve, sk)
    assert res == ("exc", "ValidationError"), (sk, res)

# keys from KeyGen are usable
for ikm in ikms[:2]:
    sk = pn.KeyGen(ikm)
    assert sk == po.KeyGen(ikm)
    sig = same("Sign-kg", po.Sign, pn.Sign, sk, b"kg")[2]
    assert pn.Verify(pn.SkToPk(sk), b"kg", sig) is True

print(f"r1 equivalence OK: {checks} comparisons, crypto part {time.time() - t0:.1f}s")
