import os, sys; sys.path.insert(0, os.getcwd())
"""
Equivalence demonstration for twin C01/s1.

The edited tree moves the four ``_is_valid_*`` static validators of
BaseG2Ciphersuite and ``subgroup_check`` of g2_primitives into the new module
py_ecc/bls/validation.py; the class re-exposes the validators as staticmethods
under their old names and g2_primitives re-exports subgroup_check.

This script imports the EDITED package (py_ecc.bls, from the cwd) and a PRISTINE
twin of it: a temporary package ``py_ecc.bls_pristine`` assembled from the saved
pristine ciphersuites.py / g2_primitives.py plus the (untouched) sibling modules
of py_ecc/bls, so that the pristine ciphersuites module uses the pristine
g2_primitives through its relative imports.  Both are then driven with the same
inputs and every return value / exception class is compared.
"""
import importlib
import importlib.util
import random
import shutil
import tempfile
import time

T0 = time.time()
HERE = os.path.dirname(os.path.abspath(__file__))
PRISTINE = os.path.join(HERE, "pristine")

import py_ecc  # noqa: E402
import py_ecc.bls as new_pkg  # noqa: E402

assert os.path.abspath(py_ecc.__file__).startswith(os.getcwd()), py_ecc.__file__


def load_pristine_package():
    src = os.path.dirname(os.path.abspath(new_pkg.__file__))
    tmp = tempfile.mkdtemp(prefix="bls_pristine_")
    pkg_dir = os.path.join(tmp, "bls_pristine")
    os.mkdir(pkg_dir)
    touched = set(os.listdir(PRISTINE))
    assert touched == {"ciphersuites.py", "g2_primitives.py"}, touched
    for name in os.listdir(src):
        if not name.endswith(".py"):
            continue
        if name == "validation.py":  # does not exist in the pristine tree
            continue
        origin = PRISTINE if name in touched else src
        shutil.copy(os.path.join(origin, name), os.path.join(pkg_dir, name))
    spec = importlib.util.spec_from_file_location(
        "py_ecc.bls_pristine",
        os.path.join(pkg_dir, "__init__.py"),
        submodule_search_locations=[pkg_dir],
    )
    mod = importlib.util.module_from_spec(spec)
    sys.modules["py_ecc.bls_pristine"] = mod
    spec.loader.exec_module(mod)
    return mod, tmp


old_pkg, TMP = load_pristine_package()
old_cs = importlib.import_module("py_ecc.bls_pristine.ciphersuites")
old_g2 = importlib.import_module("py_ecc.bls_pristine.g2_primitives")
new_cs = importlib.import_module("py_ecc.bls.ciphersuites")
new_g2 = importlib.import_module("py_ecc.bls.g2_primitives")
new_val = importlib.import_module("py_ecc.bls.validation")

# the pristine twin really is the pristine code
assert "def _is_valid_privkey" in open(old_cs.__file__).read()
assert "def subgroup_check" in open(old_g2.__file__).read()
assert "def _is_valid_privkey" not in open(new_cs.__file__).read()
assert "def subgroup_check" not in open(new_g2.__file__).read()
assert old_cs.subgroup_check is old_g2.subgroup_check
assert old_g2.subgroup_check is not new_g2.subgroup_check

from py_ecc.optimized_bls12_381 import (  # noqa: E402
    G1,
    G2,
    Z1,
    Z2,
    add,
    b,
    b2,
    curve_order,
    field_modulus,
    is_on_curve,
    multiply,
    neg,
)
from py_ecc.fields import (  # noqa: E402
    optimized_bls12_381_FQ as FQ,
    optimized_bls12_381_FQ2 as FQ2,
)

N_CHECKS = 0


def outcome(f, *args, **kwargs):
    try:
        return ("ok", f(*args, **kwargs))
    except BaseException as e:  # noqa: B902
        if isinstance(e, (KeyboardInterrupt, SystemExit)):
            raise
        return ("exc", type(e))


def same(label, f_old, f_new, *args, **kwargs):
    global N_CHECKS
    o = outcome(f_old, *args, **kwargs)
    n = outcome(f_new, *args, **kwargs)
    if o[0] != n[0] or o[1] != n[1]:
        raise SystemExit(f"MISMATCH {label} args={args!r}: old={o!r} new={n!r}")
    if o[0] == "ok" and type(o[1]) is not type(n[1]):
        raise SystemExit(f"TYPE MISMATCH {label}: {type(o[1])} vs {type(n[1])}")
    N_CHECKS += 1
    return n


# --------------------------------------------------------------------------
# 1. structure: every old import path still works and binds the same object
# --------------------------------------------------------------------------
assert new_g2.subgroup_check is new_val.subgroup_check is new_cs.subgroup_check
for name in dir(old_g2):
    if not name.startswith("__"):
        assert hasattr(new_g2, name), ("g2_primitives lost", name)
for name in dir(old_cs):
    if not name.startswith("__"):
        assert hasattr(new_cs, name), ("ciphersuites lost", name)
SUITE_NAMES = ("G2Basic", "G2MessageAugmentation", "G2ProofOfPossession")
for cname in ("BaseG2Ciphersuite",) + SUITE_NAMES:
    oc, nc = getattr(old_cs, cname), getattr(new_cs, cname)
    pub_old = sorted(n for n in dir(oc) if not n.startswith("__"))
    pub_new = sorted(n for n in dir(nc) if not n.startswith("__"))
    assert pub_old == pub_new, (cname, pub_old, pub_new)
    assert oc.DST == nc.DST
base = new_cs.BaseG2Ciphersuite
for v in ("privkey", "pubkey", "message", "signature"):
    # still staticmethods of the base class, wrapping the moved function
    attr = base.__dict__["_is_valid_" + v]
    assert isinstance(attr, staticmethod), v
    assert isinstance(old_cs.BaseG2Ciphersuite.__dict__["_is_valid_" + v], staticmethod)
    assert attr.__func__ is getattr(new_val, "is_valid_" + v)
    assert getattr(base, "_is_valid_" + v) is getattr(new_val, "is_valid_" + v)
# the proof-of-possession suite still overrides _is_valid_pubkey with a classmethod
assert isinstance(
    new_cs.G2ProofOfPossession.__dict__["_is_valid_pubkey"], classmethod
)
assert new_pkg.G2Basic is new_cs.G2Basic

# --------------------------------------------------------------------------
# 2. the validators on a broad set of well-formed and malformed inputs
# --------------------------------------------------------------------------
r = curve_order
rng = random.Random(20240601)


class MyInt(int):
    pass


class MyBytes(bytes):
    pass


privkey_inputs = (
    [0, 1, 2, 3, r - 3, r - 2, r - 1, r, r + 1, 2 * r, -1, -r, 2**255, 2**255 - 1]
    + [2**256, 2**381, -(2**255)]
    + [1 << k for k in range(0, 260)]
    + [(1 << k) - 1 for k in range(0, 260)]
    + [rng.getrandbits(255) for _ in range(200)]
    + [rng.randrange(1, r) for _ in range(200)]
    + [True, False, MyInt(5), MyInt(0), MyInt(r), 1.0, 0.0, 2.5, float("nan")]
    + [float("inf"), "1", "", b"\x01", b"", None, [1], (1,), {}, 1 + 0j, object]
)
bytes_inputs = (
    [b"", b"\x00", b"\xff" * 47, b"\x00" * 48, b"\xc0" + b"\x00" * 47]
    + [b"\xff" * 48, b"\x00" * 49, b"\x00" * 95, b"\x00" * 96, b"\xc0" + b"\x00" * 95]
    + [b"\x00" * 97, b"\x11" * 4096, MyBytes(b"\x00" * 48), MyBytes(b"\x01" * 96)]
    + [bytearray(48), bytearray(96), memoryview(b"\x00" * 48), "a" * 48, "a" * 96]
    + [None, 0, 48, 96, 1.5, [0] * 48, tuple([0] * 96), range(48), {}, object]
    + [bytes(rng.getrandbits(8) for _ in range(n)) for n in (1, 47, 48, 55, 64, 96)]
)
for cname in ("BaseG2Ciphersuite",) + SUITE_NAMES:
    oc, nc = getattr(old_cs, cname), getattr(new_cs, cname)
    for x in privkey_inputs:
        same(cname + "._is_valid_privkey", oc._is_valid_privkey, nc._is_valid_privkey, x)
    for x in bytes_inputs:
        same(cname + "._is_valid_message", oc._is_valid_message, nc._is_valid_message, x)
        same(
            cname + "._is_valid_signature",
            oc._is_valid_signature,
            nc._is_valid_signature,
            x,
        )
        same(cname + "._is_valid_pubkey", oc._is_valid_pubkey, nc._is_valid_pubkey, x)
# through an instance of a concrete suite as well (staticmethod: no self passed)
for x in (0, 1, r - 1, r, "1"):
    same(
        "instance._is_valid_privkey",
        old_cs.G2Basic()._is_valid_privkey,
        new_cs.G2Basic()._is_valid_privkey,
        x,
    )
# the new module-level spellings agree with the old static methods
for x in privkey_inputs:
    same(
        "validation.is_valid_privkey",
        old_cs.BaseG2Ciphersuite._is_valid_privkey,
        new_val.is_valid_privkey,
        x,
    )
for x in bytes_inputs:
    same(
        "validation.is_valid_pubkey",
        old_cs.BaseG2Ciphersuite._is_valid_pubkey,
        new_val.is_valid_pubkey,
        x,
    )
    same(
        "validation.is_valid_signature",
        old_cs.BaseG2Ciphersuite._is_valid_signature,
        new_val.is_valid_signature,
        x,
    )
    same(
        "validation.is_valid_message",
        old_cs.BaseG2Ciphersuite._is_valid_message,
        new_val.is_valid_message,
        x,
    )


# a user-defined ciphersuite that overrides a validator and calls super()
def make_custom(mod):
    class Custom(mod.G2Basic):
        calls = []

        @staticmethod
        def _is_valid_message(message):
            Custom.calls.append(message)
            return isinstance(message, bytes) and len(message) < 4

        @classmethod
        def _is_valid_pubkey(cls, pubkey):
            return super()._is_valid_pubkey(pubkey) and pubkey[:1] != b"\x00"

    return Custom


CO, CN = make_custom(old_cs), make_custom(new_cs)
same("custom.sign.short", CO.Sign, CN.Sign, 7, b"abc")
same("custom.sign.long", CO.Sign, CN.Sign, 7, b"abcd")
same("custom.pubkey", CO._is_valid_pubkey, CN._is_valid_pubkey, b"\x00" * 48)
same("custom.pubkey", CO._is_valid_pubkey, CN._is_valid_pubkey, b"\x80" * 48)
same("custom.pubkey", CO._is_valid_pubkey, CN._is_valid_pubkey, b"\x80" * 47)
assert CO.calls == CN.calls == [b"abc", b"abcd"]

# --------------------------------------------------------------------------
# 3. subgroup_check on points in / out of the subgroups, infinities, odd reps
# --------------------------------------------------------------------------
def g1_point_off_subgroup():
    x = 1
    while True:
        rhs = (x**3 + 4) % field_modulus
        y = pow(rhs, (field_modulus + 1) // 4, field_modulus)
        if y * y % field_modulus == rhs:
            pt = (FQ(x), FQ(y), FQ(1))
            if not new_val.subgroup_check(pt):
                return pt
        x += 1


def g2_point_off_subgroup():
    from py_ecc.bls.point_compression import modular_squareroot_in_FQ2

    x = 1
    while True:
        X = FQ2([x, 1])
        y = modular_squareroot_in_FQ2(X**3 + b2)
        if y is not None:
            pt = (X, y, FQ2.one())
            if not new_val.subgroup_check(pt):
                return pt
        x += 1


P1_off, P2_off = g1_point_off_subgroup(), g2_point_off_subgroup()
assert is_on_curve(P1_off, b) and is_on_curve(P2_off, b2)
G1_scaled = tuple(c * 7 for c in multiply(G1, 11))
points = [
    G1,
    G2,
    Z1,
    Z2,
    neg(G1),
    neg(G2),
    multiply(G1, 2),
    multiply(G2, r - 1),
    multiply(G1, r),
    multiply(G2, r),
    G1_scaled,
    (FQ(0), FQ(0), FQ(0)),
    (FQ(5), FQ(0), FQ(0)),
    (FQ2.zero(), FQ2.zero(), FQ2.zero()),
    (FQ2.one(), FQ2.zero(), FQ2.zero()),
    P1_off,
    P2_off,
    add(P1_off, G1),
    multiply(P2_off, 3),
    (FQ(1), FQ(1), FQ(1)),  # not even on the curve
    (FQ2([1, 2]), FQ2([3, 4]), FQ2([5, 6])),
]
bad_points = [None, 5, (), (FQ(1), FQ(2)), "pt"]
for pt in points + bad_points:
    same("subgroup_check", old_g2.subgroup_check, new_g2.subgroup_check, pt)
    same("cs.subgroup_check", old_cs.subgroup_check, new_cs.subgroup_check, pt)
assert [new_g2.subgroup_check(p) for p in points[:5]] == [True] * 5
assert not new_g2.subgroup_check(P1_off) and not new_g2.subgroup_check(P2_off)

# --------------------------------------------------------------------------
# 4. the property itself, old and new side by side
# --------------------------------------------------------------------------
good_sks = [1, 2, r - 2, r - 1, rng.getrandbits(255) % (r - 1) + 1, (1 << 254) + 1]
more_sks = [1 << k for k in (1, 7, 8, 63, 64, 127, 128, 200, 253, 254)] + [3, 2**32 - 1]
bad_sks = [0, r, r + 1, -1, 2**255, 2 * r - 1, 1.0, "1", b"\x01", None, [1], 2.5]
msgs = (
    [b"", b"\x00", b"a" * 55, b"b" * 56, b"c" * 63, b"d" * 64, b"e" * 65]
    + [bytes(range(256)), bytes(rng.getrandbits(8) for _ in range(5000))]
)
bad_msgs = ["abc", None, 5, bytearray(b"abc"), [1, 2], memoryview(b"xy")]

for cname in SUITE_NAMES:
    oc, nc = getattr(old_cs, cname), getattr(new_cs, cname)
    # keys
    for sk in good_sks + more_sks + bad_sks + [True, False, MyInt(9)]:
        same(cname + ".SkToPk", oc.SkToPk, nc.SkToPk, sk)
    for sk in bad_sks:
        res = same(cname + ".Sign(bad sk)", oc.Sign, nc.Sign, sk, b"msg")
        assert res == ("exc", new_cs.ValidationError), res
        assert outcome(nc.SkToPk, sk) == ("exc", new_cs.ValidationError)
    for m in bad_msgs:
        same(cname + ".Sign(bad msg)", oc.Sign, nc.Sign, 5, m)
    # KeyGen
    for ikm in (b"", b"\x00" * 32, b"\x01" * 32, bytes(range(64)), b"z" * 200):
        for info in (b"", b"info"):
            kind, sk = same(cname + ".KeyGen", oc.KeyGen, nc.KeyGen, ikm, info)
            assert kind == "ok" and 1 <= sk < r and nc._is_valid_privkey(sk)
    same(cname + ".KeyGen(default)", oc.KeyGen, nc.KeyGen, b"seed" * 8)
    same(cname + ".KeyGen(str)", oc.KeyGen, nc.KeyGen, "seed")

sig_cache = {}
for cname in SUITE_NAMES:
    oc, nc = getattr(old_cs, cname), getattr(new_cs, cname)
    pairs = [(sk, b"m" + bytes([i])) for i, sk in enumerate(good_sks)]
    pairs += [(good_sks[4], m) for m in msgs]
    for sk, m in pairs:
        kind, sig = same(cname + ".Sign", oc.Sign, nc.Sign, sk, m)
        assert kind == "ok" and len(sig) == 96
        sig_cache[(cname, sk, m)] = sig

verify_plan = {
    "G2Basic": [(good_sks[0], b"m\x00"), (good_sks[3], b"m\x03"), (good_sks[4], msgs[0]),
                (good_sks[4], msgs[5]), (good_sks[4], msgs[8])],
    "G2MessageAugmentation": [(good_sks[1], b"m\x01"), (good_sks[2], b"m\x02"),
                              (good_sks[4], msgs[0]), (good_sks[4], msgs[3])],
    "G2ProofOfPossession": [(good_sks[0], b"m\x00"), (good_sks[3], b"m\x03"),
                            (good_sks[4], msgs[6]), (good_sks[5], b"m\x05")],
}
for cname, plan in verify_plan.items():
    oc, nc = getattr(old_cs, cname), getattr(new_cs, cname)
    for sk, m in plan:
        pk = nc.SkToPk(sk)
        sig = sig_cache[(cname, sk, m)]
        res = same(cname + ".Verify", oc.Verify, nc.Verify, pk, m, sig)
        assert res == ("ok", True), (cname, sk, m, res)
    # failures: wrong message, malformed inputs, infinity key / signature
    sk, m = plan[0]
    pk, sig = nc.SkToPk(sk), sig_cache[(cname, sk, m)]
    res = same(cname + ".Verify(wrong msg)", oc.Verify, nc.Verify, pk, m + b"!", sig)
    assert res == ("ok", False)
    zpk, zsig = new_g2.G1_to_pubkey(Z1), new_g2.G2_to_signature(Z2)
    off_pk = new_g2.G1_to_pubkey(P1_off)
    off_sig = new_g2.G2_to_signature(P2_off)
    for a in (
        (zpk, m, zsig), (zpk, m, sig), (pk, m, zsig), (off_pk, m, sig),
        (pk, m, off_sig), (pk[:47], m, sig), (pk + b"\x00", m, sig),
        (pk, m, sig[:95]), (pk, m, sig + b"\x00"), (pk, "m", sig), (None, m, sig),
        (pk, m, None), (bytearray(pk), m, sig), (pk, m, bytearray(sig)),
        (b"\x00" * 48, m, sig), (pk, m, b"\xff" * 96), (b"\xff" * 48, m, b"\x00" * 96),
        (int.from_bytes(pk, "big"), m, sig),
    ):
        res = same(cname + ".Verify(bad)", oc.Verify, nc.Verify, *a)
        # (the message-augmentation suite concatenates PK + message before any
        # validation, so a non-bytes operand is a TypeError there -- in both)
        assert res == ("ok", False) or res == ("exc", TypeError), (cname, a, res)
    same(cname + ".KeyValidate", oc.KeyValidate, nc.KeyValidate, pk)
    for bad in (zpk, off_pk, pk[:47], pk + b"\x00", b"\x00" * 48, None, 5, "x" * 48):
        res = same(cname + ".KeyValidate(bad)", oc.KeyValidate, nc.KeyValidate, bad)
        assert res == ("ok", False)

# proofs of possession
OP, NP = old_cs.G2ProofOfPossession, new_cs.G2ProofOfPossession
for sk in (1, r - 1, good_sks[4]):
    kind, proof = same("PopProve", OP.PopProve, NP.PopProve, sk)
    pk = NP.SkToPk(sk)
    res = same("PopVerify", OP.PopVerify, NP.PopVerify, pk, proof)
    assert res == ("ok", True)
for sk in (2, r - 2):
    same("PopProve", OP.PopProve, NP.PopProve, sk)
for sk in bad_sks:
    res = same("PopProve(bad)", OP.PopProve, NP.PopProve, sk)
    assert res == ("exc", new_cs.ValidationError)
pk1, proof1 = NP.SkToPk(1), NP.PopProve(1)
pk2 = NP.SkToPk(2)
for a in ((pk2, proof1), (pk1, proof1[:95]), (pk1[:47], proof1), (None, proof1),
          (pk1, None), (new_g2.G1_to_pubkey(Z1), new_g2.G2_to_signature(Z2)),
          (pk1, sig_cache[("G2ProofOfPossession", 1, b"m\x00")])):
    res = same("PopVerify(bad)", OP.PopVerify, NP.PopVerify, *a)
    assert res == ("ok", False), a

# aggregate paths share the moved helpers
sks = [3, 5, 7]
pks = [NP.SkToPk(s) for s in sks]
m = b"agg"
sigs = [sig_for for sig_for in (NP.Sign(s, m) for s in sks)]
kind, agg = same("Aggregate", OP.Aggregate, NP.Aggregate, sigs)
same("Aggregate([])", OP.Aggregate, NP.Aggregate, [])
same("Aggregate(bad)", OP.Aggregate, NP.Aggregate, [sigs[0], b"\x00" * 95])
same("Aggregate(bad2)", OP.Aggregate, NP.Aggregate, [sigs[0], None])
res = same("FastAggregateVerify", OP.FastAggregateVerify, NP.FastAggregateVerify,
           pks, m, agg)
assert res == ("ok", True)
for a in (([], m, agg), (pks[:2], m, agg), (pks + [b"\x00" * 48], m, agg),
          (pks, "m", agg), (pks, m, agg[:95]),
          (pks + [new_g2.G1_to_pubkey(Z1)], m, agg)):
    res = same("FastAggregateVerify(bad)", OP.FastAggregateVerify,
               NP.FastAggregateVerify, *a)
    assert res == ("ok", False)
for cname in SUITE_NAMES:
    oc, nc = getattr(old_cs, cname), getattr(new_cs, cname)
    ms = [b"m1", b"m2"]
    ss = [nc.Sign(s, mm) for s, mm in zip(sks, ms)]
    ag = nc.Aggregate(ss)
    if cname == "G2Basic":
        res = same(cname + ".AggregateVerify", oc.AggregateVerify, nc.AggregateVerify,
                   pks[:2], ms, ag)
        assert res == ("ok", True)
    for a in ((pks[:2], ms[:1], ag), ([], [], ag), (pks[:2], [b"m1", b"m1"], ag),
              (pks[:2], ms, ag[:95]), ([pks[0], b"\x00" * 48], ms, ag),
              (pks[:2], [b"m1", "m2"], ag)):
        res = same(cname + ".AggregateVerify(bad)", oc.AggregateVerify,
                   nc.AggregateVerify, *a)
        assert res == ("ok", False) or res == ("exc", TypeError), (cname, a, res)

# --------------------------------------------------------------------------
# 5. call histories: repeat / interleave calls, results stay the same and
#    no module-level constant has been disturbed
# --------------------------------------------------------------------------
snapshot = (G1, G2, Z1, Z2, curve_order)
for _ in range(2):
    for cname in SUITE_NAMES:
        oc, nc = getattr(old_cs, cname), getattr(new_cs, cname)
        sk, mm = good_sks[4], msgs[0]
        assert nc.Sign(sk, mm) == sig_cache[(cname, sk, mm)] == oc.Sign(sk, mm)
        same(cname + ".SkToPk(again)", oc.SkToPk, nc.SkToPk, r - 1)
        same(cname + ".SkToPk(again bad)", oc.SkToPk, nc.SkToPk, r)
        same(cname + ".valid(again)", oc._is_valid_privkey, nc._is_valid_privkey, r)
assert NP.PopProve(1) == proof1 == OP.PopProve(1)
from py_ecc import optimized_bls12_381 as lib  # noqa: E402

assert snapshot == (lib.G1, lib.G2, lib.Z1, lib.Z2, lib.curve_order)
assert lib.curve_order == (
    52435875175126190479447740508185965837690552500527637822603658699938581184513
)

shutil.rmtree(TMP, ignore_errors=True)
print(f"OK: {N_CHECKS} old/new comparisons identical in {time.time() - T0:.1f}s")
