import os, sys; sys.path.insert(0, os.getcwd())  # noqa: E702

"""
Equivalence demonstration for q1 (C08): reference FQP.__mul__ split into
_scale / _schoolbook_product / _reduce_by_modulus helpers with early returns.

Loads the pristine py_ecc/fields/field_elements.py under another module name and
the edited one from the working tree, builds the same field classes on both and
compares results (integer coefficients + result class name) and exception classes.
"""

import importlib.util
import itertools
import random
import time

HERE = os.path.dirname(os.path.abspath(__file__))
T0 = time.time()


def load(name, path):
    spec = importlib.util.spec_from_file_location(name, path)
    mod = importlib.util.module_from_spec(spec)
    sys.modules[name] = mod
    spec.loader.exec_module(mod)
    return mod


OLD = load("pristine_field_elements", os.path.join(HERE, "pristine", "field_elements.py"))
import py_ecc.fields.field_elements as NEW  # noqa: E402

assert os.path.realpath(NEW.__file__).startswith(os.path.realpath(os.getcwd())), NEW.__file__
assert hasattr(NEW.FQP, "_schoolbook_product"), "working tree is not the edited one"
assert not hasattr(OLD.FQP, "_schoolbook_product")

from py_ecc.fields.field_properties import field_properties  # noqa: E402


# ---------------------------------------------------------------- small helpers
def ptrim(a):
    while a and a[-1] == 0:
        a.pop()
    return a


def pmulmod(a, b, m, p):
    res = [0] * (len(a) + len(b) - 1) if a and b else []
    for i, x in enumerate(a):
        for j, y in enumerate(b):
            res[i + j] = (res[i + j] + x * y) % p
    return pmod(res, m, p)


def pmod(a, m, p):
    a = ptrim([x % p for x in a])
    dm = len(m) - 1
    inv = pow(m[-1], -1, p)
    while len(a) - 1 >= dm:
        f = a[-1] * inv % p
        sh = len(a) - 1 - dm
        for i, c in enumerate(m):
            a[sh + i] = (a[sh + i] - f * c) % p
        ptrim(a)
    return a


def pgcd(a, b, p):
    a, b = ptrim(list(a)), ptrim(list(b))
    while b:
        a, b = b, pmod(a, b, p)
    return a


def ppowx(e, m, p):
    # x ** e mod m
    res, base = [1], pmod([0, 1], m, p)
    while e:
        if e & 1:
            res = pmulmod(res, base, m, p)
        base = pmulmod(base, base, m, p)
        e >>= 1
    return res


def psub(a, b, p):
    n = max(len(a), len(b))
    a = a + [0] * (n - len(a))
    b = b + [0] * (n - len(b))
    return ptrim([(x - y) % p for x, y in zip(a, b)])


def irreducible(m, p):
    n = len(m) - 1
    if psub(ppowx(p**n, m, p), [0, 1], p):
        return False
    for q in (2, 3, 5, 7, 11):
        if n % q == 0:
            g = pgcd(m, psub(ppowx(p ** (n // q), m, p), [0, 1], p), p)
            if len(g) != 1:
                return False
    return True


def find_irreducible(p, n, rng):
    while True:
        m = [rng.randrange(p) for _ in range(n)] + [1]
        if m[0] and irreducible(m, p):
            return tuple(m[:n])


# ---------------------------------------------------------------- class factories
def build(mod, small_moduli):
    ns = {}
    for curve in ("bn128", "bls12_381"):
        fp = field_properties[curve]
        P = fp["field_modulus"]
        ns[curve + "_FQ"] = type(curve + "_FQ", (mod.FQ,), {"field_modulus": P})
        ns[curve + "_FQ2"] = type(
            curve + "_FQ2",
            (mod.FQ2,),
            {"field_modulus": P, "FQ2_MODULUS_COEFFS": fp["fq2_modulus_coeffs"]},
        )
        ns[curve + "_FQ12"] = type(
            curve + "_FQ12",
            (mod.FQ12,),
            {"field_modulus": P, "FQ12_MODULUS_COEFFS": fp["fq12_modulus_coeffs"]},
        )
    for (p, n), mc in small_moduli.items():
        base = {2: mod.FQ2, 12: mod.FQ12}[n]
        key = {2: "FQ2_MODULUS_COEFFS", 12: "FQ12_MODULUS_COEFFS"}[n]
        ns["gf%d_FQ" % p] = type("gf%d_FQ" % p, (mod.FQ,), {"field_modulus": p})
        ns["gf%d_%d" % (p, n)] = type(
            "gf%d_%d" % (p, n), (base,), {"field_modulus": p, key: mc}
        )

    # generic FQP subclasses taking the modulus explicitly (degree 1, 3 and 0)
    class GenP(mod.FQP):
        field_modulus = 11

    ns["GenP"] = GenP
    return ns


rng = random.Random(0xC08)
SMALL = {}
for p in (2, 3, 5, 7):
    SMALL[(p, 2)] = find_irreducible(p, 2, rng)
    SMALL[(p, 12)] = find_irreducible(p, 12, rng)
# a reducible degree-12 modulus as well: behaviour must agree there too
SMALL[(11, 12)] = (0,) * 12
SMALL[(11, 2)] = (10, 0)  # x^2 - 1, reducible

O = build(OLD, SMALL)
N = build(NEW, SMALL)


# ---------------------------------------------------------------- canonical forms
def canon(v):
    if isinstance(v, (OLD.FQP, NEW.FQP)):
        cs = []
        for c in v.coeffs:
            assert isinstance(c, (OLD.FQ, NEW.FQ)), type(c)
            assert 0 <= c.n < v.field_modulus
            cs.append(("c", type(c).__name__, c.n))
        return ("FQP", type(v).__name__, tuple(cs), tuple(repr(m) for m in v.modulus_coeffs), v.degree)
    if isinstance(v, (OLD.FQ, NEW.FQ)):
        return ("FQ", type(v).__name__, v.n)
    if isinstance(v, (bool, int, str, type(None))):
        return ("py", type(v).__name__, v)
    if isinstance(v, (list, tuple)):
        return (type(v).__name__,) + tuple(canon(x) for x in v)
    raise AssertionError("unexpected result type %r" % type(v))


def outcome(fn):
    try:
        return ("ok", canon(fn()))
    except RecursionError:
        raise
    except Exception as e:  # noqa: BLE001
        return ("exc", type(e).__name__, type(e).__mro__[1].__name__)


CHECKS = 0


def same(f_old, f_new, label):
    global CHECKS
    a, b = outcome(f_old), outcome(f_new)
    CHECKS += 1
    if a != b:
        print("MISMATCH", label, "\n  old:", a, "\n  new:", b)
        sys.exit(1)
    return a


def both(label, fn):
    """fn(ns) is evaluated on the pristine and on the edited namespace."""
    return same(lambda: fn(O), lambda: fn(N), label)


# ---------------------------------------------------------------- element samples
def coeff_samples(p, n, rng, count):
    special = [0, 1, p - 1, p, p + 1, -1, -p, 2 * p + 3, p // 2, -(p // 2) - 1]
    out = [
        [0] * n,
        [1] + [0] * (n - 1),
        [p - 1] + [0] * (n - 1),
        [-1] * n,
        [p - 1] * n,
        [0] * (n - 1) + [1],
        [0] * (n - 1) + [p - 1],
        [1] * n,
    ]
    for _ in range(count):
        out.append([rng.randrange(p) for _ in range(n)])
    for _ in range(count // 2 + 1):
        v = [0] * n
        for _ in range(rng.randrange(1, 3)):
            v[rng.randrange(n)] = rng.choice(special)
        out.append(v)
    for _ in range(count // 2 + 1):
        out.append([rng.choice(special + [rng.randrange(-3 * p, 3 * p)]) for _ in range(n)])
    return out


def int_scalars(p, rng):
    return [0, 1, -1, 2, p - 1, p, p + 1, -p, 2 * p + 5, -(3 * p) - 7, True, False,
            rng.randrange(p), -rng.randrange(p), rng.randrange(p**3)]


MALFORMED = [None, 1.5, "3", [1, 2], (1, 2), b"\x01", 2 + 0j, object]


def binary_suite(name, n, p, rng, count, fq_name):
    elems = coeff_samples(p, n, rng, count)
    pairs = [(a, b) for a in elems[:8] for b in elems[:8]]
    pairs += [(rng.choice(elems), rng.choice(elems)) for _ in range(count * 2)]
    for a, b in pairs:
        both(name + " mul", lambda ns: ns[name](a) * ns[name](b))
        both(name + " mul comm", lambda ns: ns[name](b) * ns[name](a))
    for a, b in pairs[: max(10, len(pairs) // 4)]:
        both(name + " div", lambda ns: ns[name](a) / ns[name](b))
        both(name + " (x/y)*y", lambda ns: (ns[name](a) / ns[name](b)) * ns[name](b))
        both(name + " eq", lambda ns: ns[name](a) * ns[name](b) == ns[name](b) * ns[name](a))
    triples = [(rng.choice(elems), rng.choice(elems), rng.choice(elems)) for _ in range(count)]
    for a, b, c in triples:
        both(name + " assoc", lambda ns: (ns[name](a) * ns[name](b)) * ns[name](c))
        both(name + " assoc2", lambda ns: ns[name](a) * (ns[name](b) * ns[name](c)))
        both(name + " distr", lambda ns: ns[name](a) * (ns[name](b) + ns[name](c)))
    for a in elems:
        both(name + " sq", lambda ns: ns[name](a) * ns[name](a))
        both(name + " inv", lambda ns: ns[name](a).inv())
        both(name + " x*inv", lambda ns: ns[name](a) * ns[name](a).inv())
        both(name + " one", lambda ns: ns[name](a) * ns[name].one())
        both(name + " zero", lambda ns: ns[name](a) * ns[name].zero())
        both(name + " neg", lambda ns: ns[name](a) * -ns[name].one())
    for a in elems[:12]:
        for s in int_scalars(p, rng):
            both(name + " *int", lambda ns: ns[name](a) * s)
            both(name + " int*", lambda ns: s * ns[name](a))
            both(name + " *FQ", lambda ns: ns[name](a) * ns[fq_name](s))
            both(name + " FQ*", lambda ns: ns[fq_name](s) * ns[name](a))
            both(name + " *cFQ", lambda ns: ns[name](a) * ns[name](a).FQP_corresponding_FQ_class(s))
            both(name + " /int", lambda ns: ns[name](a) / s)
        for m in MALFORMED:
            both(name + " *bad", lambda ns: ns[name](a) * m)
            both(name + " bad*", lambda ns: m * ns[name](a))
    # exponents, including huge ones
    exps = [0, 1, 2, 3, 5, 16, p - 1, p, p + 1, p**2 - 1, p**n - 1, p**n, p**12, -1, -5]
    if p.bit_length() > 64:
        exps = [e for e in exps if e < 2**800] + [rng.randrange(p**2)]
    pow_elems = elems[:6] + elems[-3:]
    if n == 12 and p.bit_length() > 64:
        pow_elems = [elems[3], elems[-1]]
        exps = [0, 1, 2, 3, 5, p - 1, p + 1, -1, rng.randrange(p**2)]
        # one full-size exponent (p^12) per curve: ~6s per evaluation
        both(name + " pow p^12", lambda ns: ns[name](elems[-1]) ** (p**12))
    for a in pow_elems:
        for e in exps:
            both(name + " pow", lambda ns: ns[name](a) ** e)
    # n-fold product for small n
    for a in elems[:4] + elems[-2:]:
        def nfold(ns, a=a):
            x = ns[name](a)
            acc = ns[name].one()
            out = []
            for k in range(6):
                out.append(acc == x**k)
                acc = acc * x
            return out
        both(name + " nfold", nfold)
    # operands are not mutated by multiplication
    for a, b in pairs[:10]:
        def nomut(ns, a=a, b=b):
            x, y = ns[name](a), ns[name](b)
            before = (x.coeffs, y.coeffs, x.modulus_coeffs, y.modulus_coeffs)
            ids = [id(c) for c in x.coeffs + y.coeffs]
            vals = [c.n for c in x.coeffs + y.coeffs]
            r1 = x * y
            r2 = x * y
            assert (x.coeffs, y.coeffs, x.modulus_coeffs, y.modulus_coeffs) == before
            assert ids == [id(c) for c in x.coeffs + y.coeffs]
            assert vals == [c.n for c in x.coeffs + y.coeffs]
            assert r1 is not x and r1 is not y and r1 is not r2
            assert type(ns[name]).__name__ == "type"
            return [r1, r2, r1 == r2]
        both(name + " nomut", nomut)


# ---------------------------------------------------------------- run the suites
# big curves
for curve in ("bn128", "bls12_381"):
    P = field_properties[curve]["field_modulus"]
    binary_suite(curve + "_FQ2", 2, P, rng, 16, curve + "_FQ")
    binary_suite(curve + "_FQ12", 12, P, rng, 3, curve + "_FQ")
print("big curves done", CHECKS, round(time.time() - T0, 1))

# exhaustive GF(p^2)
for p in (2, 3, 5, 7):
    name = "gf%d_2" % p
    allel = list(itertools.product(range(p), repeat=2))
    for a in allel:
        both(name + " inv", lambda ns: ns[name](a).inv())
        both(name + " x*inv", lambda ns: ns[name](a) * ns[name](a).inv())
        for e in (0, 1, 2, p, p * p - 1, p * p, p**12):
            both(name + " pow", lambda ns: ns[name](a) ** e)
        for b in allel:
            both(name + " mul", lambda ns: ns[name](a) * ns[name](b))
            both(name + " div", lambda ns: ns[name](a) / ns[name](b))
    trip = allel if p <= 3 else [rng.choice(allel) for _ in range(12)]
    for a in trip:
        for b in trip:
            for c in trip:
                both(name + " assoc", lambda ns: (ns[name](a) * ns[name](b)) * ns[name](c))
                both(name + " distr", lambda ns: ns[name](a) * (ns[name](b) + ns[name](c)))
    binary_suite(name, 2, p, rng, 6, "gf%d_FQ" % p)
print("GF(p^2) done", CHECKS, round(time.time() - T0, 1))

# degree-12 extensions of small fields: all unary for GF(2), sampled otherwise
for p in (2, 3, 5, 7, 11):
    name = "gf%d_12" % p
    if p == 2:
        unary = list(itertools.product(range(2), repeat=12))
    else:
        unary = [tuple(rng.randrange(p) for _ in range(12)) for _ in range(120)]
    for k, a in enumerate(unary):
        both(name + " sq", lambda ns: ns[name](a) * ns[name](a))
        both(name + " shift", lambda ns: ns[name](a) * ns[name](unary[(k * 7 + 1) % len(unary)]))
        if k % 16 == 0 or p != 2:
            both(name + " x*inv", lambda ns: ns[name](a) * ns[name](a).inv())
    for _ in range(150):
        a, b = rng.choice(unary), rng.choice(unary)
        both(name + " mul", lambda ns: ns[name](a) * ns[name](b))
        both(name + " div", lambda ns: ns[name](a) / ns[name](b))
    binary_suite(name, 12, p, rng, 3, "gf%d_FQ" % p)
binary_suite("gf11_2", 2, 11, rng, 6, "gf11_FQ")
print("degree-12 small done", CHECKS, round(time.time() - T0, 1))

# cross-class and degenerate shapes: FQ2 * FQ12, FQ12 * FQ2, other curve, other
# version's classes, generic FQP of degree 0/1/3, malformed modulus coefficients
a2, a12 = [3, 5], list(range(1, 13))
both("FQ2*FQ12", lambda ns: ns["bn128_FQ2"](a2) * ns["bn128_FQ12"](a12))
both("FQ12*FQ2", lambda ns: ns["bn128_FQ12"](a12) * ns["bn128_FQ2"](a2))
both("bn*bls", lambda ns: ns["bn128_FQ2"](a2) * ns["bls12_381_FQ2"](a2))
both("bls*bn", lambda ns: ns["bls12_381_FQ12"](a12) * ns["bn128_FQ12"](a12))
both("gf7*gf5", lambda ns: ns["gf7_2"]([6, 6]) * ns["gf5_2"]([4, 4]))
both("FQ2/FQ12", lambda ns: ns["bn128_FQ2"](a2) / ns["bn128_FQ12"](a12))
both("FQ2*otherFQ", lambda ns: ns["bn128_FQ2"](a2) * ns["bls12_381_FQ"](7))
for coeffs, mc in [
    ([], []),
    ([4], [3]),
    ([4], [0]),
    ([1, 2, 3], [2, 0, 1]),
    ([10, 10, 10], [1, 1, 1]),
    ([1, 2, 3], [2, 0]),
    ([1, 2], [1.5, 2]),
    ([1, 2], ["a", "b"]),
    ([1, 2], [None, 1]),
    ([1], ["a"]),
    ([1.5, 2], [1, 2]),
]:
    def gen(ns, coeffs=coeffs, mc=mc):
        x = ns["GenP"](coeffs, mc)
        return [x * x, x * 3, x * ns["gf11_FQ"](5), x**5]
    both("GenP %r %r" % (coeffs, mc), gen)

    def gen2(ns, coeffs=coeffs, mc=mc):
        return ns["GenP"](coeffs, mc) * ns["GenP"]([7] * len(mc), mc)
    both("GenP2 %r %r" % (coeffs, mc), gen2)

    def gen3(ns, coeffs=coeffs, mc=mc):
        return ns["GenP"](coeffs, mc) * ns["gf11_2"]([7, 8])
    both("GenP3 %r %r" % (coeffs, mc), gen3)

# classes without field modulus / modulus coeffs
both("no modulus", lambda ns: ns["GenP"].__mro__[1]([1, 2], [1, 0]) * 2)
both("FQ2 no coeffs", lambda ns: ns["bn128_FQ2"].__mro__[1]([1, 2]))

# repeated / interleaved calls: results stay equal regardless of call history
hist = []
for rnd in range(3):
    for curve in ("bn128", "bls12_381"):
        r = both("hist", lambda ns: ns[curve + "_FQ12"](a12) * ns[curve + "_FQ12"](a12[::-1]))
        s = both("hist2", lambda ns: ns[curve + "_FQ2"](a2) * 5)
        hist.append((curve, r, s))
assert hist[0:2] == hist[2:4] == hist[4:6]

# the public surface of the classes is unchanged apart from the private helpers
for cname in ("FQ", "FQP", "FQ2", "FQ12"):
    o = {k for k in vars(getattr(OLD, cname))}
    n = {k for k in vars(getattr(NEW, cname))}
    assert o <= n and all(k.startswith("_") and not k.startswith("__") for k in n - o), (cname, n - o)

print("OK: %d comparisons identical in %.1fs" % (CHECKS, time.time() - T0))
