import os, sys; sys.path.insert(0, os.getcwd())
import importlib.util
import random
import types

HERE = os.path.dirname(os.path.abspath(__file__))
VARIANT = os.path.basename(HERE)


def load_pristine():
    path = os.path.join(HERE, "pristine", "secp256k1.py")
    spec = importlib.util.spec_from_file_location("pristine_secp256k1", path)
    mod = importlib.util.module_from_spec(spec)
    sys.modules["pristine_secp256k1"] = mod
    spec.loader.exec_module(mod)
    return mod


old = load_pristine()
import py_ecc.secp256k1.secp256k1 as new  # noqa: E402
import py_ecc.secp256k1 as pkg  # noqa: E402

assert os.path.realpath(new.__file__).startswith(os.path.realpath(os.getcwd())), new.__file__

CHECKS = 0
sys.setrecursionlimit(5000)


def outcome(f, *args):
    try:
        r = f(*args)
    except RecursionError:
        return ("exc", "RecursionError")
    except Exception as e:  # noqa: BLE001
        return ("exc", type(e).__name__)
    return ("ok", deep_type(r), r)


def deep_type(v):
    if isinstance(v, (tuple, list)):
        return (type(v).__name__, tuple(deep_type(x) for x in v))
    return type(v).__name__


def same(name, *args):
    global CHECKS
    a = outcome(getattr(old, name), *args)
    b = outcome(getattr(new, name), *args)
    assert a == b, (name, args, a, b)
    CHECKS += 1
    return a


# ---------------------------------------------------------------- constants
for c in ("P", "N", "A", "B", "Gx", "Gy", "G"):
    vo, vn = getattr(old, c), getattr(new, c)
    assert vo == vn and deep_type(vo) == deep_type(vn), c
    CHECKS += 1
assert pkg.P == old.P and pkg.N == old.N and pkg.G == old.G
assert type(new.G) is tuple and new.G == (new.Gx, new.Gy)
assert pkg.privtopub is new.privtopub
assert pkg.ecdsa_raw_sign is new.ecdsa_raw_sign
assert pkg.ecdsa_raw_recover is new.ecdsa_raw_recover

# every public name of the pristine module is still there, same kind
for k, v in vars(old).items():
    if k.startswith("__"):
        continue
    if getattr(v, "__module__", None) == "typing" and not hasattr(new, k):
        continue  # an unused `typing` import (annotation only) may go away
    assert hasattr(new, k), k
    w = getattr(new, k)
    if isinstance(v, types.FunctionType):
        assert isinstance(w, types.FunctionType), k
        assert v.__code__.co_varnames[: v.__code__.co_argcount] == w.__code__.co_varnames[
            : w.__code__.co_argcount
        ], k
    CHECKS += 1

if VARIANT == "s1":
    import py_ecc.secp256k1.utils as utils

    # re-exports bind the very same objects
    assert new.inv is utils.inv
    assert new.bytes_to_int is utils.bytes_to_int
    assert new.safe_ord is utils.safe_ord
    from py_ecc.secp256k1.secp256k1 import bytes_to_int, inv, safe_ord  # noqa: F401

rng = random.Random(0xC18)
P, N = old.P, old.N

# ---------------------------------------------------------------- integer helpers
mods = [P, N, 2, 3, 7, 97, 1, 2**127 - 1, -7, 0]
vals = [0, 1, 2, 3, -1, -2, P - 1, P, P + 1, N - 1, N, N + 1, 2 * P + 5, -P, 2**512 + 1]
vals += [rng.getrandbits(b) for b in (8, 64, 255, 256, 257, 512) for _ in range(20)]
for n in mods:
    for a in vals:
        same("inv", a, n)
for bad in [("x", P), (1.5, P), (None, P), (3, None), (3, "p")]:
    same("inv", *bad)

byte_inputs = [
    b"",
    b"\x00",
    b"\x01",
    b"\xff" * 32,
    b"\x00" * 31 + b"\x01",
    bytes(range(256)),
    bytearray(b"\x12\x34"),
    [1, 2, 3],
    [],
    "abc",
    "€\U0001f600",
    ["a", "b"],
    ["ab"],
    [b"a", b"b"],
    [1.5],
    [None],
    None,
    5,
    (300, 2),
]
byte_inputs += [rng.randbytes(k) for k in (1, 31, 32, 33, 64) for _ in range(5)]
for x in byte_inputs:
    same("bytes_to_int", x)
for x in [0, 7, -1, "a", b"a", "ab", b"", "", None, 1.5, True, [1]]:
    same("safe_ord", x)


# ---------------------------------------------------------------- points
def lift_x(x):
    while True:
        rhs = (x**3 + old.A * x + old.B) % P
        y = pow(rhs, (P + 1) // 4, P)
        if (y * y - rhs) % P == 0:
            return (x, y)
        x += 1


G = old.G
ID = (0, 0)
pts = [G, (G[0], P - G[1]), ID]
pts += [lift_x(x) for x in (1, 2, 3, 2**200, P - 5)]
pts += [lift_x(rng.randrange(P)) for _ in range(6)]
pts += [(p[0], P - p[1]) for p in pts[3:8]]
pts.append(old.multiply(G, 2))
pts.append(old.multiply(G, N - 1))
pts.append(old.multiply(G, (N + 1) // 2))
malformed = [
    (1, 1),  # off curve
    (0, 1),
    (5, 0),  # y == 0 -> treated as identity
    (P, P),
    (G[0] + P, G[1] + P),  # unreduced coordinates
    (G[0], -G[1]),
    [G[0], G[1]],  # list instead of tuple
    (G[0],),
    (),
    (G[0], G[1], 1),
    ("a", "b"),
    (1.0, 2.0),
    (None, None),
    None,
    7,
]

for a in pts + malformed:
    for b in pts + malformed:
        same("add", a, b)

k = rng.randrange(1, N)
scalars = [0, 1, 2, 3, N - 1, N, N + 1, 2 * N + k, 2 * N, -1, -2, -k, -N, -N - 1, k,
           2**256, 2**256 - 1, 2**512 - 1, True, False]
scalars += [rng.getrandbits(512) for _ in range(4)] + [-rng.getrandbits(300) for _ in range(2)]
odd_scalars = [2.0, 0.5, 3.0, 7.5, "3", None, 1 + 0j, float("nan"), float("inf")]
for a in pts:
    for n in scalars:
        same("multiply", a, n)
for a in pts[:4]:
    for n in odd_scalars:
        same("multiply", a, n)
for a in malformed:
    for n in [0, 1, 2, 5, N, -1, k]:
        same("multiply", a, n)

# textbook cross-check on the new module (sanity, not only old==new)
assert new.add(G, (G[0], P - G[1])) == (0, 0)
assert new.add(G, ID) == G and new.add(ID, G) == G and new.add(ID, ID) == ID
assert new.multiply(G, N) == (0, 0) and new.multiply(G, N + 1) == G
assert new.multiply(G, -1) == (G[0], P - G[1])
assert new.add(G, G) == new.multiply(G, 2)

# ---------------------------------------------------------------- jacobian layer
jpts = []
for p in pts[:10]:
    for z in (1, 2, P - 1, rng.randrange(1, P)):
        jpts.append((p[0] * z * z % P, p[1] * z**3 % P, z))
jpts += [(0, 0, 0), (0, 0, 1), (1, 0, 5), (5, 7, 0), (G[0], G[1], 0), (1, 2), ("a", "b", "c"), None]
for a in jpts:
    same("jacobian_double", a)
    same("from_jacobian", a)
    for n in (0, 1, 2, 7, N - 1, N, -3, k):
        same("jacobian_multiply", a, n)
for a in jpts[::3] + jpts[-8:]:
    for b in jpts[::2]:
        r = same("jacobian_add", a, b)
for p in pts + malformed:
    same("to_jacobian", p)

# ---------------------------------------------------------------- privtopub / ECDSA
privs = [
    b"\x00" * 32,
    b"\x00" * 31 + b"\x01",
    b"\x00" * 31 + b"\x02",
    (N - 1).to_bytes(32, "big"),
    N.to_bytes(32, "big"),
    (N + 1).to_bytes(32, "big"),
    b"\xff" * 32,
    b"",
    b"\x05",
    b"\xff" * 64,
    "abc",
    [1, 2, 3],
    None,
    12345,
    ["ab"],
]
privs += [rng.randbytes(32) for _ in range(8)]
for d in privs:
    same("privtopub", d)
for d in privs[:8] + privs[-8:]:
    if isinstance(d, bytes):
        assert new.privtopub(d) == old.multiply(old.G, int.from_bytes(d, "big") if d else 0)

msgs = [b"\x00" * 32, b"\xff" * 32, b"", b"hello", rng.randbytes(32), rng.randbytes(32), "str", None]
sign_privs = [privs[1], privs[3], privs[6], privs[-1], privs[-2], b"", "abc", None, b"\x00" * 32]
sigs = []
for m in msgs:
    for d in sign_privs:
        same("deterministic_generate_k", m, d)
        r = same("ecdsa_raw_sign", m, d)
        if r[0] == "ok":
            sigs.append((m, r[2]))
for m, sig in sigs:
    r = same("ecdsa_raw_recover", m, sig)
    v, rr, s = sig
    for bad in [(v ^ 3 if v in (27, 28) else 27, rr, s), (26, rr, s), (29, rr, s), (v, 0, s), (v, rr, 0),
                (v, N, s), (v, rr, N), (v, rr + 1, s), (v, rr, s + 1), (v, 5, 5), (v, rr), (v, rr, s, 1),
                ("27", rr, s), (v, "r", s), None]:
        same("ecdsa_raw_recover", m, bad)
    same("ecdsa_raw_recover", b"other", sig)

# ---------------------------------------------------------------- call-history / repeat checks
seq = []
for _ in range(150):
    op = rng.choice(["add", "multiply", "privtopub", "inv"])
    if op == "add":
        seq.append((op, (rng.choice(pts), rng.choice(pts))))
    elif op == "multiply":
        seq.append((op, (rng.choice(pts), rng.choice(scalars))))
    elif op == "privtopub":
        seq.append((op, (rng.choice([d for d in privs if isinstance(d, bytes)]),)))
    else:
        seq.append((op, (rng.choice(vals), rng.choice([P, N, 97]))))
first = [same(op, *args) for op, args in seq]
rng.shuffle(seq)
seq2 = seq + seq
for op, args in seq2:
    same(op, *args)
again = {(op, repr(args)): outcome(getattr(new, op), *args) for op, args in seq}
again2 = {(op, repr(args)): outcome(getattr(new, op), *args) for op, args in reversed(seq)}
assert again == again2
for c in ("P", "N", "A", "B", "Gx", "Gy", "G"):
    assert getattr(old, c) == getattr(new, c)

# ---------------------------------------------------------------- same code on small prime-order curves
# Rebind the curve constants in BOTH modules (functions read their module globals)
# and enumerate every pair of points and a range of scalars.


def small_curves():
    found = []
    for p in (43, 67, 79, 103, 127, 151, 211, 1019):
        if p % 4 != 3:
            continue
        for a, b in ((0, 7), (0, 2), (0, 3), (1, 1), (2, 3), (p - 3, 5)):
            if (4 * a**3 + 27 * b * b) % p == 0:
                continue
            points = [(x, y) for x in range(p) for y in range(p) if (y * y - x**3 - a * x - b) % p == 0]
            n = len(points) + 1
            if n > 2 and all(n % q for q in range(2, int(n**0.5) + 1)):
                if any(y == 0 for _, y in points):
                    continue
                found.append((p, a, b, n, points))
                break
    return found


def textbook_add(p1, p2, p, a):
    if p1 == (0, 0):
        return p2
    if p2 == (0, 0):
        return p1
    (x1, y1), (x2, y2) = p1, p2
    if x1 == x2 and (y1 + y2) % p == 0:
        return (0, 0)
    if p1 == p2:
        lam = (3 * x1 * x1 + a) * pow(2 * y1, -1, p) % p
    else:
        lam = (y2 - y1) * pow(x2 - x1, -1, p) % p
    x3 = (lam * lam - x1 - x2) % p
    return (x3, (lam * (x1 - x3) - y1) % p)


saved = {m: {c: getattr(m, c) for c in ("P", "N", "A", "B", "Gx", "Gy", "G")} for m in (old, new)}
curves = small_curves()
assert len(curves) >= 3, len(curves)
try:
    for (p, a, b, n, points) in curves:
        g = points[0]
        for m in (old, new):
            m.P, m.N, m.A, m.B, m.Gx, m.Gy, m.G = p, n, a, b, g[0], g[1], g
        allp = points + [(0, 0)]
        if len(allp) > 130:
            allp = allp[:129] + [(0, 0)]
        for p1 in allp:
            for p2 in allp:
                r = same("add", p1, p2)
                assert r[0] == "ok" and r[2] == textbook_add(p1, p2, p, a), (p, a, b, p1, p2, r)
        for p1 in allp[:40] + [(0, 0)]:
            acc = (0, 0)
            for s in range(0, 2 * n + 3):
                r = same("multiply", p1, s)
                assert r[2] == acc, (p, a, b, p1, s, r, acc)
                r2 = same("multiply", p1, s - 2 * n - 2 - n)
                acc = textbook_add(acc, p1, p, a)
        for d in range(0, 2 * n + 2):
            same("privtopub", d.to_bytes(2, "big"))
finally:
    for m, cs in saved.items():
        for c, v in cs.items():
            setattr(m, c, v)

assert new.multiply(new.G, 2) == old.multiply(old.G, 2)
print("equiv OK (%s): %d comparisons, %d small curves" % (VARIANT, CHECKS, len(curves)))
