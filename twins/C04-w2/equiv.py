import os, sys; sys.path.insert(0, os.getcwd())

# Equivalence demonstration for w2 (restructured input gates / exception handling of
# the verification entry points in py_ecc/bls/ciphersuites.py).  Run from the
# worktree root:
#   cd /tmp/wt2/C04 && /venv/bin/python /tmp/twin6/C04/w2/equiv.py
import importlib.util
import random

HERE = os.path.dirname(os.path.abspath(__file__))

import py_ecc  # noqa: E402

assert os.path.abspath(py_ecc.__file__).startswith(os.getcwd()), py_ecc.__file__

import py_ecc.bls.ciphersuites as new_mod  # noqa: E402
from py_ecc.bls.point_compression import (  # noqa: E402
    modular_squareroot_in_FQ2,
)
from py_ecc.fields import (  # noqa: E402
    optimized_bls12_381_FQ as FQ,
    optimized_bls12_381_FQ2 as FQ2,
)
from py_ecc.optimized_bls12_381 import (  # noqa: E402
    b,
    b2,
    curve_order as R,
    field_modulus as P,
    is_inf,
    is_on_curve,
    multiply,
    normalize,
)

# the pristine file, loaded as a sibling module so that its relative imports work
spec = importlib.util.spec_from_file_location(
    "py_ecc.bls.ciphersuites_pristine",
    os.path.join(HERE, "pristine", "ciphersuites.py"),
)
old_mod = importlib.util.module_from_spec(spec)
sys.modules[spec.name] = old_mod
spec.loader.exec_module(old_mod)
assert 'raise ValidationError("Invalid public key")' in open(old_mod.__file__).read()
assert 'raise ValidationError("Invalid public key")' not in open(new_mod.__file__).read()

rnd = random.Random(4040)
SUITES = ("G2Basic", "G2MessageAugmentation", "G2ProofOfPossession")

# ------------------------------------------------------------------ harness
# One shared, memoised wrapper per expensive pure function, installed in BOTH
# modules: it records the arguments of every pairing and makes the second module's
# identical calls cheap.  (pairing / hash_to_G2 / final_exponentiate are pure.)
LOG = []
_memo = {}


def key_of(value):
    if isinstance(value, tuple):
        return tuple(key_of(v) for v in value)
    if hasattr(value, "coeffs"):
        return (type(value).__name__,) + tuple(int(c) for c in value.coeffs)
    if isinstance(value, FQ):
        return ("FQ", int(value.n))
    if isinstance(value, (bytes, int, bool, str)) or value is None:
        return value
    return ("obj", getattr(value, "__name__", repr(value)))


def memoised(name, fn, log=False):
    def wrapper(*args, **kwargs):
        k = (name, key_of(args), tuple(sorted((a, key_of(v)) for a, v in kwargs.items())))
        if log:
            LOG.append(k)
        if k not in _memo:
            try:
                _memo[k] = (True, fn(*args, **kwargs))
            except Exception as exc:
                _memo[k] = (False, (type(exc), exc.args))
        ok, value = _memo[k]
        if ok:
            return value
        raise value[0](*value[1])

    return wrapper


real_pairing = new_mod.pairing
assert old_mod.pairing is real_pairing
shared = {
    "pairing": memoised("pairing", new_mod.pairing, log=True),
    "hash_to_G2": memoised("hash_to_G2", new_mod.hash_to_G2),
    "final_exponentiate": memoised("final_exponentiate", new_mod.final_exponentiate),
    "signature_to_G2": memoised("signature_to_G2", new_mod.signature_to_G2),
    "pubkey_to_G1": memoised("pubkey_to_G1", new_mod.pubkey_to_G1),
    "subgroup_check": memoised("subgroup_check", new_mod.subgroup_check),
}
for mod in (old_mod, new_mod):
    for name, fn in shared.items():
        assert hasattr(mod, name)
        setattr(mod, name, fn)


def pairing_args_are_safe(entry):
    # entry = ("pairing", (Q_key, P_key), kwargs)
    q_key, p_key = entry[1]
    Q = tuple(FQ2(c[1:]) for c in q_key)
    Pt = tuple(FQ(c[1]) for c in p_key)
    return (
        is_on_curve(Q, b2)
        and is_on_curve(Pt, b)
        and is_inf(multiply(Q, R))
        and is_inf(multiply(Pt, R))
        and not is_inf(Pt)
    )


def run(mod, suite, fn_name, *args):
    del LOG[:]
    fn = getattr(getattr(mod, suite), fn_name)
    try:
        r = fn(*args)
        res = ("ok", type(r).__name__, r)
    except BaseException as exc:  # noqa: B902
        res = ("exc", type(exc).__name__)
    return res, list(LOG)


stats = {"cases": 0, "exceptions": 0, "true": 0, "fewer_pairings": 0, "pairings": 0}
safe_checked = set()


def compare(suite, fn_name, make_args, hoisted=False):
    """make_args() builds fresh arguments (generators are single use)."""
    r_old, log_old = run(old_mod, suite, fn_name, *make_args())
    r_new, log_new = run(new_mod, suite, fn_name, *make_args())
    assert r_old == r_new, (suite, fn_name, make_args(), r_old, r_new)
    if log_old != log_new:
        # only AggregateVerify may differ, and only by evaluating FEWER pairings
        # (none at all) when some key fails KeyValidate
        assert hoisted and r_new == ("ok", "bool", False), (suite, fn_name, make_args())
        assert log_new == [] and len(log_old) >= 1
        stats["fewer_pairings"] += 1
    for entry in log_old + log_new:
        if entry not in safe_checked:
            assert pairing_args_are_safe(entry), (suite, fn_name, entry)
            safe_checked.add(entry)
    stats["pairings"] += len(log_new)
    stats["cases"] += 1
    stats["exceptions"] += r_new[0] == "exc"
    stats["true"] += r_new == ("ok", "bool", True)
    return r_new


# ------------------------------------------------------------------ test data
sks = [0x1234567, R - 5, 3]
msgs = [b"message one", b"", b"\x00" * 70]
N = new_mod
pks = [N.G2Basic.SkToPk(sk) for sk in sks]
pk1, pk2, pk3 = pks


def g1_point_on_curve(start):
    x = start
    while True:
        rhs = (x**3 + 4) % P
        y = pow(rhs, (P + 1) // 4, P)
        if y * y % P == rhs:
            return (FQ(x), FQ(y), FQ(1))
        x += 1


def g2_point_on_curve(start):
    a = start
    while True:
        x = FQ2((a, 1))
        y = modular_squareroot_in_FQ2(x**3 + b2)
        if y is not None:
            return (x, y, FQ2.one())
        a += 1


def compress_g1(pt):
    x, y = normalize(pt)
    return (x.n | (1 << 383) | (((y.n * 2) // P) << 381)).to_bytes(48, "big")


def compress_g2(pt):
    x, y = normalize(pt)
    x_re, x_im = x.coeffs
    y_re, y_im = y.coeffs
    a = (y_im * 2) // P if y_im > 0 else (y_re * 2) // P
    return (x_im | (1 << 383) | (a << 381)).to_bytes(48, "big") + int(x_re).to_bytes(
        48, "big"
    )


g1_mixed = g1_point_on_curve(5)
g2_mixed = g2_point_on_curve(3)
assert not is_inf(multiply(g1_mixed, R)) and not is_inf(multiply(g2_mixed, R))
pk_cofactor = compress_g1(g1_mixed)
pk_order3 = compress_g1((FQ(0), FQ(2), FQ(1)))  # (0, 2) has order 3
sig_cofactor = compress_g2(g2_mixed)
inf_pk = b"\xc0" + b"\x00" * 47
inf_sig = b"\xc0" + b"\x00" * 95


class MyBytes(bytes):
    pass


def x_enc(x, flags):
    return ((flags << 381) | x).to_bytes(48, "big")


bad_pks = [
    b"",
    pk1[:-1],
    pk1[1:],
    pk1 + b"\x00",
    b"\x00" + pk1,
    pk1 + pk1,
    pk1 + b"\x00" * 48,
    b"\x00" * 48,
    inf_pk,
    inf_pk[:47],
    inf_pk + b"\x00",
    b"\xe0" + b"\x00" * 47,
    b"\x40" + b"\x00" * 47,
    b"\x80" + b"\x00" * 47,
    pk_cofactor,
    pk_order3,
    bytearray(pk1),
    memoryview(pk1),
    pk1.hex(),
    None,
    12,
    [pk1],
]
bad_pks += [bytes([(pk1[0] & 0x1F) | (f << 5)]) + pk1[1:] for f in range(8)]
bad_pks += [bytes([(inf_pk[0] & 0x1F) | (f << 5)]) + inf_pk[1:] for f in range(8)]
for x in (0, 1, 2, P - 1, P, P + 1, (1 << 381) - 1):
    for flags in (0b100, 0b101, 0b000):
        if x < (1 << 381):
            bad_pks.append(x_enc(x, flags))
bad_pks += [bytes(rnd.getrandbits(8) for _ in range(n)) for n in range(0, 201, 7)]
bad_pks += [bytes(rnd.getrandbits(8) for _ in range(48)) for _ in range(12)]
bad_pks += [bytes([0x80 | rnd.getrandbits(5)]) + bytes(rnd.getrandbits(8) for _ in range(47)) for _ in range(12)]  # noqa: E501
good_pk_variants = [MyBytes(pk1)]

sig_of = {}  # (suite, sk index, message) -> signature
for s in SUITES:
    for i, sk in enumerate(sks):
        for m in msgs[:2]:
            sig_of[s, i, m] = getattr(N, s).Sign(sk, m)
sig0 = sig_of["G2Basic", 0, msgs[0]]
bad_sigs = [
    b"",
    sig0[:-1],
    sig0[1:],
    sig0 + b"\x00",
    b"\x00" + sig0,
    sig0[:48],
    sig0 + sig0,
    b"\x00" * 96,
    inf_sig,
    inf_sig[:48],
    b"\xe0" + b"\x00" * 95,
    sig_cofactor,
    bytearray(sig0),
    sig0.hex(),
    None,
    7,
]
bad_sigs += [bytes([(sig0[0] & 0x1F) | (f << 5)]) + sig0[1:] for f in range(8)]
bad_sigs += [bytes([(inf_sig[0] & 0x1F) | (f << 5)]) + inf_sig[1:] for f in range(8)]
bad_sigs += [bytes(rnd.getrandbits(8) for _ in range(n)) for n in range(0, 201, 11)]
bad_sigs += [bytes([0x80 | rnd.getrandbits(5)]) + bytes(rnd.getrandbits(8) for _ in range(95)) for _ in range(10)]  # noqa: E501
for x in (0, P - 1, P, (1 << 381) - 1):
    bad_sigs.append(x_enc(x, 0b100) + (0).to_bytes(48, "big"))
    bad_sigs.append(x_enc(0, 0b100) + x.to_bytes(48, "big"))
bad_msgs = [None, "text", bytearray(b"abc"), 5, [b"a"]]

# ------------------------------------------------------------------ the runs
# 0. the gates themselves accept / refuse exactly the same values
for s in SUITES:
    for value in bad_pks + bad_sigs + bad_msgs + pks + good_pk_variants + [sig0]:
        for gate in ("_is_valid_pubkey", "_is_valid_signature", "_is_valid_message"):
            compare(s, gate, lambda v=value: (v,))

for s in SUITES:
    S_sig = sig_of[s, 0, msgs[0]]
    agg_msgs = [msgs[0], msgs[1], msgs[2]]
    Sn = getattr(N, s)
    agg = Sn.Aggregate([Sn.Sign(sk, m) for sk, m in zip(sks, agg_msgs)])
    agg2 = Sn.Aggregate([Sn.Sign(sk, m) for sk, m in zip(sks[:2], agg_msgs[:2])])

    # 1. KeyValidate
    for pk in pks + good_pk_variants + bad_pks:
        compare(s, "KeyValidate", lambda pk=pk: (pk,))

    # 2. Verify
    assert compare(s, "Verify", lambda: (pk1, msgs[0], S_sig))[2] is True
    assert compare(s, "Verify", lambda: (MyBytes(pk1), msgs[0], MyBytes(S_sig)))[2] is True
    compare(s, "Verify", lambda: (pk1, msgs[1], S_sig))
    compare(s, "Verify", lambda: (pk2, msgs[0], S_sig))
    compare(s, "Verify", lambda: (pk2, msgs[1], sig_of[s, 1, msgs[1]]))
    for pk in bad_pks:
        compare(s, "Verify", lambda pk=pk: (pk, msgs[0], S_sig))
    for sig in bad_sigs:
        compare(s, "Verify", lambda sig=sig: (pk1, msgs[0], sig))
    for m in bad_msgs:
        compare(s, "Verify", lambda m=m: (pk1, m, S_sig))
    for pk in bad_pks[::5]:
        for sig in bad_sigs[::7]:
            compare(s, "Verify", lambda pk=pk, sig=sig: (pk, bad_msgs[0], sig))
            compare(s, "Verify", lambda pk=pk, sig=sig: (pk, msgs[1], sig))

    # 3. AggregateVerify
    AV = "AggregateVerify"
    assert compare(s, AV, lambda: (pks, agg_msgs, agg), True)[2] is True
    assert compare(s, AV, lambda: (tuple(pks), tuple(agg_msgs), agg), True)[2] is True
    assert compare(s, AV, lambda: (pks[:2], agg_msgs[:2], agg2), True)[2] is True
    assert compare(s, AV, lambda: ([pk1], [msgs[0]], S_sig), True)[2] is True
    compare(s, AV, lambda: (pks, agg_msgs, agg2), True)
    compare(s, AV, lambda: (pks[::-1], agg_msgs, agg), True)
    compare(s, AV, lambda: (pks, [msgs[0], msgs[0], msgs[1]], agg), True)
    compare(s, AV, lambda: ([pk1, pk1], [msgs[0], msgs[1]], agg2), True)
    compare(s, AV, lambda: ([], [], agg), True)
    compare(s, AV, lambda: ((), (), agg), True)
    compare(s, AV, lambda: ([], [], inf_sig), True)
    compare(s, AV, lambda: (pks[:2], agg_msgs, agg), True)
    compare(s, AV, lambda: (pks, agg_msgs[:2], agg), True)
    compare(s, AV, lambda: (pks, [], agg), True)
    compare(s, AV, lambda: ([], agg_msgs, agg), True)
    compare(s, AV, lambda: ([b"bad"], [], agg), True)
    compare(s, AV, lambda: ([], [None], agg), True)
    for bad in bad_pks[:40] + bad_pks[40::6]:
        for pos in range(3):
            keys = list(pks)
            keys[pos] = bad
            compare(s, AV, lambda keys=keys: (list(keys), agg_msgs, agg), True)
    for bad in bad_pks[:24:3]:
        compare(s, AV, lambda bad=bad: ([bad], [msgs[0]], S_sig), True)
        compare(s, AV, lambda bad=bad: ([bad, bad], [msgs[0], msgs[1]], agg2), True)
        compare(s, AV, lambda bad=bad: ([pk1, bad], [msgs[0]], agg2), True)
    for sig in bad_sigs:
        compare(s, AV, lambda sig=sig: (pks, agg_msgs, sig), True)
    for sig in bad_sigs[::5]:
        compare(s, AV, lambda sig=sig: ([pk1, pk_cofactor], agg_msgs[:2], sig), True)
        compare(s, AV, lambda sig=sig: ([pk1], agg_msgs[:2], sig), True)
    for m in bad_msgs:
        for pos in range(3):
            ms = list(agg_msgs)
            ms[pos] = m
            compare(s, AV, lambda ms=ms: (pks, list(ms), agg), True)
            compare(s, AV, lambda ms=ms: ([pk1, inf_pk, pk3], list(ms), agg), True)
            compare(s, AV, lambda ms=ms: (pks, list(ms), b"short"), True)
    # arguments that are not sequences at all: same exception class, same point
    for keys_f, msgs_f in (
        (lambda: None, lambda: agg_msgs),
        (lambda: pks, lambda: None),
        (lambda: 5, lambda: 5),
        (lambda: iter(pks), lambda: agg_msgs),
        (lambda: (k for k in pks), lambda: (m for m in agg_msgs)),
        (lambda: iter([b"bad"] + pks), lambda: agg_msgs),
        (lambda: pks, lambda: iter(agg_msgs)),
        (lambda: pks, lambda: iter([None])),
        (lambda: dict.fromkeys(pks), lambda: agg_msgs),
        (lambda: pk1, lambda: msgs[0]),
        (lambda: pk1 + pk2, lambda: [msgs[0]] * 96),
    ):
        for sig in (agg, b"short", None):
            compare(s, AV, lambda: (keys_f(), msgs_f(), sig), True)

# 4. PopVerify / FastAggregateVerify (proof-of-possession suite)
s = "G2ProofOfPossession"
Sn = N.G2ProofOfPossession
proofs = [Sn.PopProve(sk) for sk in sks]
fagg = Sn.Aggregate([Sn.Sign(sk, msgs[0]) for sk in sks])
fagg2 = Sn.Aggregate([Sn.Sign(sk, msgs[0]) for sk in sks[:2]])
assert compare(s, "PopVerify", lambda: (pk1, proofs[0]))[2] is True
assert compare(s, "PopVerify", lambda: (pk2, proofs[1]))[2] is True
compare(s, "PopVerify", lambda: (pk1, proofs[1]))
compare(s, "PopVerify", lambda: (pk1, sig_of[s, 0, msgs[0]]))
for pk in bad_pks:
    compare(s, "PopVerify", lambda pk=pk: (pk, proofs[0]))
for sig in bad_sigs:
    compare(s, "PopVerify", lambda sig=sig: (pk1, sig))
for pk in bad_pks[::4]:
    for sig in bad_sigs[::6]:
        compare(s, "PopVerify", lambda pk=pk, sig=sig: (pk, sig))
FAV = "FastAggregateVerify"
assert compare(s, FAV, lambda: (pks, msgs[0], fagg))[2] is True
assert compare(s, FAV, lambda: (tuple(pks), msgs[0], fagg))[2] is True
assert compare(s, FAV, lambda: (pks[:2], msgs[0], fagg2))[2] is True
assert compare(s, FAV, lambda: ([pk1], msgs[0], sig_of[s, 0, msgs[0]]))[2] is True
compare(s, FAV, lambda: (pks[:2], msgs[0], fagg))
compare(s, FAV, lambda: (pks, msgs[1], fagg))
compare(s, FAV, lambda: ([pk1, pk1], msgs[0], fagg2))
compare(s, FAV, lambda: ([], msgs[0], fagg))
compare(s, FAV, lambda: ((), msgs[0], fagg))
compare(s, FAV, lambda: ([], None, b""))
for bad in bad_pks:
    for pos in range(3):
        keys = list(pks)
        keys[pos] = bad
        compare(s, FAV, lambda keys=keys: (list(keys), msgs[0], fagg))
for bad in bad_pks[:24:3]:
    compare(s, FAV, lambda bad=bad: ([bad], msgs[0], fagg))
for sig in bad_sigs:
    compare(s, FAV, lambda sig=sig: (pks, msgs[0], sig))
    compare(s, FAV, lambda sig=sig: ([], msgs[0], sig))
for m in bad_msgs:
    compare(s, FAV, lambda m=m: (pks, m, fagg))
    compare(s, FAV, lambda m=m: ([pk1, inf_pk], m, fagg))
    compare(s, FAV, lambda m=m: ([], m, b"short"))
for keys_f in (
    lambda: None,
    lambda: 5,
    lambda: iter(pks),
    lambda: (k for k in [b"bad"] + pks),
    lambda: pk1,
    lambda: dict.fromkeys(pks),
):
    for sig in (fagg, b"short", None):
        compare(s, FAV, lambda: (keys_f(), msgs[0], sig))
        compare(s, FAV, lambda: (keys_f(), None, sig))

# 5. the other public functions of the module are untouched but share the helpers
for s in SUITES:
    for sk in (0, 1, R - 1, R, -1, None, 2.0, True):
        compare(s, "SkToPk", lambda sk=sk: (sk,))
        compare(s, "Sign", lambda sk=sk: (sk, b"m"))
    compare(s, "Sign", lambda: (5, "not bytes"))
    for sigs in ([], [sig0], [sig0, sig0], [sig0[:-1]], [sig0, None], [inf_sig, sig0], None):
        compare(s, "Aggregate", lambda sigs=sigs: (sigs,))
compare("G2ProofOfPossession", "_AggregatePKs", lambda: (pks,))
compare("G2ProofOfPossession", "_AggregatePKs", lambda: ([],))
compare("G2ProofOfPossession", "_AggregatePKs", lambda: ([pk1, pk1[:-1]],))


# 6. subclasses (user suites sharing the code): gates that raise stay inside the
# try blocks, overridden gates are still the ones consulted, in the same order
def make_sub(mod, trace):
    class Sub(mod.G2ProofOfPossession):
        DST = b"TEST_SUITE_WITH_OWN_DST_"

        @classmethod
        def _is_valid_pubkey(cls, pubkey):
            trace.append(("pk gate", key_of(pubkey)))
            if pubkey == b"raise-value":
                raise ValueError("from a gate")
            if pubkey == b"raise-assert":
                raise AssertionError("from a gate")
            if pubkey == b"raise-key":
                raise KeyError("from a gate")
            return super()._is_valid_pubkey(pubkey)

        @staticmethod
        def _is_valid_message(message):
            trace.append(("msg gate", key_of(message)))
            if message == b"raise-value":
                raise ValueError("from a gate")
            return isinstance(message, bytes) and message != b"refused"

        @staticmethod
        def _is_valid_signature(signature):
            trace.append(("sig gate", key_of(signature)))
            return mod.BaseG2Ciphersuite._is_valid_signature(signature)

        @staticmethod
        def KeyValidate(PK):
            trace.append(("KeyValidate", key_of(PK)))
            return mod.BaseG2Ciphersuite.KeyValidate(PK)

    return Sub


trace_old, trace_new = [], []
sub_old, sub_new = make_sub(old_mod, trace_old), make_sub(new_mod, trace_new)
sub_sigs = [sub_new.Sign(sk, m) for sk, m in zip(sks, msgs)]
assert sub_sigs == [sub_old.Sign(sk, m) for sk, m in zip(sks, msgs)]
sub_agg = sub_new.Aggregate(sub_sigs)
sub_fagg = sub_new.Aggregate([sub_new.Sign(sk, msgs[0]) for sk in sks])
sub_cases = []
for special in (b"raise-value", b"raise-assert", b"raise-key", inf_pk, pk_cofactor, b""):
    sub_cases.append(("Verify", (special, msgs[0], sub_sigs[0])))
    sub_cases.append(("PopVerify", (special, sub_sigs[0])))
    for pos in range(3):
        keys = list(pks)
        keys[pos] = special
        sub_cases.append(("AggregateVerify", (keys, list(msgs), sub_agg)))
        sub_cases.append(("AggregateVerify", (keys, list(msgs), b"short")))
        sub_cases.append(("AggregateVerify", (keys, [None] * 3, sub_agg)))
        sub_cases.append(("FastAggregateVerify", (keys, msgs[0], sub_fagg)))
        sub_cases.append(("FastAggregateVerify", (keys, None, sub_fagg)))
for m in (b"raise-value", b"refused", None):
    sub_cases.append(("Verify", (pk1, m, sub_sigs[0])))
    sub_cases.append(("FastAggregateVerify", (pks, m, sub_fagg)))
    for pos in range(3):
        ms = list(msgs)
        ms[pos] = m
        sub_cases.append(("AggregateVerify", (pks, ms, sub_agg)))
sub_cases += [
    ("Verify", (pk1, msgs[0], sub_sigs[0])),
    ("Verify", (pk1, msgs[0], sig_cofactor)),
    ("AggregateVerify", (pks, list(msgs), sub_agg)),
    ("AggregateVerify", (pks, list(msgs), sub_sigs[0])),
    ("AggregateVerify", (pks, list(msgs[:2]), sub_agg)),
    ("AggregateVerify", ([], [], sub_agg)),
    ("FastAggregateVerify", (pks, msgs[0], sub_fagg)),
    ("FastAggregateVerify", ([], msgs[0], sub_fagg)),
    ("PopVerify", (pk1, sub_new.PopProve(sks[0]))),
]


def traced(cls, trace, fn_name, args):
    del trace[:], LOG[:]
    # pairings are appended to the same trace so that the interleaving is visible
    start = len(LOG)
    try:
        r = getattr(cls, fn_name)(*args)
        res = ("ok", type(r).__name__, r)
    except BaseException as exc:  # noqa: B902
        res = ("exc", type(exc).__name__)
    return res, list(trace), LOG[start:]


sub_true = 0
for fn_name, args in sub_cases:
    r_o, t_o, p_o = traced(sub_old, trace_old, fn_name, args)
    r_n, t_n, p_n = traced(sub_new, trace_new, fn_name, args)
    assert r_o == r_n, (fn_name, args, r_o, r_n)
    sub_true += r_n == ("ok", "bool", True)
    # the gates and KeyValidate are consulted for the same values in the same order
    assert t_o == t_n, (fn_name, args, t_o, t_n)
    # pairings: identical, except that when a later key fails KeyValidate the old
    # loop had already paired the earlier (valid) keys and the new code pairs nothing
    assert p_o == p_n or (
        fn_name == "AggregateVerify" and p_n == [] and r_n == ("ok", "bool", False)
    ), (fn_name, args)
    stats["cases"] += 1
assert sub_true == 4, sub_true

# 7. call history: replay a shuffled mix of earlier calls twice, interleaved
history = []
for s in SUITES:
    history += [
        (s, "Verify", (pk1, msgs[0], sig_of[s, 0, msgs[0]])),
        (s, "Verify", (pk_cofactor, msgs[0], sig_of[s, 0, msgs[0]])),
        (s, "Verify", (pk1, msgs[0], sig_cofactor)),
        (s, "KeyValidate", (inf_pk,)),
        (s, "KeyValidate", (pk2,)),
        (s, "AggregateVerify", ([pk1, inf_pk], [msgs[0], msgs[1]], sig0)),
        (s, "AggregateVerify", ([pk1], [msgs[0]], sig_of[s, 0, msgs[0]])),
    ]
history += [
    ("G2ProofOfPossession", "PopVerify", (pk1, proofs[0])),
    ("G2ProofOfPossession", "PopVerify", (pk1 + b"\x00", proofs[0])),
    ("G2ProofOfPossession", "FastAggregateVerify", (pks, msgs[0], fagg)),
    ("G2ProofOfPossession", "FastAggregateVerify", ([pk1, pk_order3], msgs[0], fagg)),
]
first = {}
for round_no in range(3):
    rnd.shuffle(history)
    for s, fn_name, args in history:
        r = compare(s, fn_name, lambda: args, fn_name == "AggregateVerify")
        k = (s, fn_name, repr(args))
        assert first.setdefault(k, r) == r, (k, first[k], r)

# 8. nothing was mutated
assert pks == [N.G2Basic.SkToPk(sk) for sk in sks]
assert agg_msgs == [msgs[0], msgs[1], msgs[2]]
for mod in (old_mod, new_mod):
    assert mod.G2Basic.DST == b"BLS_SIG_BLS12381G2_XMD:SHA-256_SSWU_RO_NUL_"
    assert mod.G2ProofOfPossession.POP_TAG == b"BLS_POP_BLS12381G2_XMD:SHA-256_SSWU_RO_POP_"

assert stats["true"] >= 20, stats
print("w2 equiv OK:", stats, "distinct pairing argument pairs checked safe:", len(safe_checked))
