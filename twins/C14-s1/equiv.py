import os, sys; sys.path.insert(0, os.getcwd())  # noqa: E401,E702
"""
Equivalence demonstration for C14/s1.

s1 moves ``prime_field_inv`` and ``deg`` from py_ecc/utils.py into the new module
py_ecc/arith.py, re-exports them from py_ecc/utils.py, and makes both field
implementations import them from the new home.

This script loads the PRISTINE copies of utils.py / field_elements.py /
optimized_field_elements.py (saved next to this file) under other module names,
builds the same field classes from the pristine and from the edited modules and
checks that every result and every exception class is identical.
"""
import importlib
import importlib.util
import random

HERE = os.path.dirname(os.path.abspath(__file__))
PRISTINE = os.path.join(HERE, "pristine")

# --------------------------------------------------------------------------- load
import py_ecc.utils as new_utils  # noqa: E402
import py_ecc.fields.field_elements as new_ref  # noqa: E402
import py_ecc.fields.optimized_field_elements as new_opt  # noqa: E402
from py_ecc.fields.field_properties import field_properties  # noqa: E402

assert os.path.realpath(new_utils.__file__).startswith(os.path.realpath(os.getcwd()))


def load(name, fname):
    spec = importlib.util.spec_from_file_location(name, os.path.join(PRISTINE, fname))
    mod = importlib.util.module_from_spec(spec)
    sys.modules[name] = mod
    spec.loader.exec_module(mod)
    return mod


old_utils = load("pristine_utils", "utils.py")
# The pristine field modules say ``from py_ecc.utils import ...``; make that
# resolve to the pristine utils while they are being executed.
_saved = sys.modules["py_ecc.utils"]
sys.modules["py_ecc.utils"] = old_utils
try:
    old_ref = load("pristine_field_elements", "field_elements.py")
    old_opt = load("pristine_optimized_field_elements", "optimized_field_elements.py")
finally:
    sys.modules["py_ecc.utils"] = _saved

assert old_opt.prime_field_inv is old_utils.prime_field_inv
assert old_opt.deg is old_utils.deg
assert old_ref.poly_rounded_div is old_utils.poly_rounded_div
assert old_utils.prime_field_inv is not new_utils.prime_field_inv

# ------------------------------------------------------------- import-path identity
if hasattr(new_utils, "__file__") and os.path.exists(
    os.path.join(os.getcwd(), "py_ecc", "arith.py")
):
    import py_ecc.arith as arith

    for nm in ("prime_field_inv", "deg"):
        assert getattr(new_utils, nm) is getattr(arith, nm), nm
        assert getattr(new_opt, nm) is getattr(arith, nm), nm
        assert getattr(new_ref, nm) is getattr(arith, nm), nm
    assert new_ref.poly_rounded_div is new_utils.poly_rounded_div
    assert new_utils.poly_rounded_div.__globals__["deg"] is arith.deg
# every public name of the pristine utils still exists in the edited one
for nm in dir(old_utils):
    if not nm.startswith("__"):
        assert hasattr(new_utils, nm), nm
for old_m, new_m in ((old_ref, new_ref), (old_opt, new_opt)):
    for nm in dir(old_m):
        if not nm.startswith("__"):
            assert hasattr(new_m, nm), nm

# import order must not matter (fresh interpreters, each module first)
import subprocess  # noqa: E402

for first in (
    "py_ecc.utils",
    "py_ecc.arith",
    "py_ecc.fields",
    "py_ecc.fields.field_elements",
    "py_ecc.fields.optimized_field_elements",
    "py_ecc.typing",
    "py_ecc.bls",
    "py_ecc.secp256k1",
):
    subprocess.run(
        [
            sys.executable,
            "-c",
            f"import {first}; from py_ecc.utils import prime_field_inv, deg, "
            "poly_rounded_div; import py_ecc.fields",
        ],
        check=True,
        cwd=os.getcwd(),
    )

checks = 0


def outcome(f, *a):
    try:
        return ("ok", f(*a))
    except RecursionError:
        raise
    except BaseException as e:  # noqa: B902
        return ("exc", type(e).__name__)


def canon(v):
    """Canonical, module-independent form of a result."""
    if isinstance(v, bool):
        return ("bool", v)
    if isinstance(v, int):
        return ("int", v)
    if isinstance(v, (list, tuple)):
        return (type(v).__name__, tuple(canon(x) for x in v))
    if hasattr(v, "coeffs"):
        return (
            "FQP",
            tuple(canon(c) for c in v.coeffs),
            tuple(canon(c) for c in v.modulus_coeffs),
            v.degree,
        )
    if hasattr(v, "n") and hasattr(v, "field_modulus"):
        return ("FQ", v.n, v.field_modulus)
    if v is None or isinstance(v, str):
        return v
    return ("other", type(v).__name__)


def same(tag, fo, ao, fn, an):
    global checks
    ro, rn = outcome(fo, *ao), outcome(fn, *an)
    co = (ro[0], canon(ro[1]) if ro[0] == "ok" else ro[1])
    cn = (rn[0], canon(rn[1]) if rn[0] == "ok" else rn[1])
    assert co == cn, (tag, co, cn)
    checks += 1
    return ro, rn


# ------------------------------------------------------------ the moved functions
rng = random.Random(0xC14)
P_BN = field_properties["bn128"]["field_modulus"]
P_BLS = field_properties["bls12_381"]["field_modulus"]

moduli = [1, 2, 3, 5, 7, 11, 13, 101, 65537, 2**127 - 1, P_BN, P_BLS, 0, -7, 12, 2**64]
for n in moduli:
    vals = [0, 1, 2, -1, -2, n, n - 1, n + 1, 2 * n, -n, n // 2, 3 * n + 5]
    vals += [rng.randrange(-(2**400), 2**400) for _ in range(40)]
    vals += [rng.randrange(0, abs(n) + 2) for _ in range(40)]
    for a in vals:
        same(("inv", a, n), old_utils.prime_field_inv, (a, n), new_utils.prime_field_inv, (a, n))
for bad in [(1.5, 7), ("3", 7), (3, "7"), (None, 7), (3, None), (3, 7.0), ([1], 7)]:
    same(("inv-bad", bad), old_utils.prime_field_inv, bad, new_utils.prime_field_inv, bad)
# exhaustive on small primes: it really is the inverse (inv0(0) == 0)
for p in (2, 3, 5, 7, 11, 13, 101):
    for a in range(-p, 2 * p + 1):
        r = new_utils.prime_field_inv(a, p)
        assert r == old_utils.prime_field_inv(a, p)
        assert (a * r) % p == (0 if a % p == 0 else 1)

deg_inputs = [
    [], (), [0], [1], [0, 0], [0, 0, 0, 0], [1, 0, 0], [0, 1, 0], [0, 0, 1], (5, 0, 7, 0, 0),
    [0] * 13, [1] + [0] * 12, [0] * 12 + [1], "abc", None, 5, [None], ["a", 0], [0.0, 0.0],
    {0: 1}, range(4), range(0),
]
for p in deg_inputs:
    same(("deg", repr(p)), old_utils.deg, (p,), new_utils.deg, (p,))


def mk(mod, base, p, **kw):
    return type(base + "_" + str(p)[:8], (getattr(mod, base),), dict(field_modulus=p, **kw))


for p in (7, 101, P_BN):
    for lst in ([0, 0, 0], [3, 0, 0], [0, p, 0], [1, 2, p], [p, p, p], [5]):
        for omod, nmod in ((old_ref, new_ref), (old_opt, new_opt)):
            fo, fn = mk(omod, "FQ", p), mk(nmod, "FQ", p)
            same(("deg-fq", p, lst), old_utils.deg, ([fo(x) for x in lst],),
                 new_utils.deg, ([fn(x) for x in lst],))

# poly_rounded_div stayed in utils but now reads ``deg`` through the re-export
for p in (7, 13, 101, P_BN, P_BLS):
    fo, fn = mk(old_ref, "FQ", p), mk(new_ref, "FQ", p)
    for _ in range(60):
        la = rng.randrange(1, 8)
        lb = rng.randrange(1, 8)
        a = [rng.choice([0, 0, 1, p - 1, rng.randrange(p)]) for _ in range(la)]
        b = [rng.choice([0, 0, 1, p - 1, rng.randrange(p)]) for _ in range(lb)]
        same(("prd", p, a, b), old_utils.poly_rounded_div, ([fo(x) for x in a], [fo(x) for x in b]),
             new_utils.poly_rounded_div, ([fn(x) for x in a], [fn(x) for x in b]))
for a, b in [([], []), ([1], []), ([], [1]), ([1, 2], [0, 0]), ([4, 2], [2]), ([1.0], [2.0]),
             (None, [1]), ([6, 4, 2], [2, 0]), ((6, 4), (2,))]:
    same(("prd-raw", a, b), old_utils.poly_rounded_div, (a, b), new_utils.poly_rounded_div, (a, b))

# ------------------------------------------------------------------ field classes
FQ2_MC = (1, 0)
FQ12_BN = field_properties["bn128"]["fq12_modulus_coeffs"]
FQ12_BLS = field_properties["bls12_381"]["fq12_modulus_coeffs"]


def family(mod, p, fq12_mc, fq2_mc=FQ2_MC):
    FQ = mk(mod, "FQ", p)
    FQP = mk(mod, "FQP", p)
    FQ2 = type("FQ2_", (mod.FQ2, FQP), dict(field_modulus=p, FQ2_MODULUS_COEFFS=fq2_mc))
    FQ12 = type("FQ12_", (mod.FQ12, FQP), dict(field_modulus=p, FQ12_MODULUS_COEFFS=fq12_mc))
    return {"FQ": FQ, "FQ2": FQ2, "FQ12": FQ12, "FQP": FQP}


def small_fq12(p):
    # (w^6 - a)^2 + 1 ; not necessarily irreducible -- old and new must agree anyway
    return (10 % p, 0, 0, 0, 0, 0, (-6) % p, 0, 0, 0, 0, 0)


FIELDS = [
    ("bn128", P_BN, FQ12_BN, FQ2_MC),
    ("bls12_381", P_BLS, FQ12_BLS, FQ2_MC),
    ("p7", 7, small_fq12(7), (1, 0)),
    ("p11", 11, small_fq12(11), (1, 0)),
    ("p13-reducible", 13, small_fq12(13), (1, 0)),  # x^2+1 splits mod 13: zero divisors
    ("p3", 3, (2, 0, 0, 0, 0, 0, 1, 0, 0, 0, 0, 0), (1, 0)),
    ("p2", 2, (1, 0, 0, 1, 0, 0, 0, 0, 0, 0, 0, 1), (1, 1)),
    ("p101", 101, small_fq12(101), (2, 0)),
    ("m127", 2**127 - 1, small_fq12(2**127 - 1), (1, 0)),
]


def elem_values(p, k):
    special = [0, 1, 2, p - 1, p - 2, p, p + 1, -1, (p + 1) // 2, (p - 1) // 2]
    return [rng.choice(special) if rng.random() < 0.45 else rng.randrange(-p, 2 * p) for _ in range(k)]


def coeff_of(v):
    if hasattr(v, "coeffs"):
        return tuple(int(c) for c in v.coeffs)
    return (int(v),)


def sgn0_rfc(coeffs):
    sign, zero = 0, 1
    for x in coeffs:
        sign_i = x % 2
        zero_i = int(x == 0)
        sign = sign | (zero & sign_i)
        zero = zero & zero_i
    return sign


BIN = ["add", "sub", "mul", "div", "eq", "ne", "radd", "rsub", "rmul", "rdiv", "lt", "le", "gt", "ge"]


def apply_op(op, x, y):
    if op == "add":
        return x + y
    if op == "sub":
        return x - y
    if op == "mul":
        return x * y
    if op == "div":
        return x / y
    if op == "eq":
        return x == y
    if op == "ne":
        return x != y
    if op == "radd":
        return y + x
    if op == "rsub":
        return y - x
    if op == "rmul":
        return y * x
    if op == "rdiv":
        return y / x
    if op == "lt":
        return x < y
    if op == "le":
        return x <= y
    if op == "gt":
        return x > y
    if op == "ge":
        return x >= y
    raise AssertionError(op)


def run_programs(name, p, fq12_mc, fq2_mc, steps, big, genuine):
    """Random straight-line programs, executed in lock step on the pristine and the
    edited reference classes and on the pristine and the edited optimized classes."""
    fams = {
        "ref": (family(old_ref, p, fq12_mc, fq2_mc), family(new_ref, p, fq12_mc, fq2_mc)),
        "opt": (family(old_opt, p, fq12_mc, fq2_mc), family(new_opt, p, fq12_mc, fq2_mc)),
    }
    for kind in ("FQ", "FQ2", "FQ12"):
        deg_ = {"FQ": 1, "FQ2": 2, "FQ12": 12}[kind]
        n_steps = steps if kind != "FQ12" else max(6, steps // (6 if big else 2))
        # the same start values for all four implementations
        starts = []
        for _ in range(5):
            vals = elem_values(p, deg_)
            starts.append(vals[0] if kind == "FQ" else vals)
        if kind != "FQ":
            starts.append([0] * deg_)
            starts.append([1] + [0] * (deg_ - 1))
            starts.append([0] * (deg_ - 1) + [1])
        else:
            starts += [0, 1, p - 1, p]
        pools = {}
        for impl, (fo, fn) in fams.items():
            pools[impl] = ([fo[kind](s) for s in starts], [fn[kind](s) for s in starts])
        script = []
        for _ in range(n_steps):
            r = rng.random()
            if r < 0.55:
                op = rng.choice(BIN)
                i = rng.randrange(1 << 30)
                if rng.random() < 0.35:
                    other = ("int", rng.choice([0, 1, 2, -1, p, p - 1, -p, rng.randrange(-p, 2 * p)]))
                elif rng.random() < 0.06:
                    other = ("bad", rng.choice([None, 1.5, "x", (1, 2)]))
                else:
                    other = ("el", rng.randrange(1 << 30))
                script.append(("bin", op, i, other))
            elif r < 0.65:
                script.append(("neg", rng.randrange(1 << 30)))
            elif r < 0.78:
                e = rng.choice([0, 1, 2, 3, 5, p, p - 1, p - 2, -1, rng.randrange(0, 2**20)])
                script.append(("pow", rng.randrange(1 << 30), e))
            elif r < 0.88:
                script.append(("inv", rng.randrange(1 << 30)))
            elif r < 0.94:
                script.append(("sgn0", rng.randrange(1 << 30)))
            else:
                script.append(("misc", rng.randrange(1 << 30), rng.choice(["repr", "int", "one", "zero"])))
        for impl in ("ref", "opt"):
            po, pn = pools[impl]
            fo, fn = fams[impl]
            for st in script:
                i = st[2] % len(po) if st[0] == "bin" else st[1] % len(po)
                xo, xn = po[i], pn[i]
                if st[0] == "bin":
                    _, op, _, other = st
                    if other[0] == "el":
                        j = other[1] % len(po)
                        yo, yn = po[j], pn[j]
                    else:
                        yo = yn = other[1]
                    ro, rn = same((name, impl, kind, st), apply_op, (op, xo, yo), apply_op, (op, xn, yn))
                elif st[0] == "neg":
                    ro, rn = same((name, impl, kind, st), lambda v: -v, (xo,), lambda v: -v, (xn,))
                elif st[0] == "pow":
                    ro, rn = same((name, impl, kind, st), lambda v, e: v**e, (xo, st[2]),
                                  lambda v, e: v**e, (xn, st[2]))
                elif st[0] == "inv":
                    if kind == "FQ":
                        ro, rn = same((name, impl, kind, st), lambda v: 1 / v, (xo,), lambda v: 1 / v, (xn,))
                    else:
                        ro, rn = same((name, impl, kind, st), lambda v: v.inv(), (xo,), lambda v: v.inv(), (xn,))
                elif st[0] == "sgn0":
                    ro, rn = same((name, impl, kind, st), lambda v: v.sgn0, (xo,), lambda v: v.sgn0, (xn,))
                    if impl == "opt":
                        assert rn == ("ok", sgn0_rfc(coeff_of(xn))), (name, kind, coeff_of(xn), rn)
                        # cached_property: a second read gives the same value
                        assert xn.sgn0 == rn[1] and xo.sgn0 == ro[1]
                    continue
                else:
                    what = st[2]
                    if what == "repr":
                        ro, rn = same((name, impl, kind, st), repr, (xo,), repr, (xn,))
                    elif what == "int":
                        ro, rn = same((name, impl, kind, st), int, (xo,), int, (xn,))
                    else:
                        ro, rn = same((name, impl, kind, st), getattr(type(xo), what), (),
                                      getattr(type(xn), what), ())
                if ro[0] == "ok" and not isinstance(ro[1], (bool, int, str)) and ro[1] is not NotImplemented:
                    po.append(ro[1])
                    pn.append(rn[1])
            # inputs were not mutated: the start elements still hold the start values
            for s, eo, en in zip(starts, po, pn):
                want = tuple(x % p for x in (s if isinstance(s, list) else [s]))
                assert coeff_of(eo) == want and coeff_of(en) == want, (name, impl, kind)
        # the property itself (edited tree): optimized == reference, element by element
        ro_, rn_ = pools["ref"][1], pools["opt"][1]
        if kind in genuine:
            assert len(ro_) == len(rn_), (name, kind, "opt-vs-ref pool")
            for a, b in zip(ro_, rn_):
                assert coeff_of(a) == coeff_of(b), (name, kind, "opt-vs-ref")


for name, p, fq12_mc, fq2_mc in FIELDS:
    big = p > 2**100
    if name in ("bn128", "bls12_381"):
        genuine = ("FQ", "FQ2", "FQ12")
    elif "reducible" in name:
        genuine = ("FQ",)
    else:
        genuine = ("FQ", "FQ2")
    run_programs(name, p, fq12_mc, fq2_mc, steps=70 if big else 160, big=big, genuine=genuine)

# generic FQP with other moduli / degrees, and the optimized polynomial division
for p, mc in [(7, (2, 0, 1)), (11, (3, 1, 0, 0)), (5, (2, 0, 0, 0, 1)), (P_BN, (3, 0, 0)), (13, (5,))]:
    d = len(mc)
    for omod, nmod in ((old_opt, new_opt), (old_ref, new_ref)):
        def cls(mod):
            base = mk(mod, "FQP", p)
            if mod in (old_opt, new_opt):
                base.mc_tuples = [(i, c) for i, c in enumerate(mc) if c]
            return base
        co, cn = cls(omod), cls(nmod)
        for _ in range(40):
            a = elem_values(p, d)
            b = elem_values(p, d)
            xo, xn, yo, yn = co(a, mc), cn(a, mc), co(b, mc), cn(b, mc)
            # results of a generic FQP cannot be rebuilt by type(self)(coeffs) (modulus
            # missing) -> the same exception class must come out of both
            for op in ("add", "sub", "mul", "div", "eq", "ne"):
                same(("fqp", p, mc, op), apply_op, (op, xo, yo), apply_op, (op, xn, yn))
            same(("fqp-inv", p, mc), lambda v: v.inv(), (xo,), lambda v: v.inv(), (xn,))
            if omod is old_opt:
                for aa, bb in ((a + [0], list(mc) + [1]), (list(mc) + [1], a + [0]), (a, b), ([0] * d, b), (a, [0] * d)):
                    same(("oprd", p, aa, bb), xo.optimized_poly_rounded_div, (aa, bb),
                         xn.optimized_poly_rounded_div, (aa, bb))
                same(("fqp-sgn0", p, a), lambda v: v.sgn0, (xo,), lambda v: v.sgn0, (xn,))
                assert xn.sgn0 == sgn0_rfc([x % p for x in a])

# constructor errors
for omod, nmod in ((old_opt, new_opt), (old_ref, new_ref)):
    for cname in ("FQ", "FQP", "FQ2", "FQ12"):
        for args in ((1,), ([1, 2],), ([1] * 12,), ([],), (None,), ("ab",), ([1, 2, 3],)):
            same(("ctor-nomod", cname, args), getattr(omod, cname), args, getattr(nmod, cname), args)
    fo, fn = family(omod, 7, small_fq12(7)), family(nmod, 7, small_fq12(7))
    for cname in ("FQ", "FQ2", "FQ12"):
        for args in ((1,), ([1, 2],), ([1] * 12,), ([],), (None,), ("ab",), ([1, 2, 3],), (1.5,),
                     ([fo["FQ"](3), fo["FQ"](4)],)):
            a_new = args
            if args and isinstance(args[0], list) and args[0] and hasattr(args[0][0], "n"):
                a_new = ([fn["FQ"](3), fn["FQ"](4)],)
            same(("ctor", cname, args), fo[cname], args, fn[cname], a_new)

# the library's own classes (built on the edited modules) against pristine-built ones
import py_ecc.fields as F  # noqa: E402

for cur, p, mc12 in (("bn128", P_BN, FQ12_BN), ("bls12_381", P_BLS, FQ12_BLS)):
    fo_ref, fo_opt = family(old_ref, p, mc12), family(old_opt, p, mc12)
    for kind, d in (("FQ", 1), ("FQ2", 2), ("FQ12", 12)):
        lib_ref = getattr(F, f"{cur}_{kind}")
        lib_opt = getattr(F, f"optimized_{cur}_{kind}")
        for _ in range(6):
            a, b = elem_values(p, d), elem_values(p, d)
            if kind == "FQ":
                a, b = a[0], b[0]
            for lib, fo in ((lib_ref, fo_ref[kind]), (lib_opt, fo_opt[kind])):
                for op in ("add", "sub", "mul", "div", "eq"):
                    same(("lib", cur, kind, op), apply_op, (op, fo(a), fo(b)), apply_op, (op, lib(a), lib(b)))
                same(("lib", cur, kind, "pow"), lambda v: v ** (p - 2), (fo(a),), lambda v: v ** (p - 2), (lib(a),))
                same(("lib", cur, kind, "neg"), lambda v: -v, (fo(a),), lambda v: -v, (lib(a),))

print(f"equiv s1: OK ({checks} paired checks)")
