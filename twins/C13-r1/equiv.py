import os, sys; sys.path.insert(0, os.getcwd())  # noqa: E401,E702

"""
Equivalence demonstration for refactoring r1 (C13).

Compares add() (and multiply(), which is built on add()) of the refactored
py_ecc.optimized_bn128.optimized_curve / py_ecc.optimized_bls12_381.optimized_curve
(imported from the current working directory) against the pristine copies kept in
/tmp/twin/C13/r1/pristine/, on: curve points in random projective scalings over
FQ / FQ2 / FQ12, all representatives of infinity, doubling-through-add, inverse
points, y == 0 points, off-curve triples, an exhaustive sweep over tiny prime
fields, and malformed operands (wrong arity, None, ints, mixed fields).
Results must be equal coordinate-wise with equal types, object identity of the
returned operand must be preserved, and exception classes must agree.
"""

import importlib.util
import itertools
import random

HERE = os.path.dirname(os.path.abspath(__file__))


def load(name, fname):
    spec = importlib.util.spec_from_file_location(
        name, os.path.join(HERE, "pristine", fname)
    )
    mod = importlib.util.module_from_spec(spec)
    spec.loader.exec_module(mod)
    return mod


import py_ecc.optimized_bn128.optimized_curve as new_bn  # noqa: E402
import py_ecc.optimized_bls12_381.optimized_curve as new_bls  # noqa: E402

assert os.path.realpath(new_bn.__file__).startswith(os.path.realpath(os.getcwd()))
old_bn = load("pristine_bn128_optimized_curve", "bn128_optimized_curve.py")
old_bls = load("pristine_bls12_381_optimized_curve", "bls12_381_optimized_curve.py")

rng = random.Random(0xC13)
checked = 0


def outcome(fn, *args):
    try:
        return ("ok", fn(*args))
    except RecursionError:
        raise
    except Exception as e:  # noqa: BLE001
        return ("exc", type(e))


def same_value(a, b):
    if type(a) is not type(b):
        return False
    if isinstance(a, tuple):
        return len(a) == len(b) and all(same_value(x, y) for x, y in zip(a, b))
    r = a == b
    return bool(r)


def compare(old_fn, new_fn, args, label):
    global checked
    o = outcome(old_fn, *args)
    n = outcome(new_fn, *args)
    checked += 1
    if o[0] != n[0]:
        raise SystemExit(f"MISMATCH kind {label}: {args!r}: {o!r} vs {n!r}")
    if o[0] == "exc":
        if o[1] is not n[1]:
            raise SystemExit(f"MISMATCH exception {label}: {args!r}: {o!r} vs {n!r}")
        return
    if not same_value(o[1], n[1]):
        raise SystemExit(f"MISMATCH value {label}: {args!r}: {o!r} vs {n!r}")
    # identity of a returned operand must be preserved
    for a in args:
        if (o[1] is a) != (n[1] is a):
            raise SystemExit(f"MISMATCH identity {label}: {args!r}")


def rand_elem(F, modulus):
    if hasattr(F, "degree") and F.degree:
        return F([rng.randrange(modulus) for _ in range(F.degree)])
    return F(rng.randrange(modulus))


def nonzero_elem(F, modulus):
    while True:
        e = rand_elem(F, modulus)
        if e != F.zero():
            return e


def scale(pt, lam):
    return tuple(c * lam for c in pt)


def run_curve(old, new, tag):
    modulus = new.field_modulus
    FQ, FQ2, FQ12 = new.FQ, new.FQ2, new.FQ12
    groups = [
        (FQ, new.G1, new.b, 8),
        (FQ2, new.G2, new.b2, 6),
        (FQ12, new.G12, new.b12, 2),
    ]
    for F, G, _b, npts in groups:
        name = f"{tag}/{F.__name__}"
        # points on the curve, generated with the pristine implementation
        pts = [G]
        for _ in range(npts):
            pts.append(old.multiply(G, rng.randrange(2, 2**32)))
        infs = [
            (F.one(), F.one(), F.zero()),
            (F.zero(), F.zero(), F.zero()),
            (F.zero(), F.one(), F.zero()),
            (rand_elem(F, modulus), rand_elem(F, modulus), F.zero()),
        ]
        # a few off-curve / degenerate triples
        junk = [
            tuple(rand_elem(F, modulus) for _ in range(3)),
            (F.zero(), rand_elem(F, modulus), nonzero_elem(F, modulus)),
            (rand_elem(F, modulus), F.zero(), nonzero_elem(F, modulus)),  # y == 0
            (F.zero(), F.zero(), F.one()),
        ]
        ops = []
        for p in pts + junk:
            ops.append(p)
            ops.append(scale(p, nonzero_elem(F, modulus)))
        ops += infs
        # all ordered pairs: generic addition, identity operands, same point
        for p, q in itertools.product(ops, repeat=2):
            compare(old.add, new.add, (p, q), name + "/add")
        # doubling reached through add / inverse points with independent scalings
        for p in pts + junk:
            for _ in range(3):
                l1, l2 = nonzero_elem(F, modulus), nonzero_elem(F, modulus)
                compare(old.add, new.add, (scale(p, l1), scale(p, l2)), name + "/dbl")
                compare(
                    old.add,
                    new.add,
                    (scale(p, l1), scale(new.neg(p), l2)),
                    name + "/inv",
                )
                compare(old.add, new.add, (p, p), name + "/same-object")
        # multiply is a fold over add/double
        for n in [0, 1, 2, 3, 5, 8, 255, rng.randrange(2**64), new.curve_order]:
            if F is FQ12 and n > 2**16:
                continue
            compare(old.multiply, new.multiply, (pts[1], n), name + "/multiply")
            compare(old.multiply, new.multiply, (infs[1], n), name + "/multiply-inf")

    # malformed operands
    g1, g2 = new.G1, new.G2
    z1 = new.Z1
    bad = [
        (g1[0], g1[1]),  # arity 2
        g1 + (FQ.one(),),  # arity 4
        (),
        None,
        (None, None, None),
        (g1[0], g1[1], None),
        (None, g1[1], g1[2]),
        (1, 2, 1),  # plain ints
        (1, 2, 0),
        (g1[0], g1[1], 0),
        (g1[0], g1[1], 1),
        (g1[0], "y", g1[2]),
        "abc",
        [g1[0], g1[1], g1[2]],  # list instead of tuple
        (FQ.one(), FQ.one(), FQ2.zero()),
    ]
    good = [g1, z1, (FQ.zero(),) * 3, g2, new.Z2, scale(g1, FQ(7))]
    for a in bad:
        for c in good + bad:
            compare(old.add, new.add, (a, c), tag + "/malformed")
            compare(old.add, new.add, (c, a), tag + "/malformed")
    # mixed-field operands
    for a, c in itertools.permutations(good, 2):
        compare(old.add, new.add, (a, c), tag + "/mixed")


class GF:
    """Tiny prime field with the one()/zero() interface used by the curve code."""

    p = 5

    def __init__(self, n):
        self.n = n % self.p

    @classmethod
    def one(cls):
        return cls(1)

    @classmethod
    def zero(cls):
        return cls(0)

    def _v(self, o):
        if isinstance(o, GF):
            if type(o) is not type(self):
                raise TypeError("mixed fields")
            return o.n
        if isinstance(o, int):
            return o
        raise TypeError("bad operand")

    def __add__(self, o):
        return type(self)(self.n + self._v(o))

    __radd__ = __add__

    def __sub__(self, o):
        return type(self)(self.n - self._v(o))

    def __rsub__(self, o):
        return type(self)(self._v(o) - self.n)

    def __mul__(self, o):
        return type(self)(self.n * self._v(o))

    __rmul__ = __mul__

    def __neg__(self):
        return type(self)(-self.n)

    def __pow__(self, e):
        return type(self)(pow(self.n, e, self.p))

    def __eq__(self, o):
        return self.n == self._v(o) % self.p

    def __ne__(self, o):
        return not self == o

    def __repr__(self):
        return f"GF{self.p}({self.n})"


class GF7(GF):
    p = 7


class GF11(GF):
    p = 11


def run_tiny(old, new, tag):
    # every pair of coordinate triples over GF(5): all control paths of add,
    # every representative of infinity, every scaling
    for cls, exhaustive in ((GF, True), (GF7, False), (GF11, False)):
        elems = [cls(i) for i in range(cls.p)]
        triples = list(itertools.product(elems, repeat=3))
        if exhaustive:
            pairs = itertools.product(triples, repeat=2)
        else:
            pairs = (
                (rng.choice(triples), rng.choice(triples)) for _ in range(15000)
            )
        for p, q in pairs:
            compare(old.add, new.add, (p, q), f"{tag}/{cls.__name__}")
        # scalings of the same triple (doubling path) and of its negative
        for p in triples:
            lam = cls(rng.randrange(1, cls.p))
            compare(old.add, new.add, (p, scale(p, lam)), f"{tag}/{cls.__name__}/dbl")
            compare(
                old.add,
                new.add,
                (p, scale(new.neg(p), lam)),
                f"{tag}/{cls.__name__}/inv",
            )


run_curve(old_bn, new_bn, "bn128")
run_curve(old_bls, new_bls, "bls12_381")
run_tiny(old_bn, new_bn, "bn128-tiny")
run_tiny(old_bls, new_bls, "bls12_381-tiny")
print(f"r1 equivalence OK: {checked} comparisons")
