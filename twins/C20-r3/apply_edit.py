import os, sys; sys.path.insert(0, os.getcwd())  # noqa: E401,E702

# Applies refactoring r3 to py_ecc/bls/ciphersuites.py of the tree in the current
# directory (the same change as patch.diff; kept for reference).
p = "py_ecc/bls/ciphersuites.py"
s = open(p).read()


def sub(old, new):
    global s
    assert s.count(old) == 1, old
    s = s.replace(old, new)


sub(
    '''    abstractmethod,
)
from hashlib import (
''',
    '''    abstractmethod,
)
from functools import (
    reduce,
)
from hashlib import (
''',
)
sub(
    '''

class BaseG2Ciphersuite(ABC):
''',
    '''
# Initial salt of KeyGen; an immutable byte string, re-hashed into a new value per round
KEYGEN_SALT = b"BLS-SIG-KEYGEN-SALT-"


class BaseG2Ciphersuite(ABC):
''',
)
sub(
    "return isinstance(privkey, int) and privkey > 0 and privkey < curve_order",
    "return isinstance(privkey, int) and 0 < privkey < curve_order",
)
sub('        salt = b"BLS-SIG-KEYGEN-SALT-"\n', "        salt = KEYGEN_SALT\n")
sub(
    '''        if is_inf(pubkey_point):
            return False

        if not subgroup_check(pubkey_point):
            return False

        return True
''',
    '''        # Valid iff the point is not the identity and lies in the prime-order subgroup
        return not is_inf(pubkey_point) and subgroup_check(pubkey_point)
''',
)
sub(
    '''        # Procedure
        aggregate = Z2  # Seed with the point at infinity
        for signature in signatures:
            signature_point = signature_to_G2(signature)
            aggregate = add(aggregate, signature_point)
        return G2_to_signature(aggregate)
''',
    '''        # Procedure: fold the decoded points, seeded with the point at infinity
        aggregate = reduce(add, map(signature_to_G2, signatures), Z2)
        return G2_to_signature(aggregate)
''',
)
sub(
    "            if not len(PKs) == len(messages):\n",
    "            if len(PKs) != len(messages):\n",
)
sub(
    '''                aggregate *= pairing(
                    message_point, pubkey_point, final_exponentiate=False
                )
            aggregate *= pairing(signature_point, neg(G1), final_exponentiate=False)
            return final_exponentiate(aggregate) == FQ12.one()
''',
    '''                aggregate = aggregate * pairing(
                    message_point, pubkey_point, final_exponentiate=False
                )
            signature_term = pairing(signature_point, neg(G1), final_exponentiate=False)
            return final_exponentiate(aggregate * signature_term) == FQ12.one()
''',
)
sub(
    '''        aggregate = Z1  # Seed with the point at infinity
        for pk in PKs:
            pubkey_point = pubkey_to_G1(pk)
            aggregate = add(aggregate, pubkey_point)
        return G1_to_pubkey(aggregate)
''',
    '''        # Fold the decoded points, seeded with the point at infinity
        aggregate = reduce(add, map(pubkey_to_G1, PKs), Z1)
        return G1_to_pubkey(aggregate)
''',
)
open(p, "w").write(s)
print("r3 edit applied")
