import os, sys; sys.path.insert(0, os.getcwd())  # noqa: E401,E702

"""
Equivalence demonstration for refactoring r3 (property C20).

The pristine py_ecc/bls/ciphersuites.py (saved next to this script) is loaded as a
sibling module inside the py_ecc.bls package; the refactored one comes from the working
tree.  The same scenario of BLS API calls (valid, boundary and malformed arguments) is
run against both versions, in interleaved and reordered histories, and results,
exception classes, argument snapshots and module/class constants are compared.
"""

import importlib
import importlib.util
import time

T0 = time.time()
HERE = os.path.dirname(os.path.abspath(__file__))
PRISTINE = os.path.join(HERE, "pristine", "ciphersuites.py")

import py_ecc.bls  # noqa: E402,F401

NEW = importlib.import_module("py_ecc.bls.ciphersuites")
assert os.path.abspath(NEW.__file__).startswith(os.getcwd()), NEW.__file__
with open(NEW.__file__) as fh_new, open(PRISTINE) as fh_old:
    assert fh_new.read() != fh_old.read(), "working tree is not refactored"

OLD_NAME = "py_ecc.bls._pristine_ciphersuites"
spec = importlib.util.spec_from_file_location(OLD_NAME, PRISTINE)
OLD = importlib.util.module_from_spec(spec)
sys.modules[OLD_NAME] = OLD
spec.loader.exec_module(OLD)

import py_ecc.optimized_bls12_381.optimized_curve as curve  # noqa: E402
from py_ecc.bls.g2_primitives import G1_to_pubkey, G2_to_signature  # noqa: E402
from py_ecc.optimized_bls12_381 import G1, G2, Z1, Z2, curve_order  # noqa: E402

SUITES = ("G2Basic", "G2MessageAugmentation", "G2ProofOfPossession")


def norm(v):
    if hasattr(v, "coeffs"):
        return (type(v).__name__, tuple(int(c) for c in v.coeffs))
    if hasattr(v, "n") and hasattr(v, "field_modulus"):
        return (type(v).__name__, v.n)
    if isinstance(v, (list, tuple)):
        return (type(v).__name__,) + tuple(norm(x) for x in v)
    if isinstance(v, (bool, int, str, bytes, float, bytearray)) or v is None:
        # eth_typing's BLSPubkey/BLSSignature are NewTypes of bytes
        return (type(v).__name__, bytes(v) if isinstance(v, bytearray) else v)
    return ("OBJ", type(v).__name__)


def attempt(f):
    try:
        return ("OK", norm(f()))
    except BaseException as e:  # noqa: BLE001
        return ("EXC", type(e).__name__)


def constants_snapshot(mod):
    out = [norm([G1, G2, Z1, Z2, curve.b, curve.b2, curve.b12, curve.w, curve_order])]
    out.append([(id(x), id(getattr(x, "coeffs", None))) for x in Z1 + Z2 + G1 + G2])
    for s in SUITES + ("BaseG2Ciphersuite",):
        c = getattr(mod, s)
        out.append((s, c.DST, getattr(c, "POP_TAG", None), c.xmd_hash_function.__name__))
    return out


def main():
    # public surface of the module is unchanged (new names are private or constants)
    pub_old = {n for n in vars(OLD) if not n.startswith("_")}
    pub_new = {n for n in vars(NEW) if not n.startswith("_")}
    assert pub_old <= pub_new, pub_old - pub_new
    print("names added by the refactoring:", sorted(pub_new - pub_old))
    for s in SUITES:
        assert getattr(OLD, s).DST == getattr(NEW, s).DST
        assert sorted(vars(getattr(OLD, s))) == sorted(vars(getattr(NEW, s)))
    assert sorted(vars(OLD.BaseG2Ciphersuite)) == sorted(vars(NEW.BaseG2Ciphersuite))

    P = OLD.G2ProofOfPossession
    sks = [1, 2, 42, curve_order - 1]
    pks = [P.SkToPk(sk) for sk in sks]
    msgs = [b"", b"\x00", b"message one", b"\xff" * 70]
    sigs_basic = [OLD.G2Basic.Sign(sk, m) for sk, m in zip(sks, msgs)]
    sigs_aug = [OLD.G2MessageAugmentation.Sign(sk, m) for sk, m in zip(sks, msgs)]
    sigs_same = [P.Sign(sk, msgs[2]) for sk in sks[:3]]
    proofs = [P.PopProve(sk) for sk in sks[:2]]
    inf_pk = G1_to_pubkey(Z1)
    inf_sig = G2_to_signature(Z2)
    bad_pk = b"\x8f" + b"\x11" * 47        # x not on the curve / not in subgroup
    bad_sig = b"\x8f" + b"\x22" * 95
    print(f"setup done at {time.time() - T0:.1f}s")

    calls = []  # (label, suite or None, method, args)

    def add(label, suite, method, *args):
        calls.append((label, suite, method, args))

    for s in SUITES:
        # private-key validation boundaries
        for sk in (0, 1, -1, curve_order, curve_order - 1, curve_order + 1, True, False,
                   2 ** 255, 1.0, "1", None, b"\x01"):
            add(f"{s}.SkToPk({sk!r})", s, "SkToPk", sk)
            add(f"{s}._is_valid_privkey({sk!r})", s, "_is_valid_privkey", sk)
        for sk in (0, curve_order, "x"):
            add(f"{s}.Sign(bad sk {sk!r})", s, "Sign", sk, b"m")
        add(f"{s}.Sign(str msg)", s, "Sign", 5, "not bytes")
        add(f"{s}.Sign(None msg)", s, "Sign", 5, None)
        add(f"{s}.Sign(ok)", s, "Sign", 42, msgs[2])
        # KeyGen: determinism, key_info, malformed IKM
        add(f"{s}.KeyGen(32)", s, "KeyGen", b"\x07" * 32)
        add(f"{s}.KeyGen(info)", s, "KeyGen", b"\x07" * 32, b"info")
        add(f"{s}.KeyGen(empty)", s, "KeyGen", b"")
        add(f"{s}.KeyGen(str)", s, "KeyGen", "ikm")
        add(f"{s}.KeyGen(None)", s, "KeyGen", None)
        add(f"{s}.KeyGen(bytearray)", s, "KeyGen", bytearray(b"\x01" * 32))
        # KeyValidate
        for i, pk in enumerate([pks[0], pks[3], inf_pk, bad_pk, pks[0] + b"\x00",
                                pks[0][:47], b"", b"\x00" * 48, b"\xc0" + b"\x01" * 47,
                                "s" * 48, None, 5, bytearray(pks[0]), list(pks[0])]):
            add(f"{s}.KeyValidate[{i}]", s, "KeyValidate", pk)
        # Aggregate
        add(f"{s}.Aggregate([])", s, "Aggregate", [])
        add(f"{s}.Aggregate(1)", s, "Aggregate", sigs_basic[:1])
        add(f"{s}.Aggregate(3)", s, "Aggregate", sigs_basic[:3])
        add(f"{s}.Aggregate(tuple)", s, "Aggregate", tuple(sigs_basic[1:]))
        add(f"{s}.Aggregate(inf)", s, "Aggregate", [inf_sig, sigs_basic[0], inf_sig])
        add(f"{s}.Aggregate(s,-s)", s, "Aggregate", [inf_sig, inf_sig])
        add(f"{s}.Aggregate(short)", s, "Aggregate", [sigs_basic[0], sigs_basic[1][:95]])
        add(f"{s}.Aggregate(badpoint)", s, "Aggregate", [sigs_basic[0], bad_sig])
        add(f"{s}.Aggregate(badfirst)", s, "Aggregate", [bad_sig, sigs_basic[1][:5]])
        add(f"{s}.Aggregate(str)", s, "Aggregate", ["x" * 96])
        add(f"{s}.Aggregate(None)", s, "Aggregate", None)
        add(f"{s}.Aggregate(int)", s, "Aggregate", 7)
        add(f"{s}.Aggregate(gen)", s, "Aggregate", (x for x in sigs_basic))
        # Verify: good, wrong message, wrong key, malformed
        sig0 = {"G2Basic": sigs_basic, "G2MessageAugmentation": sigs_aug,
                "G2ProofOfPossession": sigs_basic}[s]
        add(f"{s}.Verify(ok)", s, "Verify", pks[0], msgs[0], sig0[0])
        add(f"{s}.Verify(wrong msg)", s, "Verify", pks[0], msgs[1], sig0[0])
        add(f"{s}.Verify(inf pk)", s, "Verify", inf_pk, msgs[0], inf_sig)
        add(f"{s}.Verify(bad sig)", s, "Verify", pks[0], msgs[0], bad_sig)
        add(f"{s}.Verify(short sig)", s, "Verify", pks[0], msgs[0], sig0[0][:95])
        add(f"{s}.Verify(long pk)", s, "Verify", pks[0] + b"\x00", msgs[0], sig0[0])
        add(f"{s}.Verify(str msg)", s, "Verify", pks[0], "m", sig0[0])
        add(f"{s}.Verify(None)", s, "Verify", None, None, None)
        # AggregateVerify
        agg2 = OLD.G2Basic.Aggregate(sig0[:2])
        add(f"{s}.AggregateVerify(ok2)", s, "AggregateVerify", pks[:2], msgs[:2], agg2)
        add(f"{s}.AggregateVerify(swapped)", s, "AggregateVerify",
            [pks[1], pks[0]], msgs[:2], agg2)
        add(f"{s}.AggregateVerify(len mismatch)", s, "AggregateVerify",
            pks[:2], msgs[:1], agg2)
        add(f"{s}.AggregateVerify(len mismatch 2)", s, "AggregateVerify",
            pks[:1], msgs[:2], agg2)
        add(f"{s}.AggregateVerify(empty)", s, "AggregateVerify", [], [], agg2)
        add(f"{s}.AggregateVerify(dup msgs)", s, "AggregateVerify",
            pks[:2], [msgs[0], msgs[0]], agg2)
        add(f"{s}.AggregateVerify(inf pk)", s, "AggregateVerify",
            [pks[0], inf_pk], msgs[:2], agg2)
        add(f"{s}.AggregateVerify(bad pk)", s, "AggregateVerify",
            [pks[0], bad_pk], msgs[:2], agg2)
        add(f"{s}.AggregateVerify(bad msg type)", s, "AggregateVerify",
            pks[:2], [msgs[0], "x"], agg2)
        add(f"{s}.AggregateVerify(bad sig)", s, "AggregateVerify",
            pks[:2], msgs[:2], bad_sig)
        add(f"{s}.AggregateVerify(short sig)", s, "AggregateVerify",
            pks[:2], msgs[:2], agg2[:10])
        add(f"{s}.AggregateVerify(tuples)", s, "AggregateVerify",
            tuple(pks[:1]), tuple(msgs[:1]), sig0[0])
        add(f"{s}.AggregateVerify(None)", s, "AggregateVerify", None, None, None)
        add(f"{s}.AggregateVerify(unhashable)", s, "AggregateVerify",
            pks[:1], [[1, 2]], agg2)

    s = "G2ProofOfPossession"
    add("PopProve(1)", s, "PopProve", 1)
    add("PopProve(0)", s, "PopProve", 0)
    add("PopVerify(ok)", s, "PopVerify", pks[0], proofs[0])
    add("PopVerify(wrong)", s, "PopVerify", pks[1], proofs[0])
    add("PopVerify(inf)", s, "PopVerify", inf_pk, inf_sig)
    add("_AggregatePKs([])", s, "_AggregatePKs", [])
    add("_AggregatePKs(1)", s, "_AggregatePKs", pks[:1])
    add("_AggregatePKs(4)", s, "_AggregatePKs", pks)
    add("_AggregatePKs(inf)", s, "_AggregatePKs", [inf_pk, pks[0], inf_pk])
    add("_AggregatePKs(inf only)", s, "_AggregatePKs", [inf_pk])
    add("_AggregatePKs(bad)", s, "_AggregatePKs", [pks[0], bad_pk])
    add("_AggregatePKs(short)", s, "_AggregatePKs", [pks[0][:40], bad_pk])
    add("_AggregatePKs(None)", s, "_AggregatePKs", None)
    add("_AggregatePKs(str)", s, "_AggregatePKs", ["a" * 48])
    add("_AggregatePKs(gen)", s, "_AggregatePKs", (x for x in pks[:2]))
    agg_same = P.Aggregate(sigs_same)
    add("FastAggregateVerify(ok)", s, "FastAggregateVerify", pks[:3], msgs[2], agg_same)
    add("FastAggregateVerify(missing)", s, "FastAggregateVerify", pks[:2], msgs[2],
        agg_same)
    add("FastAggregateVerify(empty)", s, "FastAggregateVerify", [], msgs[2], agg_same)
    add("FastAggregateVerify(inf pk)", s, "FastAggregateVerify", [pks[0], inf_pk],
        msgs[2], agg_same)
    add("FastAggregateVerify(bad sig)", s, "FastAggregateVerify", pks[:3], msgs[2], bad_sig)
    add("FastAggregateVerify(None)", s, "FastAggregateVerify", None, msgs[2], agg_same)
    add("_is_valid_pubkey(ok)", s, "_is_valid_pubkey", pks[2])
    add("_is_valid_pubkey(inf)", s, "_is_valid_pubkey", inf_pk)


    gen_labels = {c[0] for c in calls if any(
        type(a).__name__ == "generator" for a in c[3])}

    def run(mod, label, suite, method, args):
        if label in gen_labels:
            src = sigs_basic if "Aggregate(gen)" in label else pks[:2]
            args = ((x for x in src),)
        before = norm(list(args)) if label not in gen_labels else None
        fn = getattr(getattr(mod, suite), method)
        res = attempt(lambda: fn(*args))
        pure = label in gen_labels or norm(list(args)) == before
        return res, pure

    snap_old, snap_new = constants_snapshot(OLD), constants_snapshot(NEW)
    res_old, res_new, impure = {}, {}, []
    # history 1: interleave the two versions call by call
    for i, (label, suite, method, args) in enumerate(calls):
        first, second = (OLD, NEW) if i % 2 else (NEW, OLD)
        for mod in (first, second):
            r, pure = run(mod, label, suite, method, args)
            (res_old if mod is OLD else res_new)[label] = r
            if not pure:
                impure.append((mod.__name__, label))
    assert constants_snapshot(OLD) == snap_old and constants_snapshot(NEW) == snap_new
    print(f"history 1 done at {time.time() - T0:.1f}s")

    diff = [k for k in res_old if res_old[k] != res_new[k]]
    # history 2: refactored version only, reversed order, cheap calls (no pairings)
    cheap = [c for c in calls if c[2] in (
        "SkToPk", "_is_valid_privkey", "KeyGen", "Aggregate", "_AggregatePKs",
        "KeyValidate")]
    for label, suite, method, args in reversed(cheap):
        r, pure = run(NEW, label, suite, method, args)
        if r != res_old[label]:
            diff.append("history2:" + label)
        if not pure:
            impure.append(("history2", label))
    assert constants_snapshot(OLD) == snap_old and constants_snapshot(NEW) == snap_new

    n_exc = sum(1 for v in res_old.values() if v[0] == "EXC")
    kinds = sorted({v[1] for v in res_old.values() if v[0] == "EXC"})
    n_true = sum(1 for v in res_old.values() if v == ("OK", ("bool", True)))
    print(f"{len(res_old)} calls compared; {n_exc} raise {kinds}; {n_true} return True")
    print("differences:", diff, "impure:", impure)
    assert not diff and not impure
    # sanity: the scenario exercises accepting paths as well
    assert res_new["G2Basic.Verify(ok)"] == ("OK", ("bool", True))
    assert res_new["G2Basic.AggregateVerify(ok2)"] == ("OK", ("bool", True))
    assert res_new["FastAggregateVerify(ok)"] == ("OK", ("bool", True))
    assert res_new["G2ProofOfPossession._is_valid_privkey(True)"] == ("OK", ("bool", True))
    print(f"r3 equivalence: OK ({time.time() - T0:.1f}s)")


if __name__ == "__main__":
    main()
