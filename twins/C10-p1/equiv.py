import os, sys; sys.path.insert(0, os.getcwd())  # noqa: E702

"""
Equivalence demonstration for C10/p1.

Edited module : py_ecc/optimized_bls12_381/optimized_swu.py (current worktree)
Pristine copy : /tmp/twin2/C10/p1/pristine/optimized_swu.py

The pristine file is loaded under another module name inside the same package
(so that its relative imports resolve to the same constants / field classes)
and every public function of both versions is compared on boundary, random and
malformed inputs, plus the full hash_to_G1 / hash_to_G2 pipelines.
"""

import hashlib
import importlib.util
import random

HERE = os.path.dirname(os.path.abspath(__file__))

import py_ecc.optimized_bls12_381 as pkg  # noqa: E402
from py_ecc.optimized_bls12_381 import optimized_swu as new  # noqa: E402
from py_ecc.fields import (  # noqa: E402
    optimized_bls12_381_FQ as FQ,
    optimized_bls12_381_FQ2 as FQ2,
    optimized_bls12_381_FQ12 as FQ12,
    optimized_bn128_FQ2 as BN_FQ2,
)
from py_ecc.optimized_bls12_381 import (  # noqa: E402
    b,
    b2,
    curve_order,
    field_modulus as p,
    is_inf,
    is_on_curve,
    multiply,
    normalize,
)
from py_ecc.optimized_bls12_381.constants import ISO_11_Z  # noqa: E402

assert os.path.realpath(new.__file__).startswith(os.path.realpath(os.getcwd())), (
    "edited module must come from the worktree",
    new.__file__,
)


def load(name, path, package):
    spec = importlib.util.spec_from_file_location(name, path)
    mod = importlib.util.module_from_spec(spec)
    mod.__package__ = package
    sys.modules[name] = mod
    spec.loader.exec_module(mod)
    return mod


old = load(
    "py_ecc.optimized_bls12_381.optimized_swu_pristine",
    os.path.join(HERE, "pristine", "optimized_swu.py"),
    "py_ecc.optimized_bls12_381",
)
assert old is not new and old.optimized_swu_G2 is not new.optimized_swu_G2

# A pristine pipeline: the worktree's hash_to_curve.py (untouched by this edit)
# loaded a second time and wired to the pristine SWU / isogeny functions.
import py_ecc.bls.hash_to_curve as h2c_new  # noqa: E402

h2c_old = load(
    "py_ecc.bls.hash_to_curve_pristine_swu",
    os.path.join(os.getcwd(), "py_ecc", "bls", "hash_to_curve.py"),
    "py_ecc.bls",
)
for fname in ("optimized_swu_G1", "optimized_swu_G2", "iso_map_G1", "iso_map_G2"):
    assert getattr(h2c_new, fname) is getattr(new, fname)
    setattr(h2c_old, fname, getattr(old, fname))

rng = random.Random(0xC10)
checks = 0


def canon(x):
    """Type-and-value canonical form (so 3 and FQ(3) are NOT identified)."""
    if isinstance(x, (tuple, list)):
        return (type(x).__name__, tuple(canon(e) for e in x))
    if isinstance(x, FQ):
        return (type(x).__name__, x.n)
    if hasattr(x, "coeffs"):
        return (type(x).__name__, tuple(canon(c) for c in x.coeffs))
    return (type(x).__name__, x)


def outcome(f, *args):
    try:
        return ("ok", canon(f(*args)))
    except BaseException as e:  # noqa: B902
        return ("raise", type(e).__name__)


def same(fname, *args, mods=None):
    global checks
    mo, mn = mods or (old, new)
    snapshot = canon(args)
    a = outcome(getattr(mo, fname), *args)
    b_ = outcome(getattr(mn, fname), *args)
    assert a == b_, (fname, args, a, b_)
    assert canon(args) == snapshot, ("arguments mutated", fname)
    checks += 1
    return a


def rfq():
    return FQ(rng.randrange(p))


def rfq2():
    return FQ2([rng.randrange(p), rng.randrange(p)])


# ---------------------------------------------------------------- constants
const_before = canon(
    (
        old.ETAS,
        old.POSITIVE_EIGHTH_ROOTS_OF_UNITY,
        old.ISO_3_MAP_COEFFICIENTS,
        old.ISO_11_MAP_COEFFICIENTS,
    )
)
assert new.ETAS is old.ETAS

# ---------------------------------------------------------------- G1 inputs
# roots of Z^2 u^4 + Z u^2 = Z u^2 (Z u^2 + 1): u = 0 and u^2 = -1/Z.
# p = 3 mod 4 and Z = 11 is a non-square, so -1/Z is a square in Fp.
w = (FQ(-1) / ISO_11_Z)
r = w ** ((p + 1) // 4)
assert r * r == w
exc_g1 = [r, -r]
for e in exc_g1:
    t2 = e * e
    assert ISO_11_Z * ISO_11_Z * t2 * t2 + ISO_11_Z * t2 == FQ.zero()

g1_us = [
    FQ(0), FQ(1), FQ(-1), FQ(2), FQ(p - 2), FQ((p - 1) // 2), FQ((p + 1) // 2),
    FQ(11), FQ(p - 11),
] + exc_g1 + [rfq() for _ in range(150)]

# ---------------------------------------------------------------- G2 inputs
# In Fp2, -1 is a square and Z = -(2 + i) is not, so u = 0 is the only root.
halfm, halfp = (p - 1) // 2, (p + 1) // 2
g2_us = [
    FQ2([0, 0]), FQ2([1, 0]), FQ2([p - 1, 0]), FQ2([0, 1]), FQ2([0, p - 1]),
    FQ2([halfm, 0]), FQ2([halfp, 0]), FQ2([0, halfm]), FQ2([0, halfp]),
    FQ2([halfm, halfp]), FQ2([halfp, halfm]), FQ2([1, 1]), FQ2([p - 1, p - 1]),
    FQ2([2, 1]), FQ2([p - 2, p - 1]),
]
g2_us += [FQ2([rng.randrange(p), 0]) for _ in range(15)]
g2_us += [FQ2([0, rng.randrange(p)]) for _ in range(15)]
g2_us += [rfq2() for _ in range(120)]

n_square = n_nonsquare = 0
for u in g2_us:
    res = same("optimized_swu_G2", u)
    assert res[0] == "ok"
    # also feed the result through both isogenies
    x, y, z = old.optimized_swu_G2(u)
    same("iso_map_G2", x, y, z)
    # which branch did this exercise?
    t2 = u * u
    zt2 = old.ISO_3_Z * t2
    tmp = zt2 + zt2 * zt2
    den = -(old.ISO_3_A * tmp)
    if den == FQ2.zero():
        den = old.ISO_3_Z * old.ISO_3_A
    num = old.ISO_3_B * (tmp + FQ2.one())
    v_ = den**3
    u_ = num**3 + old.ISO_3_A * num * den**2 + old.ISO_3_B * v_
    ok, _ = old.sqrt_division_FQ2(u_, v_)
    n_square += ok
    n_nonsquare += not ok
assert n_square > 20 and n_nonsquare > 20, (n_square, n_nonsquare)

for u in g1_us:
    res = same("optimized_swu_G1", u)
    assert res[0] == "ok"
    x, y, z = old.optimized_swu_G1(u)
    same("iso_map_G1", x, y, z)

# ------------------------------------------------- sqrt_division_FQ2 directly
sq_cases = []
for _ in range(40):
    v = rfq2()
    s = rfq2()
    sq_cases.append((s * s * v, v))  # u / v is a square
    sq_cases.append((rfq2(), v))  # random
specials = [FQ2([0, 0]), FQ2([1, 0]), FQ2([0, 1]), FQ2([p - 1, 0]), FQ2([1, 1])]
for a in specials:
    for c in specials:
        sq_cases.append((a, c))
valid = 0
for (u, v) in sq_cases:
    res = same("sqrt_division_FQ2", u, v)
    assert res[0] == "ok"
    valid += res[1][1][0] == ("bool", True)
assert 40 <= valid < len(sq_cases)
for _ in range(30):
    same("sqrt_division_FQ", rfq(), rfq())
same("sqrt_division_FQ", FQ(0), FQ(0))
same("sqrt_division_FQ", FQ(0), FQ(1))
same("sqrt_division_FQ", FQ(1), FQ(0))

# --------------------------------------------------- iso_map_G1/G2 directly
fq_edge = [FQ(0), FQ(1), FQ(p - 1), FQ(2)]
for z in fq_edge + [rfq() for _ in range(10)]:
    for x in [FQ(0), FQ(1), rfq()]:
        same("iso_map_G1", x, rfq(), z)
        same("iso_map_G1", x, FQ(0), z)
fq2_edge = [FQ2([0, 0]), FQ2([1, 0]), FQ2([0, 1]), FQ2([p - 1, p - 1])]
for z in fq2_edge + [rfq2() for _ in range(10)]:
    for x in [FQ2([0, 0]), FQ2([1, 0]), rfq2()]:
        same("iso_map_G2", x, rfq2(), z)

# --------------------------------------------------------- malformed inputs
bad = [
    0, 1, -1, 5, p, p + 3, True, None, 1.5, "1", b"\x01", (1, 2), [1, 2],
    FQ12([1] + [0] * 11), BN_FQ2([3, 4]),
]
for v in bad:
    same("optimized_swu_G1", v)
    same("optimized_swu_G2", v)
    same("iso_map_G1", v, FQ(1), FQ(1))
    same("iso_map_G1", FQ(1), FQ(1), v)
    same("iso_map_G1", FQ(1), v, FQ(1))
    same("iso_map_G2", FQ2([1, 2]), FQ2([1, 0]), v)
    same("iso_map_G2", v, FQ2([1, 0]), FQ2([1, 2]))
    same("sqrt_division_FQ2", FQ2([3, 4]), v)
# wrong field class for the group
same("optimized_swu_G1", FQ2([1, 2]))
same("optimized_swu_G2", FQ(7))
same("iso_map_G1", FQ(3), FQ(4), FQ2([1, 2]))
same("iso_map_G1", FQ2([1, 2]), FQ(4), FQ(5))
same("iso_map_G1", 3, 4, 5)
same("iso_map_G1", 3, 4, 0)
same("iso_map_G2", FQ(3), FQ(4), FQ(5))
# FQ2 whose coefficients are FQ objects rather than ints (accepted spelling)
same("optimized_swu_G2", FQ2([FQ(5), FQ(6)]))
same("optimized_swu_G2", FQ2([FQ(0), FQ(0)]))

# ---------------------------------------------------------- full pipelines
both = (h2c_old, h2c_new)
for u in g1_us[:40]:
    same("map_to_curve_G1", u, mods=both)
for u in g2_us[:15] + g2_us[-25:]:
    same("map_to_curve_G2", u, mods=both)

DSTS = [
    b"", b"x", b"QUUX-V01-CS02-with-BLS12381G2_XMD:SHA-256_SSWU_RO_",
    b"QUUX-V01-CS02-with-BLS12381G1_XMD:SHA-256_SSWU_RO_", b"d" * 255,
]
MSGS = [b"", b"abc", b"abcdef0123456789", b"\x00" * 64, b"a" * 512]
MSGS += [rng.randbytes(rng.randrange(1, 80)) for _ in range(6)]
HASHES = [hashlib.sha256, hashlib.sha512, hashlib.sha384, hashlib.sha3_256,
          hashlib.blake2b, hashlib.sha1]


def affine(pt):
    return None if is_inf(pt) else canon(normalize(pt))


def pipeline(group, msg, dst, hf):
    global checks
    f = "hash_to_" + group
    a = outcome(getattr(h2c_old, f), msg, dst, hf)
    c = outcome(getattr(h2c_new, f), msg, dst, hf)
    assert a == c, (f, msg, dst, hf, a, c)
    checks += 1
    if a[0] == "ok":
        po = getattr(h2c_old, f)(msg, dst, hf)
        pn = getattr(h2c_new, f)(msg, dst, hf)
        assert affine(po) == affine(pn)
        assert is_on_curve(pn, b if group == "G1" else b2)
        assert is_inf(multiply(pn, curve_order))
    return a


seq = []
for i, m in enumerate(MSGS):
    for g in ("G1", "G2"):
        seq.append((g, m, DSTS[i % len(DSTS)], hashlib.sha256))
for i, hf in enumerate(HASHES[1:]):
    seq.append(("G2", MSGS[i], DSTS[2], hf))
    seq.append(("G1", MSGS[i], DSTS[3], hf))
first = {}
for k, (g, m, d, hf) in enumerate(seq):
    first[k] = pipeline(g, m, d, hf)
    assert first[k][0] == "ok"
# repeat a shuffled interleaving: results must not depend on call history
order = list(range(len(seq)))
rng.shuffle(order)
for k in order[:12]:
    g, m, d, hf = seq[k]
    assert pipeline(g, m, d, hf) == first[k]

# refused inputs are refused identically
for g in ("G1", "G2"):
    assert pipeline(g, b"abc", b"d" * 256, hashlib.sha256) == ("raise", "ValueError")
    pipeline(g, "abc", b"dst", hashlib.sha256)
    pipeline(g, b"abc", "dst", hashlib.sha256)
    pipeline(g, b"abc", b"dst", None)
    pipeline(g, None, b"dst", hashlib.sha256)
    pipeline(g, b"abc", b"dst", hashlib.shake_128)
    pipeline(g, bytearray(b"abc"), b"dst", hashlib.sha256)

# module-level tables untouched by either version
assert const_before == canon(
    (
        new.ETAS,
        new.POSITIVE_EIGHTH_ROOTS_OF_UNITY,
        new.ISO_3_MAP_COEFFICIENTS,
        new.ISO_11_MAP_COEFFICIENTS,
    )
)

print(f"C10/p1 equivalence OK: {checks} comparisons "
      f"(G2 SWU square branch {n_square}, non-square branch {n_nonsquare})")
sys.exit(0)
