import os, sys; sys.path.insert(0, os.getcwd())  # noqa: E401,E702

"""
Equivalence demonstration for refactoring r1 (property C12).

Loads the pristine py_ecc/optimized_bls12_381/optimized_pairing.py (saved next to
this script) under another module name inside the same package, and compares it with
the refactored module of the current working tree on exp_by_p, final_exponentiate,
exptable, miller_loop and pairing.
"""
import importlib.util
import random
import time

HERE = os.path.dirname(os.path.abspath(__file__))

import py_ecc.optimized_bls12_381.optimized_pairing as new  # noqa: E402
from py_ecc.fields import (  # noqa: E402
    bls12_381_FQ12 as ref_FQ12,
    optimized_bls12_381_FQ as FQ,
    optimized_bls12_381_FQ2 as FQ2,
    optimized_bls12_381_FQ12 as FQ12,
)
from py_ecc.optimized_bls12_381 import (  # noqa: E402
    G1,
    G2,
    Z1,
    Z2,
    curve_order,
    field_modulus,
    multiply,
    neg,
)


def load_pristine():
    name = "py_ecc.optimized_bls12_381._pristine_optimized_pairing"
    path = os.path.join(HERE, "pristine", "optimized_bls12_381_optimized_pairing.py")
    spec = importlib.util.spec_from_file_location(name, path)
    mod = importlib.util.module_from_spec(spec)
    sys.modules[name] = mod
    spec.loader.exec_module(mod)
    return mod


old = load_pristine()
assert os.path.realpath(new.__file__).startswith(os.path.realpath(os.getcwd())), new.__file__
assert old.__file__ != new.__file__

# the refactored tree really is the refactored one
assert hasattr(new, "HARD_PART_COFACTOR") and not hasattr(old, "HARD_PART_COFACTOR")

failures = []
checks = 0


def canon(v):
    """Canonical, comparable description of a result."""
    if isinstance(v, tuple):
        return ("tuple", tuple(canon(x) for x in v))
    if hasattr(v, "coeffs"):
        return (
            type(v).__module__,
            type(v).__name__,
            tuple((type(c).__name__, int(c)) for c in v.coeffs),
        )
    if hasattr(v, "n"):
        return (type(v).__name__, int(v.n))
    return (type(v).__name__, repr(v))


def outcome(fn, *args, **kwargs):
    try:
        return ("ok", canon(fn(*args, **kwargs)))
    except BaseException as e:  # noqa: B902
        return ("exc", type(e).__name__)


def same(label, fname, *args, **kwargs):
    global checks
    checks += 1
    a = outcome(getattr(old, fname), *args, **kwargs)
    b = outcome(getattr(new, fname), *args, **kwargs)
    if a != b:
        failures.append((label, fname, a, b))
    return a


t0 = time.time()
rng = random.Random(0xC12)
p = field_modulus
assert new.field_modulus == old.field_modulus == p

# ---------------------------------------------------------------- module constants
checks += 1
if [canon(e) for e in old.exptable] != [canon(e) for e in new.exptable]:
    failures.append(("exptable", "const", None, None))
checks += 1
if new.HARD_PART_COFACTOR != (p**4 - p**2 + 1) // curve_order:
    failures.append(("cofactor", "const", None, None))
checks += 1
if new.FQ12_DEGREE != FQ12.degree or len(new.exptable) != 12 or len(old.exptable) != 12:
    failures.append(("degree", "const", None, None))
for nm in ("ate_loop_count", "log_ate_loop_count", "pseudo_binary_encoding"):
    checks += 1
    if getattr(old, nm) != getattr(new, nm):
        failures.append((nm, "const", None, None))


# ---------------------------------------------------------------- FQ12 inputs
def rand_fq12():
    return FQ12([rng.randrange(p) for _ in range(12)])


def sparse(idx, vals):
    c = [0] * 12
    for i, v in zip(idx, vals):
        c[i] = v
    return FQ12(c)


elements = [
    ("zero", FQ12.zero()),
    ("one", FQ12.one()),
    ("minus_one", FQ12([p - 1] + [0] * 11)),
    ("two", FQ12([2] + [0] * 11)),
    ("w", FQ12([0, 1] + [0] * 10)),
    ("w6", sparse([6], [1])),
    ("w11", sparse([11], [1])),
    ("w11_pm1", sparse([11], [p - 1])),
    ("fq2_like", sparse([0, 6], [rng.randrange(p), rng.randrange(p)])),
    ("fq6_like", sparse([0, 2, 4, 6, 8, 10], [rng.randrange(p) for _ in range(6)])),
    ("sparse_035", sparse([0, 3, 5], [1, p - 1, 7])),
    ("all_pm1", FQ12([p - 1] * 12)),
    ("all_ones", FQ12([1] * 12)),
    # coefficients given as FQ objects (kept un-reduced by the constructor)
    ("fq_coeffs", FQ12([FQ(rng.randrange(p)) for _ in range(12)])),
    ("fq_coeffs_sparse", FQ12([FQ(3)] + [FQ(0)] * 10 + [FQ(p - 2)])),
]
elements += [("rand%d" % i, rand_fq12()) for i in range(12)]
# every basis monomial
elements += [("basis%d" % i, sparse([i], [1])) for i in range(12)]

for label, x in elements:
    before = tuple(x.coeffs)
    r = same(label, "exp_by_p", x)
    # Frobenius shortcut == plain exponentiation by p (new tree)
    checks += 1
    if r[0] == "ok" and canon(x**p) != r[1]:
        failures.append((label, "exp_by_p vs **p", canon(x**p), r[1]))
    if tuple(x.coeffs) != before:
        failures.append((label, "exp_by_p mutated input", None, None))

# iterated Frobenius: order 12
for label, x in elements[:6] + elements[15:19]:
    a, b = x, x
    for _ in range(12):
        a, b = old.exp_by_p(a), new.exp_by_p(b)
        checks += 1
        if canon(a) != canon(b):
            failures.append((label, "iterated exp_by_p", None, None))
    checks += 1
    if canon(b) != canon(x) and not any(type(c).__name__ == "FQ" for c in x.coeffs):
        failures.append((label, "frobenius**12 != id", None, None))

# the private helper agrees with nested application of the pristine exp_by_p
for label, x in elements[13:20]:
    for k in range(0, 8):
        y = x
        for _ in range(k):
            y = old.exp_by_p(y)
        checks += 1
        if canon(new._exp_by_p_repeated(x, k)) != canon(y):
            failures.append((label, "_exp_by_p_repeated %d" % k, None, None))

# final exponentiation: old vs new on every element (zero -> same exception class)
plain_exp = (p**12 - 1) // curve_order
for n, (label, x) in enumerate(elements):
    before = tuple(x.coeffs)
    r = same(label, "final_exponentiate", x)
    if tuple(x.coeffs) != before:
        failures.append((label, "final_exponentiate mutated input", None, None))
    # against plain exponentiation on a subset (slow)
    if r[0] == "ok" and label in ("one", "minus_one", "w", "sparse_035", "rand0", "rand1"):
        checks += 1
        if canon(x**plain_exp) != r[1]:
            failures.append((label, "final_exponentiate vs plain", None, None))

# ---------------------------------------------------------------- malformed inputs
malformed = [
    ("none", None),
    ("int", 5),
    ("str", "abc"),
    ("fq", FQ(7)),
    ("fq2", FQ2([3, 4])),
    ("fq2_zero", FQ2([0, 0])),
    ("ref_fq12", ref_FQ12([1, 2, 3] + [0] * 9)),
    ("tuple", (1, 2, 3)),
    ("list12", [1] * 12),
    ("float", 1.5),
]


class Fake:
    def __init__(self, coeffs):
        self.coeffs = coeffs


malformed += [
    ("fake_empty", Fake(())),
    ("fake_none", Fake(None)),
    ("fake_str", Fake(("a",) * 12)),
    ("fake_short", Fake((1, 2))),
    ("fake_long", Fake(tuple(range(20)))),
    ("fake_float", Fake((1.5,) * 12)),
]
for label, x in malformed:
    same(label, "exp_by_p", x)
    same(label, "final_exponentiate", x)

# ---------------------------------------------------------------- pairings (untouched code paths)
ks = [1, 2, 3, 5, curve_order - 1, rng.randrange(1, curve_order)]
pts = []
for a in ks[:3]:
    for b in ks[3:5]:
        pts.append((multiply(G2, a), multiply(G1, b)))


def rescale(pt, k):
    x, y, z = pt
    return (x * k, y * k, z * k)


miller = []
for i, (Q, P) in enumerate(pts):
    for fe in (True, False):
        same("pair%d" % i, "pairing", Q, P, final_exponentiate=fe)
    # other projective representative
    Q2, P2 = rescale(Q, 7 + i), rescale(P, 11 + i)
    same("pair_resc%d" % i, "pairing", Q2, P2)
    m_old = old.pairing(Q, P, final_exponentiate=False)
    m_new = new.pairing(Q, P, final_exponentiate=False)
    miller.append((m_old, m_new))
    # two-step == one-step, in both trees and across trees
    checks += 1
    if not (
        canon(old.final_exponentiate(m_old))
        == canon(new.final_exponentiate(m_new))
        == canon(new.pairing(Q, P))
        == canon(old.pairing(Q, P))
    ):
        failures.append(("pair%d" % i, "two-step", None, None))

# products of 1..6 Miller values
acc_old, acc_new = FQ12.one(), FQ12.one()
prod_single = FQ12.one()
for i, (mo, mn) in enumerate(miller[:6]):
    acc_old, acc_new = acc_old * mo, acc_new * mn
    prod_single = prod_single * new.pairing(*pts[i])
    checks += 1
    fo, fn_ = old.final_exponentiate(acc_old), new.final_exponentiate(acc_new)
    if not (canon(fo) == canon(fn_) == canon(prod_single)):
        failures.append(("product%d" % (i + 1), "final_exponentiate", None, None))

# infinity / invalid points
for label, Q, P in [
    ("Z2", Z2, G1),
    ("Z1", G2, Z1),
    ("both_inf", Z2, Z1),
    ("swapped", G1, G2),
    ("off_curve_P", G2, (FQ(1), FQ(1), FQ(1))),
    ("off_curve_Q", (FQ2([1, 1]), FQ2([1, 1]), FQ2([1, 0])), G1),
    ("none_Q", None, G1),
    ("none_P", G2, None),
    ("negP", G2, neg(G1)),
]:
    same(label, "pairing", Q, P)
    same(label, "pairing", Q, P, final_exponentiate=False)
    same(label, "miller_loop", Q, P)

print("checks:", checks, "failures:", len(failures), "time: %.1fs" % (time.time() - t0))
for f in failures[:20]:
    print("FAIL", f)
sys.exit(1 if failures else 0)
