import os, sys; sys.path.insert(0, os.getcwd())  # noqa: E401,E702

"""
Equivalence demonstration for C07 / t1.

Compares the edited py_ecc/bn128/bn128_curve.py (imported from the current
working directory) with the pristine copy saved next to this script, on:
  * module constants,
  * add/double/neg/multiply/twist/is_on_curve/eq/is_inf on G1, G2 and G12 points
    (infinity, P = Q, P = -Q, same x / different y, off-curve points, scalars
    0,1,2,3,r-1,r,r+1,2p-r, random up to 640 bits),
  * exhaustive pairs of points on small curves y^2 = x^3 + b over small prime
    fields and their quadratic extensions (and a composite modulus, where the
    "Point addition is incorrect" check really fires),
  * malformed arguments (wrong arity, wrong types, mixed fields),
  * import-time refusal: both sources are re-executed with the same corrupted
    constant and must fail (or not) with the same exception class and message.
Exit status 0 means identical behaviour everywhere.
"""

import importlib.util
import itertools
import random
import tempfile

HERE = os.path.dirname(os.path.abspath(__file__))
PRISTINE = os.path.join(HERE, "pristine", "bn128_curve.py")
EDITED = os.path.join(os.getcwd(), "py_ecc", "bn128", "bn128_curve.py")


def load(path, name):
    spec = importlib.util.spec_from_file_location(name, path)
    mod = importlib.util.module_from_spec(spec)
    spec.loader.exec_module(mod)
    return mod


import py_ecc.bn128.bn128_curve as new  # noqa: E402

assert os.path.samefile(new.__file__, EDITED), new.__file__
old = load(PRISTINE, "pristine_bn128_curve")
assert open(PRISTINE).read() != open(EDITED).read(), "tree is not edited"

from py_ecc.fields import field_elements as fe  # noqa: E402
from py_ecc.fields import optimized_field_elements as ofe  # noqa: E402
from py_ecc.fields import (  # noqa: E402
    bls12_381_FQ,
    bls12_381_FQ2,
    bn128_FQ as FQ,
    bn128_FQ2 as FQ2,
    bn128_FQ12 as FQ12,
    optimized_bn128_FQ,
    optimized_bn128_FQ2,
)


def canon(o):
    if o is None or isinstance(o, (bool, int, str)):
        return (type(o).__name__, o)
    if isinstance(o, float):
        return ("float", repr(o))
    if isinstance(o, (tuple, list)):
        return (type(o).__name__, tuple(canon(e) for e in o))
    if isinstance(o, (fe.FQ, ofe.FQ)):
        return (type(o).__module__, type(o).__name__, o.n)
    if isinstance(o, (fe.FQP, ofe.FQP)):
        return (
            type(o).__module__,
            type(o).__name__,
            tuple((type(c).__name__, int(c)) for c in o.coeffs),
        )
    return (type(o).__name__, repr(o))


def outcome(f, *args):
    try:
        return ("ok", canon(f(*args)))
    except RecursionError:
        return ("raise", "RecursionError")
    except BaseException as e:  # noqa: B902
        return ("raise", type(e).__name__, canon(e.args))


checked = 0


def same(fname, *args):
    global checked
    before = canon(args)
    a = outcome(getattr(old, fname), *args)
    mid = canon(args)
    b = outcome(getattr(new, fname), *args)
    after = canon(args)
    assert before == mid == after, ("argument mutated", fname, args)
    assert a == b, (fname, args, a, b)
    checked += 1
    return a


# ---------------------------------------------------------------- constants
for name in [
    "field_modulus", "curve_order", "b", "b2", "b12", "G1", "G2", "G12", "Z1", "Z2", "w"
]:
    assert canon(getattr(old, name)) == canon(getattr(new, name)), name
pub_old = sorted(n for n in vars(old) if not n.startswith("_"))
pub_new = sorted(n for n in vars(new) if not n.startswith("_"))
assert pub_old == pub_new, (pub_old, pub_new)

# ---------------------------------------------------------------- real curves
rng = random.Random(0xC07)
r, p = new.curve_order, new.field_modulus
scalars = [0, 1, 2, 3, r - 1, r, r + 1, 2 * p - r] + [
    rng.getrandbits(k) for k in (5, 254, 640)
]


def points_of(G, ks):
    return [None] + [new.multiply(G, k) for k in ks]


ks = [1, 2, 3, r - 1, rng.randrange(r)]
groups = {
    "G1": points_of(new.G1, ks),
    "G2": points_of(new.G2, ks),
    "G12": points_of(new.G12, [1, 2, r - 1]),
}
# points outside the prime-order subgroup / off the curve, same x different y
groups["G1"] += [(FQ(1), FQ(3)), (FQ(1), FQ(-2)), (FQ(0), FQ(0)), (FQ(5), FQ(0))]
x2, y2 = new.G2
groups["G2"] += [(x2, y2 + FQ2([1, 0])), (x2, -y2), (FQ2([1, 2]), FQ2([0, 0]))]
# a twist-curve point outside the order-r subgroup: lift x until y^2 is a square


def fq2_sqrt(a):
    # FQ2 = Fp[i] / (i^2 + 1), p = 3 mod 4: complex square-root method on ints
    a0, a1 = int(a.coeffs[0]), int(a.coeffs[1])

    def fsqrt(v):
        v %= p
        s_ = pow(v, (p + 1) // 4, p)
        return s_ if s_ * s_ % p == v else None

    if a1 == 0:
        s_ = fsqrt(a0)
        if s_ is not None:
            return FQ2([s_, 0])
        s_ = fsqrt(-a0)
        return FQ2([0, s_])
    nrm = fsqrt(a0 * a0 + a1 * a1)
    if nrm is None:
        return None
    inv2 = pow(2, -1, p)
    for cand in ((a0 + nrm) * inv2 % p, (a0 - nrm) * inv2 % p):
        x_ = fsqrt(cand)
        if x_:
            y_ = a1 * pow(2 * x_, -1, p) % p
            c = FQ2([x_, y_])
            if c * c == a:
                return c
    return None


xx = FQ2([3, 1])
found = None
for i in range(40):
    xx = xx + FQ2([1, 0])
    yy = fq2_sqrt(xx * xx * xx + new.b2)
    if yy is not None:
        found = (xx, yy)
        break
if found is not None:
    assert new.is_on_curve(found, new.b2)
    assert new.multiply(found, r) is not None, "expected a point outside the subgroup"
    groups["G2"] += [found, new.double(found)]
print("twist-curve point outside the order-r subgroup found:", found is not None)

for gname, pts in groups.items():
    for P in pts:
        same("double", P)
        same("neg", P)
        same("is_inf", P)
        same("is_on_curve", P, {"G1": new.b, "G2": new.b2, "G12": new.b12}[gname])
        if gname == "G2":
            same("twist", P)
    for P, Q in itertools.product(pts, repeat=2):
        same("add", P, Q)
        same("eq", P, Q)
    # repeat in a different order: no dependence on call history
    for P, Q in reversed(list(itertools.product(pts, repeat=2))):
        same("add", P, Q)
    sc = scalars if gname != "G12" else [0, 1, 2, 3, 5, r - 1, r]
    for P in pts[:3] if gname != "G12" else pts[:2]:
        for n in sc:
            same("multiply", P, n)

# associativity-shaped triples through both modules
for gname in ("G1", "G2"):
    pts = groups[gname][:6]
    for P, Q, R in itertools.product(pts, repeat=3):
        a = new.add(new.add(P, Q), R)
        b_ = old.add(old.add(P, Q), R)
        assert canon(a) == canon(b_)
        checked += 1

# ---------------------------------------------------------------- small curves


def small_fields(q, composite=False):
    Fq = type("SmallFQ%d" % q, (fe.FQ,), {"field_modulus": q})
    out = [("Fq", Fq, [Fq(i) for i in range(q)], lambda v, Fq=Fq: Fq(v))]
    if q % 4 == 3 and not composite:
        Fq2 = type(
            "SmallFQ2_%d" % q, (fe.FQ2,),
            {"field_modulus": q, "FQ2_MODULUS_COEFFS": (1, 0)},
        )
        els = [Fq2([i, j]) for i in range(q) for j in range(q)]
        out.append(("Fq2", Fq2, els, lambda v, Fq2=Fq2: Fq2([v, 0])))
    return out


for q, bs, composite in [(7, (1, 3), False), (11, (1, 2), False), (13, (2,), False),
                         (19, (3,), False), (15, (1, 4), True), (21, (1,), True)]:
    for fname, F, els, lift in small_fields(q, composite):
        if fname == "Fq2" and q > 7:
            continue
        for bv in bs:
            bb = lift(bv)
            pts = [None] + [
                (x, y) for x in els for y in els if y * y - x * x * x == bb
            ]
            if len(pts) > 60:
                pts = pts[:60]
            for P in pts:
                same("double", P)
                same("neg", P)
                same("is_on_curve", P, bb)
                for n in (0, 1, 2, 3, 5, len(pts), len(pts) + 1, 1000003):
                    same("multiply", P, n)
            for P, Q in itertools.product(pts, repeat=2):
                same("add", P, Q)
            # off-curve operands as well (x equal / y different, arbitrary)
            some = els[: min(len(els), 6)]
            off = [(x, y) for x in some for y in some]
            for P, Q in itertools.product(off[:18], repeat=2):
                same("add", P, Q)

# the ValueError of the addition check must really be reachable (composite q)
F15 = type("SmallFQ15", (fe.FQ,), {"field_modulus": 15})
hits = 0
for a_, b_, c_, d_ in itertools.product(range(15), repeat=4):
    if (a_ + b_ + c_ + d_) % 3:
        continue
    res = same("add", (F15(a_), F15(b_)), (F15(c_), F15(d_)))
    if res[0] == "raise" and res[1] == "ValueError":
        hits += 1
assert hits > 0, "addition check never fired"

# ---------------------------------------------------------------- malformed
G1, G2, G12 = new.G1, new.G2, new.G12
oG1 = (optimized_bn128_FQ(1), optimized_bn128_FQ(2))
oG2 = (optimized_bn128_FQ2([1, 2]), optimized_bn128_FQ2([3, 4]))
bad = [
    None, G1, G2, G12, oG1, oG2,
    (), (FQ(1),), (FQ(1), FQ(2), FQ(1)), [FQ(1), FQ(2)], (1, 2), (3, 4), (1, 4),
    (1.5, 2.5), (FQ(1), 2), (1, FQ(2)), (FQ(1), FQ2([2, 0])), (FQ2([1, 0]), FQ(2)),
    (bls12_381_FQ(1), bls12_381_FQ(2)), (bls12_381_FQ2([1, 2]), bls12_381_FQ2([3, 4])),
    (FQ(1), None), (None, None), "ab", "abc", 5, 0, False, object, (FQ(1), "y"),
    ((FQ(1), FQ(2)), (FQ(1), FQ(2))), {"x": 1, "y": 2}, b"\x01\x02", (FQ(7), FQ(0)),
]
for P, Q in itertools.product(bad, repeat=2):
    same("add", P, Q)
    same("eq", P, Q)
for P in bad:
    for f in ("double", "neg", "is_inf", "twist"):
        same(f, P)
    for bb in (new.b, new.b2, new.b12, 3, None):
        same("is_on_curve", P, bb)
    for n in (0, 1, 2, 3, 7, True, False, 2.0, 3.0, 2.5, "2", None, FQ(3), 2 ** 70):
        if P is G12 and n == 2 ** 70:
            continue
        same("multiply", P, n)
# scalars that are refused today (endless recursion) stay refused the same way
# (py_ecc raises the recursion limit to 100000 frames, so keep the points cheap)
F7 = type("NegFQ7", (fe.FQ,), {"field_modulus": 7})
for n in (-1, -2, -7):
    assert same("multiply", None, n) == ("raise", "RecursionError")
    assert same("multiply", (F7(3), F7(2)), n) == ("raise", "RecursionError")
assert same("multiply", G1, -1) == ("raise", "RecursionError")
same("multiply", G1, 1 << 1200)

# ---------------------------------------------------------------- import-time refusal
SUBS = [
    ("none", lambda s: s),
    ("order+2", lambda s: s.replace(
        "21888242871839275222246405745257275088548364400416034343698204186575808495617",
        "21888242871839275222246405745257275088548364400416034343698204186575808495619")),
    ("order=composite pseudoprime 341", lambda s: s.replace(
        "21888242871839275222246405745257275088548364400416034343698204186575808495617",
        "341")),
    ("order=7 (prime, divides p^12-1)", lambda s: s.replace(
        "21888242871839275222246405745257275088548364400416034343698204186575808495617",
        "7")),
    ("order=19 (prime, does not divide p^12-1)", lambda s: s.replace(
        "21888242871839275222246405745257275088548364400416034343698204186575808495617",
        "19")),
    ("G1 off curve", lambda s: s.replace("G1 = (FQ(1), FQ(2))", "G1 = (FQ(1), FQ(3))")),
    ("G1 infinity", lambda s: s.replace("G1 = (FQ(1), FQ(2))", "G1 = None")),
    ("G1 malformed", lambda s: s.replace("G1 = (FQ(1), FQ(2))", "G1 = (FQ(1),)")),
    ("G2 off curve", lambda s: s.replace(
        "4082367875863433681332203403145435568316851327593401208105741076214120093531",
        "4082367875863433681332203403145435568316851327593401208105741076214120093532")),
    ("b2 changed", lambda s: s.replace("b2 = FQ2([3, 0]) / FQ2([9, 1])",
                                       "b2 = FQ2([3, 0]) / FQ2([9, 2])")),
    ("b12 changed", lambda s: s.replace("b12 = FQ12([3] + [0] * 11)",
                                        "b12 = FQ12([4] + [0] * 11)")),
    ("w changed", lambda s: s.replace("w = FQ12([0, 1] + [0] * 10)",
                                      "w = FQ12([0, 0, 1] + [0] * 9)")),
    ("b wrong type", lambda s: s.replace("b = FQ(3)", "b = 'three'")),
]
src_old, src_new = open(PRISTINE).read(), open(EDITED).read()
with tempfile.TemporaryDirectory() as td:
    for i, (label, fn) in enumerate(SUBS):
        res = []
        for tag, src in (("old", src_old), ("new", src_new)):
            mutated = fn(src)
            if label != "none":
                assert mutated != src, (label, tag)
            path = os.path.join(td, "%s_%d.py" % (tag, i))
            with open(path, "w") as fh:
                fh.write(mutated)
            res.append(outcome(load, path, "mut_%s_%d" % (tag, i)))
        # a successfully loaded module is reported through repr -> just compare kind
        if res[0][0] == "ok":
            assert res[1][0] == "ok", (label, res)
        else:
            assert res[0] == res[1], (label, res)
        checked += 1
        print("import-time case %-42s -> %s" % (label, res[0][1:] if res[0][0] == "raise"
                                               else "loads"))

print("t1 equivalence: %d comparisons identical (addition-check ValueError hit %d times)"
      % (checked, hits))
