from py_ecc.fields import (
    bls12_381_FQ as FQ,
    bls12_381_FQ2 as FQ2,
    bls12_381_FQ12 as FQ12,
)
from py_ecc.fields.field_properties import (
    field_properties,
)
from py_ecc.typing import (
    Field,
    Point2D,
)

from .bls12_381_curve import (
    G1,
    add,
    b,
    b2,
    curve_order,
    double,
    is_on_curve,
    multiply,
    twist,
)

field_modulus = field_properties["bls12_381"]["field_modulus"]

ate_loop_count = 15132376222941642752
log_ate_loop_count = 62


# Create a function representing the line between P1 and P2,
# and evaluate it at T
def linefunc(P1: Point2D[Field], P2: Point2D[Field], T: Point2D[Field]) -> Field:
    if P1 is None or P2 is None or T is None:  # No points-at-infinity allowed, sorry
        raise ValueError("Invalid input - no points-at-infinity allowed")
    x1, y1 = P1
    x2, y2 = P2
    xt, yt = T
    if x1 != x2:
        m = (y2 - y1) / (x2 - x1)
        return m * (xt - x1) - (yt - y1)
    elif y1 == y2:
        m = 3 * x1**2 / (2 * y1)
        return m * (xt - x1) - (yt - y1)
    else:
        return xt - x1


def cast_point_to_fq12(pt: Point2D[FQ]) -> Point2D[FQ12]:
    if pt is None:
        return None
    x, y = pt
    return (FQ12([x.n] + [0] * 11), FQ12([y.n] + [0] * 11))


# Check consistency of the "line function"
one, two, three = G1, double(G1), multiply(G1, 3)
negone, negtwo, negthree = (
    multiply(G1, curve_order - 1),
    multiply(G1, curve_order - 2),
    multiply(G1, curve_order - 3),
)


conditions = [
    linefunc(one, two, one) == FQ(0),
    linefunc(one, two, two) == FQ(0),
    linefunc(one, two, three) != FQ(0),
    linefunc(one, two, negthree) == FQ(0),
    linefunc(one, negone, one) == FQ(0),
    linefunc(one, negone, negone) == FQ(0),
    linefunc(one, negone, two) != FQ(0),
    linefunc(one, one, one) == FQ(0),
    linefunc(one, one, two) != FQ(0),
    linefunc(one, one, negtwo) == FQ(0),
]

if not all(conditions):
    raise ValueError("Line function is inconsistent")


# Main miller loop
def miller_loop(Q: Point2D[FQ12], P: Point2D[FQ12]) -> FQ12:
    if Q is None or P is None:
        return FQ12.one()
    R: Point2D[FQ12] = Q
    f = FQ12.one()
    for i in range(log_ate_loop_count, -1, -1):
        f = f * f * linefunc(R, R, P)
        R = double(R)
        if ate_loop_count & (2**i):
            f = f * linefunc(R, Q, P)
            R = add(R, Q)
    # assert R == multiply(Q, ate_loop_count)
    # Q1 = (Q[0] ** field_modulus, Q[1] ** field_modulus)
    # assert is_on_curve(Q1, b12)
    # nQ2 = (Q1[0] ** field_modulus, -Q1[1] ** field_modulus)
    # assert is_on_curve(nQ2, b12)
    # f = f * linefunc(R, Q1, P)
    # R = add(R, Q1)
    # f = f * linefunc(R, nQ2, P)
    # R = add(R, nQ2) This line is in many specifications but technically does nothing
    return f ** ((field_modulus**12 - 1) // curve_order)


# Pairing computation
def pairing(Q: Point2D[FQ2], P: Point2D[FQ]) -> FQ12:
    if not is_on_curve(Q, b2):
        raise ValueError("Invalid input - point Q is not on the correct curve")
    if not is_on_curve(P, b):
        raise ValueError("Invalid input - point P is not on the correct curves")
    return miller_loop(twist(Q), cast_point_to_fq12(P))


def final_exponentiate(p: Field) -> Field:
    return p ** ((field_modulus**12 - 1) // curve_order)
