import os, sys; sys.path.insert(0, os.getcwd())  # noqa: E702

# Equivalence demonstration for edit w2 (C05): pairing() of the two reference
# modules (bn128, bls12_381; infinity is None) now calls a private checker
# first and tests infinity in two guard clauses; miller_loop()'s guard is
# restated as two clauses.
#
# The pristine copies of both modules are loaded next to the edited ones (same
# package, other module name, so they share curve / field classes) and every
# cheap call (infinity, off-curve, malformed) is made on BOTH versions.
# A reference pairing costs several seconds here, so for the few calls that
# really run the Miller loop the pristine values were computed once from the
# pristine copy (`equiv.py --gen`, which never touches the edited module) and
# are stored in expected.json; the edited module must reproduce them.

import copy
import importlib
import importlib.util
import json
import random
import time

HERE = os.path.dirname(os.path.abspath(__file__))
EXPECTED = os.path.join(HERE, "expected.json")
GEN = "--gen" in sys.argv
T0 = time.time()
failures = []
n_checks = 0

MODS = {"bn128": "bn128_pairing", "bls12_381": "bls12_381_pairing"}


def load_pristine(pkg):
    path = os.path.join(HERE, "pristine", pkg, MODS[pkg] + ".py")
    name = "py_ecc.%s._pristine_%s" % (pkg, MODS[pkg])
    spec = importlib.util.spec_from_file_location(name, path)
    mod = importlib.util.module_from_spec(spec)
    sys.modules[name] = mod
    spec.loader.exec_module(mod)
    return mod


def outcome(fn, *args, **kwargs):
    try:
        v = fn(*args, **kwargs)
    except Exception as e:  # noqa: BLE001
        return ("exc", type(e).__name__, str(e))
    if hasattr(v, "coeffs"):
        return ("ok", type(v).__name__, [int(c) for c in v.coeffs])
    return ("ok", type(v).__name__, repr(v))


def snapshot(x):
    return repr(x)


def check(label, old_fn, new_fn, *args, **kwargs):
    """Call both versions on separate deep copies; compare outcome and
    that neither version mutated its arguments."""
    global n_checks
    n_checks += 1
    a_old = copy.deepcopy((args, kwargs))
    a_new = copy.deepcopy((args, kwargs))
    before = snapshot((args, kwargs))
    o = outcome(old_fn, *a_old[0], **a_old[1])
    n = outcome(new_fn, *a_new[0], **a_new[1])
    if o != n:
        failures.append((label, o, n))
        print("MISMATCH", label, o, n)
    if snapshot(a_old) != before or snapshot(a_new) != before:
        failures.append((label, "argument mutated"))
        print("MUTATION", label)
    return n


def points(pkg):
    curve = importlib.import_module("py_ecc.%s.%s_curve" % (pkg, pkg))
    FQ, FQ2, FQ12 = curve.FQ, curve.FQ2, curve.FQ12
    G1, G2 = curve.G1, curve.G2
    r = curve.curve_order
    mul, add, neg = curve.multiply, curve.add, curve.neg
    rng = random.Random(0xC05 + len(pkg))
    big = rng.randrange(1, r)
    big2 = rng.randrange(1, r)
    P_pts = {
        "G1": G1,
        "2G1": mul(G1, 2),
        "(r-1)G1": mul(G1, r - 1),
        "bigG1": mul(G1, big),
        "G1+bigG1": add(G1, mul(G1, big)),
        "negG1": neg(G1),
        "G1 as list": list(G1),
    }
    P_inf = {
        "None": None,
        "Z1": curve.Z1,
        "0*G1": mul(G1, 0),
        "r*G1": mul(G1, r),
        "G1+negG1": add(G1, neg(G1)),
    }
    P_off = {
        "G1 x+1": (G1[0] + 1, G1[1]),
        "G1 y+1": (G1[0], G1[1] + 1),
        "(1,3)": (FQ(1), FQ(3)),
        "(0,0)": (FQ(0), FQ(0)),
    }
    Q_pts = {
        "G2": G2,
        "2G2": mul(G2, 2),
        "(r-1)G2": mul(G2, r - 1),
        "bigG2": mul(G2, big2),
        "G2+bigG2": add(G2, mul(G2, big2)),
        "negG2": neg(G2),
        "G2 as list": list(G2),
    }
    Q_inf = {
        "None": None,
        "Z2": curve.Z2,
        "0*G2": mul(G2, 0),
        "r*G2": mul(G2, r),
        "G2+negG2": add(G2, neg(G2)),
    }
    Q_off = {
        "G2 x+1": (G2[0] + FQ2.one(), G2[1]),
        "G2 y+i": (G2[0], G2[1] + FQ2([0, 1])),
        "(1,1)": (FQ2.one(), FQ2.one()),
        "(0,0)": (FQ2.zero(), FQ2.zero()),
    }
    # things that are not points; several of them satisfy the textual on-curve
    # equation y**2 - x**3 == b and are only refused by the FQ12 embedding.
    bn = int(curve.b.n)
    malformed = {
        "()": (),
        "ints on curve": (1, 2) if bn == 3 else (0, 2),
        "ints off curve": (1, 1),
        "FQ,int on curve": (FQ(1), 2) if bn == 3 else (FQ(0), 2),
        "projective triple": (FQ(1), FQ(2), FQ(1)),
        "projective inf": (FQ(1), FQ(1), FQ(0)),
        "one element": (FQ(0),),
        "string": "ab",
        "int": 5,
        "False": False,
        "0": 0,
        "[]": [],
        "FQ2 coords over FQ curve": (FQ2([1, 0]), FQ2([2, 0])),
        "FQ12 pt": (FQ12.one(), FQ12.one()),
        "y None": (FQ(1), None),
        "(None, None)": (None, None),
    }
    other_pkg = "bls12_381" if pkg == "bn128" else "bn128"
    oc = importlib.import_module("py_ecc.%s.%s_curve" % (other_pkg, other_pkg))
    foreign_P = {"other curve G1": oc.G1}
    foreign_Q = {"other curve G2": oc.G2}
    return dict(
        curve=curve, P_pts=P_pts, P_inf=P_inf, P_off=P_off, Q_pts=Q_pts, Q_inf=Q_inf,
        Q_off=Q_off, malformed=malformed, foreign_P=foreign_P, foreign_Q=foreign_Q,
    )


# calls that run a full reference pairing: (Q name, P name); the first one is
# repeated at the end, after all the interleaved cheap / failing calls.
HEAVY = [("G2", "G1"), ("bigG2", "bigG1"), ("(r-1)G2", "2G1"), ("G2", "G1")]


def gen():
    data = {}
    for pkg in MODS:
        old = load_pristine(pkg)
        assert not hasattr(old, "_check_pairing_inputs")
        d = points(pkg)
        data[pkg] = {}
        for qn, pn in HEAVY:
            key = "%s|%s" % (qn, pn)
            if key not in data[pkg]:
                data[pkg][key] = outcome(old.pairing, d["Q_pts"][qn], d["P_pts"][pn])
                print(pkg, key, data[pkg][key][0], "%.1fs" % (time.time() - T0))
    with open(EXPECTED, "w") as fh:
        json.dump(data, fh, indent=1)


def run(pkg, expected):
    global n_checks
    new = importlib.import_module("py_ecc.%s.%s" % (pkg, MODS[pkg]))
    old = load_pristine(pkg)
    assert old.__file__ != new.__file__
    assert hasattr(new, "_check_pairing_inputs"), "edit w2 is not applied"
    assert not hasattr(old, "_check_pairing_inputs"), "pristine copy is not pristine"
    assert old.FQ12 is new.FQ12 and old.b is new.b and old.b2 is new.b2
    d = points(pkg)
    curve = d["curve"]
    FQ12 = curve.FQ12
    P_pts, P_inf, P_off = d["P_pts"], d["P_inf"], d["P_off"]
    Q_pts, Q_inf, Q_off = d["Q_pts"], d["Q_inf"], d["Q_off"]
    one = [int(c) for c in FQ12.one().coeffs]
    consts_before = snapshot((curve.G1, curve.G2, curve.G12, curve.b, curve.b2, curve.b12))

    # 1. pairing(): every combination in which no Miller loop is run
    all_P, all_Q = {}, {}
    for k, dd in (("pt", P_pts), ("inf", P_inf), ("off", P_off), ("bad", d["malformed"]),
                  ("foreign", d["foreign_P"]), ("swap", {"G2": curve.G2})):
        all_P.update({(k, n): v for n, v in dd.items()})
    for k, dd in (("pt", Q_pts), ("inf", Q_inf), ("off", Q_off), ("bad", d["malformed"]),
                  ("foreign", d["foreign_Q"]), ("swap", {"G1": curve.G1})):
        all_Q.update({(k, n): v for n, v in dd.items()})
    cheap = 0
    for (qk, qn), Q in all_Q.items():
        for (pk, pn), P in all_P.items():
            if qk == "pt" and pk == "pt":
                continue
            lab = "%s pairing(%s %s, %s %s)" % (pkg, qk, qn, pk, pn)
            res = check(lab, old.pairing, new.pairing, Q, P)
            cheap += 1
            q_ok, p_ok = qk in ("pt", "inf"), pk in ("pt", "inf")
            if qk == "off" and (p_ok or pk == "off"):
                assert res[:2] == ("exc", "ValueError") and " Q " in res[2], (lab, res)
            if pk == "off" and q_ok:
                assert res[:2] == ("exc", "ValueError") and " P " in res[2], (lab, res)
            if q_ok and p_ok:
                assert res == ("ok", "bn128_FQ12" if pkg == "bn128" else "bls12_381_FQ12",
                               one), (lab, res)
    # keyword form, wrong arity
    check(pkg + " kw inf", old.pairing, new.pairing, P=None, Q=curve.G2)
    check(pkg + " kw inf", old.pairing, new.pairing, P=curve.G1, Q=None)
    check(pkg + " kw off", old.pairing, new.pairing, P=P_off["(1,3)"], Q=None)
    check(pkg + " no args", old.pairing, new.pairing)
    check(pkg + " one arg", old.pairing, new.pairing, curve.G2)
    check(pkg + " three args", old.pairing, new.pairing, curve.G2, curve.G1, True)
    check(pkg + " bad kw", old.pairing, new.pairing, curve.G2, curve.G1, foo=1)

    # 2. miller_loop() called directly: every combination with a None, plus
    #    non-None garbage that fails at once in the first line function.
    tw, cast = curve.twist, new.cast_point_to_fq12
    ml_Q = {"None": None, "twist G2": tw(curve.G2), "twist 2G2": tw(Q_pts["2G2"]),
            "untwisted G2": curve.G2, "G12": curve.G12, "int": 5, "0": 0, "False": False,
            "()": (), "[]": [], "str": "ab", "(None, None)": (None, None), "ints": (1, 2)}
    ml_P = {"None": None, "cast G1": cast(curve.G1), "cast 2G1": cast(P_pts["2G1"]),
            "uncast G1": curve.G1, "int": 5, "0": 0, "False": False, "()": (), "[]": [],
            "str": "ab", "(None, None)": (None, None), "ints": (1, 2)}
    for qn, Q in ml_Q.items():
        for pn, P in ml_P.items():
            if Q is not None and P is not None and not (
                isinstance(Q, (int, str)) or isinstance(P, (int, str)) or len(Q) != 2
                or len(P) != 2 or any(c is None for c in Q) or any(c is None for c in P)
            ):
                continue  # would run a (possibly ill-typed) full loop: too slow here
            res = check("%s miller_loop(%s, %s)" % (pkg, qn, pn), old.miller_loop,
                        new.miller_loop, Q, P)
            if Q is None or P is None:
                assert res[0] == "ok" and res[2] == one, res
    check(pkg + " miller_loop kw", old.miller_loop, new.miller_loop, P=None, Q=tw(curve.G2))
    check(pkg + " miller_loop kw", old.miller_loop, new.miller_loop, P=cast(curve.G1), Q=None)
    check(pkg + " miller_loop no args", old.miller_loop, new.miller_loop)
    check(pkg + " miller_loop 3 args", old.miller_loop, new.miller_loop, None, None, True)

    # 3. full pairings (edited module only, against the stored pristine
    #    values), interleaved with identity / rejected / malformed calls made
    #    on both versions; the first call is repeated at the end.
    seen = {}
    for qn, pn in HEAVY:
        key = "%s|%s" % (qn, pn)
        n_checks += 1
        Q, P = copy.deepcopy((Q_pts[qn], P_pts[pn]))
        got = outcome(new.pairing, Q, P)
        if snapshot((Q, P)) != snapshot((Q_pts[qn], P_pts[pn])):
            failures.append((key, "argument mutated"))
        want = tuple(expected[pkg][key])
        if got != want:
            failures.append((pkg, key, want, got))
            print("MISMATCH", pkg, key)
        assert got[0] == "ok"
        if key in seen:
            assert seen[key] == got, "history changed a result"
        seen[key] = got
        check(pkg + " interleave inf", old.pairing, new.pairing, None, P_pts[pn])
        check(pkg + " interleave inf", old.pairing, new.pairing, Q_pts[qn], Q_inf["r*G2"])
        check(pkg + " interleave off", old.pairing, new.pairing, Q_pts[qn], P_off["G1 y+1"])
        check(pkg + " interleave off", old.pairing, new.pairing, Q_off["G2 x+1"], None)
        check(pkg + " interleave bad", old.pairing, new.pairing, None, (1, 2))
        check(pkg + " interleave ml", old.miller_loop, new.miller_loop, None, cast(P_pts[pn]))
        print("  %s pairing(%s, %s) matches stored pristine value  %.1fs"
              % (pkg, qn, pn, time.time() - T0))
    e = FQ12(seen["G2|G1"][2])
    assert e != FQ12.one(), "degenerate pairing"
    assert FQ12(seen["(r-1)G2|2G1"][2]) * e * e == FQ12.one()  # e^(-2)

    # 4. untouched names still there; module constants untouched
    for name in sorted(set(dir(old)) | set(dir(new))):
        if name.startswith("__") or name == "_check_pairing_inputs":
            continue
        assert hasattr(old, name) and hasattr(new, name), name
    assert consts_before == snapshot(
        (curve.G1, curve.G2, curve.G12, curve.b, curve.b2, curve.b12)
    ), "module-level constant mutated"
    print("%s: %d cheap pairing combinations, %d checks so far, %.1fs"
          % (pkg, cheap, n_checks, time.time() - T0))


if GEN:
    gen()
    sys.exit(0)

with open(EXPECTED) as fh:
    expected = json.load(fh)
for pkg in MODS:
    run(pkg, expected)
print("checks: %d   failures: %d   %.1fs" % (n_checks, len(failures), time.time() - T0))
sys.exit(1 if failures else 0)
