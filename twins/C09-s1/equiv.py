import os, sys; sys.path.insert(0, os.getcwd())  # noqa: E401,E702
"""
C09 / s1 equivalence demonstration.

Edit: i2osp / os2ip moved from py_ecc/bls/hash.py into the new module
py_ecc/bls/octets.py; hash.py re-exports them; g2_primitives.py and hash_to_curve.py
import them from the new module.

Checks
 A. object identity of every import path (old and new) on the edited tree;
 B. the pristine hash.py / g2_primitives.py / hash_to_curve.py (loaded with importlib
    under other module names inside the py_ecc.bls package) agree with the edited
    modules on a broad set of direct inputs (results and exception classes);
 C. the whole public-API case list (SkToPk / Sign / PopProve / Aggregate for the three
    suites, serialisers on boundary points, malformed inputs) reproduces the values
    recorded on the pristine tree in ref.json, byte for byte;
 D. a second, reordered pass over a light case list gives the same answers again
    (no call-history dependence).
"""
import hashlib
import importlib.util
import json
import random

here = os.path.dirname(os.path.abspath(__file__))
sys.path.insert(1, here)
import cases  # noqa: E402

import py_ecc  # noqa: E402

assert os.path.realpath(py_ecc.__file__).startswith(
    os.path.realpath(os.getcwd())
), "run me with the worktree as the current directory"

from py_ecc.bls import ciphersuites, g2_primitives, hash as bls_hash  # noqa: E402
from py_ecc.bls import hash_to_curve, octets  # noqa: E402

failures = []


def check(cond, what):
    if not cond:
        failures.append(what)
        print("FAIL:", what)


# ---------------------------------------------------------------- A. identity
for name in ("i2osp", "os2ip"):
    new = getattr(octets, name)
    check(getattr(bls_hash, name) is new, f"hash.{name} is octets.{name}")
    check(getattr(g2_primitives, name) is new, f"g2_primitives.{name}")
    check(getattr(ciphersuites, name) is new, f"ciphersuites.{name}")
check(hash_to_curve.os2ip is octets.os2ip, "hash_to_curve.os2ip")
check(bls_hash.expand_message_xmd.__globals__["i2osp"] is octets.i2osp, "xmd i2osp")
ns = {}
exec("from py_ecc.bls.hash import i2osp, os2ip, hkdf_extract, hkdf_expand, sha256, xor, expand_message_xmd", ns)  # noqa: E501
check(ns["i2osp"] is octets.i2osp and ns["os2ip"] is octets.os2ip, "from-import path")


# ------------------------------------------------- B. pristine modules side by side
def load_pristine(fname, modname):
    spec = importlib.util.spec_from_file_location(
        "py_ecc.bls." + modname, os.path.join(here, "pristine", fname)
    )
    mod = importlib.util.module_from_spec(spec)
    sys.modules[spec.name] = mod
    spec.loader.exec_module(mod)
    return mod


# The pristine g2_primitives / hash_to_curve do `from .hash import ...`; while they are
# being loaded, make `.hash` resolve to the pristine hash module so that the old chain
# is pristine end to end.
p_hash = load_pristine("hash.py", "_pristine_hash")
check("octets" not in p_hash.__dict__ and p_hash.i2osp.__module__.endswith("_pristine_hash"),
      "pristine hash really defines its own i2osp")
edited_hash = sys.modules["py_ecc.bls.hash"]
sys.modules["py_ecc.bls.hash"] = p_hash
try:
    p_g2p = load_pristine("g2_primitives.py", "_pristine_g2_primitives")
    p_h2c = load_pristine("hash_to_curve.py", "_pristine_hash_to_curve")
finally:
    sys.modules["py_ecc.bls.hash"] = edited_hash
check(p_g2p.i2osp is p_hash.i2osp and p_h2c.os2ip is p_hash.os2ip, "pristine chain")
check(g2_primitives.i2osp is not p_hash.i2osp, "edited chain is distinct")


def outcome(fn, *a):
    try:
        return ("ok", cases._enc(fn(*a)))
    except BaseException as e:  # noqa: B902
        return ("exc", type(e).__name__)


def same(label, f_old, f_new, *a):
    o, n = outcome(f_old, *a), outcome(f_new, *a)
    check(o == n, f"{label}{a!r:.80}: {o!r:.80} != {n!r:.80}")


rng = random.Random(9)
ints = [0, 1, 127, 128, 255, 256, 65535, 65536, 2**381 - 1, 2**381, 2**382, 2**383,
        2**383 + 2**382, 2**384 - 1, 2**384, 2**768 - 1, 2**768, -1, -(2**383)]
ints += [rng.getrandbits(k) for k in (7, 8, 9, 380, 381, 383, 384, 385, 767, 768)]
lens = [0, 1, 2, 3, 32, 47, 48, 49, 64, 96, 97, -1]
n_direct = 0
for v in ints:
    for L in lens:
        same("i2osp", p_hash.i2osp, octets.i2osp, v, L)
        same("i2osp(hash)", p_hash.i2osp, bls_hash.i2osp, v, L)
        n_direct += 2
for v, L in [(1.0, 2), ("1", 2), (None, 2), (1, None), (1, 1.0), (True, 1), (False, 0),
             (b"\x01", 1), (1, "2")]:
    same("i2osp", p_hash.i2osp, octets.i2osp, v, L)
octs = [b"", b"\x00", b"\x00\x00\x01", b"\x80", b"\xff" * 48, b"\xff" * 96,
        bytearray(b"\x01\x02"), memoryview(b"\x01\x02"), [1, 2], (255, 0), "ab", None, 5,
        [256], [-1]]
octs += [rng.randbytes(k) for k in (1, 31, 32, 47, 48, 49, 64, 96, 128)]
for v in octs:
    same("os2ip", p_hash.os2ip, octets.os2ip, v)
    same("os2ip(hash)", p_hash.os2ip, bls_hash.os2ip, v)
    n_direct += 2
# round trips
for v in ints:
    if v >= 0:
        L = max(1, (v.bit_length() + 7) // 8)
        check(octets.os2ip(octets.i2osp(v, L)) == v == p_hash.os2ip(p_hash.i2osp(v, L)),
              f"round trip {v}")

# the other functions of hash.py are untouched, but they use i2osp: compare them too
for msg in (b"", b"abc", b"\x00" * 200, rng.randbytes(77)):
    for dst in (b"", b"QUUX-V01-CS02-with-expander", b"x" * 255, b"x" * 256):
        for n in (0, 1, 32, 33, 128, 256, 255 * 32, 255 * 32 + 1, 65535, 65536):
            same("xmd", p_hash.expand_message_xmd, bls_hash.expand_message_xmd,
                 msg, dst, n, hashlib.sha256)
            n_direct += 1
        same("xmd512", p_hash.expand_message_xmd, bls_hash.expand_message_xmd,
             msg, dst, 128, hashlib.sha512)
for salt, ikm, info, L in [(b"", b"", b"", 0), (b"s", b"k", b"i", 1), (b"s" * 40, b"k" * 70, b"", 48),
                           (bytearray(b"s"), bytearray(b"k"), bytearray(b"i"), 100),
                           (b"s", b"k", b"i", 255 * 32), (b"s", b"k", b"i", 255 * 32 + 1)]:
    same("extract", p_hash.hkdf_extract, bls_hash.hkdf_extract, salt, ikm)
    prk = bls_hash.hkdf_extract(salt, ikm)
    same("expand", p_hash.hkdf_expand, bls_hash.hkdf_expand, prk, info, L)
same("sha256", p_hash.sha256, bls_hash.sha256, b"abc")
same("xor", p_hash.xor, bls_hash.xor, b"abc", b"\x01\x02")

# serialisers: pristine g2_primitives (pristine i2osp chain) against the edited module
from py_ecc.optimized_bls12_381 import (  # noqa: E402
    G1, G2, Z1, Z2, add, curve_order, double, multiply, neg,
)
from py_ecc.fields import optimized_bls12_381_FQ as FQ  # noqa: E402
from py_ecc.fields import optimized_bls12_381_FQ2 as FQ2  # noqa: E402

scalars = [0, 1, 2, 3, curve_order - 1, curve_order, curve_order + 1] + [
    rng.randrange(1, curve_order) for _ in range(12)
]
for k in scalars:
    p1, p2 = multiply(G1, k), multiply(G2, k)
    same("G1_to_pubkey", p_g2p.G1_to_pubkey, g2_primitives.G1_to_pubkey, p1)
    same("G2_to_signature", p_g2p.G2_to_signature, g2_primitives.G2_to_signature, p2)
    pk = g2_primitives.G1_to_pubkey(p1)
    sg = g2_primitives.G2_to_signature(p2)
    check(type(pk).__name__ == "bytes" and len(pk) == 48, "pubkey is 48 bytes")
    check(type(sg).__name__ == "bytes" and len(sg) == 96, "signature is 96 bytes")
    same("pubkey_to_G1", p_g2p.pubkey_to_G1, g2_primitives.pubkey_to_G1, pk)
    same("signature_to_G2", p_g2p.signature_to_G2, g2_primitives.signature_to_G2, sg)
    # malformed neighbours
    for bad in (pk[:47], pk + b"\x00", bytes([pk[0] ^ 0x80]) + pk[1:],
                bytes([pk[0] ^ 0x40]) + pk[1:], bytes([pk[0] ^ 0x20]) + pk[1:],
                pk[:-1] + bytes([pk[-1] ^ 1]), bytearray(pk), pk.hex(), None):
        same("pubkey_to_G1", p_g2p.pubkey_to_G1, g2_primitives.pubkey_to_G1, bad)
    for bad in (sg[:95], sg + b"\x00", bytes([sg[0] ^ 0x80]) + sg[1:],
                bytes([sg[0] ^ 0x40]) + sg[1:], bytes([sg[0] ^ 0x20]) + sg[1:],
                sg[:48] + bytes([sg[48] | 0x80]) + sg[49:],
                sg[:-1] + bytes([sg[-1] ^ 1]), bytearray(sg), sg.hex(), None):
        same("signature_to_G2", p_g2p.signature_to_G2, g2_primitives.signature_to_G2, bad)
    n_direct += 23
for pt in (Z1, (FQ(3), FQ(9), FQ(0)), (G1[0] * 7, G1[1] * 7, G1[2] * 7), neg(G1),
           double(G1), add(G1, double(G1)), None, (FQ(1), FQ(1), FQ(1))):
    same("G1_to_pubkey", p_g2p.G1_to_pubkey, g2_primitives.G1_to_pubkey, pt)
for pt in (Z2, (FQ2([3, 1]), FQ2([9, 2]), FQ2.zero()), (G2[0] * 7, G2[1] * 7, G2[2] * 7),
           neg(G2), double(G2), add(G2, double(G2)), None,
           (FQ2.one(), FQ2.one(), FQ2.one()), (FQ2.zero(), FQ2.zero(), FQ2.zero())):
    same("G2_to_signature", p_g2p.G2_to_signature, g2_primitives.G2_to_signature, pt)
same("subgroup_check", p_g2p.subgroup_check, g2_primitives.subgroup_check, G1)
same("subgroup_check", p_g2p.subgroup_check, g2_primitives.subgroup_check, Z2)

# hash_to_curve: field hashing consumes os2ip
for msg in (b"", b"abc", b"a" * 512, rng.randbytes(33)):
    for dst in (b"BLS_SIG_BLS12381G2_XMD:SHA-256_SSWU_RO_NUL_", b"", b"d" * 255, b"d" * 256):
        for cnt in (0, 1, 2, 3):
            same("h2f2", p_h2c.hash_to_field_FQ2, hash_to_curve.hash_to_field_FQ2,
                 msg, cnt, dst, hashlib.sha256)
            same("h2f", p_h2c.hash_to_field_FQ, hash_to_curve.hash_to_field_FQ,
                 msg, cnt, dst, hashlib.sha256)
            n_direct += 2
    same("hash_to_G2", p_h2c.hash_to_G2, hash_to_curve.hash_to_G2, msg,
         b"BLS_SIG_BLS12381G2_XMD:SHA-256_SSWU_RO_AUG_", hashlib.sha256)
    same("hash_to_G1", p_h2c.hash_to_G1, hash_to_curve.hash_to_G1, msg,
         b"QUUX-V01-CS02-with-BLS12381G1_XMD:SHA-256_SSWU_RO_", hashlib.sha256)
same("hash_to_G2/str", p_h2c.hash_to_G2, hash_to_curve.hash_to_G2, "abc", b"d", hashlib.sha256)
print("B: direct comparisons done:", n_direct, "+")

# ------------------------------------------------- C. full case list vs ref.json
with open(os.path.join(here, "ref.json")) as f:
    ref = json.load(f)
got = json.loads(json.dumps(cases.run_cases(heavy=True)))
check(set(got) == set(ref), "same case ids")
nbad = 0
for k in sorted(ref):
    if got.get(k) != ref[k]:
        nbad += 1
        check(False, f"case {k}: ref {ref[k]!r:.90} got {got.get(k)!r:.90}")
print(f"C: {len(ref)} public-API cases compared with the pristine reference, {nbad} differ")

# ------------------------------------------------- D. call-history independence
light1 = json.loads(json.dumps(cases.run_cases(heavy=False)))
for k, v in light1.items():
    check(ref.get(k) == v, f"replayed case {k} changed: {ref.get(k)!r:.80} -> {v!r:.80}")
# interleave suites / arguments in a different order and repeat
from py_ecc.bls import G2Basic, G2MessageAugmentation, G2ProofOfPossession  # noqa: E402

seq = []
for rep in range(2):
    for S, nm in ((G2ProofOfPossession, "POP"), (G2Basic, "NUL"), (G2MessageAugmentation, "AUG")):
        seq.append((f"SkToPk/{nm}/v4", S.SkToPk, (curve_order - 1,)))
        seq.append((f"Sign/{nm}/v0/m2", S.Sign, (1, b"abc")))
        seq.append((f"SkToPk/{nm}/bad0", S.SkToPk, (0,)))
        seq.append((f"Sign/{nm}/v0/m0", S.Sign, (1, b"")))
    seq.append(("PopProve/v0", G2ProofOfPossession.PopProve, (1,)))
rng.shuffle(seq)
for k, fn, a in seq:
    o = outcome(fn, *a)
    check(list(o) == ref[k], f"interleaved {k}: {o!r:.80} vs {ref[k]!r:.80}")
print("D: replay and interleaving done:", len(light1) + len(seq), "calls")

if failures:
    print(len(failures), "FAILURES")
    sys.exit(1)
print("OK: edited tree is indistinguishable from the pristine one on all cases")
