import os, sys; sys.path.insert(0, os.getcwd())  # noqa: E401,E702
"""Run on the PRISTINE tree: writes ref.json next to this script."""
import json
import subprocess

here = os.path.dirname(os.path.abspath(__file__))
sys.path.insert(1, here)
import cases  # noqa: E402

import py_ecc  # noqa: E402

assert os.path.realpath(py_ecc.__file__).startswith(os.path.realpath(os.getcwd()))
dirty = subprocess.run(
    ["git", "status", "--short"], capture_output=True, text=True, check=True
).stdout.strip()
assert dirty == "", "reference values must be generated on a clean tree: " + dirty

out = cases.run_cases(heavy=True)
with open(os.path.join(here, "ref.json"), "w") as f:
    json.dump(out, f, indent=0, sort_keys=True)
print(len(out), "reference cases written")
