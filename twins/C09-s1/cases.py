"""
Shared case list for the C09 equivalence demonstrations.

run_cases() drives the public BLS API (SkToPk / Sign / PopProve / Aggregate and a few
verification calls) plus the serialisation helpers of whatever py_ecc is importable,
and returns a JSON-serialisable dict  case-id -> ["ok", repr] | ["exc", class name].

It is run once on the pristine tree (gen_ref.py -> ref.json) and again by equiv.py on
the edited tree; both outputs must be identical.
"""
import random


def _enc(v):
    """Deterministic, type-revealing encoding of a result."""
    if isinstance(v, (bytes, bytearray)):
        return [type(v).__name__, bytes(v).hex()]
    if isinstance(v, bool):
        return ["bool", v]
    if isinstance(v, int):
        return ["int", str(v)]
    if isinstance(v, tuple):
        return ["tuple", [_enc(x) for x in v]]
    if isinstance(v, list):
        return ["list", [_enc(x) for x in v]]
    if v is None:
        return ["None"]
    # field elements
    if hasattr(v, "coeffs"):
        return [type(v).__name__, [_enc(int(c)) for c in v.coeffs]]
    if hasattr(v, "n"):
        return [type(v).__name__, str(v.n)]
    return [type(v).__name__, repr(v)]


def _call(out, key, fn, *args):
    try:
        out[key] = ["ok", _enc(fn(*args))]
    except BaseException as e:  # noqa: B902 - we compare exception classes
        out[key] = ["exc", type(e).__name__]


def build_inputs():
    from py_ecc.optimized_bls12_381 import curve_order as r

    rng = random.Random(0xC09)
    valid_sks = [1, 2, 3, 7, r - 1, r - 2, (2**255) % r, 2**128, r // 2, r // 2 + 1]
    valid_sks += [rng.randrange(1, r) for _ in range(6)]
    invalid_sks = [
        0,
        -1,
        r,
        r + 1,
        2**256,
        -r,
        "1",
        1.0,
        None,
        b"\x01",
        True,  # a bool is an int: behaves like 1
        False,
    ]
    msgs = [
        b"",
        b"\x00",
        b"abc",
        b"\x00" * 32,
        bytes(range(256)),
        b"\xff" * 1000,
        b"BLS_SIG_BLS12381G2_XMD:SHA-256_SSWU_RO_POP_",
        rng.randbytes(48),
        rng.randbytes(96),
    ]
    bad_msgs = ["abc", bytearray(b"abc"), None, 5, memoryview(b"abc"), [1, 2]]
    return r, valid_sks, invalid_sks, msgs, bad_msgs


def run_cases(heavy=True):
    from py_ecc.bls import G2Basic, G2MessageAugmentation, G2ProofOfPossession
    from py_ecc.bls import g2_primitives as g2p
    from py_ecc.bls import point_compression as pc
    from py_ecc.bls.hash import i2osp, os2ip
    from py_ecc.optimized_bls12_381 import (
        G1,
        G2,
        Z1,
        Z2,
        add,
        double,
        multiply,
        neg,
    )
    from py_ecc.fields import optimized_bls12_381_FQ as FQ
    from py_ecc.fields import optimized_bls12_381_FQ2 as FQ2

    suites = [
        ("NUL", G2Basic),
        ("AUG", G2MessageAugmentation),
        ("POP", G2ProofOfPossession),
    ]
    r, valid_sks, invalid_sks, msgs, bad_msgs = build_inputs()
    out = {}

    # --- suite constants ---
    for name, S in suites:
        out[f"DST/{name}"] = ["ok", _enc(S.DST)]
    out["POP_TAG"] = ["ok", _enc(G2ProofOfPossession.POP_TAG)]

    # --- SkToPk ---
    for name, S in suites:
        for i, sk in enumerate(valid_sks):
            _call(out, f"SkToPk/{name}/v{i}", S.SkToPk, sk)
        for i, sk in enumerate(invalid_sks):
            _call(out, f"SkToPk/{name}/bad{i}", S.SkToPk, sk)

    # --- Sign: every suite x a sub-grid of keys x messages ---
    sigs = {}
    sign_sks = valid_sks if heavy else valid_sks[:3]
    for name, S in suites:
        for i, sk in enumerate(sign_sks):
            # all messages for a few keys, a rotating pair for the rest
            mi = range(len(msgs)) if i in (0, 4) else (i % len(msgs), (i + 3) % len(msgs))
            for j in mi:
                key = f"Sign/{name}/v{i}/m{j}"
                _call(out, key, S.Sign, sk, msgs[j])
                if out[key][0] == "ok":
                    sigs[(name, i, j)] = bytes.fromhex(out[key][1][1])
        for i, sk in enumerate(invalid_sks):
            _call(out, f"Sign/{name}/bad{i}", S.Sign, sk, b"abc")
        for j, m in enumerate(bad_msgs):
            _call(out, f"Sign/{name}/badmsg{j}", S.Sign, 5, m)

    # --- PopProve ---
    for i, sk in enumerate(sign_sks):
        _call(out, f"PopProve/v{i}", G2ProofOfPossession.PopProve, sk)
    for i, sk in enumerate(invalid_sks):
        _call(out, f"PopProve/bad{i}", G2ProofOfPossession.PopProve, sk)

    # --- Aggregate ---
    all_sigs = [sigs[k] for k in sorted(sigs)]
    inf_sig = b"\xc0" + b"\x00" * 95
    s0 = all_sigs[0]
    neg_s0 = g2p.G2_to_signature(neg(g2p.signature_to_G2(s0)))
    # a point of the curve outside the r-torsion: Aggregate does not subgroup-check
    x = 1
    off_sub = None
    while off_sub is None:
        x += 1
        for flag in (0, 1):
            cand = i2osp((1 << 383) + (flag << 381), 48) + i2osp(x, 48)
            try:
                pt = g2p.signature_to_G2(cand)
            except ValueError:
                continue
            if not g2p.subgroup_check(pt):
                off_sub = cand
                break
    agg_inputs = [
        [],
        (),
        [s0],
        (s0,),
        [s0, s0],
        [s0, neg_s0],
        [inf_sig],
        [inf_sig, inf_sig],
        [inf_sig, s0],
        all_sigs[:5],
        all_sigs[5:12],
        list(reversed(all_sigs[:5])),
        all_sigs[:20],
        [off_sub],
        [off_sub, s0],
        [s0[:95]],
        [s0 + b"\x00"],
        [b""],
        [s0, b"\x00" * 96],  # c_flag clear -> ValueError
        [s0, b"\xff" * 96],
        [b"\xe0" + b"\x00" * 95],  # infinity with a_flag
        [b"\x80" + b"\x00" * 95],  # x = 0 candidates
        [b"\xa0" + b"\x00" * 95],
        [bytearray(s0)],
        [s0.hex()],
        [None],
        [s0, 5],
    ]
    for name, S in suites:
        for i, a in enumerate(agg_inputs):
            if i == 12 and not heavy:
                continue  # all_sigs[:20] has different members in the light run
            _call(out, f"Aggregate/{name}/{i}", S.Aggregate, a)
    _call(out, "Aggregate/POP/none", G2ProofOfPossession.Aggregate, None)

    # --- serialisation helpers on boundary points and projective representatives ---
    g1_pts = {
        "Z1": Z1,
        "inf_alt": (FQ(5), FQ(7), FQ(0)),
        "G1": G1,
        "negG1": neg(G1),
        "2G1": double(G1),
        "kG1": multiply(G1, 0xDEADBEEF),
        "G1_scaled": (G1[0] * 3, G1[1] * 3, G1[2] * 3),
        "r-1": multiply(G1, r - 1),
        "rG1": multiply(G1, r),
    }
    for k, p in g1_pts.items():
        _call(out, f"G1_to_pubkey/{k}", g2p.G1_to_pubkey, p)
        _call(out, f"compress_G1/{k}", pc.compress_G1, p)
    g2_pts = {
        "Z2": Z2,
        "inf_alt": (FQ2([5, 1]), FQ2([7, 2]), FQ2.zero()),
        "G2": G2,
        "negG2": neg(G2),
        "2G2": double(G2),
        "kG2": multiply(G2, 0xDEADBEEF),
        "G2_scaled": (G2[0] * 3, G2[1] * 3, G2[2] * 3),
        "r-1": multiply(G2, r - 1),
        "rG2": multiply(G2, r),
        "sum": add(G2, double(G2)),
        "off_curve": (G2[0], G2[1] + FQ2.one(), G2[2]),
    }
    for k, p in g2_pts.items():
        _call(out, f"G2_to_signature/{k}", g2p.G2_to_signature, p)
        _call(out, f"compress_G2/{k}", pc.compress_G2, p)
    _call(out, "G1_to_pubkey/none", g2p.G1_to_pubkey, None)
    _call(out, "G2_to_signature/none", g2p.G2_to_signature, None)

    q = FQ.field_modulus
    pk0 = G2Basic.SkToPk(5)
    bad_pks = [
        pk0,
        b"\xc0" + b"\x00" * 47,
        b"\xe0" + b"\x00" * 47,
        b"\x40" + b"\x00" * 47,
        b"\x00" * 48,
        b"\xff" * 48,
        b"\x80" + b"\x00" * 47,
        b"\xa0" + b"\x00" * 47,
        i2osp((1 << 383) + q, 48),
        i2osp((1 << 383) + q - 1, 48),
        i2osp((1 << 383) + 1, 48),
        i2osp((1 << 383) + 2, 48),
        pk0[:47],
        pk0 + b"\x00",
        b"\x00" + pk0,
        b"",
        bytearray(pk0),
    ]
    for i, pk in enumerate(bad_pks):
        _call(out, f"pubkey_to_G1/{i}", g2p.pubkey_to_G1, pk)
        _call(out, f"KeyValidate/{i}", G2Basic.KeyValidate, pk)
    bad_sigs = [
        s0,
        inf_sig,
        off_sub,
        b"\x00" * 96,
        b"\xff" * 96,
        b"\x80" + b"\x00" * 95,
        s0[:48] + i2osp(q, 48),
        s0[:48] + i2osp(q - 1, 48),
        i2osp((1 << 383) + q, 48) + s0[48:],
        s0[:95],
        s0 + b"\x01",
        b"",
    ]
    for i, s in enumerate(bad_sigs):
        _call(out, f"signature_to_G2/{i}", g2p.signature_to_G2, s)

    # --- octet helpers ---
    ints = [0, 1, 255, 256, 2**381, 2**383 + 2**382, 2**384 - 1, 2**384, -1, 2**768 - 1]
    for i, v in enumerate(ints):
        for n in (0, 1, 2, 48, 96):
            _call(out, f"i2osp/{i}/{n}", i2osp, v, n)
    for i, (v, n) in enumerate([(1.0, 2), ("1", 2), (None, 2), (1, -1), (1, None), (True, 1)]):
        _call(out, f"i2osp/bad{i}", i2osp, v, n)
    for i, v in enumerate(
        [b"", b"\x00", b"\x01\x00", b"\xff" * 48, bytearray(b"\x01\x02"), [1, 2], "ab", None, 5]
    ):
        _call(out, f"os2ip/{i}", os2ip, v)

    # --- a few verifications (interoperability direction) ---
    if heavy:
        for name, S in suites:
            k = (name, 0, 2)
            pk = S.SkToPk(valid_sks[0])
            _call(out, f"Verify/{name}/good", S.Verify, pk, msgs[2], sigs[k])
            _call(out, f"Verify/{name}/wrongmsg", S.Verify, pk, msgs[1], sigs[k])
        P = G2ProofOfPossession
        pk4 = P.SkToPk(valid_sks[4])
        proof = bytes.fromhex(out["PopProve/v4"][1][1])
        _call(out, "PopVerify/good", P.PopVerify, pk4, proof)
        _call(out, "PopVerify/wrongpk", P.PopVerify, pk0, proof)
        pks = [P.SkToPk(valid_sks[i]) for i in (0, 4)]
        agg = P.Aggregate([sigs[("POP", 0, 2)], sigs[("POP", 4, 2)]])
        _call(out, "FastAggregateVerify/good", P.FastAggregateVerify, pks, msgs[2], agg)
        _call(out, "FastAggregateVerify/empty", P.FastAggregateVerify, [], msgs[2], agg)
    return out
