import os, sys; sys.path.insert(0, os.getcwd())
import random
from py_ecc.optimized_bls12_381 import optimized_curve as oc
from py_ecc.bls12_381 import bls12_381_curve as ref
print(oc.__file__)
random.seed(7)
r = oc.curve_order
bad = 0
ns = list(range(0, 70)) + [r - 1, r, r + 1, 2 * r, 2**255 - 1, 2**255, 2**255 + 1, 2**256 + 12345, 2**300 + 7] + [random.getrandbits(k) for k in (64, 128, 200, 254, 255, 256, 400, 640)]
for n in ns:
    got = oc.normalize(oc.multiply(oc.G1, n)) if not oc.is_inf(oc.multiply(oc.G1, n)) else None
    want = ref.multiply(ref.G1, n)
    want = None if want is None else (want[0].n, want[1].n)
    got = None if got is None else (got[0].n, got[1].n)
    if got != want:
        bad += 1; print("differs for n =", n)
# an equal copy of G1 takes the generic path
cp = (oc.FQ(oc.G1[0].n), oc.FQ(oc.G1[1].n), oc.FQ(1))
for n in (5, r + 3, 2**255 + 1):
    if not oc.eq(oc.multiply(cp, n), oc.multiply(oc.G1, n)):
        bad += 1; print("copy differs", n)
print("checked", len(ns) + 3, "scalars; differing:", bad); sys.exit(1 if bad else 0)
