import os, sys; sys.path.insert(0, os.getcwd())

"""
Equivalence demonstration for a behaviour-preserving edit of
py_ecc/secp256k1/secp256k1.py (property C18).

Loads the pristine copy of the module (saved next to this script under
pristine/) under another module name, and the edited module from the current
working directory, and checks that every public point-arithmetic function gives
identical results (same repr, hence same values and same element types), the
same exception classes and the same object identity for "pass-through"
results, on:
  * secp256k1 itself: generator, random points, identity encodings, projective
    representatives, unreduced / negative coordinates, off-curve points,
    boundary and random scalars (negative, zero, multiples of N, up to 512 bit),
  * malformed inputs (wrong lengths, lists, None, floats, nan, inf, strings),
  * both modules with their curve constants replaced by small prime-order curves
    (A == 0 and A != 0), enumerating every pair of points and every scalar in a
    window around [-2N, 3N], also against an independent textbook affine law,
  * repeated / interleaved calls, and absence of argument / constant mutation.
Exit status 0 means no difference was found.
"""

import copy
import importlib
import importlib.util
import itertools
import random
import time

HERE = os.path.dirname(os.path.abspath(__file__))
T0 = time.time()


def load_pristine():
    path = os.path.join(HERE, "pristine", "secp256k1.py")
    spec = importlib.util.spec_from_file_location("pristine_secp256k1", path)
    mod = importlib.util.module_from_spec(spec)
    sys.modules["pristine_secp256k1"] = mod
    spec.loader.exec_module(mod)
    return mod


OLD = load_pristine()
NEW = importlib.import_module("py_ecc.secp256k1.secp256k1")
assert os.path.realpath(NEW.__file__).startswith(os.path.realpath(os.getcwd())), NEW.__file__
assert os.path.realpath(OLD.__file__) != os.path.realpath(NEW.__file__)

with open(OLD.__file__) as f_old, open(NEW.__file__) as f_new:
    assert f_old.read() != f_new.read(), "edited module is identical to pristine copy"

FAILURES = []
CHECKS = 0


def outcome(mod, fname, args):
    """Call mod.fname(*deepcopy(args)); describe the result or the exception."""
    args2 = copy.deepcopy(args)
    snapshot = repr(args2)
    try:
        res = getattr(mod, fname)(*args2)
    except RecursionError:
        return ("exc", "RecursionError")
    except Exception as e:  # noqa: BLE001
        out = ("exc", type(e).__name__)
    else:
        # which argument (if any) is returned as the very same object
        ident = [i for i, a in enumerate(args2) if res is a]
        out = ("ok", repr(res), type(res).__name__, tuple(ident))
    if repr(args2) != snapshot:
        out = out + ("MUTATED",)
    return out


def check(fname, *args):
    global CHECKS
    CHECKS += 1
    o = outcome(OLD, fname, args)
    n = outcome(NEW, fname, args)
    if o != n or "MUTATED" in n:
        FAILURES.append((fname, args, o, n))
        if len(FAILURES) <= 20:
            print("MISMATCH", fname, repr(args)[:300], "\n   old:", o, "\n   new:", n)
    return o


def consts(mod):
    return (mod.P, mod.N, mod.A, mod.B, mod.Gx, mod.Gy, mod.G)


SEC2 = (
    2**256 - 2**32 - 977,
    0xFFFFFFFFFFFFFFFFFFFFFFFFFFFFFFFEBAAEDCE6AF48A03BBFD25E8CD0364141,
    0,
    7,
    0x79BE667EF9DCBBAC55A06295CE870B07029BFCDB2DCE28D959F2815B16F81798,
    0x483ADA7726A3C4655DA4FBFC0E1108A8FD17B448A68554199C47D08FFB10D4B8,
)
for m in (OLD, NEW):
    assert consts(m) == SEC2 + ((SEC2[4], SEC2[5]),), "constants are not SEC 2"

CONST_SNAPSHOT = consts(NEW)

rng = random.Random(0xC18)
P, N, G = OLD.P, OLD.N, OLD.G

# ---------------------------------------------------------------------------
# 1. secp256k1 proper
# ---------------------------------------------------------------------------
ID2 = (0, 0)
base_scalars = [2, 3, 7, N - 1, N - 2, (N + 1) // 2, rng.randrange(1, N), rng.randrange(1, N)]
points2 = [G, ID2] + [OLD.multiply(G, k) for k in base_scalars]
negs2 = [(x, (P - y) % P) for (x, y) in points2]
points2_all = points2 + negs2
# unreduced / negative representatives of the coordinates, and off-curve points
odd2 = [
    (G[0] + P, G[1]),
    (G[0], G[1] + P),
    (G[0] - P, G[1] - P),
    (G[0], -G[1]),
    (0, P),  # y is a non-zero multiple of P
    (5, 0),  # y == 0 but x != 0
    (1, 1),
    (0, 1),
    (1, 0),
    (P - 1, P - 1),
    (True, True),
    (False, False),
]


def jac_rep(pt, z):
    return ((pt[0] * z * z) % P, (pt[1] * z**3) % P, z % P)


points3 = []
for pt in points2_all[:8] + odd2[:6]:
    points3.append((pt[0], pt[1], 1))
    points3.append(jac_rep(pt, 2))
    points3.append(jac_rep(pt, rng.randrange(2, P)))
    z = rng.randrange(2, P)
    points3.append((pt[0] * z * z, pt[1] * z**3, z))  # not reduced mod P
points3 += [
    (0, 0, 0),
    (0, 0, 1),
    (1, 0, 0),
    (1, 1, 0),
    (G[0], G[1], 0),
    (G[0], G[1], P),
    (G[0], G[1], -1),
    (G[0], 0, 1),
    (G[0], 0, 5),
    (7, 0, 0),
    (0, 1, 0),
    (0, P, 1),
    (0, 0, 2),
]

scalars = [0, 1, 2, 3, 4, 5, 15, 16, 17, 255, 256, 2**32, 2**255, 2**256 - 1, 2**256, 2**256 + 1]
scalars += [N - 2, N - 1, N, N + 1, N + 2, 2 * N - 1, 2 * N, 2 * N + 1, 2 * N + 12345, 3 * N, 17 * N + 5]
scalars += [-1, -2, -3, -N + 1, -N, -N - 1, -2 * N, -2 * N - 7, -(2**300)]
scalars += [(N - 1) // 2, (N + 1) // 2, N // 3, P, P - 1, P + 1, True, False]
scalars += [rng.getrandbits(b) for b in (8, 64, 128, 255, 256, 257, 300, 511, 512)]
scalars += [-rng.getrandbits(b) for b in (8, 64, 256, 512)]
scalars += [rng.randrange(1, N) for _ in range(6)]
scalars += [2**k - 1 for k in (2, 3, 64, 200, 255)] + [2**k + 1 for k in (2, 64, 200, 254)]

for a in points2_all + odd2:
    check("to_jacobian", a)
    for n in scalars:
        check("multiply", a, n)
for a in points3:
    check("jacobian_double", a)
    check("from_jacobian", a)
    for n in scalars[:45] + scalars[-10:]:
        check("jacobian_multiply", a, n)
print("secp256k1 multiply done", CHECKS, "checks, %.1fs" % (time.time() - T0))

for a, b in itertools.product(points2_all + odd2, repeat=2):
    check("add", a, b)
for a, b in itertools.product(points3, repeat=2):
    o = check("jacobian_add", a, b)
    if o[0] == "ok":
        check("from_jacobian", eval(o[1]))
print("secp256k1 add done", CHECKS, "checks, %.1fs" % (time.time() - T0))

# arbitrary integer triples: off-curve, negative, far above P, zero entries
def rnd_coord():
    kind = rng.randrange(6)
    if kind == 0:
        return 0
    if kind == 1:
        return rng.randrange(-5, 6)
    if kind == 2:
        return rng.randrange(P)
    if kind == 3:
        return -rng.randrange(P)
    if kind == 4:
        return rng.getrandbits(520)
    return P * rng.randrange(0, 3) + rng.randrange(0, 3)


for _ in range(4000):
    t1 = (rnd_coord(), rnd_coord(), rnd_coord())
    t2 = (rnd_coord(), rnd_coord(), rnd_coord())
    check("jacobian_add", t1, t2)
    check("jacobian_double", t1)
    check("from_jacobian", t1)
    check("to_jacobian", (t1[0], t1[1]))
    check("add", (t1[0], t1[1]), (t2[0], t2[1]))
# same affine point / opposite points through different representatives
for pt in points2_all:
    for _ in range(3):
        z1, z2 = rng.randrange(1, P), rng.randrange(1, P)
        j1, j2 = jac_rep(pt, z1), jac_rep(pt, z2)
        j3 = jac_rep((pt[0], (P - pt[1]) % P), z2)
        for x, y in ((j1, j2), (j2, j1), (j1, j3), (j3, j1), (j1, j1)):
            check("jacobian_add", x, y)
print("secp256k1 random triples done", CHECKS, "checks, %.1fs" % (time.time() - T0))

# privtopub, signing and recovery go through multiply / jacobian_* as well
privs = [
    b"\x00" * 32,
    b"\x00" * 31 + b"\x01",
    b"\x00" * 31 + b"\x02",
    (N - 1).to_bytes(32, "big"),
    N.to_bytes(32, "big"),
    (N + 1).to_bytes(32, "big"),
    b"\xff" * 32,
    b"",
    b"\x07",
    b"\xff" * 64,
    rng.getrandbits(256).to_bytes(32, "big"),
    rng.getrandbits(256).to_bytes(32, "big"),
    "ab",  # str: safe_ord goes through ord()
    [1, 2, 3],
]
for d in privs:
    check("privtopub", d)
for bad in (None, 5, [None], 1.5):
    check("privtopub", bad)
for i in range(6):
    msg = rng.getrandbits(256).to_bytes(32, "big")
    priv = rng.getrandbits(256).to_bytes(32, "big")
    o = check("ecdsa_raw_sign", msg, priv)
    if o[0] == "ok":
        vrs = eval(o[1])
        check("ecdsa_raw_recover", msg, vrs)
        check("ecdsa_raw_recover", msg, (vrs[0], vrs[1], N - vrs[2]))
        check("ecdsa_raw_recover", msg, (55 - vrs[0], vrs[1], vrs[2]))
        check("ecdsa_raw_recover", msg, (vrs[0], vrs[1], 0))
        check("ecdsa_raw_recover", msg, (vrs[0], vrs[1] + N, vrs[2] + N))
        check("ecdsa_raw_recover", b"\x00" * 32, vrs)
check("ecdsa_raw_recover", b"\x01" * 32, (26, 1, 1))
check("ecdsa_raw_recover", b"\x01" * 32, (27, 5, 1))
print("secp256k1 keys/ecdsa done", CHECKS, "checks, %.1fs" % (time.time() - T0))

# ---------------------------------------------------------------------------
# 2. malformed inputs: same exception classes / same odd results
# ---------------------------------------------------------------------------
G3 = (G[0], G[1], 1)
bad_scalars = [None, "3", b"\x03", 2.0, 3.0, 6.0, 7.0, 1.0, 0.0, -1.0, 0.5, 1.5, 3.5, 6.5, 2.0**70,
               float("nan"), float("inf"), float("-inf"), 3 + 0j, [3], (3,)]
bad_points3 = [(), (1,), (G[0], G[1]), [G[0], G[1], 1], [0, 0, 1], (G[0], G[1], 1, 99), (None, None, None),
               (G[0], None, 1), (None, G[1], 1), (G[0], G[1], None), None, 5, "abc", (G[0], "y", 1),
               (1.0, 2.0, 1.0), ([], [], []), (0, [], 1), (G[0], G[1])]
for a in bad_points3 + [G3, (0, 0, 1), (0, 0, 0)]:
    for n in bad_scalars + [0, 1, 2, 3, 5, N, N + 1, -1]:
        check("jacobian_multiply", a, n)
    check("jacobian_double", a)
    check("from_jacobian", a)
    for b in bad_points3 + [G3, (0, 0, 1), (0, 0, 0), jac_rep(G, 3)]:
        check("jacobian_add", a, b)
        check("jacobian_add", b, a)
bad_points2 = [(), (1,), [G[0], G[1]], (G[0], G[1], 7), (None, None), (G[0], None), (None, G[1]), None, 5, "ab",
               (1.0, 2.0), [0, 0]]
for a in bad_points2:
    check("to_jacobian", a)
    for n in bad_scalars[:8] + [0, 1, 2, 3, N, -1]:
        check("multiply", a, n)
    for b in bad_points2 + [G, ID2]:
        check("add", a, b)
        check("add", b, a)
for n in bad_scalars:
    check("multiply", G, n)
    check("multiply", ID2, n)
print("malformed done", CHECKS, "checks, %.1fs" % (time.time() - T0))

# ---------------------------------------------------------------------------
# 3. repeated and interleaved calls (there is no cache, but show history
#    independence anyway)
# ---------------------------------------------------------------------------
calls = []
for _ in range(60):
    kind = rng.choice(["multiply", "add", "privtopub", "jacobian_multiply", "jacobian_add"])
    if kind == "multiply":
        calls.append((kind, (rng.choice(points2_all), rng.choice(scalars))))
    elif kind == "add":
        calls.append((kind, (rng.choice(points2_all), rng.choice(points2_all))))
    elif kind == "privtopub":
        calls.append((kind, (rng.choice(privs[:12]),)))
    elif kind == "jacobian_multiply":
        calls.append((kind, (rng.choice(points3), rng.choice(scalars))))
    else:
        calls.append((kind, (rng.choice(points3), rng.choice(points3))))
first = [outcome(NEW, k, a) for k, a in calls]
order = list(range(len(calls))) * 2
rng.shuffle(order)
for i in order:
    k, a = calls[i]
    CHECKS += 1
    if outcome(NEW, k, a) != first[i] or outcome(OLD, k, a) != first[i]:
        FAILURES.append(("history", k, a))
print("history done", CHECKS, "checks, %.1fs" % (time.time() - T0))

# ---------------------------------------------------------------------------
# 4. small prime-order curves substituted for the constants in BOTH modules
# ---------------------------------------------------------------------------


def is_prime(n):
    if n < 2:
        return False
    i = 2
    while i * i <= n:
        if n % i == 0:
            return False
        i += 1
    return True


def curve_points(p, a, b):
    pts = []
    for x in range(p):
        for y in range(p):
            if (y * y - (x**3 + a * x + b)) % p == 0:
                pts.append((x, y))
    return pts


def textbook_add(p1, p2, p, a):
    """Affine group law with the identity encoded as (0, 0)."""
    if p1 == (0, 0):
        return p2
    if p2 == (0, 0):
        return p1
    (x1, y1), (x2, y2) = p1, p2
    if x1 == x2 and (y1 + y2) % p == 0:
        return (0, 0)
    if p1 == p2:
        lam = (3 * x1 * x1 + a) * pow(2 * y1, -1, p) % p
    else:
        lam = (y2 - y1) * pow(x2 - x1, -1, p) % p
    x3 = (lam * lam - x1 - x2) % p
    return (x3, (lam * (x1 - x3) - y1) % p)


def set_consts(mod, p, n, a, b, g):
    mod.P, mod.N, mod.A, mod.B, mod.Gx, mod.Gy, mod.G = p, n, a, b, g[0], g[1], g


small_curves = []
for p in [p for p in range(11, 80) if is_prime(p)]:
    for a, b in [(0, 7), (0, 3), (2, 3), (p - 3, 5), (1, 1)]:
        if (4 * a**3 + 27 * b * b) % p == 0:
            continue
        pts = curve_points(p, a, b)
        if (0, 0) in pts:
            continue  # (0, 0) must stay free to encode the identity
        order = len(pts) + 1
        if is_prime(order) and order > 3:
            small_curves.append((p, order, a, b, pts))
assert any(c[2] == 0 for c in small_curves) and any(c[2] != 0 for c in small_curves)
small_curves = sorted(small_curves, key=lambda c: c[1])
chosen = [c for c in small_curves if c[2] == 0][:4] + [c for c in small_curves if c[2] != 0][:4]

try:
    for p, order, a, b, pts in chosen:
        g = pts[0]
        for m in (OLD, NEW):
            set_consts(m, p, order, a, b, g)
        allpts = [(0, 0)] + pts
        # ground truth multiples
        for pt1 in allpts:
            for pt2 in allpts:
                o = check("add", pt1, pt2)
                CHECKS += 1
                if o[:2] != ("ok", repr(textbook_add(pt1, pt2, p, a))):
                    FAILURES.append(("textbook add", (p, a, b), pt1, pt2, o))
                for z1, z2 in ((1, 1), (2, 3), (p - 1, 5)):
                    j1 = ((pt1[0] * z1 * z1) % p, (pt1[1] * z1**3) % p, z1)
                    j2 = ((pt2[0] * z2 * z2) % p, (pt2[1] * z2**3) % p, z2)
                    check("jacobian_add", j1, j2)
            acc = (0, 0)
            multiples = [acc]
            for _ in range(order - 1):
                acc = textbook_add(acc, pt1, p, a)
                multiples.append(acc)
            for n in range(-2 * order - 2, 3 * order + 3):
                o = check("multiply", pt1, n)
                CHECKS += 1
                if o[:2] != ("ok", repr(multiples[n % order])):
                    FAILURES.append(("textbook mul", (p, a, b), pt1, n, o))
                check("jacobian_multiply", (pt1[0] * 4 % p, pt1[1] * 8 % p, 2), n)
            for n in (order * 1000 + 3, -(order * 999) - 1, 2**64, 2**64 + 1, -(2**65) + 1):
                check("multiply", pt1, n)
            for z in (0, 1, 2, p - 1, p):
                j = ((pt1[0] * z * z) % p, (pt1[1] * z**3) % p, z)
                check("jacobian_double", j)
                check("from_jacobian", j)
        for d in range(0, 3 * order):
            check("privtopub", bytes([d]))
finally:
    for m in (OLD, NEW):
        set_consts(m, SEC2[0], SEC2[1], SEC2[2], SEC2[3], (SEC2[4], SEC2[5]))
print("small curves done (%d curves)" % len(chosen), CHECKS, "checks, %.1fs" % (time.time() - T0))

# constants untouched, and SEC 2 sanity: N*G = identity, (N-1)*G = -G
assert consts(NEW) == CONST_SNAPSHOT and consts(OLD) == CONST_SNAPSHOT
assert NEW.multiply(G, N) == (0, 0) and NEW.multiply(G, N - 1) == (G[0], P - G[1])
assert NEW.privtopub(b"\x00" * 31 + b"\x01") == G

print("total checks:", CHECKS, "failures:", len(FAILURES), "time %.1fs" % (time.time() - T0))
if FAILURES:
    sys.exit(1)
print("EQUIVALENT")
sys.exit(0)
