import os, sys; sys.path.insert(0, os.getcwd())  # noqa: E401,E702

"""
Equivalence demonstration for refactoring r3 (property C17).

Loads the pristine py_ecc/optimized_bls12_381/constants.py and py_ecc/bls/constants.py
(saved next to this script) under other module names inside their packages and checks
that every constant of the refactored modules has the identical type and value, that
the cofactor constants satisfy the curve-parameter identities, and that cofactor
clearing / the subgroup test computed with the refactored tree coincide with the ones
computed from the pristine constants on subgroup points, points with cofactor
components, random curve points, infinity and rescaled representatives.
"""

import importlib.util
import random

HERE = os.path.dirname(os.path.abspath(__file__))


def load(name, path):
    spec = importlib.util.spec_from_file_location(name, path)
    mod = importlib.util.module_from_spec(spec)
    sys.modules[name] = mod
    spec.loader.exec_module(mod)
    return mod


import py_ecc.bls.constants as new_bc  # noqa: E402
import py_ecc.bls.g2_primitives as prim  # noqa: E402
import py_ecc.bls.hash_to_curve as h2c  # noqa: E402
import py_ecc.optimized_bls12_381.constants as new_oc  # noqa: E402
import py_ecc.optimized_bls12_381.optimized_clear_cofactor as cc  # noqa: E402
import py_ecc.optimized_bls12_381.optimized_curve as old  # noqa: E402  (untouched by r3)

for m in (new_bc, new_oc, cc):
    assert os.path.abspath(m.__file__).startswith(os.getcwd()), m.__file__
old_oc = load(
    "py_ecc.optimized_bls12_381.constants_pristine",
    os.path.join(HERE, "pristine", "opt_constants.py"),
)
old_bc = load(
    "py_ecc.bls.constants_pristine",
    os.path.join(HERE, "pristine", "bls_constants.py"),
)
assert old_oc is not new_oc and old_bc is not new_bc
# the clearing functions read the refactored constants
assert cc.H_EFF_G1 is new_oc.H_EFF_G1 and cc.H_EFF_G2 is new_oc.H_EFF_G2

G2_COFACTOR = old_bc.G2_COFACTOR
H_EFF_G1, H_EFF_G2 = old_oc.H_EFF_G1, old_oc.H_EFF_G2

from py_ecc.bls.point_compression import modular_squareroot_in_FQ2  # noqa: E402
from py_ecc.fields import (  # noqa: E402
    optimized_bls12_381_FQ as FQ,
    optimized_bls12_381_FQ2 as FQ2,
    optimized_bls12_381_FQ12 as FQ12,
)

rng = random.Random(0xC17)
q = old.field_modulus
r = old.curve_order
G1_COFACTOR = 0x396C8C005555E1568C00AAAB0000AAAB
assert (q + 1 - (-0xD201000000010000 + 1)) == G1_COFACTOR * r  # #E(Fp) = h1 * r


# ---------------------------------------------------------------- canonical forms
def canon(v):
    """Structural, class-sensitive rendering of a value (or of a raised exception)."""
    if isinstance(v, (FQ,)):
        return (type(v).__name__, v.n)
    if hasattr(v, "coeffs"):
        return (type(v).__name__, tuple(canon(c) for c in v.coeffs))
    if isinstance(v, tuple):
        return ("tuple",) + tuple(canon(c) for c in v)
    if isinstance(v, list):
        return ("list",) + tuple(canon(c) for c in v)
    if isinstance(v, bool) or v is None or isinstance(v, (int, float, str, bytes)):
        return (type(v).__name__, v)
    return ("obj", type(v).__name__, repr(v))


def run(f, *args):
    """-> (status, canonical value or exception class name, raw value)"""
    try:
        v = f(*args)
        return ("ok", canon(v), v)
    except RecursionError:
        return ("exc", "RecursionError", None)
    except Exception as e:  # noqa: BLE001
        return ("exc", type(e).__name__, None)


checked = 0


def same(fo, fn, *args, identity_of=None):
    """Both versions agree on value / exception class (and on returning an operand)."""
    global checked
    fname = fo.__name__
    a, b = run(fo, *args), run(fn, *args)
    assert a[:2] == b[:2], (fname, args, a[:2], b[:2])
    if identity_of is not None and a[0] == "ok":
        for cand in identity_of:
            assert (a[2] is cand) == (b[2] is cand), (fname, "identity", args)
    checked += 1
    return a[2], b[2]


# ---------------------------------------------------------------- point factories
def rand_g1_curve_point():
    while True:
        x = FQ(rng.randrange(q))
        y2 = x * x * x + old.b
        y = y2 ** ((q + 1) // 4)
        if y * y == y2:
            if rng.random() < 0.5:
                y = -y
            return (x, y, FQ(1))


def rand_g2_curve_point():
    while True:
        x = FQ2([rng.randrange(q), rng.randrange(q)])
        y = modular_squareroot_in_FQ2(x * x * x + old.b2)
        if y is not None:
            if rng.random() < 0.5:
                y = -y
            return (x, y, FQ2.one())


def rescale(pt, lam):
    return tuple(c * lam for c in pt)


def rand_scalar_like(pt):
    if isinstance(pt[0], FQ2):
        return FQ2([rng.randrange(1, q), rng.randrange(q)])
    return FQ(rng.randrange(1, q))


def torsion(pt, group_order_cofactor, ell):
    """Component of order dividing ell of a curve point (may be infinity)."""
    return old.multiply(pt, (group_order_cofactor // ell) * r)


points = []  # (label, point, b)

# subgroup points
for k in [1, 2, r - 1, rng.randrange(r)]:
    points.append((f"{k}G1", old.multiply(old.G1, k), old.b))
    points.append((f"{k}G2", old.multiply(old.G2, k), old.b2))

# random curve points (carry a cofactor component with overwhelming probability)
R1 = [rand_g1_curve_point() for _ in range(3)]
R2 = [rand_g2_curve_point() for _ in range(3)]
for i, p in enumerate(R1):
    points.append((f"R1_{i}", p, old.b))
for i, p in enumerate(R2):
    points.append((f"R2_{i}", p, old.b2))

# pure cofactor components, full and of small prime order, and kG + T
T1_full = old.multiply(R1[0], r)
T2_full = old.multiply(R2[0], r)
assert not old.is_inf(T1_full) and not old.is_inf(T2_full)
points.append(("T1_full", T1_full, old.b))
points.append(("T2_full", T2_full, old.b2))
small1, small2 = [], []
for ell in (3, 11, 10177):
    assert G1_COFACTOR % ell == 0
    for R in R1:
        T = torsion(R, G1_COFACTOR, ell)
        if not old.is_inf(T):
            assert old.is_inf(old.multiply(T, ell))
            small1.append((ell, T))
            break
for ell in (13, 23, 2713, 11953):
    assert G2_COFACTOR % ell == 0
    for R in R2:
        T = torsion(R, G2_COFACTOR, ell)
        if not old.is_inf(T):
            assert old.is_inf(old.multiply(T, ell))
            small2.append((ell, T))
            break
assert small1 and small2
for ell, T in small1:
    points.append((f"T1_{ell}", T, old.b))
    k = rng.randrange(1, r)
    points.append((f"kG1+T1_{ell}", old.add(old.multiply(old.G1, k), T), old.b))
for ell, T in small2:
    points.append((f"T2_{ell}", T, old.b2))
    k = rng.randrange(1, r)
    points.append((f"kG2+T2_{ell}", old.add(old.multiply(old.G2, k), T), old.b2))
points.append(("kG1+T1_full", old.add(old.multiply(old.G1, 77), T1_full), old.b))
points.append(("kG2+T2_full", old.add(old.multiply(old.G2, 77), T2_full), old.b2))

for label, p, b in points:
    assert old.is_on_curve(p, b), label

# representations of infinity
infs1 = [old.Z1, (FQ(0), FQ(0), FQ(0)), (FQ(5), FQ(7), FQ(0)), (FQ(0), FQ(1), FQ(0))]
infs2 = [
    old.Z2,
    (FQ2.zero(), FQ2.zero(), FQ2.zero()),
    (FQ2([5, 1]), FQ2([7, 2]), FQ2.zero()),
]
for i, z in enumerate(infs1):
    points.append((f"inf1_{i}", z, old.b))
for i, z in enumerate(infs2):
    points.append((f"inf2_{i}", z, old.b2))

# rescaled representatives of everything
scaled = []
for label, p, b in points:
    scaled.append((label + "*lam", rescale(p, rand_scalar_like(p)), b))
points += scaled

# ---------------------------------------------------------------- constants
def public(m):
    return {k: v for k, v in vars(m).items() if not k.startswith("_")}


n_const = 0
for o, n, added in ((old_oc, new_oc, {"BLS12_381_Z"}), (old_bc, new_bc, set())):
    po, pn = public(o), public(n)
    assert set(pn) - set(po) == added, (set(pn) - set(po), set(po) - set(pn))
    assert set(po) <= set(pn)
    for k, v in po.items():
        if isinstance(v, type(os)) or isinstance(v, type):
            assert pn[k] is v, k  # same imported module / class objects
            continue
        assert type(pn[k]) is type(v), k
        assert canon(pn[k]) == canon(v), k
        n_const += 1
for name in ("H_EFF_G1", "H_EFF_G2"):
    assert type(getattr(new_oc, name)) is int
    assert getattr(new_oc, name) == getattr(old_oc, name)
assert type(new_bc.G2_COFACTOR) is int and new_bc.G2_COFACTOR == old_bc.G2_COFACTOR
assert hash(new_bc.G2_COFACTOR) == hash(old_bc.G2_COFACTOR)
assert repr(new_oc.H_EFF_G2) == repr(old_oc.H_EFF_G2)

# published constants vs the values derived from the curve parameter
z = new_oc.BLS12_381_Z
assert type(z) is int and z == -0xD201000000010000
assert r == z**4 - z**2 + 1
assert 3 * q == (z - 1) ** 2 * r + 3 * z
assert 3 * G1_COFACTOR == (z - 1) ** 2
h2_times_9 = z**8 - 4 * z**7 + 5 * z**6 - 4 * z**4 + 6 * z**3 - 4 * z**2 - 4 * z + 13
assert h2_times_9 % 9 == 0 and new_bc.G2_COFACTOR == h2_times_9 // 9
assert new_oc.H_EFF_G1 == 1 - z == 0xD201000000010001
assert new_oc.H_EFF_G2 == new_bc.G2_COFACTOR * (3 * z**2 - 3)
assert new_oc.H_EFF_G2 == int(
    "bc69f08f2ee75b3584c6a0ea91b352888e2a8e9145ad7689986ff031508ffe1329c2f178731db956"
    "d82bf015d1212b02ec0ec69d7477c1ae954cbc06689f6a359894c0adebbf6b4e8020005aaa95551",
    16,
)
# #E'(Fp2) = h2 * r
t = z + 1
t2 = t * t - 2 * q
f2 = (4 * q * q - t2 * t2) // 3
assert 3 * f2 == 4 * q * q - t2 * t2
fsq = int(__import__("math").isqrt(f2))
assert fsq * fsq == f2
assert any(
    q * q + 1 - (s * t2 + e * 3 * fsq) // 2 == new_bc.G2_COFACTOR * r
    for s in (1, -1)
    for e in (1, -1)
)

# ---------------------------------------------------------------- behaviour
n_accept = n_reject = 0
for label, p, b in points:
    is_g2 = isinstance(p[0], FQ2)
    h_old = H_EFF_G2 if is_g2 else H_EFF_G1
    clear_new = cc.multiply_clear_cofactor_G2 if is_g2 else cc.multiply_clear_cofactor_G1
    a = run(old.multiply, p, h_old)
    bb = run(clear_new, p)
    assert a[:2] == bb[:2] and a[0] == "ok", label
    checked += 1
    # the wrappers used by hash-to-curve
    wrap = h2c.clear_cofactor_G2 if is_g2 else h2c.clear_cofactor_G1
    assert canon(wrap(p)) == a[1], label
    s = prim.subgroup_check(p)
    assert s is old.is_inf(old.multiply(p, r)), label
    assert prim.subgroup_check(bb[2]) is True, label
    # multiplying by the true cofactor kills the cofactor component as well
    assert prim.subgroup_check(old.multiply(p, new_bc.G2_COFACTOR if is_g2 else G1_COFACTOR))
    n_accept += s
    n_reject += not s
assert n_accept and n_reject

# malformed points: the clearing functions fail (or succeed) exactly as a plain
# multiplication by the pristine constants does
G1, G2 = old.G1, old.G2
bad_points = [
    None, (), (FQ(1),), (FQ(1), FQ(2)), (FQ(1), FQ(2), FQ(3), FQ(4)),
    (FQ(1), FQ(2), 1), (FQ(1), FQ(2), 0), (FQ(1), 2, FQ(1)),
    (FQ(1), FQ(2), FQ2.one()), (FQ2.one(), FQ2.one(), FQ(1)), (FQ(1), FQ(2), None),
    [G1[0], G1[1], G1[2]], "abc", 7, (G1[0], G1[1]), (None, None, None),
    (FQ(3), FQ(5), FQ(1)), (FQ2([3, 1]), FQ2([5, 0]), FQ2.one()),
    (FQ(0), FQ(0), FQ(1)), (FQ2.zero(), FQ2.zero(), FQ2.one()),
]
for bp in bad_points:
    for f, h in ((cc.multiply_clear_cofactor_G1, H_EFF_G1),
                 (cc.multiply_clear_cofactor_G2, H_EFF_G2)):
        assert run(f, bp)[:2] == run(old.multiply, bp, h)[:2], (bp, f.__name__)
        checked += 1

# hash-to-curve end to end still produces the RFC 9380 points (uses both constants)
from hashlib import sha256  # noqa: E402

DST = b"QUUX-V01-CS02-with-BLS12381G2_XMD:SHA-256_SSWU_RO_"
P = h2c.hash_to_G2(b"abc", DST, sha256)
x, y = old.normalize(P)
assert x.coeffs[0] == 0x02C2D18E033B960562AAE3CAB37A27CE00D80CCD5BA4B7FE0E7A210245129DBEC7780CCC7954725F4168AFF2787776E6  # noqa: E501
assert prim.subgroup_check(P)
DST1 = b"QUUX-V01-CS02-with-BLS12381G1_XMD:SHA-256_SSWU_RO_"
P1 = h2c.hash_to_G1(b"abc", DST1, sha256)
x1, _ = old.normalize(P1)
assert x1 == 0x03567BC5EF9C690C2AB2ECDF6A96EF1C139CC0B2F284DCA0A9A7943388A49A3AEE664BA5379A7655D3C68900BE2F6903  # noqa: E501
assert prim.subgroup_check(P1)

print(f"r3 equivalence OK: {n_const} constants identical, {checked} behaviour comparisons, "
      f"{n_accept} accepted / {n_reject} rejected by the subgroup test")
