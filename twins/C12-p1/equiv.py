import os, sys; sys.path.insert(0, os.getcwd())  # noqa: E401,E702

"""
Equivalence demonstration for C12/p1.

Edited module : py_ecc/optimized_bls12_381/optimized_pairing.py (imported from cwd)
Pristine copy : /tmp/twin2/C12/p1/pristine/optimized_bls12_381_optimized_pairing.py
                (loaded under another module name inside the same package so its
                relative imports resolve against the same optimized_curve)

Run as:  cd /tmp/wt2/C12 && /venv/bin/python /tmp/twin2/C12/p1/equiv.py
"""
import importlib.util
import random
import time

HERE = os.path.dirname(os.path.abspath(__file__))
T0 = time.time()

import py_ecc  # noqa: E402

assert os.path.abspath(py_ecc.__file__).startswith(os.getcwd()), py_ecc.__file__

from py_ecc.fields import (  # noqa: E402
    optimized_bls12_381_FQ as FQ,
    optimized_bls12_381_FQ2 as FQ2,
    optimized_bls12_381_FQ12 as FQ12,
    optimized_bn128_FQ12 as BN_FQ12,
)
from py_ecc.optimized_bls12_381 import (  # noqa: E402
    optimized_curve as oc,
    optimized_pairing as new,
)


def load_pristine():
    name = "py_ecc.optimized_bls12_381._pristine_optimized_pairing"
    path = os.path.join(HERE, "pristine", "optimized_bls12_381_optimized_pairing.py")
    spec = importlib.util.spec_from_file_location(name, path)
    mod = importlib.util.module_from_spec(spec)
    sys.modules[name] = mod
    spec.loader.exec_module(mod)
    return mod


old = load_pristine()
assert old is not new and old.__file__ != new.__file__
assert "_EXPTABLE_P6" in vars(new) and "_EXPTABLE_P6" not in vars(old)

P = oc.field_modulus
R = oc.curve_order
rng = random.Random(0xC12)
CHECKS = 0


def canon(v):
    """Turn a result into something comparable by plain ==."""
    if isinstance(v, (FQ12, FQ2, BN_FQ12)):
        return (type(v).__name__, type(v).__module__, tuple(int(c) for c in v.coeffs))
    if isinstance(v, tuple):
        return tuple(canon(x) for x in v)
    if isinstance(v, list):
        return [canon(x) for x in v]
    return (type(v).__name__, repr(v))


def outcome(fn, *a, **kw):
    try:
        return ("ok", canon(fn(*a, **kw)))
    except BaseException as e:  # noqa: B902
        return ("exc", type(e).__name__)


def same(name, fo, fn, *a, **kw):
    global CHECKS
    ro = outcome(fo, *a, **kw)
    rn = outcome(fn, *a, **kw)
    assert ro == rn, (name, a, kw, ro, rn)
    CHECKS += 1
    return ro


def table_snapshot():
    return (
        canon(list(new.exptable)),
        canon(list(new._EXPTABLE_P2)),
        canon(list(new._EXPTABLE_P6)),
        new._HARD_PART_COFACTOR,
    )


SNAP0 = table_snapshot()

# ------------------------------------------------------------------ constants
assert canon(list(old.exptable)) == canon(list(new.exptable))
assert new._HARD_PART_COFACTOR == (P**4 - P**2 + 1) // R
assert isinstance(new._EXPTABLE_P2, tuple) and isinstance(new._EXPTABLE_P6, tuple)
assert len(new._EXPTABLE_P2) == len(new._EXPTABLE_P6) == 12
for name in ("ate_loop_count", "log_ate_loop_count", "pseudo_binary_encoding",
             "field_modulus"):
    assert getattr(old, name) == getattr(new, name), name
# the tables really are Frobenius powers of the basis (plain exponentiation)
for i in (0, 1, 5, 11):
    basis = FQ12([0] * i + [1] + [0] * (11 - i))
    assert canon(basis ** (P**2)) == canon(new._EXPTABLE_P2[i])
    assert canon(basis ** (P**6)) == canon(new._EXPTABLE_P6[i])


# ------------------------------------------------------------------ FQ12 inputs
def rand12():
    return FQ12([rng.randrange(P) for _ in range(12)])


def sparse(idx, vals):
    c = [0] * 12
    for i, v in zip(idx, vals):
        c[i] = v
    return FQ12(c)


elements = [FQ12.one(), FQ12([P - 1] + [0] * 11), FQ12([2] + [0] * 11)]
elements += [sparse([i], [1]) for i in range(12)]
elements += [sparse([i], [P - 1]) for i in (1, 6, 11)]
elements += [sparse([0, 6], [3, 5]), sparse([1, 7], [P - 2, 1]),
             sparse([0, 2, 4, 6, 8, 10], [1, 2, 3, 4, 5, 6]),
             sparse([11], [rng.randrange(P)])]
elements += [FQ12([P - 1] * 12), FQ12(list(range(1, 13)))]
elements += [rand12() for _ in range(8)]
# non-canonical spellings of the coefficients accepted by the constructor
elements += [FQ12([P + 3, -1] + [0] * 10), FQ12([FQ(rng.randrange(P)) for _ in range(12)])]

# exp_by_p: old vs new, and vs plain exponentiation by p
for x in elements + [FQ12.zero()]:
    r = same("exp_by_p", old.exp_by_p, new.exp_by_p, x)
for x in elements[:6] + elements[-4:]:
    assert canon(new.exp_by_p(x)) == canon(x**P)
    assert canon(new._apply_frobenius_table(new._EXPTABLE_P2, x)) == canon(
        old.exp_by_p(old.exp_by_p(x)))
    y = x
    for _ in range(6):
        y = old.exp_by_p(y)
    assert canon(new._apply_frobenius_table(new._EXPTABLE_P6, x)) == canon(y)

# final_exponentiate: old vs new on every element, plus zero (exception class)
print("final_exponentiate on", len(elements) + 1, "field elements ...", flush=True)
results = {}
for k, x in enumerate(elements + [FQ12.zero()]):
    results[k] = same("final_exponentiate", old.final_exponentiate,
                      new.final_exponentiate, x)
print("  zero ->", results[len(elements)], flush=True)

# and against plain exponentiation by (p^12-1)/r for a handful
full_exp = (P**12 - 1) // R
for k in (0, 1, 4, 16, len(elements) - 3, len(elements) - 1):
    x = elements[k]
    assert results[k] == ("ok", canon(x**full_exp)), k
    CHECKS += 1

# ------------------------------------------------------------------ malformed
p_fq2 = FQ2([3, 4])
bn_el = BN_FQ12([rng.randrange(2**200) for _ in range(12)])


class Short:
    coeffs = (5, 7, 9)


class Long:
    coeffs = tuple(range(1, 20))


class Bad:
    coeffs = ("a", "b")


for bad in (None, 0, 1, 7, -3, 2.5, "x", b"\x01", [1] * 12, (1,) * 12, FQ(5), p_fq2,
            bn_el, Short(), Long(), Bad(), object()):
    same("final_exponentiate/malformed", old.final_exponentiate,
         new.final_exponentiate, bad)
    same("exp_by_p/malformed", old.exp_by_p, new.exp_by_p, bad)

# ------------------------------------------------------------------ pairings
print("pairings ...", flush=True)
G1, G2, Z1, Z2 = oc.G1, oc.G2, oc.Z1, oc.Z2


def scale(pt, k):
    return tuple(c * k for c in pt)


pts = []
for a, b_ in ((1, 1), (5, 7), (R - 1, 2)):
    Pa, Qb = oc.multiply(G1, a), oc.multiply(G2, b_)
    pts.append((Qb, Pa))  # whatever projective representative multiply produced
pts.append((scale(oc.multiply(G2, 3), FQ2([7, 11])), scale(oc.multiply(G1, 9), 12345)))

miller_vals = []
for Q, Pt in pts:
    r1 = same("pairing", old.pairing, new.pairing, Q, Pt)
    r0 = same("pairing/noexp", old.pairing, new.pairing, Q, Pt, final_exponentiate=False)
    assert r1[0] == r0[0] == "ok"
    m = new.pairing(Q, Pt, final_exponentiate=False)
    miller_vals.append(m)
    # split form == one-shot form, in both versions
    assert canon(new.final_exponentiate(m)) == r1[1]
    assert canon(old.final_exponentiate(m)) == r1[1]
    CHECKS += 2
same("miller_loop", old.miller_loop, new.miller_loop, pts[1][0], pts[1][1])
same("miller_loop/noexp", old.miller_loop, new.miller_loop, pts[1][0], pts[1][1], False)

# products of 1..6 Miller values (re-using the four values cyclically)
singles = [new.final_exponentiate(m) for m in miller_vals]
for n in range(1, 7):
    prod_m, prod_e = FQ12.one(), FQ12.one()
    for j in range(n):
        prod_m = prod_m * miller_vals[j % 4]
        prod_e = prod_e * singles[j % 4]
    r = same("final_exponentiate/product", old.final_exponentiate,
             new.final_exponentiate, prod_m)
    assert r == ("ok", canon(prod_e)), n

# identity / infinity / invalid inputs through pairing and miller_loop
off_g1 = (G1[0], G1[1] + FQ(1), G1[2])
off_g2 = (G2[0], G2[1] + FQ2([1, 0]), G2[2])
for Q, Pt in ((Z2, G1), (G2, Z1), (Z2, Z1), (G2, off_g1), (off_g2, G1), (G1, G2),
              (None, G1), (G2, None), (G2, (G1[0], G1[1])), (7, G1)):
    for fe in (True, False):
        same("pairing/edge", old.pairing, new.pairing, Q, Pt, final_exponentiate=fe)
for Q, Pt in ((None, G1), (G2, None), (None, None)):
    same("miller_loop/none", old.miller_loop, new.miller_loop, Q, Pt)

# ------------------------------------------------------------------ histories
print("call histories ...", flush=True)
hist = [elements[0], elements[20], elements[-5], FQ12.zero(), elements[20],
        miller_vals[0], elements[-5], None, elements[0], miller_vals[0]]
first = {}
for rnd in range(2):
    order = list(range(len(hist)))
    if rnd:
        rng.shuffle(order)
    for i in order:
        r = same("history", old.final_exponentiate, new.final_exponentiate, hist[i])
        assert first.setdefault(i, r) == r
        # interleave a Frobenius call with a different argument
        same("history/exp_by_p", old.exp_by_p, new.exp_by_p, hist[(i + 3) % len(hist)])
    assert table_snapshot() == SNAP0, "module-level tables changed"

# arguments are not mutated
x = rand12()
before = canon(x)
new.final_exponentiate(x)
new.exp_by_p(x)
assert canon(x) == before
assert table_snapshot() == SNAP0
assert canon(list(old.exptable)) == canon(list(new.exptable))

print("OK: %d old/new comparisons identical in %.1fs" % (CHECKS, time.time() - T0))
