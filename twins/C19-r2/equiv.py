import os, sys; sys.path.insert(0, os.getcwd())

"""
Equivalence demonstration for a refactoring of py_ecc/secp256k1/secp256k1.py
(property C19: ecdsa_raw_recover returns the algebraically determined key or
refuses).

Loads the pristine module (saved next to this script under pristine/) under a
different module name and the working-tree module through the normal package
import, and checks that on a broad input set both give identical return values
or raise exceptions of the identical class.
"""

import importlib.util
import random
import time

HERE = os.path.dirname(os.path.abspath(__file__))

spec = importlib.util.spec_from_file_location(
    "pristine_secp256k1", os.path.join(HERE, "pristine", "secp256k1.py")
)
old = importlib.util.module_from_spec(spec)
spec.loader.exec_module(old)

import py_ecc.secp256k1.secp256k1 as new  # noqa: E402

assert os.path.realpath(new.__file__).startswith(os.path.realpath(os.getcwd())), (
    "working-tree module was not imported from the current directory",
    new.__file__,
)
assert os.path.realpath(new.__file__) != os.path.realpath(old.__file__)

P, N = old.P, old.N
rng = random.Random(0xC19)
t0 = time.time()


def outcome(fn, *args):
    try:
        return ("ok", fn(*args))
    except BaseException as e:  # noqa: BLE001 - compare the exact class
        return ("exc", type(e))


# see the comment at OUT_OF_CONTRACT below
OUT_OF_CONTRACT_REPRS = set()

CONST_NAMES = ("P", "N", "A", "B", "Gx", "Gy", "G")


def consts(mod):
    return tuple(getattr(mod, k) for k in CONST_NAMES)


consts_before = (consts(old), consts(new))
assert consts_before[0] == consts_before[1]

n_checked = 0
n_ok = 0
n_exc = 0
mismatches = []


def compare(msghash, vrs):
    global n_checked, n_ok, n_exc
    # purity of the argument: hand over a list copy as well and check it is not
    # mutated (tuples cannot be mutated anyway)
    a = outcome(old.ecdsa_raw_recover, msghash, vrs)
    b = outcome(new.ecdsa_raw_recover, msghash, vrs)
    n_checked += 1
    if a != b or (a[0] == "ok" and type(a[1]) is not type(b[1])):
        mismatches.append((msghash, vrs, a, b))
    elif a[0] == "ok":
        n_ok += 1
    else:
        n_exc += 1
    return a


def is_x_coord(x):
    rhs = (x * x * x + 7) % P
    return pow(rhs, (P - 1) // 2, P) == 1 or rhs == 0


# ---------------------------------------------------------------- inputs ----
valid_x, invalid_x = [], []
c = 1
while len(valid_x) < 3 or len(invalid_x) < 3:
    c += 1
    (valid_x if is_x_coord(c) else invalid_x).append(c)
valid_x, invalid_x = valid_x[:3], invalid_x[:3]
while len(valid_x) < 5 or len(invalid_x) < 5:
    c = rng.randrange(P)
    if is_x_coord(c):
        if len(valid_x) < 5:
            valid_x.append(c)
    elif len(invalid_x) < 5:
        invalid_x.append(c)

V_SET = [0, 1, 26, 27, 28, 29, 35, 36]
R_SET = (
    [0, 1, N - 1, N, N + 1, P - 1, old.Gx]
    + valid_x
    + invalid_x
    + [rng.randrange(P) for _ in range(3)]
)
S_SET = [0, 1, (N - 1) // 2, (N + 1) // 2, N - 1, N, N + 1, 2 * N, 2 * N + 5] + [
    rng.randrange(1, N) for _ in range(2)
]
HASHES = [
    b"\x00" * 32,
    (N).to_bytes(32, "big"),
    (N - 1).to_bytes(32, "big"),
    b"\xff" * 32,
    bytes(rng.randrange(256) for _ in range(32)),
]

# 1. the full grid of the property's quantification for two hashes, a reduced
#    grid (only the v that pass the gate) for the others
for hi, h in enumerate(HASHES):
    vs = V_SET if hi < 2 else [27, 28]
    for v in vs:
        for r in R_SET:
            for s in S_SET:
                compare(h, (v, r, s))

# 2. genuine signatures, their high-s twins, wrong-parity twins
for i in range(25):
    h = bytes(rng.randrange(256) for _ in range(32))
    priv = rng.randrange(1, N).to_bytes(32, "big")
    sig_old = outcome(old.ecdsa_raw_sign, h, priv)
    sig_new = outcome(new.ecdsa_raw_sign, h, priv)
    assert sig_old == sig_new, ("ecdsa_raw_sign differs", sig_old, sig_new)
    v, r, s = sig_old[1]
    pub = old.privtopub(priv)
    assert new.privtopub(priv) == pub
    res = compare(h, (v, r, s))
    assert res == ("ok", pub), "pristine recover does not give the signer's key?"
    # high-s twin recovers the same key with the flipped v
    res = compare(h, (55 - v, r, N - s))
    assert res == ("ok", pub)
    # other parity / other s: a different key, never silently the same one
    res = compare(h, (55 - v, r, s))
    assert res[0] == "ok" and res[1] != pub
    compare(h, (v, r, N - s))
    compare(h, (v, r, s + N))
    compare(h, (v, r + N, s)) if r + N < P else None
    for bad_v in (0, 1, 26, 29, 35, 36):
        compare(h, (bad_v, r, s))

# 3. unusual hashes (short, long, empty, str) and out-of-contract numbers
odd_hashes = [b"", b"\x01", b"\x80" + b"\x00" * 32, bytes(range(48)), "abc"]
for h in odd_hashes:
    for v in (27, 28, 29):
        for r in (old.Gx, valid_x[0], invalid_x[0], N):
            for s in (1, N - 2, N):
                compare(h, (v, r, s))
for v in (27, 28):
    for r in (P, P + 1, P + valid_x[0], P + invalid_x[0], 2 * N, -1, -valid_x[0], 2**256, 2**300 + 3):
        for s in (1, 5, N, -1, -N, 2**300):
            compare(HASHES[4], (v, r, s))

# 4. malformed signatures: exception classes must agree too
malformed = [
    (),
    (27,),
    (27, 1),
    (27, 1, 1, 1),
    None,
    27,
    ("27", old.Gx, 1),
    (27.0, old.Gx, 1),
    (28.0, old.Gx, 1),
    (True, old.Gx, 1),
    (None, old.Gx, 1),
    (27, None, 1),
    (27, old.Gx, None),
    (27, "1", 1),
    (27, old.Gx, "1"),
    (27, float(2), 1),
    (27, old.Gx, 1.0),
    (27, old.Gx, 2.5),
    (27, old.Gx, 0.0),
    (27, 0.0, 1),
    (28, b"\x01", 1),
    [27, old.Gx, 3],
    [28, old.Gx, 3],
    (27, invalid_x[0], None),
    (28, invalid_x[0], "1"),
    (27, N, None),
    (27, 0.0, 0),
]
# Non-integer signature components lie outside the property's domain
# (0 <= r < P and s >= 0 are integers).  A refactoring that reorders the
# validation checks may list here the non-integer inputs for which the pristine
# code and the refactored code stop at different (both failing) checks; they are
# reported but not counted as mismatches.  Empty for refactorings that keep the
# evaluation order.
OUT_OF_CONTRACT = [m for m in malformed if repr(m) in OUT_OF_CONTRACT_REPRS]
malformed = [m for m in malformed if m not in OUT_OF_CONTRACT]
for m in OUT_OF_CONTRACT:
    a = outcome(old.ecdsa_raw_recover, HASHES[4], m)
    b = outcome(new.ecdsa_raw_recover, HASHES[4], m)
    assert a[0] == b[0] == "exc", (m, a, b)  # both still refuse
    print("out-of-contract input", repr(m)[:60], "pristine", a[1].__name__,
          "refactored", b[1].__name__)
for m in malformed:
    compare(HASHES[4], m)
    compare(b"", m)
for h in (None, 5, [1, 2, 3], (250, 251), [300, 1], 1.5):
    compare(h, (27, old.Gx, 3))
    compare(h, (29, old.Gx, 3))
    compare(h, (27, N, 3))
    compare(h, (27, invalid_x[0], 3))

# argument purity: a list signature is left untouched by both versions
lst_a, lst_b = [27, old.Gx, 12345], [27, old.Gx, 12345]
assert old.ecdsa_raw_recover(HASHES[4], lst_a) == new.ecdsa_raw_recover(HASHES[4], lst_b)
assert lst_a == lst_b == [27, old.Gx, 12345]

# module state untouched
assert (consts(old), consts(new)) == consts_before

# 5. the other public functions of the module still agree (they are shared
#    building blocks of the recover path)
for _ in range(20):
    a, n = rng.randrange(-P, 2 * P), rng.choice([P, N])
    assert old.inv(a, n) == new.inv(a, n)
    k1, k2 = rng.randrange(1, N), rng.randrange(1, N)
    p1, p2 = old.multiply(old.G, k1), old.multiply(old.G, k2)
    assert new.multiply(new.G, k1) == p1
    assert old.add(p1, p2) == new.add(p1, p2)
    assert old.to_jacobian(p1) == new.to_jacobian(p1)
    j1, j2 = old.to_jacobian(p1), old.jacobian_multiply(old.to_jacobian(p2), 7)
    assert old.jacobian_add(j1, j2) == new.jacobian_add(j1, j2)
    assert old.jacobian_double(j2) == new.jacobian_double(j2)
    assert old.from_jacobian(j2) == new.from_jacobian(j2)
    assert old.jacobian_multiply(j2, k1) == new.jacobian_multiply(j2, k1)
    b = bytes(rng.randrange(256) for _ in range(rng.randrange(0, 40)))
    assert old.bytes_to_int(b) == new.bytes_to_int(b)
for nm in dir(old):
    if not nm.startswith("_"):
        assert hasattr(new, nm), f"public name {nm} disappeared"

dt = time.time() - t0
print(
    f"compared {n_checked} recover calls: {n_ok} identical results, "
    f"{n_exc} identical exception classes, {len(mismatches)} mismatches "
    f"({dt:.1f}s)"
)
if mismatches:
    for m in mismatches[:10]:
        print("MISMATCH", m)
    sys.exit(1)
assert n_ok > 500 and n_exc > 500
print("EQUIVALENT")
sys.exit(0)
