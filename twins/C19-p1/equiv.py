import os, sys; sys.path.insert(0, os.getcwd())  # noqa: E702

"""
Equivalence demonstration for property C19 (ECDSA recovery).

Loads the pristine copy of py_ecc/secp256k1/secp256k1.py (saved next to this
script) under another module name and the edited module from the current
working directory, and checks that ecdsa_raw_recover (and the sibling public
functions) give identical results / identical exception classes on a broad set
of inputs and on repeated / interleaved call sequences.
"""
import importlib.util
import itertools
import random
import time

HERE = os.path.dirname(os.path.abspath(__file__))

spec = importlib.util.spec_from_file_location(
    "pristine_secp256k1", os.path.join(HERE, "pristine", "secp256k1.py")
)
old = importlib.util.module_from_spec(spec)
spec.loader.exec_module(old)

from py_ecc.secp256k1 import secp256k1 as new  # noqa: E402

assert os.path.realpath(new.__file__).startswith(os.path.realpath(os.getcwd())), (
    new.__file__
)
assert os.path.realpath(new.__file__) != os.path.realpath(old.__file__)

P, N, G = old.P, old.N, old.G
CONSTS = ("P", "N", "A", "B", "Gx", "Gy", "G")
SNAPSHOT = {k: getattr(new, k) for k in CONSTS}
for k in CONSTS:
    assert getattr(new, k) == getattr(old, k), k

rng = random.Random(0xC19)
t0 = time.time()
count = {"calls": 0, "returned": 0, "raised": 0}


def outcome(fn, *args):
    try:
        return ("ok", fn(*args))
    except RecursionError:
        raise
    except Exception as e:  # noqa: BLE001
        return ("exc", type(e))


def same(name, *args):
    a = outcome(getattr(old, name), *args)
    b = outcome(getattr(new, name), *args)
    count["calls"] += 1
    count["returned" if a[0] == "ok" else "raised"] += 1
    if a != b:
        print("MISMATCH in", name, "args=", args, "\n pristine:", a, "\n edited:  ", b)
        sys.exit(1)
    if a[0] == "ok" and isinstance(a[1], tuple):
        assert type(a[1]) is type(b[1])
        assert all(type(u) is type(w) for u, w in zip(a[1], b[1])), (a, b)
    return a


def i2b(n, length=32):
    return n.to_bytes(length, "big")


def on_curve_y(x):
    t = (x * x * x + 7) % P
    y = pow(t, (P + 1) // 4, P)
    return y if (y * y - t) % P == 0 else None


# ---------------------------------------------------------------- inputs
valid_x, invalid_x = [], []
x = 1
while len(valid_x) < 3 or len(invalid_x) < 3:
    (valid_x if on_curve_y(x) is not None else invalid_x).append(x)
    x += 1
valid_x, invalid_x = valid_x[:3], invalid_x[:3]
while len(valid_x) < 6 or len(invalid_x) < 6:
    x = rng.randrange(P)
    (valid_x if on_curve_y(x) is not None else invalid_x).append(x)
# x-coordinates in [N, P) (valid or not), as the x of R may exceed N
hi = [xx for xx in range(N + 1, N + 40) if on_curve_y(xx) is not None][:2]

HASHES = [
    b"\x00" * 32,
    b"\xff" * 32,
    i2b(N),
    i2b(N - 1),
    i2b(1),
    b"\x35" * 32,
    b"",
    bytes(rng.randrange(256) for _ in range(40)),  # longer than 32 bytes, z > N
    bytes(rng.randrange(256) for _ in range(32)),
]
VS = [0, 1, 26, 27, 28, 29, 35, 36]
RS = (
    [0, 1, N - 1, N, N + 1, P - 1, old.Gx, 2 * N % P]
    + valid_x
    + invalid_x
    + hi
    + [rng.randrange(P) for _ in range(4)]
)
SS = [0, 1, (N - 1) // 2, (N + 1) // 2, N - 1, N, N + 1, 2 * N, 2 * N + 5, 2**256 + 3] + [
    rng.randrange(1, N) for _ in range(2)
]

# ------------------------------------------------- 1. grid over the quantified domain
# All v for refusals; the expensive successful paths are thinned per hash.
for hi_idx, h in enumerate(HASHES):
    for v in VS:
        for r in RS:
            if v in (27, 28) and on_curve_y(r) is not None and r % N:
                ss = SS if hi_idx < 2 else rng.sample(SS, 3) + [0, N]
            else:
                ss = [0, 1, N, SS[-1]]
            for s in ss:
                same("ecdsa_raw_recover", h, (v, r, s))

# ------------------------------------------------- 2. genuine signatures, high-s twins
sigs = []
for i in range(25):
    priv = i2b(rng.randrange(1, N)) if i else i2b(1)
    h = bytes(rng.randrange(256) for _ in range(32))
    a = same("ecdsa_raw_sign", h, priv)
    v, r, s = a[1]
    pub = same("privtopub", priv)[1]
    got = same("ecdsa_raw_recover", h, (v, r, s))
    assert got == ("ok", pub), (got, pub)
    # high-s form of the same signature: (v flipped, r, N - s) recovers the same key
    got = same("ecdsa_raw_recover", h, (55 - v, r, N - s))
    assert got == ("ok", pub)
    # wrong parity gives a different key or a refusal, identically in both versions
    same("ecdsa_raw_recover", h, (55 - v, r, s))
    # s + N, s + 2N are congruent spellings
    same("ecdsa_raw_recover", h, (v, r, s + N))
    same("ecdsa_raw_recover", h, [v, r, s])  # list spelling of vrs
    sigs.append((h, (v, r, s)))

# ------------------------------------------------- 3. algebraic definition and special sums
for i in range(30):
    k = rng.randrange(1, N)
    R = old.multiply(G, k)
    r = R[0]
    if r % N == 0:
        continue
    v = 27 + R[1] % 2
    s = rng.randrange(1, N)
    mode = i % 5
    if mode == 0:  # s*R - z*G is the point at infinity
        z = s * k % N
    elif mode == 1:  # the two summands coincide (doubling branch of the addition)
        z = (-s * k) % N
    elif mode == 2:  # z == 0 (mod N)
        z = 0 if i % 2 else N
    elif mode == 3:  # s*r^-1 == 1 or -z*r^-1 == 1
        if i % 2:
            s = r % N
            z = rng.randrange(N)
        else:
            z = (-r) % N
    else:
        z = rng.randrange(2**256)
    h = i2b(z)
    a = same("ecdsa_raw_recover", h, (v, r, s))
    assert a[0] == "ok"
    Q = a[1]
    # (r mod N) * Q == s*R - z*G, checked with the pristine arithmetic
    lhs = old.multiply(Q, r % N) if Q != (0, 0) else (0, 0)
    rhs = old.add(old.multiply(R, s), old.multiply(G, (N - z) % N))
    if mode == 0:
        assert Q == (0, 0) and rhs == (0, 0), (Q, rhs)
    else:
        assert lhs == rhs, (mode, lhs, rhs)
    same("ecdsa_raw_recover", h, (55 - v, r, s))

# ------------------------------------------------- 4. integers outside the stated ranges
for h in HASHES[:3]:
    for v in (27, 28):
        for r in (-1, -valid_x[3], valid_x[3] + P, valid_x[4] - P, invalid_x[3] + P, P, P + 1):
            for s in (-1, -(N + 7), 5):
                same("ecdsa_raw_recover", h, (v, r, s))

# ------------------------------------------------- 5. malformed arguments (exception classes)
gx = old.Gx
MALFORMED = [
    (b"\x01" * 32, ()),
    (b"\x01" * 32, (27, gx)),
    (b"\x01" * 32, (27, gx, 1, 2)),
    (b"\x01" * 32, None),
    (b"\x01" * 32, 27),
    (b"\x01" * 32, ("27", gx, 1)),
    (b"\x01" * 32, (None, gx, 1)),
    (b"\x01" * 32, (27.0, gx, 1)),
    (b"\x01" * 32, (True, gx, 1)),
    (b"\x01" * 32, (27, None, 1)),
    (b"\x01" * 32, (27, "a", 1)),
    (b"\x01" * 32, (27, gx, None)),
    (b"\x01" * 32, (27, invalid_x[0], None)),
    (b"\x01" * 32, (27, gx, "1")),
    (b"\x01" * 32, (27, 1.5, 1)),
    (None, (27, gx, 1)),
    (5, (27, gx, 1)),
    ("\x01" * 32, (27, gx, 1)),
    (bytearray(b"\x01" * 32), (27, gx, 1)),
    ([1, 2, 3], (28, gx, 7)),
    (iter([1, 2, 3]), (28, gx, 7)),
]
for h, vrs in MALFORMED:
    if hasattr(h, "__next__"):
        a = outcome(old.ecdsa_raw_recover, iter([1, 2, 3]), vrs)
        b = outcome(new.ecdsa_raw_recover, iter([1, 2, 3]), vrs)
        assert a == b, (a, b)
    else:
        same("ecdsa_raw_recover", h, vrs)

# ------------------------------------------------- 6. call histories: repeat and interleave
pool = sigs[:8] + [
    (HASHES[0], (27, valid_x[0], 1)),
    (HASHES[0], (28, valid_x[0], 1)),
    (HASHES[1], (27, invalid_x[0], 1)),
    (HASHES[2], (27, N, 1)),
    (HASHES[2], (29, gx, 1)),
    (HASHES[3], (28, gx, N)),
]
first = {}
for idx, (h, vrs) in enumerate(pool):
    first[idx] = same("ecdsa_raw_recover", h, vrs)
order = [rng.randrange(len(pool)) for _ in range(60)]
for n, idx in enumerate(order):
    h, vrs = pool[idx]
    # only the edited module is exercised here; its answers must stay what they were
    got = outcome(new.ecdsa_raw_recover, h, vrs)
    assert got == first[idx], (idx, got, first[idx])
    if n % 7 == 0:  # interleave other public functions
        same("privtopub", i2b(rng.randrange(1, N)))
        same("multiply", G, rng.randrange(-5, N + 5))
        same("add", G, old.multiply(G, rng.randrange(1, N)))
    if n % 11 == 0:
        hh = bytes(rng.randrange(256) for _ in range(32))
        same("ecdsa_raw_sign", hh, i2b(rng.randrange(1, N)))
# arguments are not mutated
vrs_list = [27, gx, 12345]
hb = bytearray(b"\x07" * 32)
new.ecdsa_raw_recover(hb, vrs_list)
assert vrs_list == [27, gx, 12345] and hb == bytearray(b"\x07" * 32)

# ------------------------------------------------- 7. sibling functions unchanged
for n in (0, 1, 2, N - 1, N, N + 1, -1, rng.randrange(N)):
    same("multiply", G, n)
    same("jacobian_multiply", (old.Gx, old.Gy, 1), n)
same("add", G, G)
same("add", G, (old.Gx, P - old.Gy))
same("add", (0, 0), G)
same("inv", 0, N)
same("inv", 5, N)
same("inv", -5, N)
same("to_jacobian", G)
same("from_jacobian", (0, 0, 0))
same("from_jacobian", (0, 0, 1))

# module-level constants of the edited module are untouched
for k in CONSTS:
    assert getattr(new, k) == SNAPSHOT[k] and getattr(new, k) is SNAPSHOT[k], k

print(
    "equivalent: %(calls)d compared calls (%(returned)d returned, %(raised)d raised)" % count,
    "in %.1fs" % (time.time() - t0),
)
sys.exit(0)
