import os, sys; sys.path.insert(0, os.getcwd())  # noqa: E401,E702

"""
Equivalence demonstration for refactoring r3 (C13).

Compares linefunc (and miller_loop / pairing, which are built on it) of the
refactored py_ecc.optimized_bls12_381.optimized_pairing (imported from the current
working directory) with the pristine copy in /tmp/twin/C13/r3/pristine/.  The
pristine file is loaded under the module name
py_ecc.optimized_bls12_381._pristine_optimized_pairing so that its relative import
of .optimized_curve (untouched by r3) resolves.

Inputs: curve points over FQ / FQ2 / FQ12 in random projective scalings for the
three branches (chord, tangent, vertical line), identity operands in several
representations, T at infinity, off-curve triples, a sweep over tiny prime fields
(exhaustive over P1, P2 for sampled T), and malformed operands (wrong arity, None,
ints, strings, mixed fields, a generator as T).  Returned pairs must agree
component-wise with equal types; exception classes must agree.
"""

import importlib.util
import itertools
import random

HERE = os.path.dirname(os.path.abspath(__file__))

import py_ecc.optimized_bls12_381.optimized_curve as curve  # noqa: E402
import py_ecc.optimized_bls12_381.optimized_pairing as new  # noqa: E402

assert os.path.realpath(new.__file__).startswith(os.path.realpath(os.getcwd()))
name = "py_ecc.optimized_bls12_381._pristine_optimized_pairing"
spec = importlib.util.spec_from_file_location(
    name, os.path.join(HERE, "pristine", "bls12_381_optimized_pairing.py")
)
old = importlib.util.module_from_spec(spec)
sys.modules[name] = old
spec.loader.exec_module(old)
assert old.linefunc is not new.linefunc

rng = random.Random(0xC13_3)
checked = 0
modulus = curve.field_modulus
FQ, FQ2, FQ12 = curve.FQ, curve.FQ2, curve.FQ12


def outcome(fn, *args):
    try:
        return ("ok", fn(*args))
    except RecursionError:
        raise
    except Exception as e:  # noqa: BLE001
        return ("exc", type(e))


def same_value(a, b):
    if type(a) is not type(b):
        return False
    if isinstance(a, tuple):
        return len(a) == len(b) and all(same_value(x, y) for x, y in zip(a, b))
    return bool(a == b)


def compare(fname, make_args, label):
    """make_args is called once per implementation (so one-shot iterators work)."""
    global checked
    o = outcome(getattr(old, fname), *make_args())
    n = outcome(getattr(new, fname), *make_args())
    checked += 1
    if o[0] != n[0] or (o[0] == "exc" and o[1] is not n[1]):
        raise SystemExit(f"MISMATCH {label}: {fname}{make_args()!r}: {o!r} vs {n!r}")
    if o[0] == "ok" and not same_value(o[1], n[1]):
        raise SystemExit(f"MISMATCH value {label}: {fname}{make_args()!r}")


def cmp_line(p1, p2, t, label):
    compare("linefunc", lambda: (p1, p2, t), label)


def rand_elem(F):
    if getattr(F, "degree", 0):
        return F([rng.randrange(modulus) for _ in range(F.degree)])
    return F(rng.randrange(modulus))


def nonzero_elem(F):
    while True:
        e = rand_elem(F)
        if e != F.zero():
            return e


def scale(pt, lam):
    return tuple(c * lam for c in pt)


for F, G, npts in ((FQ, curve.G1, 6), (FQ2, curve.G2, 5), (FQ12, curve.G12, 2)):
    tag = F.__name__
    pts = [G] + [curve.multiply(G, rng.randrange(2, 2**24)) for _ in range(npts)]
    infs = [
        (F.one(), F.one(), F.zero()),
        (F.zero(), F.zero(), F.zero()),
        (rand_elem(F), rand_elem(F), F.zero()),
    ]
    junk = [
        tuple(rand_elem(F) for _ in range(3)),
        (rand_elem(F), F.zero(), nonzero_elem(F)),  # y == 0: tangent denominator 0
        (F.zero(), F.zero(), F.one()),
    ]
    ops = []
    for p in pts + junk:
        ops += [p, scale(p, nonzero_elem(F))]
    ops += infs
    ts = [pts[0], scale(pts[-1], nonzero_elem(F)), infs[0], infs[1], junk[0]]
    for p1, p2 in itertools.product(ops, repeat=2):
        for t in ts:
            cmp_line(p1, p2, t, tag + "/all-pairs")
    for p in pts + junk:
        for t in ts:
            l1, l2 = nonzero_elem(F), nonzero_elem(F)
            cmp_line(scale(p, l1), scale(p, l2), t, tag + "/tangent")
            cmp_line(scale(p, l1), scale(curve.neg(p), l2), t, tag + "/vertical")
            cmp_line(p, p, p, tag + "/same-object")
            cmp_line(scale(p, l1), scale(pts[0], l2), scale(t, l1), tag + "/chord")


# ---- tiny prime fields
class GF:
    p = 5

    def __init__(self, n):
        self.n = n % self.p

    @classmethod
    def one(cls):
        return cls(1)

    @classmethod
    def zero(cls):
        return cls(0)

    def _v(self, o):
        if isinstance(o, GF):
            if type(o) is not type(self):
                raise TypeError("mixed fields")
            return o.n
        if isinstance(o, int):
            return o
        raise TypeError("bad operand")

    def __add__(self, o):
        return type(self)(self.n + self._v(o))

    __radd__ = __add__

    def __sub__(self, o):
        return type(self)(self.n - self._v(o))

    def __rsub__(self, o):
        return type(self)(self._v(o) - self.n)

    def __mul__(self, o):
        return type(self)(self.n * self._v(o))

    __rmul__ = __mul__

    def __neg__(self):
        return type(self)(-self.n)

    def __eq__(self, o):
        return self.n == self._v(o) % self.p

    def __ne__(self, o):
        return not self == o

    def __repr__(self):
        return f"GF{self.p}({self.n})"


class GF7(GF):
    p = 7


for cls in (GF, GF7):
    elems = [cls(i) for i in range(cls.p)]
    triples = list(itertools.product(elems, repeat=3))
    if cls is GF:
        ts = rng.sample(triples, 3)
        for p1, p2 in itertools.product(triples, repeat=2):  # exhaustive in P1, P2
            for t in ts:
                cmp_line(p1, p2, t, "GF5")
    for _ in range(30000):
        cmp_line(rng.choice(triples), rng.choice(triples), rng.choice(triples), "tiny")
    for p in triples:
        lam, t = cls(rng.randrange(1, cls.p)), rng.choice(triples)
        cmp_line(p, scale(p, lam), t, "tiny/tangent")
        cmp_line(p, scale((p[0], -p[1], p[2]), lam), t, "tiny/vertical")

# ---- malformed operands
g1, g2 = curve.G1, curve.G2
bad = [
    (),
    (g1[0], g1[1]),
    g1 + (FQ.one(),),
    None,
    (None, None, None),
    (g1[0], None, g1[2]),
    (g1[0], g1[1], None),
    (1, 2, 1),
    (g1[0], g1[1], 1),
    (g1[0], "y", g1[2]),
    "abc",
    [g1[0], g1[1], g1[2]],
    g2,  # mixed field
    7,
]
good = [g1, curve.double(g1), curve.neg(g1), curve.Z1, (FQ.zero(),) * 3]
for a in bad:
    for c, d in itertools.product(good + bad[:9], repeat=2):
        cmp_line(a, c, d, "malformed")
        cmp_line(c, a, d, "malformed")
        cmp_line(c, d, a, "malformed")
# T supplied as a one-shot iterator (P1 must be subscriptable, T need not be)
for p1, p2 in itertools.product(good, repeat=2):
    compare("linefunc", lambda: (p1, p2, iter(curve.multiply(g1, 5))), "iter-T")
    compare("linefunc", lambda: (p1, p2, iter(g1[:2])), "iter-T-short")

# ---- end to end: Miller loop / pairing built on linefunc
q, p = curve.multiply(g2, 13), curve.multiply(g1, 29)
compare("pairing", lambda: (q, p), "pairing")
compare("pairing", lambda: (q, p, False), "pairing-no-final-exp")
compare("pairing", lambda: (curve.Z2, p), "pairing-inf")
compare("pairing", lambda: (q, curve.Z1), "pairing-inf")
compare("pairing", lambda: (q, (FQ(1), FQ(1), FQ(1))), "pairing-off-curve")
compare("miller_loop", lambda: (curve.multiply(g2, 3), curve.double(p), False), "miller")
compare("miller_loop", lambda: (None, p), "miller-none")
compare("miller_loop", lambda: (curve.Z2, curve.Z1, False), "miller-inf")
assert outcome(new.pairing, q, p)[0] == "ok"
assert outcome(new.miller_loop, curve.multiply(g2, 3), curve.double(p), False)[0] == "ok"

print(f"r3 equivalence OK: {checked} comparisons")
