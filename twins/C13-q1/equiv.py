import os, sys; sys.path.insert(0, os.getcwd())  # noqa: E702
import importlib.util
import itertools
import random

HERE = os.path.dirname(os.path.abspath(__file__))

import py_ecc.optimized_bn128 as pkg  # noqa: E402
from py_ecc.optimized_bn128 import optimized_curve as oc  # noqa: E402
from py_ecc.optimized_bn128 import optimized_pairing as new  # noqa: E402
from py_ecc.fields import (  # noqa: E402
    optimized_bn128_FQ as FQ,
    optimized_bn128_FQ2 as FQ2,
    optimized_bn128_FQ12 as FQ12,
    optimized_bls12_381_FQ as BLS_FQ,
)

assert os.path.abspath(new.__file__).startswith(os.getcwd()), new.__file__


def load_pristine():
    name = "py_ecc.optimized_bn128._pristine_optimized_pairing"
    spec = importlib.util.spec_from_file_location(
        name, os.path.join(HERE, "pristine", "bn128_optimized_pairing.py")
    )
    mod = importlib.util.module_from_spec(spec)
    sys.modules[name] = mod
    spec.loader.exec_module(mod)
    return mod


old = load_pristine()
assert hasattr(new, "_sloped_line_at") and not hasattr(old, "_sloped_line_at")

rng = random.Random(0xC13)
p = oc.field_modulus


def canon(v):
    """Structural canonical form: class name + exact stored representation."""
    if isinstance(v, tuple):
        return ("tuple",) + tuple(canon(e) for e in v)
    if isinstance(v, FQ) or isinstance(v, BLS_FQ):
        return (type(v).__name__, v.n)
    if hasattr(v, "coeffs"):
        return (type(v).__name__, tuple(int(c) for c in v.coeffs))
    return (type(v).__name__, repr(v))


def run(f, *args):
    try:
        return ("ok", canon(f(*args)))
    except Exception as e:  # noqa: BLE001
        return ("exc", type(e).__name__)


n_checked = 0
branch_seen = {"chord": 0, "tangent": 0, "vertical": 0}


def check(P1, P2, T):
    global n_checked
    a = run(old.linefunc, P1, P2, T)
    b = run(new.linefunc, P1, P2, T)
    assert a == b, (P1, P2, T, a, b)
    n_checked += 1


def rand_scalar(F):
    if F is FQ:
        return FQ(rng.randrange(1, p))
    deg = 2 if F is FQ2 else 12
    while True:
        c = [rng.randrange(p) for _ in range(deg)]
        if any(c):
            return F(c)


def small_scalar(F):
    if F is FQ:
        return FQ(rng.choice([1, 2, 3, p - 1, p - 2]))
    deg = 2 if F is FQ2 else 12
    return F([rng.choice([1, 2, p - 1])] + [0] * (deg - 1))


def rescale(pt, lam):
    return tuple(c * lam for c in pt)


# ---- curve points in the three field classes ------------------------------
G1, G2 = oc.G1, oc.G2
G12 = oc.twist(G2)
P12 = new.cast_point_to_fq12(G1)
bases = [(FQ, G1), (FQ2, G2), (FQ12, G12), (FQ12, P12)]

for F, G in bases:
    ks = [1, 2, 3, 5, 7] if F is not FQ12 else [1, 2, 3]
    pts = [oc.multiply(G, k) for k in ks]
    npts = [oc.neg(q) for q in pts]
    inf_reps = [
        (F.one(), F.one(), F.zero()),
        (F.zero(), F.one(), F.zero()),
        (F.zero(), F.zero(), F.zero()),
        (rand_scalar(F), rand_scalar(F), F.zero()),
    ]
    everything = pts + npts + inf_reps
    scalers = [lambda F=F: F.one(), lambda F=F: small_scalar(F), lambda F=F: rand_scalar(F)]
    combos = list(itertools.product(everything, everything, everything))
    if F is FQ12:
        combos = rng.sample(combos, 250)
    for (A, B, T) in combos:
        s = rng.choice(scalers)
        check(rescale(A, s()), rescale(B, s()), rescale(T, s()))
    # make sure the three control paths are all really exercised
    for q, nq in zip(pts, npts):
        for lam in (F.one(), rand_scalar(F)):
            q2 = rescale(q, lam)
            T = rescale(pts[0], rand_scalar(F))
            x1, y1, z1 = q
            x2, y2, z2 = q2
            assert x2 * z1 - x1 * z2 == F.zero() and y2 * z1 - y1 * z2 == F.zero()
            check(q, q2, T); branch_seen["tangent"] += 1  # noqa: E702
            check(q, rescale(nq, lam), T); branch_seen["vertical"] += 1  # noqa: E702
        other = pts[(pts.index(q) + 1) % len(pts)]
        check(q, other, pts[0]); branch_seen["chord"] += 1  # noqa: E702

# ---- arbitrary (mostly off-curve) coordinate triples ----------------------
for F in (FQ, FQ2, FQ12):
    reps = 400 if F is FQ else (200 if F is FQ2 else 40)
    deg = 1 if F is FQ else (2 if F is FQ2 else 12)

    def elem(small):
        vals = [0, 1, 2, 3, p - 1] if small else None
        cs = [rng.choice(vals) if small else rng.randrange(p) for _ in range(deg)]
        return FQ(cs[0]) if F is FQ else F(cs)

    for i in range(reps):
        small = i % 2 == 0
        A = (elem(small), elem(small), elem(small))
        B = (elem(small), elem(small), elem(small))
        T = (elem(small), elem(small), elem(small))
        check(A, B, T)
        # force equal-x (tangent / vertical) situations off curve too
        lam = elem(False)
        check(A, rescale(A, lam), T)
        check(A, (A[0] * lam, (A[1] + F.one()) * lam, A[2] * lam), T)
        check(A, (A[0] * lam, -A[1] * lam, A[2] * lam), T)

# ---- malformed inputs: same exception class --------------------------------
good = G1
bads = [
    None,
    (),
    (FQ(1), FQ(2)),
    (FQ(1), FQ(2), FQ(1), FQ(1)),
    (1, 2, 1),
    (FQ(1), None, FQ(1)),
    (None, FQ(2), FQ(1)),
    (FQ(1), FQ(2), None),
    (FQ(1), "a", FQ(1)),
    [FQ(1), FQ(2), FQ(1)],
    (FQ(1), 2, 1),
    G2,
    G12,
    (BLS_FQ(1), BLS_FQ(2), BLS_FQ(1)),
    (FQ(1), FQ2([1, 2]), FQ(1)),
    (x for x in G1),
    "abc",
    5,
    (1.5, 2.5, 1.0),
]
for A in [good] + bads:
    for B in [good] + bads:
        for T in [good] + bads:
            # generators are single-use: build fresh ones for each side
            def fresh(v):
                return (x for x in G1) if hasattr(v, "send") else v
            a = run(old.linefunc, fresh(A), fresh(B), fresh(T))
            b = run(new.linefunc, fresh(A), fresh(B), fresh(T))
            assert a == b, (A, B, T, a, b)
            n_checked += 1

# ---- call histories: repeat / interleave, arguments not mutated ------------
hist_args = [
    (G1, oc.double(G1), oc.multiply(G1, 3)),
    (G1, G1, oc.double(G1)),
    (G1, oc.neg(G1), oc.double(G1)),
    (G2, oc.double(G2), G2),
]
snap = canon(tuple(hist_args))
first = [run(new.linefunc, *a) for a in hist_args]
for _ in range(3):
    order = list(range(len(hist_args)))
    rng.shuffle(order)
    for i in order + order:
        assert run(new.linefunc, *hist_args[i]) == first[i] == run(old.linefunc, *hist_args[i])
assert canon(tuple(hist_args)) == snap

# ---- callers of linefunc: miller loop / pairing -----------------------------
for a, b_ in [(1, 1), (3, 5)]:
    Q = oc.multiply(G2, a)
    Pt = oc.multiply(G1, b_)
    assert canon(old.pairing(Q, Pt)) == canon(new.pairing(Q, Pt))
Qs = rescale(oc.multiply(G2, 2), rand_scalar(FQ2))
Ps = rescale(oc.multiply(G1, 7), rand_scalar(FQ))
assert canon(old.pairing(Qs, Ps, False)) == canon(new.pairing(Qs, Ps, False))
assert canon(old.pairing(oc.Z2, G1)) == canon(new.pairing(oc.Z2, G1))
assert canon(old.pairing(G2, oc.Z1)) == canon(new.pairing(G2, oc.Z1))

# public surface unchanged apart from the two private helpers
pub_old = {k for k in vars(old) if not k.startswith("_")}
pub_new = {k for k in vars(new) if not k.startswith("_")}
assert pub_old == pub_new, pub_old ^ pub_new

print("linefunc comparisons:", n_checked, "branches forced:", branch_seen)
print("OK")
