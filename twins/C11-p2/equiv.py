import os, sys; sys.path.insert(0, os.getcwd())  # noqa: E401,E702

"""
Equivalence demonstration for property C11 (ZCash point (de)serialization).

Run as:  cd /tmp/wt2/C11 && /venv/bin/python /tmp/twin2/C11/<pN>/equiv.py

Loads the pristine py_ecc/bls/point_compression.py (saved next to this script under
pristine/) as a sibling module of the edited one and compares, input by input and
call by call, return values and exceptions (class and message) of

  get_flags, is_point_at_infinity, compress_G1, decompress_G1,
  modular_squareroot_in_FQ2, compress_G2, decompress_G2,
  G1_to_pubkey, pubkey_to_G1, G2_to_signature, signature_to_G2
"""
import importlib.util
import json
import random
import time

HERE = os.path.dirname(os.path.abspath(__file__))
T0 = time.time()

import py_ecc.bls.point_compression as N  # noqa: E402  (edited version)
import py_ecc.bls.g2_primitives as NP  # noqa: E402  (uses the edited version)
from py_ecc.bls.constants import EIGHTH_ROOTS_OF_UNITY  # noqa: E402
from py_ecc.bls.hash import i2osp, os2ip  # noqa: E402
from py_ecc.fields import (  # noqa: E402
    optimized_bls12_381_FQ as FQ,
    optimized_bls12_381_FQ2 as FQ2,
)
from py_ecc.optimized_bls12_381 import (  # noqa: E402
    G1,
    G2,
    Z1,
    Z2,
    b,
    b2,
    curve_order,
    field_modulus as q,
    is_on_curve,
    multiply,
    normalize,
)

assert os.path.realpath(N.__file__).startswith(os.path.realpath(os.getcwd())), N.__file__

spec = importlib.util.spec_from_file_location(
    "py_ecc.bls._pristine_point_compression",
    os.path.join(HERE, "pristine", "point_compression.py"),
)
P = importlib.util.module_from_spec(spec)
sys.modules[spec.name] = P
spec.loader.exec_module(P)
assert P is not N and P.decompress_G1 is not N.decompress_G1


# pristine byte-level helpers (g2_primitives.py is not edited; restated on top of P)
class PP:
    @staticmethod
    def G2_to_signature(pt):
        z1, z2 = P.compress_G2(pt)
        return i2osp(z1, 48) + i2osp(z2, 48)

    @staticmethod
    def signature_to_G2(signature):
        return P.decompress_G2((os2ip(signature[:48]), os2ip(signature[48:])))

    @staticmethod
    def G1_to_pubkey(pt):
        return i2osp(P.compress_G1(pt), 48)

    @staticmethod
    def pubkey_to_G1(pubkey):
        return P.decompress_G1(os2ip(pubkey))


def canon(v):
    if isinstance(v, (FQ2,)):
        return ("FQ2", type(v).__name__, tuple((type(c).__name__, int(c)) for c in v.coeffs))
    if isinstance(v, FQ):
        return ("FQ", type(v).__name__, type(v.n).__name__, v.n)
    if isinstance(v, tuple):
        return ("tuple",) + tuple(canon(e) for e in v)
    if isinstance(v, (bytes, bytearray)):
        return (type(v).__name__, bytes(v))
    if v is None or isinstance(v, (bool, int)):
        return (type(v).__name__, v)
    raise AssertionError(f"unexpected result type {type(v)}")


def run(f, *args):
    try:
        return ("ok", canon(f(*args)))
    except Exception as e:  # noqa: BLE001
        return ("exc", type(e).__name__, str(e))


COUNT = {}


def same(name, pf, nf, *args):
    a = run(pf, *args)
    bb = run(nf, *args)
    if a != bb:
        print(f"MISMATCH in {name}{args!r}:\n  pristine: {a}\n  edited:   {bb}")
        sys.exit(1)
    COUNT[name] = COUNT.get(name, 0) + 1
    return a


rnd = random.Random(0xC11)
snapshot_roots = [tuple(r.coeffs) for r in EIGHTH_ROOTS_OF_UNITY]
snapshot_Z = (canon(Z1), canon(Z2))

# ---------------------------------------------------------------- G1 material
F = [0, 1 << 381, 1 << 382, 3 << 381, 1 << 383, 5 << 381, 6 << 381, 7 << 381]


def g1_rhs_is_square(x):
    r = (x**3 + b.n) % q
    return pow(r, (q - 1) // 2, q) in (0, 1)


on_x, off_x = [], []
x = 0
while len(on_x) < 6 or len(off_x) < 6:
    (on_x if g1_rhs_is_square(x) else off_x).append(x)
    x += 1
on_x, off_x = on_x[:6], off_x[:6]
for _ in range(6):
    x = rnd.randrange(q)
    (on_x if g1_rhs_is_square(x) else off_x).append(x)
on_x += [normalize(multiply(G1, k))[0].n for k in (1, 2, 3, curve_order - 1)]
g1_x_values = [0, 1, 2, q - 1, q, q + 1, q - 2, (1 << 381) - 1, (q - 1) // 2, (q + 1) // 2]
g1_x_values += on_x + off_x
g1_words = [f + x for f in F for x in g1_x_values]
g1_words += [rnd.getrandbits(384) for _ in range(200)]
g1_words += [(1 << 383) | rnd.randrange(q) for _ in range(300)]
g1_words += [(5 << 381) | rnd.randrange(q) for _ in range(300)]
# outside the nominal 384-bit range (still must behave identically)
g1_words += [(1 << 384) + w for w in g1_words[:40]] + [-1, -(1 << 383), (1 << 400) - 1, True, False]

for w in g1_words:
    same("get_flags", P.get_flags, N.get_flags, w)
    same("is_point_at_infinity", P.is_point_at_infinity, N.is_point_at_infinity, w)
    same("is_point_at_infinity", P.is_point_at_infinity, N.is_point_at_infinity, w, 0)
    same("is_point_at_infinity", P.is_point_at_infinity, N.is_point_at_infinity, w, 1)

accepted_g1 = []
for w in g1_words:
    r = same("decompress_G1", P.decompress_G1, N.decompress_G1, w)
    if r[0] == "ok" and 0 <= w < (1 << 384):
        accepted_g1.append(w)
# call history: repeat, shuffle, interleave equal and different arguments
for rep in range(3):
    seq = g1_words[:]
    rnd.shuffle(seq)
    for w in seq:
        same("decompress_G1", P.decompress_G1, N.decompress_G1, w)
        if rep == 2:
            same("decompress_G1", P.decompress_G1, N.decompress_G1, w ^ (1 << 381))
            same("decompress_G1", P.decompress_G1, N.decompress_G1, w)
# many distinct x (more than any bounded cache would hold), then replay the oldest
many = [((4 + rnd.randrange(2)) << 381) | rnd.randrange(q) for _ in range(9000)]
for w in many:
    same("decompress_G1", P.decompress_G1, N.decompress_G1, w)
for w in many[:500] + g1_words:
    same("decompress_G1", P.decompress_G1, N.decompress_G1, w)
# accepted words re-compress to themselves in the edited version, decoded point on curve
for w in accepted_g1:
    pt = N.decompress_G1(w)
    assert is_on_curve(pt, b), w
    assert N.compress_G1(pt) == w, w
    assert NP.pubkey_to_G1(i2osp(w, 48))[0] == pt[0]
assert len(accepted_g1) > 300
# fresh result objects on every call (a caller mutating one cannot affect later calls)
w = accepted_g1[-1]
r1, r2 = N.decompress_G1(w), N.decompress_G1(w)
assert r1 == r2 and all(u is not v for u, v in zip(r1, r2))
r1[1].n = 12345  # vandalise the returned object
assert same("decompress_G1", P.decompress_G1, N.decompress_G1, w)[0] == "ok"
assert N.decompress_G1(w) == r2
assert N.decompress_G1(6 << 381) is Z1 and P.decompress_G1(6 << 381) is Z1

# G1 points
g1_points = [Z1, (FQ(0), FQ(0), FQ(0)), (FQ(5), FQ(7), FQ(0)), (FQ(1), FQ(1), FQ(0))]
scalars = list(range(1, 12)) + [curve_order - 1, curve_order - 2, curve_order] + [
    rnd.randrange(1, curve_order) for _ in range(12)
]
for k in scalars:
    g1_points.append(multiply(G1, k))
for x in on_x:  # mostly NOT in the prime-order subgroup
    y = pow((x**3 + b.n) % q, (q + 1) // 4, q)
    if y * y % q == (x**3 + b.n) % q:
        g1_points += [(FQ(x), FQ(y), FQ(1)), (FQ(x), FQ(q - y), FQ(1))]
# compress_G1 does not check the curve equation: exercise y around (q-1)/2
for y in (0, 1, (q - 1) // 2 - 1, (q - 1) // 2, (q + 1) // 2, (q + 1) // 2 + 1, q - 1):
    g1_points.append((FQ(3), FQ(y), FQ(1)))
for pt in list(g1_points):
    if pt[2] != FQ(0):
        for zz in (2, q - 1, rnd.randrange(2, q)):
            g1_points.append((pt[0] * zz, pt[1] * zz, pt[2] * zz))
for pt in g1_points:
    r = same("compress_G1", P.compress_G1, N.compress_G1, pt)
    rb = same("G1_to_pubkey", PP.G1_to_pubkey, NP.G1_to_pubkey, pt)
    assert rb[0] == "ok" and len(rb[1][1]) == 48
    w = r[1][1]
    d = same("decompress_G1", P.decompress_G1, N.decompress_G1, w)
    same("pubkey_to_G1", PP.pubkey_to_G1, NP.pubkey_to_G1, rb[1][1])
    # (the on-curve points (0, +-2) compress to a word the decoder refuses, in the
    # pristine version too; the paired comparison above covers that case)
    if is_on_curve(pt, b) and d[0] == "ok":
        back = N.decompress_G1(w)
        if pt[2] == FQ(0):
            assert back is Z1
        else:
            assert normalize(back) == normalize(pt)

# 48-byte strings
byte48 = [i2osp(w, 48) for w in g1_words if 0 <= w < (1 << 384)]
byte48 += [bytes(48), b"\xff" * 48, b"\xc0" + bytes(47), b"\x80" + bytes(47), b"\xa0" + bytes(47)]
byte48 += [bytearray(byte48[3]), bytes(rnd.getrandbits(8) for _ in range(48))]
for s in byte48 + byte48[::-7]:
    same("pubkey_to_G1", PP.pubkey_to_G1, NP.pubkey_to_G1, s)
print(f"G1 part done at {time.time() - T0:.1f}s")

# ---------------------------------------------------------------- FQ2 square roots
sq_values = [FQ2([0, 0]), FQ2([1, 0]), FQ2([q - 1, 0]), FQ2([0, 1]), FQ2([0, q - 1]), FQ2([4, 4]), FQ2([2, 0]), FQ2([0, 2])]
sq_values += list(EIGHTH_ROOTS_OF_UNITY)
for _ in range(12):
    v = FQ2([rnd.randrange(q), rnd.randrange(q)])
    sq_values += [v, v * v, v * v * EIGHTH_ROOTS_OF_UNITY[1]]
for c in (2, 3, 5, (q - 1) // 2, rnd.randrange(q)):
    sq_values += [FQ2([c * c, 0]), FQ2([-c * c, 0]), FQ2([c, 0]), FQ2([0, c])]
for v in sq_values + sq_values[::-3]:
    before = tuple(v.coeffs)
    same("modular_squareroot_in_FQ2", P.modular_squareroot_in_FQ2, N.modular_squareroot_in_FQ2, v)
    assert tuple(v.coeffs) == before
for bad in (None, FQ(3), "x"):  # (a plain int would be raised to a 760-bit power)
    same("modular_squareroot_in_FQ2", P.modular_squareroot_in_FQ2, N.modular_squareroot_in_FQ2, bad)

# ---------------------------------------------------------------- G2 material
special = json.load(open(os.path.join(HERE, "special_g2.json")))
g2_points = [Z2, (FQ2([0, 0]), FQ2([0, 0]), FQ2([0, 0])), (FQ2([5, 1]), FQ2([7, 2]), FQ2([0, 0]))]
for k in scalars[:8] + scalars[11:18]:
    g2_points.append(multiply(G2, k))
for kind in ("y_im_zero", "y_re_zero"):
    for xc, yc in special[kind]:
        pt = (FQ2(xc), FQ2(yc), FQ2([1, 0]))
        assert is_on_curve(pt, b2)
        g2_points += [pt, (pt[0], -pt[1], pt[2])]
# points of the twist outside the subgroup
nonsub = []
a = 0
while len(nonsub) < 6:
    a += 1
    xx = FQ2([a, 1 if a % 2 else 0])
    yy = P.modular_squareroot_in_FQ2(xx**3 + b2)
    if yy is not None:
        nonsub.append((xx, yy, FQ2([1, 0])))
        nonsub.append((xx, -yy, FQ2([1, 0])))
g2_points += nonsub
off_curve_g2 = [(FQ2([1, 2]), FQ2([3, 4]), FQ2([1, 0])), (G2[0], G2[1] + FQ2([1, 0]), G2[2])]
for pt in list(g2_points):
    if pt[2] != FQ2([0, 0]):
        for zz in (FQ2([2, 0]), FQ2([0, 1]), FQ2([rnd.randrange(q), rnd.randrange(q)])):
            g2_points.append((pt[0] * zz, pt[1] * zz, pt[2] * zz))
g2_points += off_curve_g2
# an FQ2 built from FQ coefficients (coeffs are kept as FQ objects by the constructor)
g2n = normalize(multiply(G2, 7))
g2_points.append(
    (FQ2([FQ(c) for c in g2n[0].coeffs]), FQ2([FQ(c) for c in g2n[1].coeffs]), FQ2([FQ(1), FQ(0)]))
)

g2_pairs = []
for pt in g2_points:
    r = same("compress_G2", P.compress_G2, N.compress_G2, pt)
    rb = same("G2_to_signature", PP.G2_to_signature, NP.G2_to_signature, pt)
    if r[0] != "ok":
        assert r[1] == "ValueError" and rb[1] == "ValueError"
        continue
    assert len(rb[1][1]) == 96
    pair = (r[1][1][1], r[1][2][1])
    g2_pairs.append(pair)
    same("decompress_G2", P.decompress_G2, N.decompress_G2, pair)
    same("signature_to_G2", PP.signature_to_G2, NP.signature_to_G2, rb[1][1])
    back = N.decompress_G2(pair)
    if pt[2] == FQ2([0, 0]):
        assert back is Z2
    else:
        assert normalize(back) == normalize(pt)
        assert N.compress_G2(back) == pair
print(f"G2 points done at {time.time() - T0:.1f}s")

# words: 8 flag combinations x first-word payloads x second-word variants
on_pair = g2_pairs[5]
x1_on, x2_on = on_pair[0] % (1 << 381), on_pair[1]
sp = special["y_im_zero"][0][0]
x1_payloads = [0, 1, q - 1, q, q + 1, (1 << 381) - 1, x1_on, (x1_on + 1) % q, sp[1]]
z2_variants = [0, 1, q - 1, q, q + 1, x2_on, (x2_on + 1) % q, sp[0], (1 << 381) - 1, 1 << 381, 1 << 382,
               1 << 383, (1 << 381) | x2_on, (1 << 382) | x2_on, (1 << 383) | x2_on, (7 << 381) | x2_on,
               (1 << 384) + x2_on, -1]
g2_word_pairs = [(f + x1, z2) for f in F for x1 in x1_payloads for z2 in z2_variants]
g2_word_pairs += [(rnd.getrandbits(384), rnd.getrandbits(384)) for _ in range(40)]
g2_word_pairs += [((4 + rnd.randrange(2)) << 381 | rnd.randrange(q), rnd.randrange(q)) for _ in range(60)]
g2_word_pairs += [p for p in g2_pairs]
accepted_g2 = 0
for pair in g2_word_pairs:
    same("get_flags", P.get_flags, N.get_flags, pair[1])
    same("is_point_at_infinity", P.is_point_at_infinity, N.is_point_at_infinity, *pair)
    r = same("decompress_G2", P.decompress_G2, N.decompress_G2, pair)
    if r[0] == "ok" and all(0 <= w < (1 << 384) for w in pair):
        accepted_g2 += 1
        pt = N.decompress_G2(pair)
        assert is_on_curve(pt, b2) and N.compress_G2(pt) == pair, pair
    elif all(0 <= w < (1 << 384) for w in pair):
        assert r[1] == "ValueError", (pair, r)
assert accepted_g2 > 60, accepted_g2
print(f"G2 words done at {time.time() - T0:.1f}s (accepted {accepted_g2})")
# malformed containers
for bad in [(1,), (1, 2, 3), 5, None, [on_pair[0], on_pair[1]], (on_pair[0], None)]:
    same("decompress_G2", P.decompress_G2, N.decompress_G2, bad)
# repeated / interleaved calls (history independence)
seq = [p for p in g2_word_pairs if p[0] >> 383 == 1 and p[1] < q][:]
rnd.shuffle(seq)
for pair in seq[:120]:
    same("decompress_G2", P.decompress_G2, N.decompress_G2, pair)
    same("decompress_G1", P.decompress_G1, N.decompress_G1, pair[0])
    same("decompress_G2", P.decompress_G2, N.decompress_G2, (pair[0] ^ (1 << 381), pair[1]))

# every compressed point with the sign flag flipped (incl. y_im == 0 / y_re == 0 points)
for z1, z2 in g2_pairs:
    if z1 != 6 << 381:
        r = same("decompress_G2", P.decompress_G2, N.decompress_G2, (z1 ^ (1 << 381), z2))
        assert r[0] == "ok"
        assert N.compress_G2(N.decompress_G2((z1 ^ (1 << 381), z2))) == (z1 ^ (1 << 381), z2)

# 96-byte strings
byte96 = [i2osp(a, 48) + i2osp(c, 48) for a, c in g2_word_pairs if 0 <= a < (1 << 384) and 0 <= c < (1 << 384)]
rnd.shuffle(byte96)
byte96 = byte96[:150] + [bytes(96), b"\xc0" + bytes(95), b"\xc0" + bytes(94) + b"\x01", b"\xff" * 96,
                         b"\xc0" + bytes(47) + b"\x80" + bytes(47)]
for s in byte96:
    same("signature_to_G2", PP.signature_to_G2, NP.signature_to_G2, s)

# module-level constants untouched
assert [tuple(r.coeffs) for r in EIGHTH_ROOTS_OF_UNITY] == snapshot_roots
assert (canon(Z1), canon(Z2)) == snapshot_Z
assert P.decompress_G2((6 << 381, 0)) is Z2 and N.decompress_G2((6 << 381, 0)) is Z2

print("comparisons:", COUNT)
print(f"EQUIVALENT ({sum(COUNT.values())} paired calls, {time.time() - T0:.1f}s)")
