import os, sys; sys.path.insert(0, os.getcwd())  # noqa: E702

"""
Equivalence demonstration for t1 (C20).

t1 merges the operand check of FQ.__add__/__mul__/__rsub__/__sub__ in
py_ecc/fields/optimized_field_elements.py into one private validator.

Part A loads the pristine module next to the edited one (importlib, other module
name) and compares every FQ / FQP operator on many operand kinds (results, result
types, exception classes and messages, operands unchanged afterwards), including
repeated and interleaved call sequences.

Part B runs a call sequence through the real library (both optimized curves,
pairings, hashing, compression, BLS ciphersuites) and compares it with values
recorded on the pristine tree (expected.json; `equiv.py --gen` on a pristine tree
re-creates that file), executed twice in different orders, and checks that the
module constants are unchanged.
"""

import importlib.util
import itertools
import json
import random

HERE = os.path.dirname(os.path.abspath(__file__))
PRISTINE = os.path.join(HERE, "pristine", "optimized_field_elements.py")
EXPECTED = os.path.join(HERE, "expected.json")


def load(path, name):
    spec = importlib.util.spec_from_file_location(name, path)
    mod = importlib.util.module_from_spec(spec)
    sys.modules[name] = mod
    spec.loader.exec_module(mod)
    return mod


# --------------------------------------------------------------------------- #
# Part B helpers: high level run through the library
# --------------------------------------------------------------------------- #
def constants_snapshot():
    from py_ecc.bls import constants as bc
    from py_ecc.optimized_bls12_381 import constants as oc
    from py_ecc.optimized_bls12_381 import optimized_curve as c1
    from py_ecc.optimized_bls12_381 import optimized_pairing as p1
    from py_ecc.optimized_bn128 import optimized_curve as c2

    snap = {}
    for mod in (c1, c2):
        for nm in ("G1", "G2", "G12", "Z1", "Z2", "b", "b2", "b12", "w"):
            if hasattr(mod, nm):
                snap[mod.__name__ + "." + nm] = repr(getattr(mod, nm))
    snap["exptable"] = repr(p1.exptable)
    snap["pbe"] = repr(p1.pseudo_binary_encoding)
    for nm in dir(oc):
        if nm.isupper():
            snap["oc." + nm] = repr(getattr(oc, nm))
    for nm in dir(bc):
        if nm.isupper():
            snap["bc." + nm] = repr(getattr(bc, nm))
    return snap


def highlevel_steps():
    from py_ecc import optimized_bls12_381 as ob
    from py_ecc import optimized_bn128 as on
    from py_ecc.bls import G2Basic, G2ProofOfPossession
    from py_ecc.bls.g2_primitives import G1_to_pubkey, G2_to_signature
    from py_ecc.bls.hash_to_curve import hash_to_G2
    from py_ecc.bls.point_compression import (
        compress_G1,
        compress_G2,
        decompress_G1,
        decompress_G2,
    )
    from hashlib import sha256

    dst = b"QUUX-V01-CS02-with-BLS12381G2_XMD:SHA-256_SSWU_RO_"
    steps = {}

    def S(name):
        def deco(fn):
            steps[name] = fn
            return fn

        return deco

    @S("bls_g1_mul")
    def _():
        return repr(ob.normalize(ob.multiply(ob.G1, 0xDEADBEEF1234567)))

    @S("bls_g2_mul")
    def _():
        return repr(ob.normalize(ob.multiply(ob.G2, 987654321987654321)))

    @S("bls_add_double")
    def _():
        p = ob.add(ob.double(ob.G1), ob.multiply(ob.G1, 5))
        q = ob.add(ob.G2, ob.Z2)
        r = ob.add(ob.G1, ob.neg(ob.G1))
        return repr((p, q, r, ob.eq(p, ob.multiply(ob.G1, 7)), ob.is_inf(r)))

    @S("bls_mul_zero")
    def _():
        return repr((ob.multiply(ob.G1, 0), ob.multiply(ob.Z2, 12345), ob.double(ob.Z1)))

    @S("bls_pairing")
    def _():
        return repr(ob.pairing(ob.G2, ob.G1))

    @S("bls_final_exp")
    def _():
        f = ob.pairing(ob.multiply(ob.G2, 3), ob.multiply(ob.G1, 5), False)
        return repr(ob.final_exponentiate(f))

    @S("bls_pairing_inf")
    def _():
        return repr((ob.pairing(ob.Z2, ob.G1), ob.pairing(ob.G2, ob.Z1)))

    @S("bls_pairing_bad")
    def _():
        try:
            bad = (ob.G1[0], ob.G1[1] + 1, ob.G1[2])
            return repr(ob.pairing(ob.G2, bad))
        except Exception as e:  # noqa: BLE001
            return "EXC " + type(e).__name__

    @S("bn_mul")
    def _():
        return repr(
            (
                on.normalize(on.multiply(on.G1, 123456789123456789)),
                on.normalize(on.multiply(on.G2, 31337)),
                on.add(on.G1, on.neg(on.G1)),
            )
        )

    @S("bn_pairing")
    def _():
        return repr(on.pairing(on.G2, on.multiply(on.G1, 2)))

    @S("hash_to_g2")
    def _():
        return repr(
            (
                ob.normalize(hash_to_G2(b"", dst, sha256)),
                ob.normalize(hash_to_G2(b"abc", dst, sha256)),
            )
        )

    @S("compress")
    def _():
        p = ob.multiply(ob.G1, 42)
        q = ob.multiply(ob.G2, 43)
        c = compress_G1(p)
        d = compress_G2(q)
        return repr(
            (
                c,
                d,
                ob.normalize(decompress_G1(c)),
                ob.normalize(decompress_G2(d)),
                compress_G1(ob.Z1),
                compress_G2(ob.Z2),
                G1_to_pubkey(p).hex(),
                G2_to_signature(q).hex(),
            )
        )

    @S("pop_sign_verify")
    def _():
        sk = 0x1234567890ABCDEF
        pk = G2ProofOfPossession.SkToPk(sk)
        sig = G2ProofOfPossession.Sign(sk, b"message one")
        return repr(
            (
                pk.hex(),
                sig.hex(),
                G2ProofOfPossession.Verify(pk, b"message one", sig),
                G2ProofOfPossession.Verify(pk, b"message two", sig),
                G2ProofOfPossession.Verify(pk, b"message one", b"\x00" * 96),
                G2ProofOfPossession.Verify(b"\x01" * 48, b"message one", sig),
            )
        )

    @S("pop_aggregate")
    def _():
        sks = [3, 5, 7]
        pks = [G2ProofOfPossession.SkToPk(s) for s in sks]
        sigs = [G2ProofOfPossession.Sign(s, b"same") for s in sks]
        agg = G2ProofOfPossession.Aggregate(sigs)
        proof = G2ProofOfPossession.PopProve(sks[0])
        return repr(
            (
                agg.hex(),
                G2ProofOfPossession.FastAggregateVerify(pks, b"same", agg),
                G2ProofOfPossession.FastAggregateVerify(pks[:2], b"same", agg),
                G2ProofOfPossession.PopVerify(pks[0], proof),
                G2ProofOfPossession.PopVerify(pks[1], proof),
            )
        )

    @S("basic_sign")
    def _():
        sig1 = G2Basic.Sign(11, b"m1")
        sig2 = G2Basic.Sign(12, b"m2")
        pks = [G2Basic.SkToPk(11), G2Basic.SkToPk(12)]
        agg = G2Basic.Aggregate([sig1, sig2])
        return repr(
            (
                sig1.hex(),
                G2Basic.AggregateVerify(pks, [b"m1", b"m2"], agg),
                G2Basic.AggregateVerify(pks, [b"m1", b"m1"], agg),
                G2Basic.KeyValidate(pks[0]),
                G2Basic.KeyValidate(b"\xc0" + b"\x00" * 47),
            )
        )

    return steps


def run_highlevel(order):
    steps = highlevel_steps()
    names = list(steps)
    if order == "reversed":
        names = names[::-1]
    elif order == "shuffled":
        random.Random(20).shuffle(names)
    return {nm: steps[nm]() for nm in names}


def gen():
    before = constants_snapshot()
    out = run_highlevel("forward")
    assert constants_snapshot() == before
    with open(EXPECTED, "w") as f:
        json.dump({"steps": out, "constants": before}, f, indent=1, sort_keys=True)
    print("wrote", EXPECTED)


# --------------------------------------------------------------------------- #
# Part A: side by side comparison of the field module
# --------------------------------------------------------------------------- #
P_BLS = 4002409555221667393417789825735904156556882819939007885332058136124031650490837864442687629129015664037894272559787  # noqa: E501
P_BN = 21888242871839275222246405745257275088696311157297823662689037894645226208583


def build(mod):
    """Field classes (same names in both builds so messages compare equal)."""
    ns = {}

    def fq(name, p):
        ns[name] = type(name, (mod.FQ,), {"field_modulus": p})

    fq("F7", 7)
    fq("F13", 13)
    fq("F2", 2)
    fq("FBLS", P_BLS)
    fq("FBN", P_BN)
    ns["NoMod"] = type("NoMod", (mod.FQ,), {})
    # an operand that is both an int and an FQ: the FQ branch must win in both
    ns["IntFQ"] = type("IntFQ", (int, mod.FQ), {"field_modulus": 7})
    ns["Q2_7"] = type(
        "Q2_7", (mod.FQ2,), {"field_modulus": 7, "FQ2_MODULUS_COEFFS": (1, 0)}
    )
    ns["Q2_BLS"] = type(
        "Q2_BLS", (mod.FQ2,), {"field_modulus": P_BLS, "FQ2_MODULUS_COEFFS": (1, 0)}
    )
    ns["Q12_BN"] = type(
        "Q12_BN",
        (mod.FQ12,),
        {
            "field_modulus": P_BN,
            "FQ12_MODULUS_COEFFS": (82, 0, 0, 0, 0, 0, -18, 0, 0, 0, 0, 0),
        },
    )
    ns["Q12_BLS"] = type(
        "Q12_BLS",
        (mod.FQ12,),
        {
            "field_modulus": P_BLS,
            "FQ12_MODULUS_COEFFS": (2, 0, 0, 0, 0, 0, -2, 0, 0, 0, 0, 0),
        },
    )
    return ns


class Weird:
    n = 3

    def __repr__(self):
        return "Weird()"


def operands(ns):
    """Name -> factory of a fresh operand, identical recipe for both builds."""
    ops = {}
    ints = [0, 1, -1, 2, 6, 7, 8, 13, -7, -100, 2**64, -(2**64), P_BLS, P_BLS - 1,
            P_BLS + 1, P_BN, 2**400 + 17, True, False]
    for i in ints:
        ops["int:%r" % (i,)] = lambda i=i: i
    for cls in ("F7", "F13", "F2", "FBLS", "FBN"):
        for v in (0, 1, 2, 5, -1, 12, P_BN - 1, P_BLS - 1, 2**300):
            ops["%s(%d)" % (cls, v)] = lambda cls=cls, v=v: ns[cls](v)
    ops["F7(F13(12))"] = lambda: ns["F7"](ns["F13"](12))  # unreduced .n == 12
    ops["IntFQ(5)"] = lambda: ns["IntFQ"](5)
    ops["IntFQ(12)"] = lambda: ns["IntFQ"](12)
    ops["float"] = lambda: 1.5
    ops["float_int"] = lambda: 2.0
    ops["none"] = lambda: None
    ops["str"] = lambda: "3"
    ops["bytes"] = lambda: b"\x03"
    ops["list"] = lambda: [1]
    ops["tuple"] = lambda: (1, 2)
    ops["complex"] = lambda: 1j
    ops["weird"] = lambda: Weird()
    ops["Q2_7"] = lambda: ns["Q2_7"]([1, 2])
    ops["Q2_BLS"] = lambda: ns["Q2_BLS"]([3, 4])
    return ops


def show(v):
    """Canonical description of a value: type name + representation."""
    if isinstance(v, tuple):
        return ("tuple", tuple(show(x) for x in v))
    tn = type(v).__name__
    if hasattr(v, "coeffs"):
        return (tn, tuple(show(c) for c in v.coeffs), repr(getattr(v, "degree", None)))
    if hasattr(v, "n") and hasattr(v, "field_modulus"):
        return (tn, v.n, v.field_modulus)
    return (tn, repr(v))


def outcome(fn):
    try:
        return ("ok", show(fn()))
    except RecursionError:
        raise
    except BaseException as e:  # noqa: BLE001
        return ("exc", type(e).__name__, str(e))


BIN = {
    "add": lambda a, b: a + b,
    "radd": lambda a, b: b + a,
    "sub": lambda a, b: a - b,
    "rsub": lambda a, b: b - a,
    "mul": lambda a, b: a * b,
    "rmul": lambda a, b: b * a,
    "div": lambda a, b: a / b,
    "rdiv": lambda a, b: b / a,
    "eq": lambda a, b: a == b,
    "ne": lambda a, b: a != b,
    "lt": lambda a, b: a < b,
    "le": lambda a, b: a <= b,
    "gt": lambda a, b: a > b,
    "ge": lambda a, b: a >= b,
    "pow": lambda a, b: a**b,
    "mod": lambda a, b: a % b,
    "dunder_add": lambda a, b: a.__add__(b),
    "dunder_rsub": lambda a, b: a.__rsub__(b),
    "dunder_sub": lambda a, b: a.__sub__(b),
    "dunder_mul": lambda a, b: a.__mul__(b),
    "dunder_radd": lambda a, b: a.__radd__(b),
    "dunder_rmul": lambda a, b: a.__rmul__(b),
}
UN = {
    "neg": lambda a: -a,
    "int": lambda a: int(a),
    "repr": lambda a: repr(a),
    "sgn0": lambda a: a.sgn0,
    "sgn0_again": lambda a: (a.sgn0, a.sgn0),
    "one": lambda a: type(a).one(),
    "zero": lambda a: type(a).zero(),
    "copy": lambda a: type(a)(a),
}


def part_a():
    new = importlib.import_module("py_ecc.fields.optimized_field_elements")
    old = load(PRISTINE, "pristine_optimized_field_elements")
    assert new is not old and os.path.realpath(new.__file__) != PRISTINE
    assert hasattr(new, "_operand_to_int") and not hasattr(old, "_operand_to_int"), (
        "the edit is not applied in the tree under test"
    )
    nso, nsn = build(old), build(new)
    opo, opn = operands(nso), operands(nsn)
    names = list(opo)
    lefts = [n for n in names if n.startswith(("F", "IntFQ"))]
    checked = 0

    # 1. every operator, every left FQ operand, every right operand kind
    for ln in lefts:
        for rn in names:
            for opname, op in BIN.items():
                if opname == "pow" and not rn.startswith("int:"):
                    continue
                if opname == "pow" and ln.startswith("IntFQ") and abs(opo[rn]()) > 64:
                    continue  # int.__pow__ wins in the MRO there: plain big-int power
                ao, bo = opo[ln](), opo[rn]()
                an, bn = opn[ln](), opn[rn]()
                sa, sb = show(ao), show(bo)
                ro = outcome(lambda: op(ao, bo))
                rn_ = outcome(lambda: op(an, bn))
                assert ro == rn_, (ln, rn, opname, ro, rn_)
                # operands untouched in both builds
                assert show(ao) == sa and show(bo) == sb, (ln, rn, opname)
                assert show(an) == sa and show(bn) == sb, (ln, rn, opname)
                checked += 1
        for opname, op in UN.items():
            ao, an = opo[ln](), opn[ln]()
            assert outcome(lambda: op(ao)) == outcome(lambda: op(an)), (ln, opname)
            checked += 1

    # 2. constructor refusals and the class without a modulus
    for rn in names:
        for cls in ("F7", "FBLS", "NoMod"):
            ro = outcome(lambda: nso[cls](opo[rn]()))
            rn_ = outcome(lambda: nsn[cls](opn[rn]()))
            assert ro == rn_, (cls, rn, ro, rn_)
            checked += 1

    # 3. the new validator itself agrees with the ladder it replaces
    def ladder(other):
        if isinstance(other, old.FQ):
            return other.n
        elif isinstance(other, int):
            return other
        raise TypeError(
            f"Expected an int or FQ object, but got object of type {type(other)}"
        )

    for rn in names:
        vo = outcome(lambda: ladder(opo[rn]()))
        vn = outcome(lambda: new._operand_to_int(opn[rn]()))
        assert vo == vn, (rn, vo, vn)
        if vn[0] == "ok":
            assert vn[1][0] in ("int", "bool"), vn
        checked += 1

    # 4. extension fields built on FQ coefficients (FQP keeps FQ objects as they are)
    rnd = random.Random(2020)
    for q, f, p, d in (("Q2_7", "F7", 7, 2), ("Q2_BLS", "FBLS", P_BLS, 2),
                       ("Q12_BN", "FBN", P_BN, 12), ("Q12_BLS", "FBLS", P_BLS, 12)):
        for trial in range(6):
            ca = [rnd.randrange(-p, 2 * p) for _ in range(d)]
            cb = [rnd.randrange(p) for _ in range(d)]
            if trial == 0:
                ca = [0] * d
            if trial == 1:
                cb = [1] + [0] * (d - 1)
            k = rnd.randrange(1, 2**70)
            for wrap in (False, True):
                def mk(ns):
                    if wrap:
                        a = ns[q]([ns[f](c) for c in ca])
                        b = ns[q]([ns[f](c) for c in cb])
                    else:
                        a, b = ns[q](ca), ns[q](cb)
                    return a, b

                for opname, op in (
                    ("add", lambda a, b: a + b), ("sub", lambda a, b: a - b),
                    ("mul", lambda a, b: a * b), ("div", lambda a, b: a / b),
                    ("muli", lambda a, b: a * k), ("rmuli", lambda a, b: k * a),
                    ("divi", lambda a, b: a / k), ("neg", lambda a, b: -a),
                    ("inv", lambda a, b: b.inv()), ("pow", lambda a, b: a ** (k % 1000)),
                    ("eq", lambda a, b: (a == b, a != b, a == a)),
                    ("sgn0", lambda a, b: (a.sgn0, b.sgn0, (-a).sgn0)),
                    ("mulfq", lambda a, b: a * a.coeffs[0]),
                    ("addint", lambda a, b: a + 1),
                    ("mixed", lambda a, b: (a * b - a) / b + b * 3),
                ):
                    ao, bo = mk(nso)
                    an, bn = mk(nsn)
                    sa, sb = show(ao), show(bo)
                    ro, rn_ = outcome(lambda: op(ao, bo)), outcome(lambda: op(an, bn))
                    assert ro == rn_, (q, trial, wrap, opname, ro, rn_)
                    assert show(ao) == show(an) == sa and show(bo) == show(bn) == sb
                    checked += 1

    # 5. histories: the same random program run on both builds, twice, with calls on
    #    other classes interleaved; equal calls must give equal answers every time
    def program(ns, ops, seed):
        r = random.Random(seed)
        trace = []
        memo = {}
        keys = list(ops)
        binnames = [b for b in BIN if b != "pow"]
        for _ in range(1500):
            ln = r.choice(lefts)
            rn = r.choice(keys)
            opname = r.choice(binnames)
            res = outcome(lambda: BIN[opname](ops[ln](), ops[rn]()))
            key = (ln, rn, opname)
            assert memo.setdefault(key, res) == res, key
            trace.append((key, res))
        return trace

    for seed in (1, 2):
        t_old = program(nso, opo, seed)
        t_new = program(nsn, opn, seed)
        t_new2 = program(nsn, opn, seed)
        assert t_old == t_new == t_new2
        checked += len(t_old)

    # 6. shared long-lived elements are never modified by being used as operands
    for ns in (nso, nsn):
        a, b = ns["F7"](5), ns["FBLS"](P_BLS - 1)
        ida, idb = id(a), id(b)
        for _ in range(50):
            _ = (a + b, b + a, a - b, b - a, a * b, b * a, 3 - a, a - 3, 2 + b, b * 2)
        assert (a.n, b.n, id(a), id(b)) == (5, P_BLS - 1, ida, idb)
        assert set(vars(a)) == {"n"} and set(vars(b)) == {"n"}

    print("part A: %d comparisons identical" % checked)


def part_b():
    with open(EXPECTED) as f:
        exp = json.load(f)
    before = constants_snapshot()
    assert before == exp["constants"], "module constants differ from the pristine tree"
    for order in ("forward", "shuffled"):
        got = run_highlevel(order)
        assert set(got) == set(exp["steps"])
        for k in got:
            assert got[k] == exp["steps"][k], (order, k)
        assert constants_snapshot() == before, "a module constant was modified"
    print("part B: %d library steps x 2 orders identical, constants unchanged"
          % len(exp["steps"]))


if __name__ == "__main__":
    if "--gen" in sys.argv:
        gen()
    else:
        part_a()
        part_b()
        print("EQUIVALENT")
