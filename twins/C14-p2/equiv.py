import os, sys; sys.path.insert(0, os.getcwd())  # noqa: E401,E702

"""
Equivalence demonstration for p2 (C14): optimized FQ2.__init__ and FQ12.__init__ share
one implementation (FQP._declared_modulus_coeffs).

Run as:  cd /tmp/wt2/C14 && /venv/bin/python /tmp/twin2/C14/p2/equiv.py

Loads the pristine py_ecc/fields/optimized_field_elements.py (saved under
/tmp/twin2/C14/p2/pristine/) under another module name and compares it with the module
of the edited tree: construction (valid, boundary and malformed arguments, classes with
missing / odd declarations), instance state (coeffs, modulus_coeffs, degree, mc_tuples),
random straight-line arithmetic programs, sgn0, and agreement with the reference classes.
"""

import importlib.util
import random
import time

HERE = os.path.dirname(os.path.abspath(__file__))
T0 = time.time()


def load(name, path):
    spec = importlib.util.spec_from_file_location(name, path)
    mod = importlib.util.module_from_spec(spec)
    sys.modules[name] = mod
    spec.loader.exec_module(mod)
    return mod


from py_ecc.fields import field_elements as ref  # noqa: E402
from py_ecc.fields import optimized_field_elements as new  # noqa: E402
from py_ecc.fields.field_properties import field_properties  # noqa: E402

assert os.path.realpath(new.__file__).startswith(os.path.realpath(os.getcwd())), (
    "must be run with the worktree as current directory"
)
old = load(
    "pristine_optimized_field_elements",
    os.path.join(HERE, "pristine", "optimized_field_elements.py"),
)
assert hasattr(new.FQP, "_declared_modulus_coeffs"), "edited tree expected"
assert not hasattr(old.FQP, "_declared_modulus_coeffs")

P_BN = field_properties["bn128"]["field_modulus"]
P_BLS = field_properties["bls12_381"]["field_modulus"]
checks = 0


def fail(*a):
    print("MISMATCH", *a)
    sys.exit(1)


def state(x, mod):
    """canonical, module-independent description of a value"""
    if isinstance(x, mod.FQP):
        d = dict(x.__dict__)
        return (
            "FQP",
            type(x).__name__,
            tuple((type(c).__name__, repr(c)) for c in x.coeffs),
            tuple((type(c).__name__, repr(c)) for c in x.modulus_coeffs),
            x.degree,
            ("mc", type(d.get("mc_tuples")).__name__,
             [(i, type(c).__name__, repr(c)) for i, c in d["mc_tuples"]]
             if "mc_tuples" in d else None),
            sorted(d.keys()),
        )
    if isinstance(x, mod.FQ):
        return ("FQ", type(x).__name__, x.n)
    return ("other", type(x).__name__, repr(x))


def outcome(mod, f, *args):
    try:
        r = f(*args)
    except BaseException as e:  # noqa: B902
        return ("exc", type(e).__name__, str(e))
    return ("ok", state(r, mod))


def family(mod, p, c2, c12, extra=None):
    FQ = type("FQ_", (mod.FQ,), {"field_modulus": p})
    FQP = type("FQP_", (mod.FQP,), {"field_modulus": p})
    FQ2 = type("FQ2_", (mod.FQ2, FQP), {"field_modulus": p, "FQ2_MODULUS_COEFFS": c2})
    FQ12 = type(
        "FQ12_", (mod.FQ12, FQP), {"field_modulus": p, "FQ12_MODULUS_COEFFS": c12}
    )
    return {"FQ": FQ, "FQP": FQP, "FQ2": FQ2, "FQ12": FQ12}


def ref_family(p, c2, c12):
    return family(ref, p, c2, c12)


FIELDS = [
    ("bn128", P_BN, field_properties["bn128"]["fq2_modulus_coeffs"],
     field_properties["bn128"]["fq12_modulus_coeffs"]),
    ("bls12_381", P_BLS, field_properties["bls12_381"]["fq2_modulus_coeffs"],
     field_properties["bls12_381"]["fq12_modulus_coeffs"]),
    ("p7", 7, (1, 0), (2, 0, 0, 0, 0, 0, 3, 0, 0, 0, 0, 0)),
    ("p11", 11, (1, 0), (2, 0, 0, 0, 0, 0, 9, 0, 0, 0, 0, 0)),
    ("p13", 13, (2, 1), (1, 3, 0, 0, 0, 0, 5, 0, 0, 0, 0, 1)),
    ("p2", 2, (1, 1), (1, 1, 0, 1, 0, 0, 0, 0, 0, 0, 0, 0)),
    ("p101-list", 101, [2, 0], [3, 0, 0, 0, 0, 0, 99, 0, 0, 0, 0, 0]),
    ("p13-allzero", 13, (0, 0), (0,) * 12),
    ("p13-big-neg", 13, (-1, 14), (27, -3, 0, 0, 0, 0, 5, 0, 0, 0, 0, 13)),
]

# --------------------------------------------------------------- 1. construction
rng = random.Random(0x14C2)


def ctor_inputs(mod, fam, p, width):
    FQ = fam["FQ"]
    rng = random.Random(p * 31 + width)  # same values for both modules
    yield [0] * width
    yield [1] + [0] * (width - 1)
    yield tuple(range(width))
    yield [p - 1] * width
    yield [p] * width
    yield [-1] * width
    yield [2 * p + 3, -p - 1] + [p * p] * (width - 2)
    yield [FQ(i + 1) for i in range(width)]
    yield [FQ(3)] + [4] * (width - 1)          # mixed: first FQ -> kept as is
    yield [4] + [FQ(3)] * (width - 1)          # mixed: first int -> reduced
    yield [True] * width
    yield [1.5] * width
    yield ["a"] * width
    yield [None] * width
    yield []
    yield [1]
    yield [1] * (width + 1)
    yield [1] * (width - 1)
    yield None
    yield 5
    yield "ab"
    yield "abcdefghijkl"
    yield (i for i in range(width))
    yield range(width)
    yield {i: i for i in range(width)}
    for _ in range(10):
        yield [rng.randrange(-2 * p, 3 * p) for _ in range(width)]


for name, p, c2, c12 in FIELDS:
    fn, fo = family(new, p, c2, c12), family(old, p, c2, c12)
    for kind, width in (("FQ2", 2), ("FQ12", 12)):
        ins_n = list(ctor_inputs(new, fn, p, width))
        ins_o = list(ctor_inputs(old, fo, p, width))
        assert len(ins_n) == len(ins_o)
        for a, b in zip(ins_n, ins_o):
            checks += 1
            rn, ro = outcome(new, fn[kind], a), outcome(old, fo[kind], b)
            if rn != ro:
                fail("ctor", name, kind, a, rn, ro)
    # modulus declarations are neither mutated nor aliased into mc_tuples
    x, y = fn["FQ12"]([1] * 12), fn["FQ12"]([2] * 12)
    xo, yo = fo["FQ12"]([1] * 12), fo["FQ12"]([2] * 12)
    assert x.mc_tuples == xo.mc_tuples and x.mc_tuples is not y.mc_tuples
    assert (x.mc_tuples is not y.mc_tuples) == (xo.mc_tuples is not yo.mc_tuples)
    assert type(x.mc_tuples) is type(xo.mc_tuples) is list
    # per-instance list: clobbering one instance's list leaves every other one intact
    x.mc_tuples.clear(); xo.mc_tuples.clear()  # noqa: E702
    assert y.mc_tuples == yo.mc_tuples == fn["FQ12"]([3] * 12).mc_tuples
    assert state(y * y, new) == state(yo * yo, old)
    assert fn["FQ12"].FQ12_MODULUS_COEFFS == c12 and fn["FQ2"].FQ2_MODULUS_COEFFS == c2
    assert (x.modulus_coeffs is fn["FQ12"].FQ12_MODULUS_COEFFS) == (
        xo.modulus_coeffs is fo["FQ12"].FQ12_MODULUS_COEFFS
    )

# the library's own concrete classes
import py_ecc.fields as F  # noqa: E402

for cls, w in ((F.optimized_bn128_FQ2, 2), (F.optimized_bn128_FQ12, 12),
               (F.optimized_bls12_381_FQ2, 2), (F.optimized_bls12_381_FQ12, 12)):
    v = cls(list(range(1, w + 1)))
    want = [(i, c) for i, c in enumerate(v.modulus_coeffs) if c]
    assert v.mc_tuples == want and v.degree == w, cls
    assert cls.one() == cls([1] + [0] * (w - 1)) and cls.zero() == cls([0] * w)
    assert (v * v.inv()) == cls.one()

# --------------------------------------------- 2. badly declared / odd subclasses


def odd_classes(mod):
    out = {}
    out["bare FQ2"] = mod.FQ2
    out["bare FQ12"] = mod.FQ12
    out["bare FQP"] = mod.FQP
    out["FQ2 no coeffs"] = type("A", (mod.FQ2,), {"field_modulus": 7})
    out["FQ12 no coeffs"] = type("A", (mod.FQ12,), {"field_modulus": 7})
    out["FQ2 no modulus"] = type("A", (mod.FQ2,), {"FQ2_MODULUS_COEFFS": (1, 0)})
    out["FQ12 no modulus"] = type("A", (mod.FQ12,), {"FQ12_MODULUS_COEFFS": (1,) * 12})
    out["FQ2 wrong attr"] = type(
        "A", (mod.FQ2,), {"field_modulus": 7, "FQ12_MODULUS_COEFFS": (1, 0)})
    out["FQ12 wrong attr"] = type(
        "A", (mod.FQ12,), {"field_modulus": 7, "FQ2_MODULUS_COEFFS": (1,) * 12})
    out["FQ2 coeffs None"] = type(
        "A", (mod.FQ2,), {"field_modulus": 7, "FQ2_MODULUS_COEFFS": None})
    out["FQ2 coeffs int"] = type(
        "A", (mod.FQ2,), {"field_modulus": 7, "FQ2_MODULUS_COEFFS": 5})
    out["FQ2 coeffs len3"] = type(
        "A", (mod.FQ2,), {"field_modulus": 7, "FQ2_MODULUS_COEFFS": (1, 0, 2)})
    out["FQ12 coeffs len2"] = type(
        "A", (mod.FQ12,), {"field_modulus": 7, "FQ12_MODULUS_COEFFS": (1, 3)})
    out["FQ2 coeffs empty"] = type(
        "A", (mod.FQ2,), {"field_modulus": 7, "FQ2_MODULUS_COEFFS": ()})
    out["FQ2 coeffs str"] = type(
        "A", (mod.FQ2,), {"field_modulus": 7, "FQ2_MODULUS_COEFFS": "ab"})
    out["FQ2 coeffs gen"] = type(
        "A", (mod.FQ2,), {"field_modulus": 7, "FQ2_MODULUS_COEFFS": iter((1, 0))})
    FQ7 = type("FQ7", (mod.FQ,), {"field_modulus": 7})
    out["FQ2 coeffs FQ objs"] = type(
        "A", (mod.FQ2,), {"field_modulus": 7, "FQ2_MODULUS_COEFFS": (FQ7(1), FQ7(0))})
    out["FQ2 modulus 0"] = type(
        "A", (mod.FQ2,), {"field_modulus": 0, "FQ2_MODULUS_COEFFS": (1, 0)})
    out["FQ2 modulus 1"] = type(
        "A", (mod.FQ2,), {"field_modulus": 1, "FQ2_MODULUS_COEFFS": (1, 0)})
    out["FQ2 modulus neg"] = type(
        "A", (mod.FQ2,), {"field_modulus": -7, "FQ2_MODULUS_COEFFS": (1, 0)})
    # instance-level / property declarations
    out["FQ2 property"] = type(
        "A", (mod.FQ2,),
        {"field_modulus": 7, "FQ2_MODULUS_COEFFS": property(lambda self: (1, 0))})

    class Slots(mod.FQ2):
        field_modulus = 7
        FQ2_MODULUS_COEFFS = (3, 0)

        def __init__(self, coeffs, tag="t"):
            self.tag = tag
            super().__init__(coeffs)

    out["FQ2 subclass with own __init__"] = Slots

    class Mixed(mod.FQ2, mod.FQ12):
        field_modulus = 7
        FQ2_MODULUS_COEFFS = (3, 0)
        FQ12_MODULUS_COEFFS = (1,) * 12

    out["FQ2+FQ12 diamond"] = Mixed
    return out


oc_new, oc_old = odd_classes(new), odd_classes(old)
assert list(oc_new) == list(oc_old)
for key in oc_new:
    for arg in ([1, 2], [0, 0], [1] * 12, [1, 2, 3], [], None, [-1, 9], (5, 6)):
        checks += 1
        rn, ro = outcome(new, oc_new[key], arg), outcome(old, oc_old[key], arg)
        if rn != ro:
            fail("odd class", key, arg, rn, ro)
    for arg in (([1, 2], (1, 0)), ([1, 2, 3], (1, 0, 0)), ([], ()), ([1], (1, 0))):
        checks += 1
        rn, ro = outcome(new, oc_new[key], *arg), outcome(old, oc_old[key], *arg)
        if rn != ro:
            fail("odd class 2 args", key, arg, rn, ro)

# FQP used directly with explicit modulus coefficients (as tests/bls does)
for p in (7, P_BLS):
    A = type("A", (new.FQP,), {"field_modulus": p})
    B = type("A", (old.FQP,), {"field_modulus": p})
    for cs, mc in (([1, 2], (1, 0)), ([5, 6, 7], (1, 0, 2)), ([1], (1, 2)), ([], ())):
        checks += 1
        rn, ro = outcome(new, A, cs, mc), outcome(old, B, cs, mc)
        if rn != ro:
            fail("FQP direct", cs, mc, rn, ro)
        if rn[0] == "ok":
            a, b = A(cs, mc), B(cs, mc)
            r1 = outcome(new, lambda: a + a)
            r2 = outcome(old, lambda: b + b)
            r3 = outcome(new, lambda: a * a)  # no mc_tuples on bare FQP -> same failure
            r4 = outcome(old, lambda: b * b)
            if r1 != r2 or r3 != r4:
                fail("FQP direct ops", cs, mc, r1, r2, r3, r4)
            assert a.sgn0 == b.sgn0

print("construction ok: %d comparisons  [%.1fs]" % (checks, time.time() - T0))

# ------------------------------------------------- 3. straight-line arithmetic


def canon(x):
    for m in (new, old, ref):
        if isinstance(x, m.FQP):
            return ("P", tuple(int(c) for c in x.coeffs))
        if isinstance(x, m.FQ):
            return ("F", int(x))
    return ("O", type(x).__name__, repr(x))


def gen(rng, depth, nleaves, p):
    if depth == 0 or rng.random() < 0.15:
        return ("leaf", rng.randrange(nleaves))
    op = rng.choice(["+", "-", "*", "/", "**", "neg", "imul", "idiv", "rmul", "inv"])
    if op in ("+", "-", "*", "/"):
        return (op, gen(rng, depth - 1, nleaves, p), gen(rng, depth - 1, nleaves, p))
    small = [0, 1, 2, 3, -1, -5, p, p - 1, p + 1, 2 * p, -p]
    k = rng.choice(small + [rng.randrange(-2 * p, 2 * p)])
    if op == "**":
        k = rng.choice([0, 1, 2, 3, 5, 17, p - 1, p, p - 2, -1])
    return (op, gen(rng, depth - 1, nleaves, p), ("int", k))


def ev(t, leaves):
    tag = t[0]
    if tag == "leaf":
        return leaves[t[1]]
    if tag == "int":
        return t[1]
    a = ev(t[1], leaves)
    if tag == "neg":
        return -a
    if tag == "inv":
        return a.inv()
    b = ev(t[2], leaves)
    if tag == "+":
        return a + b
    if tag == "-":
        return a - b
    if tag in ("*", "imul"):
        return a * b
    if tag == "rmul":
        return b * a
    if tag in ("/", "idiv"):
        return a / b
    if tag == "**":
        return a ** b
    raise AssertionError(tag)


def run(cls, tree, raw, with_sgn0=True):
    try:
        leaves = [cls(v) for v in raw]
        r = ev(tree, leaves)
        out = ("ok", canon(r))
        if with_sgn0:
            out += (int(r.sgn0), type(r.sgn0).__name__,
                    r == cls(list(r.coeffs)), r != leaves[0])
        return out
    except BaseException as e:  # noqa: B902
        return ("exc", type(e).__name__)


def rfc9380_sgn0(coeffs, p):
    sign, zero = 0, 1
    for x in coeffs:
        x %= p
        sign_i = x % 2
        zero_i = 1 if x == 0 else 0
        sign = sign | (zero & sign_i)
        zero = zero & zero_i
    return sign


progs = 0
tally = {}
rng = random.Random(2414)
for name, p, c2, c12 in FIELDS:
    fn, fo, fr = family(new, p, c2, c12), family(old, p, c2, c12), ref_family(p, c2, c12)
    big = p > 1000
    for kind, width, count, depth in (
        ("FQ2", 2, 80 if big else 150, 7), ("FQ12", 12, 10 if big else 25, 3 if big else 4)
    ):
        for it in range(count):
            raw = []
            for _ in range(3):
                mode = rng.random()
                if mode < 0.1:
                    raw.append([0] * width)
                elif mode < 0.2:
                    raw.append([rng.randrange(p)] + [0] * (width - 1))
                elif mode < 0.3:
                    raw.append([0] * (width - 1) + [rng.randrange(p)])
                else:
                    raw.append([rng.randrange(-p, 2 * p) for _ in range(width)])
            tree = gen(rng, depth, 3, p)
            rn, ro = run(fn[kind], tree, raw), run(fo[kind], tree, raw)
            if rn != ro:
                fail("program", name, kind, tree, raw, rn, ro)
            rr = run(fr[kind], tree, raw, with_sgn0=False)
            if rn[:2] != rr[:2]:
                fail("program vs reference", name, kind, tree, raw, rn, rr)
            if rn[0] == "ok" and rn[2] != rfc9380_sgn0(rn[1][1], p):
                fail("sgn0 vs RFC 9380", name, kind, tree, raw, rn)
            key = rn[0] if rn[0] == "ok" else rn[1]
            tally[key] = tally.get(key, 0) + 1
            progs += 1
    print("  %-12s ok  [%.1fs]" % (name, time.time() - T0))

print("  outcome tally:", sorted(tally.items()))
assert tally.get("ok", 0) > progs // 2
print("programs ok: %d (new vs pristine optimized, and vs reference)" % progs)
print("ALL EQUIVALENT  [%.1fs]" % (time.time() - T0))
sys.exit(0)
