import os, sys; sys.path.insert(0, os.getcwd())  # noqa: E401,E702

"""
Equivalence demonstration for C12/p2.

Edited modules : py_ecc/optimized_bn128/optimized_pairing.py
                 py_ecc/optimized_bls12_381/optimized_pairing.py   (imported from cwd)
Pristine copies: /tmp/twin2/C12/p2/pristine/optimized_<curve>_optimized_pairing.py
                 (loaded under another module name inside the same package so the
                 relative import of .optimized_curve resolves to the same module)

Run as:  cd /tmp/wt2/C12 && /venv/bin/python /tmp/twin2/C12/p2/equiv.py
"""
import importlib
import importlib.util
import random
import time

HERE = os.path.dirname(os.path.abspath(__file__))
T0 = time.time()

import py_ecc  # noqa: E402

assert os.path.abspath(py_ecc.__file__).startswith(os.getcwd()), py_ecc.__file__

from py_ecc.fields.optimized_field_elements import FQ as _FQ, FQP as _FQP  # noqa: E402


def load_pristine(curve):
    name = "py_ecc.optimized_%s._pristine_optimized_pairing" % curve
    path = os.path.join(HERE, "pristine", "optimized_%s_optimized_pairing.py" % curve)
    spec = importlib.util.spec_from_file_location(name, path)
    mod = importlib.util.module_from_spec(spec)
    sys.modules[name] = mod
    spec.loader.exec_module(mod)
    return mod


rng = random.Random(0xC12 + 2)
CHECKS = 0


def canon(v):
    if isinstance(v, _FQP):
        return (type(v).__name__, tuple(int(c) for c in v.coeffs))
    if isinstance(v, _FQ):
        return (type(v).__name__, int(v.n))
    if isinstance(v, tuple):
        return tuple(canon(x) for x in v)
    return (type(v).__name__, repr(v))


def outcome(fn, *a, **kw):
    try:
        return ("ok", canon(fn(*a, **kw)))
    except BaseException as e:  # noqa: B902
        return ("exc", type(e).__name__, str(e) if isinstance(e, ValueError) else "")


def same(name, fo, fn, *a, **kw):
    global CHECKS
    ro = outcome(fo, *a, **kw)
    rn = outcome(fn, *a, **kw)
    assert ro == rn, (name, a, kw, ro, rn)
    CHECKS += 1
    return ro


def scale(pt, k):
    return tuple(c * k for c in pt)


def run_curve(curve):
    print("==", curve, flush=True)
    oc = importlib.import_module("py_ecc.optimized_%s.optimized_curve" % curve)
    new = importlib.import_module("py_ecc.optimized_%s.optimized_pairing" % curve)
    ref = importlib.import_module("py_ecc.%s" % curve)
    old = load_pristine(curve)
    assert old is not new and old.__file__ != new.__file__
    assert hasattr(new, "_validate_pairing_inputs")
    assert not hasattr(old, "_validate_pairing_inputs")
    FQ, FQ2, FQ12 = oc.FQ, oc.FQ2, oc.FQ12
    G1, G2, Z1, Z2, R = oc.G1, oc.G2, oc.Z1, oc.Z2, oc.curve_order
    args_snapshot = canon((G1, G2, Z1, Z2, oc.b, oc.b2))

    # ---- subgroup points, several projective representatives
    good = []
    for a, b_ in ((1, 1), (R - 1, 5)):
        good.append((oc.multiply(G2, b_), oc.multiply(G1, a)))
    k2, k1 = FQ2([rng.randrange(1, 2**64), rng.randrange(2**64)]), rng.randrange(2, 2**64)
    Qs, Ps = scale(oc.multiply(G2, 7), k2), scale(oc.multiply(G1, 11), k1)
    good.append((Qs, Ps))
    # normalised representative of the same pair
    Qn = new.normalize1(Qs)
    Pn = new.normalize1(Ps)
    good.append((Qn, Pn))
    # list instead of tuple (an already-accepted spelling of a point)
    good.append((list(G2), list(G1)))

    miller = []
    for i, (Q, P) in enumerate(good):
        r1 = same("pairing", old.pairing, new.pairing, Q, P)
        r0 = same("pairing/noexp", old.pairing, new.pairing, Q, P, final_exponentiate=False)
        assert r1[0] == "ok" and r0[0] == "ok", (r1, r0)
        m = new.pairing(Q, P, final_exponentiate=False)
        miller.append(m)
        assert canon(new.final_exponentiate(m)) == r1[1]
        if i == 2:
            # equals the reference (non-optimized) pairing of the same curve
            rp = ref.pairing(
                tuple(ref.FQ2([int(c) for c in x.coeffs]) for x in oc.normalize(Q)),
                tuple(ref.FQ(int(x.n)) for x in oc.normalize(P)),
            )
            assert tuple(int(c) for c in rp.coeffs) == r1[1][1]
    # positional flag, truthy/falsy non-bool flags
    for flag in (1, 0, None, "yes"):
        same("pairing/flag", old.pairing, new.pairing, good[0][0], good[0][1], flag)
    # same value for both representatives after final exponentiation
    assert outcome(new.pairing, Qs, Ps) == outcome(new.pairing, Qn, Pn)

    # split verification form: product of 1..6 Miller values
    singles = [new.final_exponentiate(m) for m in miller[:3]]
    for n in range(1, 7):
        pm, pe = FQ12.one(), FQ12.one()
        for j in range(n):
            pm, pe = pm * miller[j % 3], pe * singles[j % 3]
        r = same("final_exponentiate", old.final_exponentiate, new.final_exponentiate, pm)
        assert r == ("ok", canon(pe)), n

    # ---- identity / infinity in every spelling
    inf1 = [Z1, (FQ(0), FQ(1), FQ(0)), (FQ(5), FQ(7), FQ(0)), oc.multiply(G1, R),
            oc.add(G1, oc.neg(G1)), oc.multiply(G1, 0)]
    inf2 = [Z2, (FQ2([0, 0]), FQ2([1, 0]), FQ2([0, 0])), (FQ2([3, 1]), FQ2([4, 1]), FQ2.zero()),
            oc.multiply(G2, R), oc.add(G2, oc.neg(G2)), oc.multiply(G2, 0)]
    for fe in (True, False):
        for Pi in inf1:
            r = same("pairing/infP", old.pairing, new.pairing, G2, Pi, final_exponentiate=fe)
            assert r == ("ok", canon(FQ12.one())), r
        for Qi in inf2:
            r = same("pairing/infQ", old.pairing, new.pairing, Qi, G1, final_exponentiate=fe)
            assert r == ("ok", canon(FQ12.one())), r
        same("pairing/infboth", old.pairing, new.pairing, Z2, Z1, final_exponentiate=fe)
        # infinity combined with an invalid partner: validation order matters
        off_g1 = (G1[0], G1[1] + FQ(1), G1[2])
        off_g2 = (G2[0], G2[1] + FQ2([1, 0]), G2[2])
        r = same("pairing/inf+offP", old.pairing, new.pairing, Z2, off_g1, final_exponentiate=fe)
        assert r[:2] == ("exc", "ValueError")
        r = same("pairing/offQ+inf", old.pairing, new.pairing, off_g2, Z1, final_exponentiate=fe)
        assert r[:2] == ("exc", "ValueError")
        r = same("pairing/offboth", old.pairing, new.pairing, off_g2, off_g1, final_exponentiate=fe)
        assert r[:2] == ("exc", "ValueError") and "point Q" in r[2]

    # ---- invalid / malformed inputs: same exception class (and ValueError text)
    bad_pairs = [
        (G2, (G1[0], G1[1] + FQ(1), G1[2])),           # P off curve
        ((G2[0] + FQ2([1, 0]), G2[1], G2[2]), G1),      # Q off curve
        (G2, (FQ(0), FQ(0), FQ(1))),                    # (0,0)
        ((FQ2.zero(), FQ2.zero(), FQ2.one()), G1),
        (G1, G2),                                        # swapped groups
        (G1, G1), (G2, G2),
        (None, G1), (G2, None), (None, None),
        ((), G1), (G2, ()),
        ((G2[0], G2[1]), G1), (G2, (G1[0], G1[1])),     # affine 2-tuples
        ((G2[0], FQ2.zero()), G1), (G2, (G1[0], FQ(0))),  # 2-tuples ending in zero
        ((G2[0], G2[1], G2[2], G2[2]), G1), (G2, G1 + (FQ(1),)),  # 4-tuples
        (G2, (G1[0], G1[1], 1)), (G2, (G1[0], G1[1], 0)),  # int z
        (G2, (int(G1[0].n), int(G1[1].n), 1)),
        ((G2[0], G2[1], 1), G1), ((G2[0], G2[1], 0), G1),
        (G2, ("a", "b", "c")), (("a", "b", "c"), G1),
        (7, G1), (G2, 7), (G2, 0), ("G2", "G1"),
        (G2, (G1[0], G1[1], None)), ((G2[0], G2[1], None), G1),
        (G2, (G1[0], G1[1], FQ2.zero())), ((G2[0], G2[1], FQ(0)), G1),  # wrong-field zero
        (G2, (G1[0], G1[1], FQ2.one())), ((G2[0], G2[1], FQ(1)), G1),
        (new.twist(G2), new.cast_point_to_fq12(G1)),    # already-twisted FQ12 points
    ]
    other = "bls12_381" if curve == "bn128" else "bn128"
    ooc = importlib.import_module("py_ecc.optimized_%s.optimized_curve" % other)
    bad_pairs += [(ooc.G2, ooc.G1), (G2, ooc.G1), (ooc.G2, G1), (ooc.Z2, ooc.Z1),
                  (G2, ooc.Z1), (ooc.Z2, G1)]
    for Q, P in bad_pairs:
        for fe in (True, False):
            same("pairing/bad", old.pairing, new.pairing, Q, P, final_exponentiate=fe)
    same("pairing/noargs", old.pairing, new.pairing)
    same("pairing/onearg", old.pairing, new.pairing, G2)
    same("pairing/kw", old.pairing, new.pairing, Q=G2, P=Z1)

    # ---- the new helper refuses exactly what pairing refuses
    for Q, P in bad_pairs + good + [(Z2, Z1), (G2, Z1), (Z2, G1)]:
        h = outcome(new._validate_pairing_inputs, Q, P)
        p = outcome(old.pairing, Q, P, final_exponentiate=False)
        if h[0] == "exc":
            assert p == h, (Q, P, h, p)
        else:
            assert h == ("ok", canon(None))
            assert not (p[0] == "exc" and p[1] == "ValueError" and "Invalid input" in p[2])
        CHECKS_inc()

    # ---- untouched siblings still agree
    Q, P = good[1]
    if curve == "bn128":
        tq, tp = new.twist(Q), new.cast_point_to_fq12(P)
        same("miller_loop", old.miller_loop, new.miller_loop, tq, tp, False)
    else:
        same("miller_loop", old.miller_loop, new.miller_loop, Q, P, False)
    for a in ((None, P), (Q, None), (None, None)):
        same("miller_loop/none", old.miller_loop, new.miller_loop, *a)

    # ---- call histories: repeat / interleave equal and different arguments
    hist = [(good[0], True), ((Z2, G1), True), (good[3], False), (bad_pairs[0], True),
            (good[0], True), ((G2, Z1), False), (good[3], False), (bad_pairs[1], False),
            ((None, G1), True), (good[0], False)]
    first = {}
    for rnd in range(2):
        order = list(range(len(hist)))
        if rnd:
            rng.shuffle(order)
        for i in order:
            (Q, P), fe = hist[i]
            r = same("history", old.pairing, new.pairing, Q, P, final_exponentiate=fe)
            assert first.setdefault(i, r) == r, i
    # no mutation of arguments / module constants
    assert canon((G1, G2, Z1, Z2, oc.b, oc.b2)) == args_snapshot
    assert old.pseudo_binary_encoding == new.pseudo_binary_encoding


def CHECKS_inc():
    global CHECKS
    CHECKS += 1


for c in ("bn128", "bls12_381"):
    run_curve(c)

print("OK: %d old/new comparisons identical in %.1fs" % (CHECKS, time.time() - T0))
