from py_ecc.fields import (
    optimized_bls12_381_FQ2 as FQ2,
)
from py_ecc.optimized_bls12_381 import (
    field_modulus as q,
)

G2_COFACTOR = 305502333931268344200999753193121504214466019254188142667664032982267604182971884026507427359259977847832272839041616661285803823378372096355777062779109  # noqa: E501
FQ2_ORDER = q**2 - 1
EIGHTH_ROOTS_OF_UNITY = tuple(FQ2([1, 1]) ** ((FQ2_ORDER * k) // 8) for k in range(8))

POW_2_381 = 2**381
POW_2_382 = 2**382
POW_2_383 = 2**383
POW_2_384 = 2**384

# Parameters for hashing to the field as specified in:
# https://tools.ietf.org/html/draft-irtf-cfrg-hash-to-curve-09#section-8.8.1
HASH_TO_FIELD_L = 64
