import os, sys; sys.path.insert(0, os.getcwd())  # noqa: E401,E702

"""
Equivalence demonstration for a C11 edit.

Runs with the edited worktree as the current directory.  The pristine
py_ecc/bls/*.py files are stored next to this script as the package
``pristine_bls`` (its relative imports resolve among the pristine copies, its
absolute imports -- py_ecc.fields, py_ecc.optimized_bls12_381 -- resolve to the
worktree, which the edit does not touch).  Every public entry point named by
the property is called in both versions on the same inputs and the results
(values AND types) or exception classes are compared.
"""
import importlib
import random

HERE = os.path.dirname(os.path.abspath(__file__))
sys.path.insert(1, os.path.join(HERE, "pristine"))

import py_ecc  # noqa: E402

assert os.path.abspath(py_ecc.__file__).startswith(os.getcwd()), py_ecc.__file__

from py_ecc.fields import (  # noqa: E402
    optimized_bls12_381_FQ as FQ,
    optimized_bls12_381_FQ2 as FQ2,
)
from py_ecc.optimized_bls12_381 import (  # noqa: E402
    G1,
    G2,
    Z1,
    Z2,
    add,
    b,
    b2,
    curve_order,
    double,
    field_modulus as q,
    is_on_curve,
    multiply,
    neg,
    normalize,
)

NEW = {
    "pc": importlib.import_module("py_ecc.bls.point_compression"),
    "g2p": importlib.import_module("py_ecc.bls.g2_primitives"),
    "const": importlib.import_module("py_ecc.bls.constants"),
}
OLD = {
    "pc": importlib.import_module("pristine_bls.point_compression"),
    "g2p": importlib.import_module("pristine_bls.g2_primitives"),
    "const": importlib.import_module("pristine_bls.constants"),
}
assert os.path.abspath(OLD["pc"].__file__).startswith(HERE)
assert os.path.abspath(NEW["pc"].__file__).startswith(os.getcwd())

rnd = random.Random(0xC11)
N_CHECKS = 0


def canon(v):
    """Value + type fingerprint of anything the API returns."""
    if isinstance(v, FQ2):
        return ("FQ2", type(v).__name__, tuple(canon(c) for c in v.coeffs))
    if isinstance(v, FQ):
        return ("FQ", type(v).__name__, canon(v.n))
    if isinstance(v, tuple):
        return ("tuple", type(v).__name__, tuple(canon(c) for c in v))
    if isinstance(v, list):
        return ("list", tuple(canon(c) for c in v))
    if isinstance(v, (bool, int, bytes, str)) or v is None:
        return (type(v).__name__, v)
    raise AssertionError(f"unexpected result type {type(v)}")


def outcome(fn, *args):
    try:
        return ("ok", canon(fn(*args)))
    except Exception as e:  # noqa: BLE001
        # message text included: the edits do not touch messages either
        return ("exc", type(e).__name__, str(e))


def same(mod, name, *args):
    global N_CHECKS
    before = canon(args)
    o = outcome(getattr(OLD[mod], name), *args)
    n = outcome(getattr(NEW[mod], name), *args)
    assert o == n, (mod, name, args, o, n)
    assert canon(args) == before, ("argument mutated", mod, name)
    N_CHECKS += 1
    return n


# --------------------------------------------------------------------------
# constants: every public name of the pristine constants module is still
# there with the same value and the same type; same for the curve constants
# --------------------------------------------------------------------------
def snapshot_constants(m):
    return {
        k: canon(getattr(m, k))
        for k in dir(OLD["const"])
        if k.isupper() and not isinstance(getattr(OLD["const"], k), type)
    }


CONST_BEFORE = snapshot_constants(NEW["const"])
assert snapshot_constants(OLD["const"]) == CONST_BEFORE
for k in dir(OLD["pc"]):
    if k.startswith("__"):
        continue
    assert hasattr(NEW["pc"], k), f"point_compression lost name {k}"
    ov, nv = getattr(OLD["pc"], k), getattr(NEW["pc"], k)
    if isinstance(ov, type):
        assert ov is nv, k
    elif k.isupper() or k in ("q", "b", "b2", "Z1", "Z2"):
        assert canon(ov) == canon(nv), k
for k in dir(OLD["g2p"]):
    if not k.startswith("__"):
        assert hasattr(NEW["g2p"], k), f"g2_primitives lost name {k}"
# the re-export binds the very same object that decompress_G2 uses
assert (
    NEW["g2p"].decompress_G2 is NEW["pc"].decompress_G2
    and NEW["g2p"].compress_G1 is NEW["pc"].compress_G1
)
if "py_ecc.bls.field_sqrt" in sys.modules:
    fs = sys.modules["py_ecc.bls.field_sqrt"]
    assert NEW["pc"].modular_squareroot_in_FQ2 is fs.modular_squareroot_in_FQ2
    assert NEW["pc"].EIGHTH_ROOTS_OF_UNITY is NEW["const"].EIGHTH_ROOTS_OF_UNITY
    assert fs.EIGHTH_ROOTS_OF_UNITY is NEW["const"].EIGHTH_ROOTS_OF_UNITY
    assert fs.FQ2_ORDER == OLD["const"].FQ2_ORDER


# --------------------------------------------------------------------------
# points
# --------------------------------------------------------------------------
def rescale(pt, z):
    """Another projective representative of the same point."""
    x, y, w = pt
    return (x * z, y * z, w * z)


def g1_from_x(x):
    rhs = (x**3 + b.n) % q
    y = pow(rhs, (q + 1) // 4, q)
    return (FQ(x), FQ(y), FQ(1)) if y * y % q == rhs else None


def cube_root_fq2(c):
    # q**2 - 1 = 3**2 * t with 3 not dividing t
    order = q * q - 1
    t = order // 9
    assert t % 3 != 0
    if c ** t != FQ2.one():
        return None
    r = c ** pow(3, -1, t)
    return r if r**3 == c else None


g1_points = [Z1, (FQ(0), FQ(1), FQ(0)), (FQ(5), FQ(7), FQ(0)), G1, neg(G1), double(G1)]
g1_points += [multiply(G1, k) for k in (3, 5, curve_order - 1, 2**200 + 17)]
g1_points += [multiply(G1, rnd.randrange(1, curve_order)) for _ in range(6)]
g1_points.append(multiply(G1, curve_order))  # infinity as computed by the ladder
# non-subgroup points and points found from small / large x
found = 0
x = 0
while found < 6:
    pt = g1_from_x(x)
    if pt is not None:
        g1_points += [pt, neg(pt)]
        found += 1
    x += 1
for x in (q - 1, q - 2, q - 3, q - 4, (q - 1) // 2, (q + 1) // 2):
    pt = g1_from_x(x)
    if pt is not None:
        g1_points += [pt, neg(pt)]
# y near (p-1)/2: pick y first, solve x by cube root in FQ (q = 1 mod 3:
# cubes are a third of the field; x = c^((2q-1)/3)... use brute test instead)
for y in range((q - 1) // 2 - 60, (q - 1) // 2 + 61):
    c = (y * y - b.n) % q
    # q - 1 = 3 * u with 3 | u once more?  generic: try the exponent inverse
    u = q - 1
    s = 0
    while u % 3 == 0:
        u //= 3
        s += 1
    if pow(c, u, q) != 1:
        continue
    xr = pow(c, pow(3, -1, u), q)
    if pow(xr, 3, q) == c:
        g1_points.append((FQ(xr), FQ(y), FQ(1)))
        g1_points.append((FQ(xr), FQ(q - y), FQ(1)))
# other representatives
g1_points += [
    rescale(p, FQ(z))
    for p in list(g1_points[3:12])
    for z in (2, q - 1, rnd.randrange(2, q))
]
# off-curve junk (compress_G1 does not check; both versions must agree)
g1_points += [(FQ(1), FQ(1), FQ(1)), (FQ(0), FQ(0), FQ(1))]

g2_points = [
    Z2,
    (FQ2([0, 0]), FQ2([1, 0]), FQ2([0, 0])),
    (FQ2([3, 4]), FQ2([5, 6]), FQ2([0, 0])),
    G2,
    neg(G2),
    double(G2),
]
g2_points += [multiply(G2, k) for k in (3, curve_order - 1, 2**190 + 3)]
g2_points += [multiply(G2, rnd.randrange(1, curve_order)) for _ in range(4)]
g2_points.append(multiply(G2, curve_order))
# non-subgroup twist points from small x
found = 0
x_re = 0
while found < 5:
    for x_im in (0, 1, 2):
        xx = FQ2([x_re, x_im])
        yy = OLD["pc"].modular_squareroot_in_FQ2(xx**3 + b2)
        if yy is not None:
            pt = (xx, yy, FQ2.one())
            assert is_on_curve(pt, b2)
            g2_points += [pt, neg(pt)]
            found += 1
    x_re += 1
# y with zero imaginary part / zero real part
zero_part = 0
tries = 0
while zero_part < 4 and tries < 400:
    tries += 1
    v = rnd.choice([1, 2, 3, (q - 1) // 2, (q + 1) // 2, rnd.randrange(1, q)])
    v = (v + tries) % q
    for yy in (FQ2([v, 0]), FQ2([0, v])):
        xr = cube_root_fq2(yy * yy - b2)
        if xr is not None:
            pt = (xr, yy, FQ2.one())
            assert is_on_curve(pt, b2)
            g2_points += [pt, neg(pt)]
            zero_part += 1
assert zero_part >= 2, "no twist point with a zero y component found"
g2_points += [
    rescale(p, FQ2(z))
    for p in list(g2_points[3:9]) + g2_points[-4:]
    for z in ([2, 0], [0, 1], [rnd.randrange(q), rnd.randrange(q)])
]
# off-curve: compress_G2 must raise ValueError in both
g2_points += [
    (FQ2([1, 1]), FQ2([1, 1]), FQ2([1, 0])),
    (FQ2([0, 0]), FQ2([0, 0]), FQ2([1, 0])),
]

g1_words = []
for pt in g1_points:
    r = same("pc", "compress_G1", pt)
    rb = same("g2p", "G1_to_pubkey", pt)
    if r[0] == "ok":
        z = r[1][1]
        g1_words.append(z)
        d = same("pc", "decompress_G1", z)
        # (x = 0, y = +-2) compresses to a word whose coordinate bits are all
        # zero and is refused by the pristine decoder as well; both agree.
        if is_on_curve(pt, b) and d[0] == "ok":
            # the property itself, on the new version
            got = NEW["pc"].decompress_G1(z)
            assert normalize(got) == normalize(pt) or (
                pt[2] == FQ(0) and got[2] == FQ(0)
            )
            assert rb[0] == "ok" and len(rb[1][1]) == 48
            assert same("g2p", "pubkey_to_G1", rb[1][1]) == d

g2_words = []
for pt in g2_points:
    r = same("pc", "compress_G2", pt)
    rb = same("g2p", "G2_to_signature", pt)
    if r[0] == "ok":
        z1, z2 = (c[1] for c in r[1][2])
        g2_words.append((z1, z2))
        d = same("pc", "decompress_G2", (z1, z2))
        if d[0] != "ok":
            continue
        got = NEW["pc"].decompress_G2((z1, z2))
        assert normalize(got) == normalize(pt) or (
            pt[2] == FQ2.zero() and got[2] == FQ2.zero()
        )
        assert rb[0] == "ok" and len(rb[1][1]) == 96
        assert same("g2p", "signature_to_G2", rb[1][1]) == d
    else:
        assert r[1] == "ValueError"

# --------------------------------------------------------------------------
# words: 8 flag combinations x coordinate values x second words
# --------------------------------------------------------------------------
P381 = 2**381
on_x = next(x for x in range(2, 100) if g1_from_x(x) is not None)
off_x = next(x for x in range(2, 100) if g1_from_x(x) is None)
coords = [0, 1, 2, q - 1, q, q + 1, P381 - 1, on_x, off_x, (q - 1) // 2]
coords += [w % P381 for w in g1_words[3:9]]
flags = [f << 381 for f in range(8)]
all_g1_words = []
for f in flags:
    for c in coords:
        all_g1_words.append(f + c)
all_g1_words += [2**384, 2**384 + 2**383 + on_x, 2**400 + 5, -1, -(2**383)]
all_g1_words += [rnd.randrange(2**384) for _ in range(40)]
accepted = 0
for z in all_g1_words:
    r = same("pc", "decompress_G1", z)
    same("pc", "get_flags", z)
    same("pc", "is_point_at_infinity", z)
    if 0 <= z < 2**384:
        rb = same("g2p", "pubkey_to_G1", z.to_bytes(48, "big"))
        assert rb == r
    if r[0] == "ok" and 0 <= z < 2**384:
        accepted += 1
        assert NEW["pc"].compress_G1(NEW["pc"].decompress_G1(z)) == z
    elif r[0] == "exc":
        assert r[1] == "ValueError", (z, r)
assert accepted >= 10

g2_x = [(w1 % P381, w2) for (w1, w2) in g2_words[3:8] + g2_words[-6:-2]]
first = [0, 1, q - 1, q, q + 1, P381 - 1] + [a for a, _ in g2_x]
second = [0, 1, q - 1, q, q + 1, P381 - 1, P381, 2**382, 2**383, 2**383 + 2**382]
second += [2**384 - 1, 2**384, -1]
accepted = 0
pairs = []
for f in flags:
    for c in first:
        for s in second[:6] + [rnd.choice(second[6:])]:
            pairs.append((f + c, s))
    for a, bb in g2_x:
        pairs.append((f + a, bb))
        for extra in (P381, 2**382, 2**383):
            pairs.append((f + a, bb + extra))
pairs += [(rnd.randrange(2**384), rnd.randrange(2**384)) for _ in range(10)]
# small x that are / are not on the twist
for x_re in range(4):
    for x_im in range(4):
        for f in (4, 5):
            pairs.append(((f << 381) + x_im, x_re))
for z1, z2 in pairs:
    r = same("pc", "decompress_G2", (z1, z2))
    same("pc", "is_point_at_infinity", z1, z2)
    if 0 <= z1 < 2**384 and 0 <= z2 < 2**384:
        rb = same(
            "g2p", "signature_to_G2", z1.to_bytes(48, "big") + z2.to_bytes(48, "big")
        )
        assert rb == r
    if r[0] == "ok" and 0 <= z1 < 2**384 and 0 <= z2 < 2**384:
        accepted += 1
        assert NEW["pc"].compress_G2(NEW["pc"].decompress_G2((z1, z2))) == (z1, z2)
    elif r[0] == "exc":
        assert r[1] == "ValueError", (z1, z2, r)
assert accepted >= 10

# byte helpers with odd lengths (C04 territory, but both must still agree)
for blob in (b"", b"\x00", b"\xc0" + b"\x00" * 47, b"\xc0" + b"\x00" * 95, b"\xc0" * 49):
    same("g2p", "pubkey_to_G1", blob)
    same("g2p", "signature_to_G2", blob)

# --------------------------------------------------------------------------
# square root in FQ2 (directly), through whichever path each version exposes
# --------------------------------------------------------------------------
sq_inputs = [FQ2([0, 0]), FQ2([1, 0]), FQ2([0, 1]), FQ2([q - 1, 0]), FQ2([4, 4])]
sq_inputs += [FQ2([1, 1]) ** ((q * q - 1) * k // 8) for k in range(8)]
sq_inputs += [FQ2([rnd.randrange(q), rnd.randrange(q)]) for _ in range(25)]
sq_inputs += [v * v for v in sq_inputs[-10:]]
sq_inputs += [FQ2([rnd.randrange(q), 0]) for _ in range(5)]
sq_inputs += [FQ2([0, rnd.randrange(q)]) for _ in range(5)]
for v in sq_inputs:
    r = same("pc", "modular_squareroot_in_FQ2", v)
    if r[0] == "ok" and r[1][1] is not None:
        y = NEW["pc"].modular_squareroot_in_FQ2(v)
        assert y * y == v

# --------------------------------------------------------------------------
# call histories: repeat everything in a shuffled, interleaved order and
# check each answer again against the first one; constants unchanged
# --------------------------------------------------------------------------
calls = (
    [("pc", "compress_G1", (p,)) for p in g1_points[:20]]
    + [("pc", "compress_G2", (p,)) for p in g2_points[:14]]
    + [("pc", "decompress_G1", (z,)) for z in all_g1_words[:60]]
    + [("pc", "decompress_G2", (zz,)) for zz in pairs[:40]]
    + [("pc", "modular_squareroot_in_FQ2", (v,)) for v in sq_inputs[:20]]
)
first_answers = [outcome(getattr(NEW[m], n), *a) for m, n, a in calls]
order = list(range(len(calls))) * 2
rnd.shuffle(order)
for i in order:
    m, n, a = calls[i]
    assert outcome(getattr(NEW[m], n), *a) == first_answers[i], (m, n, a)
    N_CHECKS += 1
assert snapshot_constants(NEW["const"]) == CONST_BEFORE
assert snapshot_constants(OLD["const"]) == CONST_BEFORE
assert canon(Z1) == canon((FQ.one(), FQ.one(), FQ.zero()))
assert canon(Z2) == canon((FQ2.one(), FQ2.one(), FQ2.zero()))
assert add(G1, neg(G1))[2] == FQ(0)

print(f"equivalent on {N_CHECKS} checks")
