import os, sys; sys.path.insert(0, os.getcwd())
"""
Equivalence demonstration for twin C01/s2 (constants rewritten as expressions in
named parameters: curve_order / ate_loop_count from the BLS parameter x, POW_2_*
as shifts, named encoding lengths 48/96, DSTs assembled from a shared suite ID).

The edit touches modules all over the package (optimized_bls12_381 and bls), and
those import each other through absolute ``py_ecc....`` imports, so the two
versions are imported in two separate interpreters:

  * the EDITED package from the current directory (/tmp/wt2/C01), and
  * a complete PRISTINE copy of the package saved in <this dir>/pristine/py_ecc
    before editing.

``equiv.py --probe <root>`` imports py_ecc from <root>, evaluates a long list of
constants and calls (see probe()) and dumps every outcome -- value with its exact
type, or exception class -- as JSON.  The driver runs both probes in parallel and
requires the two JSON documents to be identical entry by entry (the edited tree
may only ADD module-level names).  Exit status 0 means identical.
"""
import json
import subprocess
import time

HERE = os.path.dirname(os.path.abspath(__file__))
PRISTINE_ROOT = os.path.join(HERE, "pristine")


# ---------------------------------------------------------------------------
# canonical, type-preserving encoding of values
# ---------------------------------------------------------------------------
def enc(v):
    t = type(v)
    name = t.__module__ + "." + t.__qualname__
    if v is None or t is bool:
        return [name, v]
    if t is int:
        return [name, str(v)]
    if isinstance(v, int):  # int subclasses / NewType results are plain ints anyway
        return [name, str(int(v))]
    if isinstance(v, (bytes, bytearray)):
        return [name, bytes(v).hex()]
    if t is str:
        return [name, v]
    if t is float:
        return [name, repr(v)]
    if isinstance(v, (tuple, list)):
        return [name, [enc(x) for x in v]]
    if hasattr(v, "coeffs") and hasattr(v, "degree"):  # FQP
        return [name, [enc(c) for c in v.coeffs]]
    if hasattr(v, "n") and hasattr(v, "field_modulus"):  # FQ
        return [name, str(v.n)]
    if isinstance(v, type):
        return ["type", v.__module__.replace("py_ecc", "P") + "." + v.__qualname__]
    return [name, "<opaque>"]


def outcome(f, *args, **kwargs):
    try:
        return ["ok", enc(f(*args, **kwargs))]
    except BaseException as e:  # noqa: B902
        if isinstance(e, (KeyboardInterrupt, SystemExit)):
            raise
        t = type(e)
        return ["exc", t.__module__ + "." + t.__qualname__]


# ---------------------------------------------------------------------------
# the probe (runs inside ONE version of the package)
# ---------------------------------------------------------------------------
def probe(root):
    import importlib
    import random

    if sys.path[0] != root:
        sys.path.insert(0, root)
    import py_ecc

    assert os.path.abspath(py_ecc.__file__).startswith(os.path.abspath(root) + os.sep), (
        py_ecc.__file__,
        root,
    )
    out = {"__root__": os.path.abspath(os.path.dirname(py_ecc.__file__))}

    def rec(key, f, *a, **k):
        assert key not in out, key
        out[key] = outcome(f, *a, **k)
        return out[key]

    # ---- 1. every module-level constant of the touched modules -------------
    modnames = [
        "py_ecc.optimized_bls12_381",
        "py_ecc.optimized_bls12_381.optimized_curve",
        "py_ecc.optimized_bls12_381.optimized_pairing",
        "py_ecc.optimized_bls12_381.optimized_clear_cofactor",
        "py_ecc.optimized_bls12_381.constants",
        "py_ecc.bls.constants",
        "py_ecc.bls.ciphersuites",
        "py_ecc.bls.g2_primitives",
        "py_ecc.bls.point_compression",
        "py_ecc.bls.hash_to_curve",
    ]
    import types

    for mn in modnames:
        mod = importlib.import_module(mn)
        for name in sorted(vars(mod)):
            if name.startswith("__"):
                continue
            v = getattr(mod, name)
            if isinstance(v, types.ModuleType):
                out[f"const:{mn}.{name}"] = ["module", v.__name__]
            elif isinstance(v, (types.FunctionType, type)) or callable(v):
                # which object (by defining module and name) the name is bound to
                out[f"const:{mn}.{name}"] = [
                    "callable",
                    getattr(v, "__module__", "?"),
                    getattr(v, "__qualname__", repr(v)),
                ]
            else:
                out[f"const:{mn}.{name}"] = enc(v)

    from py_ecc.bls import G2Basic, G2MessageAugmentation, G2ProofOfPossession
    from py_ecc.bls import ciphersuites as cs
    from py_ecc.bls import constants as bc
    from py_ecc.bls import g2_primitives as g2p
    from py_ecc.bls import point_compression as pc
    from py_ecc.bls.hash_to_curve import hash_to_G2
    from py_ecc.fields import optimized_bls12_381_FQ as FQ
    from py_ecc.fields import optimized_bls12_381_FQ2 as FQ2
    from py_ecc.fields import optimized_bls12_381_FQ12 as FQ12
    from py_ecc import optimized_bls12_381 as lib
    from py_ecc.optimized_bls12_381 import optimized_pairing as op

    suites = {
        "basic": G2Basic,
        "aug": G2MessageAugmentation,
        "pop": G2ProofOfPossession,
    }
    for sname, S in list(suites.items()) + [("base", cs.BaseG2Ciphersuite)]:
        for attr in ("DST", "POP_TAG", "xmd_hash_function"):
            if hasattr(S, attr):
                v = getattr(S, attr)
                out[f"attr:{sname}.{attr}"] = enc(v) if not callable(v) else repr(v)

    r = lib.curve_order
    q = lib.field_modulus
    assert type(r) is int and type(q) is int
    rng = random.Random(424242)

    class MyInt(int):
        pass

    # ---- 2. validators -----------------------------------------------------
    privs = (
        [0, 1, 2, 3, r - 3, r - 2, r - 1, r, r + 1, 2 * r, -1, -r, 2**255, 2**255 - 1]
        + [2**256, -(2**255), op.ate_loop_count, -op.ate_loop_count]
        + [1 << k for k in range(0, 258)]
        + [(1 << k) - 1 for k in range(0, 258)]
        + [rng.getrandbits(255) for _ in range(100)]
        + [True, False, MyInt(5), MyInt(r), 1.0, 2.5, "1", b"\x01", None, [1], 1j]
    )
    byts = (
        [b"", b"\x00", b"\xff" * 47, b"\x00" * 48, b"\xff" * 48, b"\x00" * 49]
        + [b"\x00" * 95, b"\x00" * 96, b"\xc0" + b"\x00" * 95, b"\x00" * 97]
        + [bytearray(48), bytearray(96), "a" * 48, "a" * 96, None, 48, 96, 48.0]
        + [[0] * 48, tuple([0] * 96), range(48), range(96), memoryview(b"\x00" * 48)]
        + [bytes(rng.getrandbits(8) for _ in range(n)) for n in (47, 48, 49, 95, 96, 97)]
    )
    for sname, S in suites.items():
        rec(f"valid_priv:{sname}", lambda S=S: [S._is_valid_privkey(x) for x in privs])
        for i, x in enumerate(byts):
            rec(f"valid_pub:{sname}:{i}", S._is_valid_pubkey, x)
            rec(f"valid_sig:{sname}:{i}", S._is_valid_signature, x)
            rec(f"valid_msg:{sname}:{i}", S._is_valid_message, x)

    # ---- 3. point (de)serialisation, compression flags ----------------------
    def off_subgroup_g1():
        x = 1
        while True:
            rhs = (x**3 + 4) % q
            y = pow(rhs, (q + 1) // 4, q)
            if y * y % q == rhs:
                pt = (FQ(x), FQ(y), FQ(1))
                if not g2p.subgroup_check(pt):
                    return pt
            x += 1

    def off_subgroup_g2():
        x = 1
        while True:
            X = FQ2([x, 1])
            y = pc.modular_squareroot_in_FQ2(X**3 + lib.b2)
            if y is not None:
                pt = (X, y, FQ2.one())
                if not g2p.subgroup_check(pt):
                    return pt
            x += 1

    P1_off, P2_off = off_subgroup_g1(), off_subgroup_g2()
    g1_pts = [lib.G1, lib.Z1, lib.neg(lib.G1), lib.multiply(lib.G1, 2), P1_off]
    g1_pts += [lib.multiply(lib.G1, r - 1), lib.multiply(lib.G1, r)]
    g1_pts += [tuple(c * 9 for c in lib.multiply(lib.G1, 77)), (FQ(0), FQ(0), FQ(0))]
    g2_pts = [lib.G2, lib.Z2, lib.neg(lib.G2), lib.multiply(lib.G2, 2), P2_off]
    g2_pts += [lib.multiply(lib.G2, r - 1), lib.multiply(lib.G2, r)]
    g2_pts += [tuple(c * 9 for c in lib.multiply(lib.G2, 77))]
    g2_pts += [(FQ2.zero(), FQ2.zero(), FQ2.zero()), (FQ2([1, 2]), FQ2([3, 4]), FQ2.one())]
    pubkeys, sigs = [], []
    for i, pt in enumerate(g1_pts):
        rec(f"compress_G1:{i}", pc.compress_G1, pt)
        res = rec(f"G1_to_pubkey:{i}", g2p.G1_to_pubkey, pt)
        rec(f"subgroup_G1:{i}", g2p.subgroup_check, pt)
        if res[0] == "ok":
            pubkeys.append(bytes.fromhex(res[1][1]))
    for i, pt in enumerate(g2_pts):
        rec(f"compress_G2:{i}", pc.compress_G2, pt)
        res = rec(f"G2_to_signature:{i}", g2p.G2_to_signature, pt)
        rec(f"subgroup_G2:{i}", g2p.subgroup_check, pt)
        if res[0] == "ok":
            sigs.append(bytes.fromhex(res[1][1]))
    pubkeys += [
        b"", b"\x00" * 48, b"\xc0" + b"\x00" * 47, b"\xe0" + b"\x00" * 47,
        b"\x80" + b"\x00" * 47, b"\xa0" + b"\x00" * 47, b"\x40" + b"\x00" * 47,
        b"\xff" * 48, b"\x9f" + b"\xff" * 47, (q + 2**383).to_bytes(48, "big"),
        (q - 1 + 2**383).to_bytes(48, "big"), b"\xc0" + b"\x00" * 46 + b"\x01",
        pubkeys[0][:47], pubkeys[0] + b"\x00", b"\x00" + pubkeys[0], b"\x01" * 100,
    ]
    sigs += [
        b"", b"\x00" * 96, b"\xc0" + b"\x00" * 95, b"\xe0" + b"\x00" * 95,
        b"\x80" + b"\x00" * 95, b"\xc0" + b"\x00" * 94 + b"\x01", b"\xff" * 96,
        b"\xc0" + b"\x00" * 47 + b"\x80" + b"\x00" * 47,
        sigs[0][:95], sigs[0] + b"\x00", sigs[0][:48], sigs[0][48:] + sigs[0][:48],
        sigs[0][:48] + (q).to_bytes(48, "big"), b"\x02" * 200,
    ]
    for i, pk in enumerate(pubkeys):
        rec(f"pubkey_to_G1:{i}", g2p.pubkey_to_G1, pk)
        rec(f"KeyValidate:{i}", G2Basic.KeyValidate, pk)
        rec(f"pop._is_valid_pubkey:{i}", G2ProofOfPossession._is_valid_pubkey, pk)
    for i, sg in enumerate(sigs):
        rec(f"signature_to_G2:{i}", g2p.signature_to_G2, sg)
    for i, z in enumerate(
        [0, 1, bc.POW_2_381, bc.POW_2_382, bc.POW_2_383, bc.POW_2_384, 2**384 - 1]
        + [bc.POW_2_383 + bc.POW_2_382, bc.POW_2_383 + bc.POW_2_382 + bc.POW_2_381]
        + [bc.POW_2_383 + 4, bc.POW_2_383 + bc.POW_2_381 + 4, bc.POW_2_383 + q]
        + [bc.POW_2_384 + bc.POW_2_383 + 4, -1]
    ):
        rec(f"get_flags:{i}", pc.get_flags, z)
        rec(f"is_point_at_infinity:{i}", pc.is_point_at_infinity, z)
        rec(f"is_point_at_infinity2:{i}", pc.is_point_at_infinity, z, 0)
        rec(f"decompress_G1:{i}", pc.decompress_G1, z)
        rec(f"decompress_G2:{i}", pc.decompress_G2, (z, 0))
        rec(f"decompress_G2b:{i}", pc.decompress_G2, (z, 5))

    # ---- 4. pairing layer (uses curve_order / ate_loop_count) ---------------
    rec("pairing(G2,G1)", lib.pairing, lib.G2, lib.G1)
    rec("pairing(G2,G1,nofe)", lib.pairing, lib.G2, lib.G1, final_exponentiate=False)
    rec("pairing(Z2,G1)", lib.pairing, lib.Z2, lib.G1)
    rec("pairing(G2,Z1)", lib.pairing, lib.G2, lib.Z1)
    rec("pairing(bad)", lib.pairing, (FQ2.one(), FQ2.one(), FQ2.one()), lib.G1)
    f0 = lib.pairing(lib.multiply(lib.G2, 5), lib.multiply(lib.G1, 7), False)
    rec("final_exponentiate", lib.final_exponentiate, f0)
    rec("final_exponentiate(one)", lib.final_exponentiate, FQ12.one())
    rec("miller_loop(None)", op.miller_loop, None, lib.G1)
    rec("pbe_slice", lambda: op.pseudo_binary_encoding[62::-1])
    rec("H(m)", hash_to_G2, b"abc", G2Basic.DST, G2Basic.xmd_hash_function)
    rec("H(m)pop", hash_to_G2, b"", G2ProofOfPossession.POP_TAG, cs.sha256)
    rec("pairing(G2,G1,nofe) again", lib.pairing, lib.G2, lib.G1, False)
    assert out["pairing(G2,G1,nofe) again"] == out["pairing(G2,G1,nofe)"]

    # ---- 5. the property: SkToPk / Sign / Verify / PopProve / PopVerify -----
    good = [1, 2, r - 2, r - 1, rng.getrandbits(255) % (r - 1) + 1, (1 << 254) + 1]
    bits = [1 << k for k in (1, 8, 31, 32, 63, 64, 65, 127, 128, 192, 253, 254)]
    bits += [(1 << k) - 1 for k in (2, 64, 128, 254)]
    bad = [0, r, r + 1, -1, 2**255, 2 * r - 1, r + op.ate_loop_count]
    bad += [1.0, float(r - 1), "1", b"\x01", None, [1], 2.5, 1j]
    odd = [True, False, MyInt(9), MyInt(0)]
    msgs = [b"", b"\x00", b"a" * 55, b"b" * 56, b"c" * 63, b"d" * 64, b"e" * 65]
    msgs += [bytes(range(256)), bytes(rng.getrandbits(8) for _ in range(5000))]
    badmsgs = ["abc", None, 5, bytearray(b"abc"), [1, 2], memoryview(b"xy")]

    for sname, S in suites.items():
        for i, sk in enumerate(good + bits + bad + odd):
            rec(f"SkToPk:{sname}:{i}", S.SkToPk, sk)
        for i, sk in enumerate(bad + odd):
            rec(f"Sign(badsk):{sname}:{i}", S.Sign, sk, b"msg")
        for i, m in enumerate(badmsgs):
            rec(f"Sign(badmsg):{sname}:{i}", S.Sign, 5, m)
        for i, ikm in enumerate(
            [b"", b"\x00" * 32, b"\x01" * 32, bytes(range(64)), b"z" * 200, "str", None]
        ):
            rec(f"KeyGen:{sname}:{i}", S.KeyGen, ikm)
            rec(f"KeyGen+info:{sname}:{i}", S.KeyGen, ikm, b"info")

    plan = {
        "basic": [(good[0], msgs[0]), (good[3], msgs[1]), (good[4], msgs[5]),
                  (good[4], msgs[8]), (bits[3], msgs[7])],
        "aug": [(good[1], msgs[0]), (good[2], msgs[3]), (good[4], msgs[4]),
                (good[5], msgs[8])],
        "pop": [(good[0], msgs[6]), (good[3], msgs[0]), (good[4], msgs[7]),
                (good[2], msgs[5])],
    }
    sign_only = [(good[4], m) for m in msgs] + [(sk, b"x") for sk in good + bits[:2]]
    made = {}
    for sname, S in suites.items():
        for i, (sk, m) in enumerate(sign_only):
            rec(f"Sign:{sname}:{i}", S.Sign, sk, m)
        for i, (sk, m) in enumerate(plan[sname]):
            pk = S.SkToPk(sk)
            sig = S.Sign(sk, m)
            made[(sname, i)] = (pk, m, sig)
            rec(f"Sign(plan):{sname}:{i}", S.Sign, sk, m)
            res = rec(f"Verify:{sname}:{i}", S.Verify, pk, m, sig)
            assert res == ["ok", ["builtins.bool", True]], (sname, i, res)
        pk, m, sig = made[(sname, 0)]
        pk1, m1, sig1 = made[(sname, 1)]
        zpk, zsig = g2p.G1_to_pubkey(lib.Z1), g2p.G2_to_signature(lib.Z2)
        offpk, offsig = g2p.G1_to_pubkey(P1_off), g2p.G2_to_signature(P2_off)
        for i, a in enumerate([
            (pk, m + b"!", sig), (pk1, m, sig), (pk, m, sig1), (zpk, m, zsig),
            (zpk, m, sig), (pk, m, zsig), (offpk, m, sig), (pk, m, offsig),
            (pk[:47], m, sig), (pk + b"\x00", m, sig), (pk, m, sig[:95]),
            (pk, m, sig + b"\x00"), (pk, "m", sig), (None, m, sig), (pk, m, None),
            (bytearray(pk), m, sig), (pk, m, bytearray(sig)), (b"\x00" * 48, m, sig),
            (pk, m, b"\xff" * 96), (pk, m, sig[48:] + sig[:48]),
        ]):
            rec(f"Verify(bad):{sname}:{i}", S.Verify, *a)

    P = G2ProofOfPossession
    proofs = {}
    for i, sk in enumerate([1, r - 1, good[4], 2, r - 2, bits[5]]):
        res = rec(f"PopProve:{i}", P.PopProve, sk)
        proofs[sk] = bytes.fromhex(res[1][1])
    for i, sk in enumerate([1, r - 1, good[4]]):
        res = rec(f"PopVerify:{i}", P.PopVerify, P.SkToPk(sk), proofs[sk])
        assert res == ["ok", ["builtins.bool", True]], res
    for i, sk in enumerate(bad + odd):
        rec(f"PopProve(bad):{i}", P.PopProve, sk)
    pk1 = P.SkToPk(1)
    for i, a in enumerate([
        (P.SkToPk(2), proofs[1]), (pk1, proofs[1][:95]), (pk1[:47], proofs[1]),
        (None, proofs[1]), (pk1, None), (pk1, P.Sign(1, pk1)),
        (g2p.G1_to_pubkey(lib.Z1), g2p.G2_to_signature(lib.Z2)),
    ]):
        rec(f"PopVerify(bad):{i}", P.PopVerify, *a)
    # the POP tag and the signature DST really are different domains
    rec("pop vs sig", lambda: P.Sign(1, pk1) != proofs[1])

    # ---- 6. aggregation ----------------------------------------------------
    sks = [3, 5, 7]
    pks = [P.SkToPk(s) for s in sks]
    ss = [P.Sign(s, b"agg") for s in sks]
    res = rec("Aggregate", P.Aggregate, ss)
    agg = bytes.fromhex(res[1][1])
    rec("Aggregate([])", P.Aggregate, [])
    rec("Aggregate(short)", P.Aggregate, [ss[0], ss[1][:95]])
    rec("Aggregate(None)", P.Aggregate, [None])
    rec("_AggregatePKs", P._AggregatePKs, pks)
    rec("_AggregatePKs([])", P._AggregatePKs, [])
    rec("FastAggregateVerify", P.FastAggregateVerify, pks, b"agg", agg)
    rec("FastAggregateVerify(bad)", P.FastAggregateVerify, pks[:2], b"agg", agg)
    rec("FastAggregateVerify([])", P.FastAggregateVerify, [], b"agg", agg)
    ms = [b"m1", b"m2"]
    for sname, S in suites.items():
        s2 = [S.Sign(s, mm) for s, mm in zip(sks, ms)]
        ag = S.Aggregate(s2)
        rec(f"AggregateVerify:{sname}", S.AggregateVerify, pks[:2], ms, ag)
        rec(f"AggregateVerify(dup):{sname}", S.AggregateVerify, pks[:2], [b"m1"] * 2, ag)
        rec(f"AggregateVerify(len):{sname}", S.AggregateVerify, pks[:2], ms[:1], ag)
        rec(f"AggregateVerify(sig):{sname}", S.AggregateVerify, pks[:2], ms, ag[:95])

    # ---- 7. call histories: repeat and interleave ---------------------------
    for rnd in range(2):
        for sname, S in suites.items():
            sk, m = plan[sname][0]
            rec(f"again:Sign:{sname}:{rnd}", S.Sign, sk, m)
            assert out[f"again:Sign:{sname}:{rnd}"] == out[f"Sign(plan):{sname}:0"]
            rec(f"again:SkToPk(r-1):{sname}:{rnd}", S.SkToPk, r - 1)
            rec(f"again:SkToPk(r):{sname}:{rnd}", S.SkToPk, r)
            rec(f"again:SkToPk(0):{sname}:{rnd}", S.SkToPk, 0)
        rec(f"again:PopProve:{rnd}", P.PopProve, 1)
        assert out[f"again:PopProve:{rnd}"] == out["PopProve:0"]
    pk, m, sig = made[("basic", 0)]
    rec("again:Verify:basic", G2Basic.Verify, pk, m, sig)
    # constants untouched by all of the above
    for mn in ("py_ecc.optimized_bls12_381.optimized_curve", "py_ecc.bls.constants",
               "py_ecc.optimized_bls12_381.optimized_pairing"):
        mod = importlib.import_module(mn)
        for name in sorted(vars(mod)):
            v = getattr(mod, name)
            if not name.startswith("__") and not callable(v) and not isinstance(
                v, types.ModuleType
            ):
                assert out[f"const:{mn}.{name}"] == enc(v), (mn, name)
    return out


# ---------------------------------------------------------------------------
# driver
# ---------------------------------------------------------------------------
def main():
    t0 = time.time()
    edited_root = os.getcwd()
    assert os.path.isdir(os.path.join(edited_root, "py_ecc")), edited_root
    assert os.path.isdir(os.path.join(PRISTINE_ROOT, "py_ecc")), PRISTINE_ROOT
    # the saved copy is pristine and the working tree is the edited one
    def src(root, rel):
        with open(os.path.join(root, "py_ecc", rel)) as fh:
            return fh.read()

    assert "BLS_X" not in src(PRISTINE_ROOT, "optimized_bls12_381/optimized_curve.py")
    assert "BLS_X" in src(edited_root, "optimized_bls12_381/optimized_curve.py")
    assert "PUBKEY_LENGTH" not in src(PRISTINE_ROOT, "bls/ciphersuites.py")
    assert "PUBKEY_LENGTH" in src(edited_root, "bls/ciphersuites.py")

    procs = {}
    for tag, root in (("old", PRISTINE_ROOT), ("new", edited_root)):
        env = dict(os.environ)
        env.pop("PYTHONPATH", None)
        env["PYTHONDONTWRITEBYTECODE"] = "1"
        procs[tag] = subprocess.Popen(
            [sys.executable, os.path.abspath(__file__), "--probe", root],
            cwd=root,
            env=env,
            stdout=subprocess.PIPE,
        )
    res = {}
    for tag, p in procs.items():
        data, _ = p.communicate()
        if p.returncode != 0:
            raise SystemExit(f"probe {tag} failed with status {p.returncode}")
        res[tag] = json.loads(data)
    old, new = res["old"], res["new"]
    assert old.pop("__root__") == os.path.join(PRISTINE_ROOT, "py_ecc")
    assert new.pop("__root__") == os.path.join(edited_root, "py_ecc")

    problems = []
    for key in old:
        if key not in new:
            problems.append(f"missing in edited tree: {key} (old={old[key]!r})")
        elif old[key] != new[key]:
            problems.append(f"DIFFERENT {key}: old={old[key]!r} new={new[key]!r}")
    extra = sorted(k for k in new if k not in old)
    for k in extra:
        if not k.startswith("const:"):
            problems.append(f"unexpected extra entry {k}")
    if problems:
        print("\n".join(problems[:50]))
        raise SystemExit(1)
    n_const = sum(1 for k in old if k.startswith("const:"))
    print(f"names only in the edited tree ({len(extra)}):")
    for k in extra:
        print("   ", k[len("const:"):], "=", new[k])
    print(
        f"OK: {len(old)} entries identical ({n_const} module-level names, "
        f"{len(old) - n_const} call outcomes) in {time.time() - t0:.1f}s"
    )


if __name__ == "__main__":
    if len(sys.argv) == 3 and sys.argv[1] == "--probe":
        # make sure the requested root wins over the cwd entry added on line 1
        root = os.path.abspath(sys.argv[2])
        sys.path.insert(0, root)
        result = probe(root)
        sys.stdout.write(json.dumps(result))
    else:
        main()
