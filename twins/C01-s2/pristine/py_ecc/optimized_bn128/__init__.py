from py_ecc.fields import (
    optimized_bn128_FQ as FQ,
    optimized_bn128_FQ2 as FQ2,
    optimized_bn128_FQ12 as FQ12,
    optimized_bn128_FQP as FQP,
)

from .optimized_curve import (
    G1,
    G2,
    G12,
    Z1,
    Z2,
    add,
    b,
    b2,
    b12,
    curve_order,
    double,
    eq,
    field_modulus,
    is_inf,
    is_on_curve,
    multiply,
    neg,
    normalize,
    twist,
)
from .optimized_pairing import (
    final_exponentiate,
    pairing,
)
