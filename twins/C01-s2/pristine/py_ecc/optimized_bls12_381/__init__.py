from py_ecc.fields import (
    optimized_bls12_381_FQ as FQ,
    optimized_bls12_381_FQ2 as FQ2,
    optimized_bls12_381_FQ12 as FQ12,
    optimized_bls12_381_FQP as FQP,
)

from .optimized_clear_cofactor import (
    multiply_clear_cofactor_G1,
    multiply_clear_cofactor_G2,
)
from .optimized_curve import (
    G1,
    G2,
    G12,
    Z1,
    Z2,
    add,
    b,
    b2,
    b12,
    curve_order,
    double,
    eq,
    field_modulus,
    is_inf,
    is_on_curve,
    multiply,
    neg,
    normalize,
    twist,
)
from .optimized_pairing import (
    final_exponentiate,
    pairing,
)
from .optimized_swu import (
    iso_map_G1,
    iso_map_G2,
    optimized_swu_G1,
    optimized_swu_G2,
)
