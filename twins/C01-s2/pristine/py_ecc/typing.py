from typing import (
    Optional,
    Tuple,
    TypeVar,
    Union,
)

from py_ecc.fields import (
    bls12_381_FQ,
    bls12_381_FQ2,
    bls12_381_FQ12,
    bls12_381_FQP,
    bn128_FQ,
    bn128_FQ2,
    bn128_FQ12,
    bn128_FQP,
    optimized_bls12_381_FQ,
    optimized_bls12_381_FQ2,
    optimized_bls12_381_FQ12,
    optimized_bls12_381_FQP,
    optimized_bn128_FQ,
    optimized_bn128_FQ2,
    optimized_bn128_FQ12,
    optimized_bn128_FQP,
)
from py_ecc.fields.field_elements import (
    FQ,
    FQ2,
    FQ12,
    FQP,
)
from py_ecc.fields.optimized_field_elements import (
    FQ as Optimized_FQ,
    FQ2 as Optimized_FQ2,
    FQ12 as Optimized_FQ12,
    FQP as Optimized_FQP,
)

#
# These types are wrt Normal Integers
#
PlainPoint2D = Tuple[int, int]
PlainPoint3D = Tuple[int, int, int]


#
# Types for the normal curves and fields
#
Field = TypeVar(
    "Field",
    # General
    FQ,
    FQP,
    FQ2,
    FQ12,
    # bn128
    bn128_FQ,
    bn128_FQP,
    bn128_FQ2,
    bn128_FQ12,
    # bls12_381
    bls12_381_FQ,
    bls12_381_FQP,
    bls12_381_FQ2,
    bls12_381_FQ12,
)
Point2D = Optional[Tuple[Field, Field]]  # Point at infinity is encoded as a None
Point3D = Optional[Tuple[Field, Field, Field]]  # Point at infinity is encoded as a None
GeneralPoint = Union[Point2D[Field], Point3D[Field]]


#
# Types For optimized curves and fields
#
Optimized_Field = TypeVar(
    "Optimized_Field",
    # General
    Optimized_FQ,
    Optimized_FQP,
    Optimized_FQ2,
    Optimized_FQ12,
    # bn128
    optimized_bn128_FQ,
    optimized_bn128_FQP,
    optimized_bn128_FQ2,
    optimized_bn128_FQ12,
    # bls12_381
    optimized_bls12_381_FQ,
    optimized_bls12_381_FQP,
    optimized_bls12_381_FQ2,
    optimized_bls12_381_FQ12,
)
Optimized_Point2D = Tuple[Optimized_Field, Optimized_Field]
Optimized_Point3D = Tuple[Optimized_Field, Optimized_Field, Optimized_Field]
Optimized_GeneralPoint = Union[
    Optimized_Point2D[Optimized_Field],
    Optimized_Point3D[Optimized_Field],
]

#
# Miscellaneous types
#
FQ2_modulus_coeffs_type = Tuple[int, int]
FQ12_modulus_coeffs_type = Tuple[
    int, int, int, int, int, int, int, int, int, int, int, int
]
