from .field_elements import (
    FQ,
    FQ2,
    FQ12,
    FQP,
)
from .field_properties import (
    field_properties,
)
from .optimized_field_elements import (
    FQ as optimized_FQ,
    FQ2 as optimized_FQ2,
    FQ12 as optimized_FQ12,
    FQP as optimized_FQP,
)


#
# bn128 curve fields
#
class bn128_FQ(FQ):
    field_modulus = field_properties["bn128"]["field_modulus"]


class bn128_FQP(FQP):
    field_modulus = field_properties["bn128"]["field_modulus"]


class bn128_FQ2(FQ2, bn128_FQP):
    field_modulus = field_properties["bn128"]["field_modulus"]
    FQ2_MODULUS_COEFFS = field_properties["bn128"]["fq2_modulus_coeffs"]


class bn128_FQ12(FQ12, bn128_FQP):
    field_modulus = field_properties["bn128"]["field_modulus"]
    FQ12_MODULUS_COEFFS = field_properties["bn128"]["fq12_modulus_coeffs"]


#
# bls12_381 curve fields
#
class bls12_381_FQ(FQ):
    field_modulus = field_properties["bls12_381"]["field_modulus"]


class bls12_381_FQP(FQP):
    field_modulus = field_properties["bls12_381"]["field_modulus"]


class bls12_381_FQ2(FQ2, bls12_381_FQP):
    field_modulus = field_properties["bls12_381"]["field_modulus"]
    FQ2_MODULUS_COEFFS = field_properties["bls12_381"]["fq2_modulus_coeffs"]


class bls12_381_FQ12(FQ12, bls12_381_FQP):
    field_modulus = field_properties["bls12_381"]["field_modulus"]
    FQ12_MODULUS_COEFFS = field_properties["bls12_381"]["fq12_modulus_coeffs"]


#
# optimized_bn128 curve fields
#


class optimized_bn128_FQ(optimized_FQ):
    field_modulus = field_properties["bn128"]["field_modulus"]


class optimized_bn128_FQP(optimized_FQP):
    field_modulus = field_properties["bn128"]["field_modulus"]


class optimized_bn128_FQ2(optimized_FQ2, optimized_bn128_FQP):
    field_modulus = field_properties["bn128"]["field_modulus"]
    FQ2_MODULUS_COEFFS = field_properties["bn128"]["fq2_modulus_coeffs"]


class optimized_bn128_FQ12(optimized_FQ12, optimized_bn128_FQP):
    field_modulus = field_properties["bn128"]["field_modulus"]
    FQ12_MODULUS_COEFFS = field_properties["bn128"]["fq12_modulus_coeffs"]


#
# optimized_bls12_381 curve fields
#
class optimized_bls12_381_FQ(optimized_FQ):
    field_modulus = field_properties["bls12_381"]["field_modulus"]


class optimized_bls12_381_FQP(optimized_FQP):
    field_modulus = field_properties["bls12_381"]["field_modulus"]


class optimized_bls12_381_FQ2(optimized_FQ2, optimized_bls12_381_FQP):
    field_modulus = field_properties["bls12_381"]["field_modulus"]
    FQ2_MODULUS_COEFFS = field_properties["bls12_381"]["fq2_modulus_coeffs"]


class optimized_bls12_381_FQ12(optimized_FQ12, optimized_bls12_381_FQP):
    field_modulus = field_properties["bls12_381"]["field_modulus"]
    FQ12_MODULUS_COEFFS = field_properties["bls12_381"]["fq12_modulus_coeffs"]
