from py_ecc.fields import (
    bls12_381_FQ as FQ,
    bls12_381_FQ2 as FQ2,
    bls12_381_FQ12 as FQ12,
    bls12_381_FQP as FQP,
)

from .bls12_381_curve import (
    G1,
    G2,
    G12,
    Z1,
    Z2,
    add,
    b,
    b2,
    b12,
    curve_order,
    double,
    eq,
    field_modulus,
    is_inf,
    is_on_curve,
    multiply,
    neg,
    twist,
)
from .bls12_381_pairing import (
    final_exponentiate,
    pairing,
)
