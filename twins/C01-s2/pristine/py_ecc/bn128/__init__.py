from py_ecc.fields import (
    bn128_FQ as FQ,
    bn128_FQ2 as FQ2,
    bn128_FQ12 as FQ12,
    bn128_FQP as FQP,
)

from .bn128_curve import (
    G1,
    G2,
    G12,
    Z1,
    Z2,
    add,
    b,
    b2,
    b12,
    curve_order,
    double,
    eq,
    field_modulus,
    is_inf,
    is_on_curve,
    multiply,
    neg,
    twist,
)
from .bn128_pairing import (
    final_exponentiate,
    pairing,
)
