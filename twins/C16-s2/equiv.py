import os, sys; sys.path.insert(0, os.getcwd())  # noqa: E401,E702

"""
Equivalence demonstration for C16 / s2 (KeyGen salt, KeyGen L = 48 and the
HKDF block size 32 become named constants in py_ecc/bls/constants.py; L is a
literal asserted at import against the formula that KeyGen used to evaluate on
every loop iteration).

Run as:  cd /tmp/wt2/C16 && /venv/bin/python /tmp/twin4/C16/s2/equiv.py

The pristine constants.py, hash.py and ciphersuites.py (saved next to this
script) are loaded under the names py_ecc.bls._pristine_*; the pristine
ciphersuites is pointed at the pristine hash module so that the whole pristine
KeyGen/HKDF stack is compared with the whole edited stack.
"""
import hashlib
import hmac
import importlib
import importlib.util
import random
import types

HERE = os.path.dirname(os.path.abspath(__file__))
PRISTINE = os.path.join(HERE, "pristine")

import py_ecc.bls  # noqa: E402  (edited tree, from cwd)

assert os.path.realpath(py_ecc.bls.__file__).startswith(
    os.path.realpath(os.getcwd())
), "must be run with the worktree as cwd"


def load_pristine(fname, modname, rewrite=()):
    src = open(os.path.join(PRISTINE, fname)).read()
    for a, b in rewrite:
        assert a in src
        src = src.replace(a, b)
    mod = types.ModuleType(modname)
    mod.__file__ = os.path.join(PRISTINE, fname)
    mod.__package__ = "py_ecc.bls"
    sys.modules[modname] = mod
    exec(compile(src, mod.__file__, "exec"), mod.__dict__)
    return mod


old_const = load_pristine("constants.py", "py_ecc.bls._pristine_constants")
old_hash = load_pristine("hash.py", "py_ecc.bls._pristine_hash")
old_cs = load_pristine(
    "ciphersuites.py",
    "py_ecc.bls._pristine_ciphersuites",
    rewrite=[("from .hash import (", "from ._pristine_hash import (")],
)
new_hash = importlib.import_module("py_ecc.bls.hash")
new_cs = importlib.import_module("py_ecc.bls.ciphersuites")
new_const = importlib.import_module("py_ecc.bls.constants")

assert old_cs.hkdf_expand is old_hash.hkdf_expand
assert old_hash.hkdf_expand is not new_hash.hkdf_expand

from py_ecc.optimized_bls12_381 import curve_order  # noqa: E402

checks = 0


def outcome(f, *args, **kw):
    try:
        r = f(*args, **kw)
        return ("ok", type(r), r)
    except BaseException as e:  # noqa: B902
        return ("exc", type(e), None)


def same(fo, fn, *args, **kw):
    """call old and new on (copies of) equal arguments, compare outcome + type"""
    global checks
    import copy

    a_old = copy.deepcopy(args)
    a_new = copy.deepcopy(args)
    o = outcome(fo, *a_old, **copy.deepcopy(kw))
    n = outcome(fn, *a_new, **copy.deepcopy(kw))
    assert o == n, (fo, args, kw, o, n)
    # arguments must not be mutated by either version
    assert a_old == args and a_new == args, ("argument mutated", args)
    checks += 1
    return n


# ---------------------------------------------------------------- references
def ref_extract(salt, ikm):
    return hmac.new(bytes(salt), bytes(ikm), hashlib.sha256).digest()


def ref_expand(prk, info, length):
    assert 0 <= length <= 255 * 32
    t, okm, i = b"", b"", 0
    while len(okm) < length:
        i += 1
        t = hmac.new(bytes(prk), t + bytes(info) + bytes([i]), hashlib.sha256).digest()
        okm += t
    return okm[:length]


def ref_keygen(ikm, key_info=b"", h=hashlib.sha256):
    salt = b"BLS-SIG-KEYGEN-SALT-"
    sk = 0
    while sk == 0:
        salt = h(salt).digest()
        prk = ref_extract(salt, bytes(ikm) + b"\x00")
        okm = ref_expand(prk, bytes(key_info) + (48).to_bytes(2, "big"), 48)
        sk = int.from_bytes(okm, "big") % curve_order
    return sk


rng = random.Random(0xC16)


def rb(n):
    return bytes(rng.getrandbits(8) for _ in range(n))


# ------------------------------------------------- 0. constants
from math import ceil, log2  # noqa: E402


def snapshot_constants():
    return {
        k: (type(v), v if not isinstance(v, tuple) else tuple((type(e), e) for e in v))
        for k, v in vars(new_const).items()
        if k.isupper()
    }


assert type(new_const.KEYGEN_SALT) is bytes
assert new_const.KEYGEN_SALT == b"BLS-SIG-KEYGEN-SALT-" and len(new_const.KEYGEN_SALT) == 20
assert type(new_const.KEYGEN_L) is int and new_const.KEYGEN_L == 48
# exactly the value (and type) the pristine KeyGen computed on every iteration
old_l = ceil((1.5 * ceil(log2(curve_order))) / 8)
assert type(old_l) is int and old_l == new_const.KEYGEN_L
assert type(new_const.HKDF_HASH_LEN) is int and new_const.HKDF_HASH_LEN == 32
assert new_const.HKDF_HASH_LEN == hashlib.sha256().digest_size
assert new_cs.KEYGEN_L is new_const.KEYGEN_L and new_cs.KEYGEN_SALT is new_const.KEYGEN_SALT
assert new_hash.HKDF_HASH_LEN is new_const.HKDF_HASH_LEN
# every constant that existed before is unchanged in value and type
for name, v in vars(old_const).items():
    if name.isupper():
        w = getattr(new_const, name)
        assert type(w) is type(v) and w == v, name
        if isinstance(v, tuple):
            assert [type(e) for e in v] == [type(e) for e in w] or all(
                type(a).__name__ == type(b).__name__ for a, b in zip(v, w)
            )
assert sorted(k for k in vars(new_const) if k.isupper()) == sorted(
    [k for k in vars(old_const) if k.isupper()]
    + ["HKDF_HASH_LEN", "KEYGEN_L", "KEYGEN_SALT"]
)
CONST_BEFORE = snapshot_constants()
# every public name of the pristine modules is still there
# (ciphersuites.py no longer needs `ceil` / `log2` from math, which were
# incidental imports and not part of its API)
for name in dir(old_hash):
    if not name.startswith("__"):
        assert hasattr(new_hash, name), name
for name in dir(old_cs):
    if not name.startswith("__") and name not in ("ceil", "log2"):
        assert hasattr(new_cs, name), name

# ------------------------------------------------- 1. RFC 5869 vectors
RFC = [
    (
        "0b" * 22,
        "000102030405060708090a0b0c",
        "f0f1f2f3f4f5f6f7f8f9",
        42,
        "077709362c2e32df0ddc3f0dc47bba6390b6c73bb50f9c3122ec844ad7c2b3e5",
        "3cb25f25faacd57a90434f64d0362f2a2d2d0a90cf1a5a4c5db02d56ecc4c5bf"
        "34007208d5b887185865",
    ),
    (
        "0b" * 22,
        "",
        "",
        42,
        "19ef24a32c717b167f33a91d6f648bdf96596776afdb6377ac434c1c293ccb04",
        "8da4e775a563c18f715f802a063c5a31b8a11f5c5ee1879ec3454e5f3c738d2d"
        "9d201395faa4b61a96c8",
    ),
]
for ikm, salt, info, L, prk, okm in RFC:
    for H in (old_hash, new_hash):
        assert H.hkdf_extract(bytes.fromhex(salt), bytes.fromhex(ikm)) == bytes.fromhex(
            prk
        )
        assert H.hkdf_expand(bytes.fromhex(prk), bytes.fromhex(info), L) == bytes.fromhex(
            okm
        )

# ------------------------------------------------- 2. hkdf_extract
lens = sorted(set([0, 1, 2, 31, 32, 33, 63, 64, 65, 127, 128, 129, 255, 256, 299, 300]))
for ls in lens:
    for li in lens:
        salt, ikm = rb(ls), rb(li)
        r = same(old_hash.hkdf_extract, new_hash.hkdf_extract, salt, ikm)
        assert r[0] == "ok" and r[1] is bytes and r[2] == ref_extract(salt, ikm)
for _ in range(600):
    salt, ikm = rb(rng.randint(0, 300)), rb(rng.randint(0, 300))
    conv_s = rng.choice([bytes, bytearray])
    conv_i = rng.choice([bytes, bytearray])
    r = same(old_hash.hkdf_extract, new_hash.hkdf_extract, conv_s(salt), conv_i(ikm))
    assert r[2] == ref_extract(salt, ikm)
BAD = [None, "abc", 5, 1.5, [1, 2], (1, 2), memoryview(b"xyz"), b"", bytearray(b"q"), object]
for a in BAD:
    for b in BAD:
        if isinstance(a, memoryview) or isinstance(b, memoryview):
            # memoryview is not deep-copyable; compare directly
            assert outcome(old_hash.hkdf_extract, a, b) == outcome(
                new_hash.hkdf_extract, a, b
            )
            checks += 1
        else:
            same(old_hash.hkdf_extract, new_hash.hkdf_extract, a, b)
for args in [(), (b"a",), (b"a", b"b", b"c")]:
    assert outcome(old_hash.hkdf_extract, *args) == outcome(new_hash.hkdf_extract, *args)
same(old_hash.hkdf_extract, new_hash.hkdf_extract, salt=b"s", ikm=b"i")

# ------------------------------------------------- 3. hkdf_expand
bound = set()
for k in range(0, 256):
    bound.update([32 * k - 1, 32 * k, 32 * k + 1])
bound = sorted(x for x in bound if 0 <= x <= 8160)
prk0, info0 = rb(32), rb(10)
for L in bound:
    r = same(old_hash.hkdf_expand, new_hash.hkdf_expand, prk0, info0, L)
    assert r[0] == "ok" and r[1] is bytearray and len(r[2]) == L
    assert r[2] == ref_expand(prk0, info0, L)
for L in range(0, 200):
    r = same(old_hash.hkdf_expand, new_hash.hkdf_expand, prk0, b"", L)
    assert r[2] == ref_expand(prk0, b"", L)
for _ in range(500):
    prk, info = rb(rng.randint(0, 300)), rb(rng.randint(0, 300))
    L = rng.choice([rng.randint(0, 8160), rng.randint(0, 100), rng.choice(bound)])
    cp = rng.choice([bytes, bytearray])
    ci = rng.choice([bytes, bytearray])
    r = same(old_hash.hkdf_expand, new_hash.hkdf_expand, cp(prk), ci(info), L)
    assert r[0] == "ok" and r[1] is bytearray and r[2] == ref_expand(prk, info, L)
# out-of-range / malformed lengths and arguments
for L in [
    8161, 8191, 8192, 8193, 10000, 2**20 + 1, -1, -31, -32, -33, -8161, -(2**40),
    0.0, 1.0, 31.5, 32.0, -0.5, float("nan"), float("inf"), -float("inf"),
    True, False, None, "32", b"32", [32], 2**70, 10**400, 3 + 0j,
]:
    same(old_hash.hkdf_expand, new_hash.hkdf_expand, prk0, info0, L)
for a in BAD:
    for b in BAD:
        if isinstance(a, memoryview) or isinstance(b, memoryview):
            for L in (0, 1, 40):
                assert outcome(old_hash.hkdf_expand, a, b, L) == outcome(
                    new_hash.hkdf_expand, a, b, L
                )
                checks += 1
        else:
            for L in (0, 1, 40):
                same(old_hash.hkdf_expand, new_hash.hkdf_expand, a, b, L)
for args in [(), (b"a",), (b"a", b"b"), (b"a", b"b", 3, 4)]:
    assert outcome(old_hash.hkdf_expand, *args) == outcome(new_hash.hkdf_expand, *args)
same(old_hash.hkdf_expand, new_hash.hkdf_expand, prk=b"p", info=b"i", length=33)
# results are fresh objects: mutating one result does not change the next
r1 = new_hash.hkdf_expand(prk0, info0, 64)
r1[0] ^= 0xFF
assert new_hash.hkdf_expand(prk0, info0, 64) == old_hash.hkdf_expand(prk0, info0, 64)

# ------------------------------------------------- 4. KeyGen
SUITES = ["BaseG2Ciphersuite", "G2Basic", "G2MessageAugmentation", "G2ProofOfPossession"]


def kg(mod, suite):
    return getattr(mod, suite).KeyGen


ikm_lens = [0, 1, 2, 31, 32, 33, 47, 48, 49, 63, 64, 65, 127, 128]
info_lens = [0, 1, 2, 31, 32, 33, 63, 64]
history = []
for li in ikm_lens:
    for lk in info_lens:
        ikm, info = rb(li), rb(lk)
        suite = rng.choice(SUITES)
        r = same(kg(old_cs, suite), kg(new_cs, suite), ikm, info)
        assert r[0] == "ok" and r[1] is int and 1 <= r[2] < curve_order
        assert r[2] == ref_keygen(ikm, info)
        history.append((suite, ikm, info, r))
for _ in range(400):
    ikm, info = rb(rng.randint(0, 128)), rb(rng.randint(0, 64))
    suite = rng.choice(SUITES)
    r = same(kg(old_cs, suite), kg(new_cs, suite), ikm, info)
    assert r[1] is int and 1 <= r[2] < curve_order and r[2] == ref_keygen(ikm, info)
    history.append((suite, ikm, info, r))
# default key_info, keyword arguments, structured IKMs
for ikm in [b"", b"\x00", b"\x00" * 32, b"\xff" * 32, b"\x00" * 128, bytes(range(128))]:
    for suite in SUITES:
        r = same(kg(old_cs, suite), kg(new_cs, suite), ikm)
        assert r[2] == ref_keygen(ikm)
        r2 = same(kg(old_cs, suite), kg(new_cs, suite), IKM=ikm, key_info=b"")
        assert r2 == r
        history.append((suite, ikm, b"", r))
# determinism under repetition / interleaving (shuffled replay, twice)
for rep in range(2):
    rng.shuffle(history)
    for suite, ikm, info, r in history[:250]:
        assert outcome(kg(new_cs, suite), ikm, info) == r
        assert outcome(kg(old_cs, rng.choice(SUITES)), ikm, info) == r
        checks += 2
# via the public package path
from py_ecc.bls import G2Basic, G2MessageAugmentation, G2ProofOfPossession  # noqa: E402

assert G2ProofOfPossession is new_cs.G2ProofOfPossession
for S in (G2Basic, G2MessageAugmentation, G2ProofOfPossession):
    assert S.KeyGen(b"\x01" * 32) == old_cs.G2Basic.KeyGen(b"\x01" * 32)
# malformed inputs
for a in BAD:
    for b in BAD + ["__default__"]:
        if isinstance(a, memoryview) or isinstance(b, memoryview):
            args = (a,) if b == "__default__" else (a, b)
            assert outcome(old_cs.G2Basic.KeyGen, *args) == outcome(
                new_cs.G2Basic.KeyGen, *args
            )
            checks += 1
        elif isinstance(b, str) and b == "__default__":
            same(old_cs.G2Basic.KeyGen, new_cs.G2Basic.KeyGen, a)
        else:
            same(old_cs.G2Basic.KeyGen, new_cs.G2Basic.KeyGen, a, b)
for args in [(), (b"a", b"b", b"c")]:
    assert outcome(old_cs.G2Basic.KeyGen, *args) == outcome(new_cs.G2Basic.KeyGen, *args)


# a subclass selecting another hash for the salt chain (shared base-class code)
def sub(mod, h):
    return type("Sub", (mod.G2Basic,), {"xmd_hash_function": h})


for h in (hashlib.sha512, hashlib.sha1, hashlib.sha3_256):
    So, Sn = sub(old_cs, h), sub(new_cs, h)
    for _ in range(40):
        ikm, info = rb(rng.randint(0, 128)), rb(rng.randint(0, 64))
        r = same(So.KeyGen, Sn.KeyGen, ikm, info)
        assert r[2] == ref_keygen(ikm, info, h)


# the SK == 0 retry path: force the first k reductions to yield 0 in both
# versions (same fake installed in both modules) and compare with the
# reference that re-hashes the salt before every attempt.
def with_zero_attempts(mod, k, ikm, info):
    real = mod.os2ip
    state = {"n": 0}

    def fake(x):
        state["n"] += 1
        return 0 if state["n"] <= k else real(x)

    mod.os2ip = fake
    try:
        return mod.G2Basic.KeyGen(ikm, info), state["n"]
    finally:
        mod.os2ip = real


def ref_keygen_skipping(k, ikm, info):
    salt = b"BLS-SIG-KEYGEN-SALT-"
    for _ in range(k + 1):
        salt = hashlib.sha256(salt).digest()
    prk = ref_extract(salt, ikm + b"\x00")
    okm = ref_expand(prk, info + b"\x00\x30", 48)
    return int.from_bytes(okm, "big") % curve_order


for k in (0, 1, 2, 5):
    for _ in range(10):
        ikm, info = rb(rng.randint(0, 128)), rb(rng.randint(0, 64))
        o = with_zero_attempts(old_cs, k, ikm, info)
        n = with_zero_attempts(new_cs, k, ikm, info)
        assert o == n == (ref_keygen_skipping(k, ikm, info), k + 1), (k, o, n)
        checks += 1
assert old_cs.os2ip is old_hash.os2ip and new_cs.os2ip is new_hash.os2ip

# ------------------------------------------------- 5. rest of hash.py untouched
for _ in range(100):
    msg, dst = rb(rng.randint(0, 100)), rb(rng.randint(0, 260))
    L = rng.choice([0, 1, 32, 33, 64, 256, 8160, 8161, 70000])
    same(old_hash.expand_message_xmd, new_hash.expand_message_xmd, msg, dst, L, hashlib.sha256)
    same(old_hash.sha256, new_hash.sha256, msg)
    same(old_hash.xor, new_hash.xor, msg, dst)
    x = rng.getrandbits(rng.randint(0, 400))
    same(old_hash.i2osp, new_hash.i2osp, x, rng.randint(0, 50))
    same(old_hash.os2ip, new_hash.os2ip, msg)

# module-level constants were not mutated by any of the calls above
assert snapshot_constants() == CONST_BEFORE
assert new_const.KEYGEN_SALT == b"BLS-SIG-KEYGEN-SALT-" and new_const.KEYGEN_L == 48

print("OK: %d comparisons, old and new agree (values, types, exception classes)" % checks)
