import os, sys; sys.path.insert(0, os.getcwd())  # noqa: E401,E702

# Equivalence demonstration for twin t2 (property C05).
#
# Loads, for each of the four pairing implementations, the EDITED pairing module
# (the one in the current working tree) and the PRISTINE one (copy saved next to
# this script, loaded with importlib under another module name inside the same
# package so that its relative imports resolve to the same curve / field modules)
# and checks that every public function returns an equal value of the same type,
# or raises an exception of the same class with the same message, on valid,
# boundary, off-curve and malformed inputs and across repeated / interleaved calls.
import importlib
import importlib.util
import random
import time
from concurrent.futures import ProcessPoolExecutor

HERE = os.path.dirname(os.path.abspath(__file__))

IMPLS = {
    # name: (package, pairing module, pristine copy, optimized?)
    "bn128": ("py_ecc.bn128", "bn128_pairing", "bn128__bn128_pairing.py", False),
    "bls12_381": (
        "py_ecc.bls12_381",
        "bls12_381_pairing",
        "bls12_381__bls12_381_pairing.py",
        False,
    ),
    "optimized_bn128": (
        "py_ecc.optimized_bn128",
        "optimized_pairing",
        "optimized_bn128__optimized_pairing.py",
        True,
    ),
    "optimized_bls12_381": (
        "py_ecc.optimized_bls12_381",
        "optimized_pairing",
        "optimized_bls12_381__optimized_pairing.py",
        True,
    ),
}

_loaded = {}


def load(impl):
    if impl in _loaded:
        return _loaded[impl]
    pkg, modname, pristine_file, _ = IMPLS[impl]
    package = importlib.import_module(pkg)
    new = importlib.import_module(f"{pkg}.{modname}")
    assert os.path.realpath(new.__file__).startswith(
        os.path.realpath(os.getcwd()) + os.sep
    ), f"edited module not imported from the current directory: {new.__file__}"
    name = f"{pkg}._pristine_{modname}"
    spec = importlib.util.spec_from_file_location(
        name, os.path.join(HERE, "pristine", pristine_file)
    )
    old = importlib.util.module_from_spec(spec)
    sys.modules[name] = old
    spec.loader.exec_module(old)
    _loaded[impl] = (package, old, new)
    return _loaded[impl]


def canon(v):
    """A comparable description of a value: its exact type plus its contents."""
    if isinstance(v, (tuple, list)):
        return (type(v).__name__, tuple(canon(x) for x in v))
    t = type(v)
    tname = f"{t.__module__}.{t.__qualname__}"
    if hasattr(v, "coeffs"):
        return (tname, tuple(int(c) for c in v.coeffs))
    if hasattr(v, "n") and hasattr(v, "field_modulus"):
        return (tname, int(v.n))
    return (tname, repr(v))


def outcome(f, *args, **kwargs):
    try:
        return ("ok", canon(f(*args, **kwargs)))
    except Exception as e:  # noqa: BLE001 - the class is what is being compared
        t = type(e)
        return ("exc", f"{t.__module__}.{t.__qualname__}", str(e))


class Bad:
    """An object that is not a field element at all."""

    def __repr__(self):
        return "Bad()"


_cases = {}


def build_cases(impl):
    """Per-process cache around _build_cases (the case list is deterministic)."""
    if impl not in _cases:
        _cases[impl] = _build_cases(impl)
    return _cases[impl]


def _build_cases(impl):
    """
    Deterministic list of (label, function name, args, kwargs, expensive?) for one
    implementation. `expensive` marks the calls that run a full Miller loop.
    """
    package, old, new = load(impl)
    opt = IMPLS[impl][3]
    m = package
    rnd = random.Random(0xC05 + sorted(IMPLS).index(impl))
    r = m.curve_order
    G1, G2 = m.G1, m.G2
    FQ, FQ2, FQ12 = m.FQ, m.FQ2, m.FQ12
    mul, add, neg = m.multiply, m.add, m.neg
    k1, k2 = rnd.randrange(1, r), rnd.randrange(1, r)
    cases = []

    def C(label, fn, *args, expensive=False, **kwargs):
        cases.append((label, fn, args, kwargs, expensive))

    # other-curve points (same representation kind, wrong field)
    other_name = {
        "bn128": "py_ecc.bls12_381",
        "bls12_381": "py_ecc.bn128",
        "optimized_bn128": "py_ecc.optimized_bls12_381",
        "optimized_bls12_381": "py_ecc.optimized_bn128",
    }[impl]
    other = importlib.import_module(other_name)

    if not opt:
        P1, Q1 = mul(G1, k1), mul(G2, k2)
        infP, infQ = None, None
        offP = (G1[0], G1[1] + 1)
        offQ = (G2[0] + FQ2([1, 0]), G2[1])
        offP0 = (FQ(0), FQ(0))
        offQ0 = (FQ2([0, 0]), FQ2([0, 0]))
        # ---- full pairings -------------------------------------------------
        # (the generator pairing itself is covered by the history jobs)
        C("neg(rand Q), rand P", "pairing", neg(Q1), P1, expensive=True)
        # ---- infinity ------------------------------------------------------
        C("inf Q", "pairing", infQ, G1)
        C("inf P", "pairing", G2, infP)
        C("inf both", "pairing", infQ, infP)
        C("rQ", "pairing", mul(G2, r), P1)
        C("0P", "pairing", Q1, mul(G1, 0))
        C("rP", "pairing", Q1, mul(G1, r))
        C("P + (-P)", "pairing", G2, add(P1, neg(P1)))
        # ---- off curve -----------------------------------------------------
        C("off Q", "pairing", offQ, G1)
        C("off P", "pairing", G2, offP)
        C("off both", "pairing", offQ, offP)
        C("off Q zero", "pairing", offQ0, G1)
        C("off P zero", "pairing", G2, offP0)
        C("off Q, inf P", "pairing", offQ, None)
        C("inf Q, off P", "pairing", None, offP)
        C("off Q, malformed P", "pairing", offQ, 7)
        C("off Q rand", "pairing", (Q1[0], Q1[1] * 2), P1)
        C("off P rand", "pairing", Q1, (P1[0] * 2, P1[1]))
        # ---- malformed -----------------------------------------------------
        C("swapped", "pairing", G1, G2)
        C("G2,G2", "pairing", G2, G2)
        C("G1,G1", "pairing", G1, G1)
        C("inf Q, G2 as P", "pairing", None, G2)
        C("G1 as Q, inf P", "pairing", G1, None)
        C("int P on curve?", "pairing", G2, (1, 2))
        C("int P", "pairing", G2, (5, 7))
        C("int Q", "pairing", (1, 2), G1)
        C("inf Q, int P (1,2)", "pairing", None, (1, 2))
        C("3-tuple P", "pairing", G2, (G1[0], G1[1], FQ(1)))
        C("3-tuple Q", "pairing", (G2[0], G2[1], FQ2([1, 0])), G1)
        C("1-tuple P", "pairing", G2, (G1[0],))
        C("empty Q", "pairing", (), G1)
        C("list P", "pairing", None, [G1[0], G1[1]])
        C("list Q", "pairing", [G2[0], G2[1]], None)
        C("scalar Q", "pairing", 5, G1)
        C("scalar P", "pairing", G2, 5)
        C("str Q", "pairing", "ab", G1)
        C("Bad P", "pairing", None, (Bad(), Bad()))
        C("Bad Q", "pairing", (Bad(), Bad()), None)
        C("other curve P", "pairing", None, other.G1)
        C("other curve Q", "pairing", other.G2, None)
        C("other curve both", "pairing", other.G2, other.G1)
        C("FQ12 Q", "pairing", m.twist(G2), None)
        C("False Q", "pairing", False, G1)
        C("no args", "pairing")
        C("one arg", "pairing", G2)
        C("kwargs", "pairing", Q=None, P=G1)
        C("kwargs off", "pairing", P=offP, Q=offQ)
        C("bad kwarg", "pairing", G2, G1, final_exponentiate=False)
        # ---- line function: chord, tangent, vertical; every field ----------
        two, three = m.double(G1), mul(G1, 3)
        tG2, tQ1 = m.twist(G2), m.twist(Q1)
        cP1 = new.cast_point_to_fq12(P1)
        for fam, (A, B_, T_) in {
            "FQ": (G1, two, three),
            "FQ rand": (P1, mul(P1, 2), mul(G1, k2)),
            "FQ2": (G2, m.double(G2), Q1),
            "FQ12": (tG2, m.double(tG2), cP1),
            "FQ12 rand": (tQ1, m.add(tQ1, tG2), cP1),
        }.items():
            C(f"linefunc chord {fam}", "linefunc", A, B_, T_)
            C(f"linefunc chord rev {fam}", "linefunc", B_, A, T_)
            C(f"linefunc chord on line {fam}", "linefunc", A, B_, A)
            C(f"linefunc tangent {fam}", "linefunc", A, A, T_)
            C(f"linefunc tangent copy {fam}", "linefunc", A, (A[0], A[1]), T_)
            C(f"linefunc tangent self {fam}", "linefunc", A, A, A)
            C(f"linefunc vertical {fam}", "linefunc", A, neg(A), T_)
            C(f"linefunc vertical self {fam}", "linefunc", A, neg(A), A)
            C(f"linefunc same x, other y {fam}", "linefunc", A, (A[0], A[1] * 2), T_)
        C("linefunc y == 0 tangent", "linefunc", (FQ(2), FQ(0)), (FQ(2), FQ(0)), G1)
        C("linefunc zero points", "linefunc", (FQ(0), FQ(0)), (FQ(0), FQ(0)), (FQ(0), FQ(0)))
        C("linefunc inf P1", "linefunc", None, G1, two)
        C("linefunc inf P2", "linefunc", G1, None, two)
        C("linefunc inf T", "linefunc", G1, two, None)
        C("linefunc inf all", "linefunc", None, None, None)
        C("linefunc mixed fields chord", "linefunc", G1, two, G2)
        C("linefunc mixed fields tangent", "linefunc", G1, G1, G2)
        C("linefunc mixed fields vertical", "linefunc", G1, neg(G1), G2)
        C("linefunc mixed P1/P2", "linefunc", G1, G2, two)
        C("linefunc other curve", "linefunc", other.G1, other.G1, G1)
        C("linefunc ints chord", "linefunc", (1, 2), (3, 4), (5, 6))
        C("linefunc ints tangent", "linefunc", (1, 2), (1, 2), (5, 6))
        C("linefunc ints vertical", "linefunc", (1, 2), (1, 3), (5, 6))
        C("linefunc ints y 0", "linefunc", (1, 0), (1, 0), (5, 6))
        C("linefunc FQ/int", "linefunc", G1, (1, 2), (5, 6))
        C("linefunc int/FQ", "linefunc", (1, 2), G1, two)
        C("linefunc 3-tuple P1", "linefunc", G1 + (FQ(1),), two, three)
        C("linefunc 3-tuple T", "linefunc", G1, two, three + (FQ(1),))
        C("linefunc 3-tuple T vertical", "linefunc", G1, neg(G1), three + (FQ(1),))
        C("linefunc scalar", "linefunc", 1, 2, 3)
        C("linefunc Bad chord", "linefunc", (Bad(), Bad()), G1, two)
        C("linefunc Bad T chord", "linefunc", G1, two, (Bad(), Bad()))
        C("linefunc Bad yT vertical", "linefunc", G1, neg(G1), (three[0], Bad()))
        C("linefunc Bad xT vertical", "linefunc", G1, neg(G1), (Bad(), three[1]))
        C("linefunc str", "linefunc", "ab", "ab", "cd")
        C("linefunc no args", "linefunc")
        # ---- Miller loop / final exponentiation ----------------------------
        C("miller inf Q", "miller_loop", None, m.twist(G2))
        C("miller inf P", "miller_loop", m.twist(G2), None)
        C("miller inf both", "miller_loop", None, None)
        C("miller untwisted Q", "miller_loop", G2, cP1)
        C("miller FQ P", "miller_loop", tG2, G1)
        C("miller 3-tuple Q", "miller_loop", tG2 + (FQ12.one(),), cP1)
        C("miller scalar", "miller_loop", 3, 4)
        C("miller str", "miller_loop", "ab", "cd")
        C("miller Bad", "miller_loop", (Bad(), Bad()), cP1)
        C("miller twisted", "miller_loop", tQ1, cP1, expensive=True)
        C("final_exp FQ12", "final_exponentiate", tQ1[0] * cP1[1], expensive=True)
        C("final_exp FQ12 zero", "final_exponentiate", FQ12.zero(), expensive=True)
        C("final_exp FQ2", "final_exponentiate", Q1[0])
        C("final_exp FQ", "final_exponentiate", P1[0])
        C("final_exp FQ zero", "final_exponentiate", FQ(0))
        C("final_exp int 0", "final_exponentiate", 0)
        C("final_exp int 1", "final_exponentiate", 1)
        C("final_exp int -1", "final_exponentiate", -1)
        C("final_exp True", "final_exponentiate", True)
        C("final_exp float 1", "final_exponentiate", 1.0)
        C("final_exp float", "final_exponentiate", 1.5)
        C("final_exp None", "final_exponentiate", None)
        C("final_exp str", "final_exponentiate", "x")
        C("final_exp tuple", "final_exponentiate", G1)
        C("final_exp Bad", "final_exponentiate", Bad())
        C("final_exp no args", "final_exponentiate")
        C("cast", "cast_point_to_fq12", P1)
        C("cast inf", "cast_point_to_fq12", None)
    else:
        P1, Q1 = mul(G1, k1), mul(G2, k2)
        s1, s2 = rnd.randrange(2, FQ.field_modulus), rnd.randrange(2, FQ.field_modulus)

        def scale(pt, k):
            return (pt[0] * k, pt[1] * k, pt[2] * k)

        infP = (FQ(1), FQ(1), FQ(0))
        infQ = (FQ2.one(), FQ2.one(), FQ2.zero())
        infP0 = (FQ(0), FQ(0), FQ(0))
        infQ0 = (FQ2.zero(), FQ2.zero(), FQ2.zero())
        infPx = (FQ(5), FQ(11), FQ(0))
        infQx = (FQ2([3, 4]), FQ2([5, 6]), FQ2.zero())
        offP = (G1[0], G1[1] + 1, G1[2])
        offQ = (G2[0] + FQ2([1, 0]), G2[1], G2[2])
        offPs = scale(offP, s1)
        offQs = scale(offQ, s2)
        offP0 = (FQ(0), FQ(0), FQ(1))
        offQ0 = (FQ2.zero(), FQ2.zero(), FQ2.one())
        # ---- full pairings -------------------------------------------------
        C("gen", "pairing", G2, G1, expensive=True)
        C("gen no fe", "pairing", G2, G1, final_exponentiate=False, expensive=True)
        C("gen fe 0", "pairing", G2, G1, 0, expensive=True)
        C("rand no fe", "pairing", Q1, P1, False, expensive=True)
        C("scaled reps", "pairing", scale(Q1, s2), scale(P1, s1), expensive=True)
        C("scaled P only nofe", "pairing", G2, scale(G1, s1), False, expensive=True)
        C("neg Q, (r-1)P", "pairing", neg(G2), mul(G1, r - 1), expensive=True)
        C("sum P", "pairing", G2, add(P1, G1), expensive=True)
        C("normalized", "pairing", m.normalize(Q1) + (FQ2.one(),),
          m.normalize(P1) + (FQ(1),), expensive=True)
        C("list points", "pairing", list(G2), list(G1), expensive=True)
        C("kwargs", "pairing", P=P1, Q=G2, final_exponentiate=False, expensive=True)
        # ---- infinity ------------------------------------------------------
        for lp, ip in (("(1,1,0)", infP), ("(0,0,0)", infP0), ("(x,y,0)", infPx)):
            C(f"inf P {lp}", "pairing", G2, ip)
            C(f"inf P {lp} nofe", "pairing", Q1, ip, False)
            for lq, iq in (("(1,1,0)", infQ), ("(0,0,0)", infQ0), ("(x,y,0)", infQx)):
                C(f"inf Q {lq} inf P {lp}", "pairing", iq, ip)
        for lq, iq in (("(1,1,0)", infQ), ("(0,0,0)", infQ0), ("(x,y,0)", infQx)):
            C(f"inf Q {lq}", "pairing", iq, G1)
            C(f"inf Q {lq} nofe", "pairing", iq, P1, final_exponentiate=False)
        C("rQ", "pairing", mul(G2, r), P1)
        C("0Q", "pairing", mul(G2, 0), P1)
        C("0P", "pairing", Q1, mul(G1, 0))
        C("rP", "pairing", Q1, mul(G1, r))
        C("P + (-P)", "pairing", G2, add(P1, neg(P1)))
        C("Z2, Z1", "pairing", m.Z2, m.Z1)
        # ---- off curve -----------------------------------------------------
        C("off Q", "pairing", offQ, G1)
        C("off P", "pairing", G2, offP)
        C("off both", "pairing", offQ, offP)
        C("off both scaled", "pairing", offQs, offPs)
        C("off Q scaled nofe", "pairing", offQs, G1, False)
        C("off P scaled", "pairing", G2, offPs)
        C("off Q zero", "pairing", offQ0, G1)
        C("off P zero", "pairing", G2, offP0)
        C("off Q, inf P", "pairing", offQ, infP)
        C("off Q, inf P0", "pairing", offQ, infP0)
        C("inf Q, off P", "pairing", infQ, offP)
        C("inf Q0, off P", "pairing", infQ0, offP)
        C("off Q, malformed P", "pairing", offQ, 7)
        C("off Q, None P", "pairing", offQ, None)
        C("off Q rand", "pairing", (Q1[0], Q1[1] * 2, Q1[2]), P1)
        C("off P rand", "pairing", Q1, (P1[0] * 2, P1[1], P1[2]))
        C("off P z only", "pairing", Q1, (P1[0], P1[1], P1[2] * 2))
        # ---- malformed -----------------------------------------------------
        C("None Q", "pairing", None, G1)
        C("None P", "pairing", G2, None)
        C("None both", "pairing", None, None)
        C("inf Q, None P", "pairing", infQ, None)
        C("swapped", "pairing", G1, G2)
        C("G2,G2", "pairing", G2, G2)
        C("G1,G1", "pairing", G1, G1)
        C("inf Q, G2 as P", "pairing", infQ, G2)
        C("G1 as Q, inf P", "pairing", G1, infP)
        C("inf in wrong field P", "pairing", G2, infQ)
        C("inf in wrong field Q", "pairing", infP, G1)
        C("inf wrong field both", "pairing", infP, infQ)
        C("int P", "pairing", G2, (1, 2, 1))
        C("int Q", "pairing", (1, 2, 1), G1)
        C("int z P", "pairing", G2, (G1[0], G1[1], 1))
        C("int z0 P", "pairing", G2, (G1[0], G1[1], 0))
        C("2-tuple P", "pairing", G2, (G1[0], G1[1]))
        C("2-tuple Q", "pairing", (G2[0], G2[1]), G1)
        C("2-tuple Q, inf P", "pairing", (G2[0], G2[1]), infP)
        C("inf Q, 2-tuple P", "pairing", infQ, (G1[0], G1[1]))
        C("inf Q, 2-tuple P z0", "pairing", infQ, (G1[0], FQ(0)))
        C("4-tuple P", "pairing", G2, G1 + (FQ(1),))
        C("4-tuple inf P", "pairing", G2, G1 + (FQ(0),))
        C("1-tuple inf P", "pairing", G2, (FQ(0),))
        C("empty Q", "pairing", (), G1)
        C("scalar Q", "pairing", 5, G1)
        C("scalar P", "pairing", G2, 5)
        C("str Q", "pairing", "abc", G1)
        C("Bad P", "pairing", G2, (Bad(), Bad(), Bad()))
        C("Bad Q", "pairing", (Bad(), Bad(), Bad()), G1)
        C("other curve P", "pairing", G2, other.G1)
        C("other curve Q", "pairing", other.G2, G1)
        C("other curve both", "pairing", other.G2, other.G1)
        C("other curve inf P", "pairing", G2, other.Z1)
        C("other curve inf Q", "pairing", other.Z2, G1)
        C("FQ12 Q", "pairing", m.twist(G2), G1)
        C("FQ12 Q inf P", "pairing", m.twist(G2), infP)
        C("no args", "pairing")
        C("one arg", "pairing", G2)
        C("kwargs inf", "pairing", Q=infQ, P=G1)
        C("kwargs off", "pairing", P=offP, Q=offQ)
        C("bad kwarg", "pairing", G2, G1, final_exp=False)
        # ---- line function (untouched in the optimized modules) ------------
        two = m.double(G1)
        C("linefunc 1", "linefunc", G1, two, mul(G1, 3))
        C("linefunc 2", "linefunc", G1, G1, two)
        C("linefunc 3", "linefunc", G1, neg(G1), two)
        C("linefunc scaled", "linefunc", scale(P1, s1), scale(P1, s2), scale(two, 7))
        # ---- Miller loop called directly -----------------------------------
        if impl == "optimized_bn128":
            mQ, mP = m.twist(Q1), new.cast_point_to_fq12(P1)
            mQs = m.twist(scale(Q1, s2))
            badP = G1
        else:
            mQ, mP = Q1, P1
            mQs = scale(Q1, s2)
            badP = new.cast_point_to_fq12(G1)
        C("miller direct", "miller_loop", mQ, mP, expensive=True)
        C("miller direct nofe", "miller_loop", mQ, mP, False, expensive=True)
        C("miller direct kw", "miller_loop", Q=mQs, P=mP, final_exponentiate=0,
          expensive=True)
        C("miller direct list Q", "miller_loop", list(mQ), mP, False, expensive=True)
        C("miller inf rep Q", "miller_loop", (mQ[0], mQ[1], mQ[2] * 0), mP, False,
          expensive=True)
        C("miller inf rep P", "miller_loop", mQ, (mP[0], mP[1], mP[2] * 0), False,
          expensive=True)
        C("miller None Q", "miller_loop", None, G1)
        C("miller None P", "miller_loop", G2, None)
        C("miller None both", "miller_loop", None, None, False)
        C("miller wrong-field P", "miller_loop", mQ, badP, False)
        C("miller G1 as Q", "miller_loop", G1, mP, False)
        C("miller 2-tuple Q", "miller_loop", (mQ[0], mQ[1]), mP)
        C("miller 4-tuple Q", "miller_loop", tuple(mQ) + (mQ[2],), mP)
        C("miller 2-tuple P", "miller_loop", mQ, (mP[0], mP[1]))
        C("miller scalar", "miller_loop", 3, 4)
        C("miller str Q", "miller_loop", "abc", mP)
        C("miller str tuple Q", "miller_loop", ("a", "b", "c"), mP)
        C("miller int tuple Q", "miller_loop", (1, 2, 3), mP)
        C("miller Bad Q", "miller_loop", (Bad(), Bad(), Bad()), mP)
        C("miller Bad y Q", "miller_loop", (mQ[0], Bad(), mQ[2]), mP)
        C("miller Bad P", "miller_loop", mQ, (Bad(), Bad(), Bad()))
        C("miller no args", "miller_loop")
        # ---- final exponentiation ------------------------------------------
        fe_in = m.twist(Q1)[0] * new.cast_point_to_fq12(P1)[1]
        C("final_exp FQ12", "final_exponentiate", fe_in, expensive=True)
        C("final_exp FQ12 zero", "final_exponentiate", FQ12.zero(), expensive=True)
        C("final_exp FQ12 one", "final_exponentiate", FQ12.one(), expensive=True)
        if impl == "optimized_bn128":
            C("final_exp FQ2", "final_exponentiate", Q1[0])
            C("final_exp FQ", "final_exponentiate", P1[0])
            C("final_exp FQ zero", "final_exponentiate", FQ(0))
            C("final_exp int 0", "final_exponentiate", 0)
            C("final_exp int 1", "final_exponentiate", 1)
            C("final_exp int -1", "final_exponentiate", -1)
            C("final_exp True", "final_exponentiate", True)
            C("final_exp float 1", "final_exponentiate", 1.0)
            C("final_exp float", "final_exponentiate", 1.5)
        C("final_exp None", "final_exponentiate", None)
        C("final_exp str", "final_exponentiate", "x")
        C("final_exp tuple", "final_exponentiate", G1)
        C("final_exp Bad", "final_exponentiate", Bad())
        C("final_exp no args", "final_exponentiate")
        C("cast", "cast_point_to_fq12", P1)
        C("cast inf", "cast_point_to_fq12", None)
        C("normalize1", "normalize1", scale(P1, s1))
    return cases


def run_case(job):
    impl, idx = job
    package, old, new = load(impl)
    label, fn, args, kwargs, _ = build_cases(impl)[idx]
    before = canon(args), canon(sorted(kwargs.items()))
    a = outcome(getattr(old, fn), *args, **kwargs)
    mid = canon(args), canon(sorted(kwargs.items()))
    b = outcome(getattr(new, fn), *args, **kwargs)
    after = canon(args), canon(sorted(kwargs.items()))
    ok = a == b and before == mid == after
    return impl, label, ok, a, b


def kind(res):
    return "returned" if res[0] == "ok" else res[1]


def run_cheap(impl):
    """All cheap cases of one implementation, in one process, plus history checks."""
    package, old, new = load(impl)
    cases = build_cases(impl)
    failures, n, kinds = [], 0, {}
    for idx, (label, fn, args, kwargs, expensive) in enumerate(cases):
        if expensive:
            continue
        _, _, ok, a, b = run_case((impl, idx))
        n += 1
        kinds[kind(a)] = kinds.get(kind(a), 0) + 1
        if not ok:
            failures.append((impl, label, a, b))
    print(f"  {impl}: cheap-case outcomes {sorted(kinds.items())}", flush=True)
    # the set of public names of the module is unchanged
    pub_old = sorted(x for x in vars(old) if not x.startswith("_"))
    pub_new = sorted(x for x in vars(new) if not x.startswith("_"))
    if pub_old != pub_new:
        failures.append((impl, "public names", pub_old, pub_new))
    # module constants unchanged
    for name in ("ate_loop_count", "log_ate_loop_count", "field_modulus"):
        if getattr(old, name) != getattr(new, name):
            failures.append((impl, name, getattr(old, name), getattr(new, name)))
    expected = (old.field_modulus**12 - 1) // old.curve_order
    if getattr(new, "_FINAL_EXPONENT", expected) != expected or type(
        getattr(new, "_FINAL_EXPONENT", expected)
    ) is not int:
        failures.append((impl, "_FINAL_EXPONENT", expected, new._FINAL_EXPONENT))
    if hasattr(old, "pseudo_binary_encoding"):
        if old.pseudo_binary_encoding != new.pseudo_binary_encoding:
            failures.append((impl, "pseudo_binary_encoding", None, None))
    return impl, n, failures


def run_history(job):
    """
    Call history: the same arguments before and after an interleaving of other
    calls (valid, infinity, refused) give equal results. One version per job (the
    two versions run in different processes to keep the wall time down); main()
    compares the two records.
    """
    impl, which = job
    package, old, new = load(impl)
    mod = old if which == "pristine" else new
    opt = IMPLS[impl][3]
    m = package
    G1, G2 = m.G1, m.G2
    if opt:
        inf = (m.FQ(1), m.FQ(1), m.FQ(0))
        off = (G1[0], G1[1] + 1, G1[2])
        B = (m.double(G2), m.multiply(G1, 5))
    else:
        inf = None
        off = (G1[0], G1[1] + 1)
        B = None  # a second full reference pairing is too slow; use cheap calls
    seq = [("A", (G2, G1)), ("inf", (G2, inf)), ("off", (G2, off))]
    if B is not None:
        seq.append(("B", B))
    seq += [("off", (G2, off)), ("inf", (G2, inf))]
    if opt or which == "edited":
        # (reference pairings take seconds: only the edited version repeats A)
        seq.append(("A", (G2, G1)))
    if opt:
        seq += [("A", (G2, G1)), ("B", B), ("inf", (inf, G1)), ("A", (G2, G1))]
    failures, seen = [], {}
    for label, args in seq:
        res = outcome(mod.pairing, *args)
        if label in seen and seen[label] != res:
            failures.append((impl, f"history {which} {label}", seen[label], res))
        seen.setdefault(label, res)
    return impl, which, len(seq), seen, failures


def main():
    t0 = time.time()
    jobs = []
    for impl in IMPLS:
        for idx, case in enumerate(build_cases(impl)):
            if case[4]:
                jobs.append((impl, idx))
    # slow (reference) jobs first so that the pool is balanced
    jobs.sort(key=lambda j: IMPLS[j[0]][3])
    failures, total = [], 0
    with ProcessPoolExecutor(max_workers=8) as pool:
        futs_hist = [
            pool.submit(run_history, (impl, which))
            for impl in sorted(IMPLS, key=lambda i: IMPLS[i][3])
            for which in ("pristine", "edited")
        ]
        futs_full = [pool.submit(run_case, job) for job in jobs]
        futs_cheap = [pool.submit(run_cheap, impl) for impl in IMPLS]
        for fut in futs_full:
            impl, label, ok, a, b = fut.result()
            total += 1
            if not ok:
                failures.append((impl, label, a, b))
        for fut in futs_cheap:
            impl, n, fails = fut.result()
            total += n
            failures.extend(fails)
        records = {}
        for fut in futs_hist:
            impl, which, n, seen, fails = fut.result()
            total += n
            failures.extend(fails)
            records[impl, which] = seen
        for impl in IMPLS:
            if records[impl, "pristine"] != records[impl, "edited"]:
                failures.append(
                    (impl, "history", records[impl, "pristine"], records[impl, "edited"])
                )
    for f in failures:
        print("MISMATCH", *f, sep="\n   ")
    print(f"{total} comparisons, {len(failures)} mismatches, {time.time() - t0:.1f}s")
    return 1 if failures else 0


if __name__ == "__main__":
    sys.exit(main())
