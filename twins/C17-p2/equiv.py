import os, sys; sys.path.insert(0, os.getcwd())  # noqa: E401,E702

# Equivalence demonstration for C17/p2: both cofactor-clearing functions share one helper
# and the published cofactor constants are validated at import time against the curve
# parameter.  Loads the pristine optimized_clear_cofactor.py and bls/constants.py under
# other module names and compares them with the edited modules.
import importlib
import importlib.util
import random
import time

T0 = time.time()
HERE = os.path.dirname(os.path.abspath(__file__))


def load(name, fname):
    spec = importlib.util.spec_from_file_location(name, os.path.join(HERE, "pristine", fname))
    mod = importlib.util.module_from_spec(spec)
    sys.modules[name] = mod
    spec.loader.exec_module(mod)
    return mod


new_cc = importlib.import_module("py_ecc.optimized_bls12_381.optimized_clear_cofactor")
new_k = importlib.import_module("py_ecc.bls.constants")
assert os.path.abspath(new_cc.__file__).startswith(os.getcwd()), new_cc.__file__
old_cc = load(
    "py_ecc.optimized_bls12_381.optimized_clear_cofactor_pristine",
    "optimized_clear_cofactor.py",
)
old_k = load("py_ecc.bls.constants_pristine", "bls_constants.py")
assert hasattr(new_cc, "_clear_cofactor") and not hasattr(old_cc, "_clear_cofactor")

import py_ecc.optimized_bls12_381 as C  # noqa: E402
import py_ecc.optimized_bls12_381.constants as OC  # noqa: E402
import py_ecc.optimized_bn128 as bn  # noqa: E402
from py_ecc.bls import hash_to_curve as h2c  # noqa: E402
from py_ecc.bls.g2_primitives import subgroup_check  # noqa: E402
from py_ecc.bls.point_compression import modular_squareroot_in_FQ2  # noqa: E402
from py_ecc.optimized_bls12_381 import (  # noqa: E402
    FQ,
    FQ2,
    FQ12,
    G1,
    G2,
    G12,
    Z1,
    Z2,
    add,
    b,
    b2,
    curve_order as r,
    field_modulus as p,
    is_inf,
    is_on_curve,
    multiply,
    neg,
    normalize,
)

rng = random.Random(0x2C17)

# ------------------------------------------------------------------ constants
X = -0xD201000000010000
H1 = (X - 1) ** 2 // 3
H2 = (X**8 - 4 * X**7 + 5 * X**6 - 4 * X**4 + 6 * X**3 - 4 * X**2 - 4 * X + 13) // 9
assert (X - 1) ** 2 % 3 == 0
assert (X**8 - 4 * X**7 + 5 * X**6 - 4 * X**4 + 6 * X**3 - 4 * X**2 - 4 * X + 13) % 9 == 0
assert OC.H_EFF_G1 == 0xD201000000010001 == 1 - X
assert OC.H_EFF_G2 == H2 * (3 * X * X - 3)
assert old_cc.H_EFF_G1 is new_cc.H_EFF_G1 or old_cc.H_EFF_G1 == new_cc.H_EFF_G1
assert old_cc.H_EFF_G2 == new_cc.H_EFF_G2 == OC.H_EFF_G2
assert new_cc.CURVE_PARAMETER_X == X and new_cc.COFACTOR_G1 == H1 and new_cc.COFACTOR_G2 == H2
# every public name of the pristine bls.constants has an equal value in the edited module
for name in dir(old_k):
    if name.startswith("__"):
        continue
    a, bb = getattr(old_k, name), getattr(new_k, name)
    if isinstance(a, (int, str, bytes, tuple)):
        if isinstance(a, tuple):
            assert len(a) == len(bb) and all(x == y for x, y in zip(a, bb)), name
        else:
            assert a == bb and type(a) is type(bb), name
assert new_k.G2_COFACTOR == old_k.G2_COFACTOR == H2
assert type(new_k.G2_COFACTOR) is int
# every public name of the pristine clear_cofactor module still exists with the same kind
for name in dir(old_cc):
    if not name.startswith("__"):
        assert hasattr(new_cc, name), name


# ------------------------------------------------------------------ helpers
def ints(v):
    # exact picture of a returned point: class names and integer payloads
    if isinstance(v, tuple):
        return tuple(ints(c) for c in v)
    if hasattr(v, "coeffs"):
        return (type(v).__name__, tuple(int(k) for k in v.coeffs))
    if hasattr(v, "n"):
        return (type(v).__name__, v.n)
    return (type(v).__name__, repr(v))


def outcome(fn, *a):
    try:
        return ("ok", ints(fn(*a)))
    except RecursionError:
        raise
    except BaseException as e:  # noqa: B902
        return ("exc", type(e).__name__)


checked = 0


def compare(which, P, label=""):
    global checked
    before = repr(P)
    a = outcome(getattr(old_cc, which), P)
    bres = outcome(getattr(new_cc, which), P)
    assert a == bres, (which, label, a, bres)
    assert repr(P) == before, ("argument mutated", label)
    checked += 1
    return a


def rand_g1():
    while True:
        x = FQ(rng.randrange(p))
        rhs = x * x * x + b
        y = rhs ** ((p + 1) // 4)
        if y * y == rhs:
            return (x, -y if rng.random() < 0.5 else y, FQ(1))


def rand_g2():
    while True:
        x = FQ2([rng.randrange(p), rng.randrange(p)])
        y = modular_squareroot_in_FQ2(x * x * x + b2)
        if y is not None:
            return (x, -y if rng.random() < 0.5 else y, FQ2.one())


def scale(P, lam):
    return tuple(c * lam for c in P)


# ------------------------------------------------------------------ E(Fp)
g1_pts = [("G1", G1), ("Z1", Z1), ("negG1", neg(G1))]
g1_pts += [
    ("inf010", (FQ(0), FQ(1), FQ(0))),
    ("inf000", (FQ(0), FQ(0), FQ(0))),
    ("infxy0", (FQ(5), FQ(7), FQ(0))),
    ("off", (FQ(1), FQ(1), FQ(1))),
    ("off0", (FQ(0), FQ(0), FQ(1))),
]
for k in [2, 3, r - 1, r, r + 1, rng.randrange(r)]:
    g1_pts.append((f"kG1_{k}", multiply(G1, k)))
R1 = rand_g1()
T1_full = multiply(R1, r)
g1_pts += [("R1", R1), ("T1_full", T1_full), ("kG+T1_full", add(multiply(G1, rng.randrange(1, r)), T1_full))]
for ell in [3, 11, 10177, 859267, 52437899]:
    T = multiply(rand_g1(), r * (H1 // ell))
    g1_pts += [(f"T1_{ell}", T), (f"kG+T1_{ell}", add(multiply(G1, rng.randrange(1, r)), T))]
for i in range(8):
    g1_pts.append((f"rand1_{i}", rand_g1()))
g1_pts += [(lab + "*lam", scale(P, FQ(rng.randrange(1, p)))) for lab, P in list(g1_pts)]

for lab, P in g1_pts:
    res = compare("multiply_clear_cofactor_G1", P, lab)
    assert res[0] == "ok"
    out = new_cc.multiply_clear_cofactor_G1(P)
    if is_on_curve(P, b):
        assert is_on_curve(out, b) and subgroup_check(out), lab
        # equals multiplication by the RFC 9380 effective cofactor
        ref = multiply(P, 0xD201000000010001)
        assert ints(ref) == ints(out), lab
    # the G2 flavour applied to a G1 point (wrong sibling, still must be identical)
    compare("multiply_clear_cofactor_G2", P, lab + "/wrong-sibling")

# ------------------------------------------------------------------ E'(Fp2)
g2_pts = [("G2", G2), ("Z2", Z2), ("negG2", neg(G2))]
g2_pts += [
    ("inf010", (FQ2.zero(), FQ2.one(), FQ2.zero())),
    ("inf000", (FQ2.zero(), FQ2.zero(), FQ2.zero())),
    ("infxy0", (FQ2([3, 4]), FQ2([5, 6]), FQ2.zero())),
    ("off", (FQ2([1, 2]), FQ2([3, 4]), FQ2([5, 6]))),
]
for k in [2, r - 1, r, rng.randrange(r)]:
    g2_pts.append((f"kG2_{k}", multiply(G2, k)))
R2 = rand_g2()
T2_full = multiply(R2, r)
g2_pts += [("R2", R2), ("T2_full", T2_full), ("kG+T2_full", add(multiply(G2, rng.randrange(1, r)), T2_full))]
for ell in [13, 23, 2713, 11953, 262069]:
    T = multiply(rand_g2(), r * (H2 // ell))
    g2_pts += [(f"T2_{ell}", T), (f"kG+T2_{ell}", add(multiply(G2, rng.randrange(1, r)), T))]
for i in range(4):
    g2_pts.append((f"rand2_{i}", rand_g2()))
g2_pts += [
    (lab + "*lam", scale(P, FQ2([rng.randrange(p), rng.randrange(1, p)]))) for lab, P in list(g2_pts)
]

for lab, P in g2_pts:
    res = compare("multiply_clear_cofactor_G2", P, lab)
    assert res[0] == "ok"
    out = new_cc.multiply_clear_cofactor_G2(P)
    if is_on_curve(P, b2):
        assert is_on_curve(out, b2) and subgroup_check(out), lab
        assert ints(multiply(P, OC.H_EFF_G2)) == ints(out), lab
    compare("multiply_clear_cofactor_G1", P, lab + "/wrong-sibling")

# ------------------------------------------------------------------ malformed inputs
class OtherFQ(FQ):
    field_modulus = 13


malformed = [
    ("none", None),
    ("int", 5),
    ("str", "abc"),
    ("empty", ()),
    ("two", (G1[0], G1[1])),
    ("four", (G1[0], G1[1], G1[2], FQ(1))),
    ("list", list(G1)),
    ("list2", list(G2)),
    ("listZ", list(Z1)),
    ("mixed-int", (G1[0], G1[1], 1)),
    ("mixed-fields", (G1[0], G1[1], FQ2.one())),
    ("mixed-fields2", (G2[0], G2[1], FQ(1))),
    ("otherfq", (OtherFQ(1), OtherFQ(2), OtherFQ(1))),
    ("bn128-G1", bn.G1),
    ("bn128-G2", bn.G2),
    ("bn128-Z1", bn.Z1),
    ("fq12-inf", (FQ12.one(), FQ12.one(), FQ12.zero())),
    ("none-coords", (None, None, None)),
    ("float", (1.0, 2.0, 0.0)),
    ("set", frozenset([1, 2])),
    # (plain-int coordinates are left out: without a modulus the doubling chain never
    # finishes in either version)
]
for lab, P in malformed:
    compare("multiply_clear_cofactor_G1", P, "malformed/" + lab)
    compare("multiply_clear_cofactor_G2", P, "malformed/" + lab)
compare("multiply_clear_cofactor_G1", G12, "G12")

# ------------------------------------------------------------------ histories: repeat / interleave
seq = g1_pts[:10] + g2_pts[:6]
firsts = {}
for rnd in range(3):
    order = list(seq)
    rng.shuffle(order)
    for lab, P in order:
        which = "multiply_clear_cofactor_G1" if type(P[0]) is FQ else "multiply_clear_cofactor_G2"
        res = compare(which, P, lab + f"/round{rnd}")
        assert firsts.setdefault((which, lab), res) == res

# ------------------------------------------------------------------ callers in hash_to_curve
# clear_cofactor_G1/G2 are thin wrappers around the edited functions
for lab, P in g1_pts[:12]:
    assert outcome(h2c.clear_cofactor_G1, P) == outcome(old_cc.multiply_clear_cofactor_G1, P), lab
for lab, P in g2_pts[:8]:
    assert outcome(h2c.clear_cofactor_G2, P) == outcome(old_cc.multiply_clear_cofactor_G2, P), lab
for lab, P in malformed[:8]:
    assert outcome(h2c.clear_cofactor_G1, P) == outcome(old_cc.multiply_clear_cofactor_G1, P), lab
    assert outcome(h2c.clear_cofactor_G2, P) == outcome(old_cc.multiply_clear_cofactor_G2, P), lab
# known-answer: hash_to_G2 / hash_to_G1 end in the subgroup and are stable
import hashlib  # noqa: E402

DST = b"QUUX-V01-CS02-with-BLS12381G2_XMD:SHA-256_SSWU_RO_"
Q = h2c.hash_to_G2(b"abc", DST, hashlib.sha256)
assert subgroup_check(Q) and is_on_curve(Q, b2)
x, y = normalize(Q)
assert x.coeffs[0] == 0x02C2D18E033B960562AAE3CAB37A27CE00D80CCD5BA4B7FE0E7A210245129DBEC7780CCC7954725F4168AFF2787776E6  # noqa: E501
Q1 = h2c.hash_to_G1(b"abc", b"QUUX-V01-CS02-with-BLS12381G1_XMD:SHA-256_SSWU_RO_", hashlib.sha256)
assert subgroup_check(Q1) and is_on_curve(Q1, b)
assert normalize(Q1)[0].n == 0x03567BC5EF9C690C2AB2ECDF6A96EF1C139CC0B2F284DCA0A9A7943388A49A3AEE664BA5379A7655D3C68900BE2F6903  # noqa: E501

# module constants untouched
assert C.curve_order == r and ints(C.G1) == ints(G1) and is_inf(C.Z1) and is_inf(C.Z2)
assert OC.H_EFF_G1 == 0xD201000000010001

print(f"p2 equiv OK: {checked} comparisons, {time.time() - T0:.1f}s")
