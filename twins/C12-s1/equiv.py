import os, sys; sys.path.insert(0, os.getcwd())  # noqa: E401,E702

# Equivalence demonstration for C12/s1:
# exptable / exp_by_p / final_exponentiate moved from
# py_ecc/optimized_bls12_381/optimized_pairing.py into the new module
# py_ecc/optimized_bls12_381/optimized_final_exponentiation.py and re-exported.
#
# The pristine optimized_pairing.py is loaded from ./pristine under another module
# name inside the same package (so that its relative imports resolve to the very
# same optimized_curve module) and compared against the edited one.
import importlib.util
import random
import time

T0 = time.time()
HERE = os.path.dirname(os.path.abspath(__file__))

import py_ecc  # noqa: E402

assert os.path.abspath(py_ecc.__file__).startswith(os.getcwd()), py_ecc.__file__

import py_ecc.optimized_bls12_381 as pkg  # noqa: E402
from py_ecc.bls import G2ProofOfPossession as bls_pop  # noqa: E402
from py_ecc.fields import (  # noqa: E402
    optimized_bls12_381_FQ as FQ,
    optimized_bls12_381_FQ2 as FQ2,
    optimized_bls12_381_FQ12 as FQ12,
)
from py_ecc.optimized_bls12_381 import (  # noqa: E402
    G1,
    G2,
    Z1,
    Z2,
    add,
    curve_order,
    field_modulus,
    multiply,
    neg,
)
import py_ecc.optimized_bls12_381.optimized_final_exponentiation as new_fe  # noqa: E402
import py_ecc.optimized_bls12_381.optimized_pairing as new  # noqa: E402


def load(name, path):
    spec = importlib.util.spec_from_file_location(name, path)
    mod = importlib.util.module_from_spec(spec)
    sys.modules[name] = mod
    spec.loader.exec_module(mod)
    return mod


old = load(
    "py_ecc.optimized_bls12_381._pristine_optimized_pairing",
    os.path.join(HERE, "pristine", "optimized_pairing.py"),
)
assert "exptable = [" in open(old.__file__).read()  # really the pristine text
assert "def final_exponentiate" not in open(new.__file__).read()  # really the edit

CHECKS = 0


def outcome(f, *a, **k):
    try:
        return ("ok", f(*a, **k))
    except BaseException as e:  # noqa: B902
        return ("exc", type(e))


def same(f_old, f_new, *a, **k):
    global CHECKS
    r_old = outcome(f_old, *a, **k)
    r_new = outcome(f_new, *a, **k)
    assert r_old[0] == r_new[0], (f_old, a, k, r_old, r_new)
    if r_old[0] == "exc":
        assert r_old[1] is r_new[1], (f_old, a, k, r_old, r_new)
    else:
        assert type(r_old[1]) is type(r_new[1]), (f_old, a, k, r_old, r_new)
        assert r_old[1] == r_new[1], (f_old, a, k, r_old, r_new)
        if isinstance(r_old[1], FQ12):
            assert tuple(r_old[1].coeffs) == tuple(r_new[1].coeffs)
            assert all(type(c) is int for c in r_new[1].coeffs)
    CHECKS += 1
    return r_new


# ---------------------------------------------------------------- names / objects
# every public name of the pristine module still exists in the edited module
old_names = {n for n in vars(old) if not n.startswith("__")}
new_names = {n for n in vars(new) if not n.startswith("__")}
assert old_names == new_names, (old_names ^ new_names)
# every old import path binds the very same objects as the new home
for n in ("exptable", "exp_by_p", "final_exponentiate"):
    assert getattr(new, n) is getattr(new_fe, n), n
assert pkg.final_exponentiate is new_fe.final_exponentiate
assert pkg.pairing is new.pairing
import py_ecc.bls.ciphersuites as cs  # noqa: E402

assert cs.final_exponentiate is new_fe.final_exponentiate
assert cs.pairing is new.pairing
# constants equal, same types
for n in ("field_modulus", "ate_loop_count", "log_ate_loop_count",
          "pseudo_binary_encoding", "curve_order"):
    assert getattr(old, n) == getattr(new, n) and \
        type(getattr(old, n)) is type(getattr(new, n)), n
assert new_fe.field_modulus == old.field_modulus == field_modulus
assert type(old.exptable) is type(new.exptable) is list
assert len(old.exptable) == len(new.exptable) == 12
for a, b_ in zip(old.exptable, new.exptable):
    assert type(a) is type(b_) is FQ12 and a == b_ and a.coeffs == b_.coeffs
TABLE_SNAPSHOT = [tuple(e.coeffs) for e in new.exptable]

# ---------------------------------------------------------------- FQ12 inputs
rnd = random.Random(0xC12)


def rand_fq12():
    return FQ12([rnd.randrange(field_modulus) for _ in range(12)])


def sparse(i, v):
    return FQ12([0] * i + [v] + [0] * (11 - i))


elements = [FQ12.zero(), FQ12.one(), FQ12([field_modulus - 1] + [0] * 11),
            FQ12([2] + [0] * 11)]
elements += [sparse(i, 1) for i in range(12)]
elements += [sparse(i, rnd.randrange(1, field_modulus)) for i in (1, 5, 6, 11)]
elements += [sparse(0, 3) + sparse(6, 7), sparse(3, 1) + sparse(9, field_modulus - 1)]
elements += [rand_fq12() for _ in range(6)]

# Frobenius shortcut: identical between versions, and equal to x ** p
for x in elements:
    r = same(old.exp_by_p, new.exp_by_p, x)
    assert r[0] == "ok"
for x in elements[:4] + elements[16:24]:
    assert new.exp_by_p(x) == x**field_modulus
    CHECKS += 1
# twelve Frobenius steps are the identity
for x in elements[-3:]:
    y = x
    for _ in range(12):
        y = new.exp_by_p(y)
    assert y == x

# fast final exponentiation: identical between versions (0 included)
for x in elements:
    same(old.final_exponentiate, new.final_exponentiate, x)
assert outcome(new.final_exponentiate, FQ12.zero()) == outcome(
    old.final_exponentiate, FQ12.zero()
) == ("ok", FQ12.zero())  # 0 / 0 is 0 in the optimized field classes
# ... and equal to plain exponentiation by (p^12 - 1) / r
EXP = (field_modulus**12 - 1) // curve_order
for x in [FQ12.one(), elements[5], elements[-1], elements[-2], elements[21]]:
    assert new.final_exponentiate(x) == x**EXP
    assert old.final_exponentiate(x) == x**EXP
    CHECKS += 1
assert FQ12.zero() ** EXP == FQ12.zero() == new.final_exponentiate(FQ12.zero())

# malformed arguments: same exception classes / same results
malformed = [None, 5, 0, "x", FQ(3), FQ2([1, 2]), (1, 2), [FQ12.one()], 1.5, b"\x01",
             FQ12.one().coeffs]
for bad in malformed:
    same(old.exp_by_p, new.exp_by_p, bad)
    same(old.final_exponentiate, new.final_exponentiate, bad)
same(old.final_exponentiate, new.final_exponentiate)
same(old.exp_by_p, new.exp_by_p, FQ12.one(), FQ12.one())

# ---------------------------------------------------------------- pairings
G1_5, G2_7 = multiply(G1, 5), multiply(G2, 7)


def rescale(pt, k):
    return tuple(c * k for c in pt)


points = [
    (G2, G1),
    (G2_7, G1_5),
    (rescale(G2_7, FQ2([3, 9])), rescale(G1_5, 11)),  # other projective reps
    (multiply(G2, curve_order - 1), G1),
    (Z2, G1),
    (G2, Z1),
    (Z2, Z1),
    ((FQ2.zero(), FQ2.zero(), FQ2.zero()), G1),  # (0,0,0)
    (G2, (FQ(0), FQ(0), FQ(0))),
]
bad_points = [
    ((G2[0], G2[1] + FQ2.one(), G2[2]), G1),  # Q off curve
    (G2, (G1[0], G1[1] + 1, G1[2])),  # P off curve
    (G1, G2),  # swapped
    (None, G1),
    (G2, None),
    (G2, (G1[0], G1[1])),  # wrong arity
    (5, G1),
]
millers = []
for Q, P in points:
    for flag in (True, False):
        r = same(old.pairing, new.pairing, Q, P, final_exponentiate=flag)
        if r[0] == "ok" and not flag:
            millers.append(r[1])
    same(old.pairing, new.pairing, Q, P)
    same(old.miller_loop, new.miller_loop, Q, P, final_exponentiate=False)
for Q, P in bad_points:
    same(old.pairing, new.pairing, Q, P)
    same(old.pairing, new.pairing, Q, P, final_exponentiate=False)
    same(old.miller_loop, new.miller_loop, Q, P, final_exponentiate=False)
same(old.miller_loop, new.miller_loop, None, G1)
same(old.miller_loop, new.miller_loop, G2, None, final_exponentiate=False)
same(old.miller_loop, new.miller_loop, G2, G1, True)

# agreement with the reference pairing (the property itself), on the edited code
from py_ecc import bls12_381 as ref  # noqa: E402
from py_ecc.optimized_bls12_381 import normalize  # noqa: E402

for Q, P in points[:3]:
    q, p_ = normalize(Q), normalize(P)
    rq = (ref.FQ2(q[0].coeffs), ref.FQ2(q[1].coeffs))
    rp = (ref.FQ(p_[0].n), ref.FQ(p_[1].n))
    want = ref.pairing(rq, rp)
    got = new.pairing(Q, P)
    assert tuple(int(c) for c in want.coeffs) == tuple(got.coeffs)
    CHECKS += 1

# two-step form: product of Miller values passed once through final_exponentiate
# equals the product of individually exponentiated pairings; both versions agree
for k in range(1, 7):
    chosen = [millers[i % len(millers)] for i in range(k)]
    prod = FQ12.one()
    for m in chosen:
        prod = prod * m
    r = same(old.final_exponentiate, new.final_exponentiate, prod)
    each = FQ12.one()
    for m in chosen:
        each = each * new.final_exponentiate(m)
    assert r[1] == each
    CHECKS += 1

# bilinearity style verifier check with both versions: e(aQ, P) * e(Q, -aP) == 1
a = 0xABCDEF
lhs = new.pairing(multiply(G2, a), G1, final_exponentiate=False) * new.pairing(
    G2, neg(multiply(G1, a)), final_exponentiate=False
)
assert new.final_exponentiate(lhs) == old.final_exponentiate(lhs) == FQ12.one()

# ---------------------------------------------------------------- call histories
# repeat and interleave calls with equal and different arguments; results stable
first = {}
seq = [0, 5, 0, 17, 5, 20, 0, 17, 1, 1, 20]
for rounds in range(2):
    for i in seq:
        x = elements[i]
        got = (outcome(new.exp_by_p, x), outcome(new.final_exponentiate, x),
               outcome(old.exp_by_p, x), outcome(old.final_exponentiate, x))
        assert got[0] == got[2] and got[1] == got[3]
        if i in first:
            assert first[i] == got, i
        first[i] = got
        CHECKS += 1
    # interleave a pairing and a signature verification between rounds
    same(old.pairing, new.pairing, G2, G1_5)
    sk = 42 + rounds
    sig = bls_pop.Sign(sk, b"msg")
    assert bls_pop.Verify(bls_pop.SkToPk(sk), b"msg", sig) is True
    assert bls_pop.Verify(bls_pop.SkToPk(sk), b"other", sig) is False
# arguments are not mutated, and the table is not mutated by any call
x = rand_fq12()
before = tuple(x.coeffs)
new.exp_by_p(x)
new.final_exponentiate(x)
assert tuple(x.coeffs) == before
assert [tuple(e.coeffs) for e in new.exptable] == TABLE_SNAPSHOT
assert [tuple(e.coeffs) for e in old.exptable] == TABLE_SNAPSHOT
assert add(G1, G1) == multiply(G1, 2)

print("C12/s1 equivalent: %d checks, %.1fs" % (CHECKS, time.time() - T0))
