import os, sys; sys.path.insert(0, os.getcwd())
"""
Equivalence demonstration for twin C07/w1.

Edited module : py_ecc/optimized_bls12_381/optimized_curve.py (iterative
                left-to-right multiply)
Pristine copy : /tmp/twin6/C07/w1/pristine/optimized_curve.py (recursive multiply)

Both versions are imported side by side (the pristine one under another module
name; it shares the field classes with the edited one) and compared on
 - G1 / G2 / G12 points of BLS12-381: generators, random subgroup points, points
   outside the prime-order subgroup, points of order 2, 3 and 6, several
   representatives of infinity, rescaled projective representatives;
 - scalars 0,1,2,3,..., r-1, r, r+1, 2p-r, powers of two +-1, random up to 640 bits;
 - exhaustively: every point (several projective representatives) and every
   scalar 0..2*order+2 of small curves y^2 = x^3 + b over F_q and F_q^2;
 - malformed inputs (negative / float / non-numeric scalars, None / affine /
   integer points): same exception class or same result;
 - repeated and interleaved calls, and arguments are not mutated.
Results are compared as group elements (both infinity, or equal after
normalisation), plus coordinate classes.  Exit status 0 means all checks passed.
"""
import importlib.util
import inspect
import random
import time

T0 = time.time()
HERE = os.path.dirname(os.path.abspath(__file__))

import py_ecc.optimized_bls12_381.optimized_curve as new  # noqa: E402

assert os.path.abspath(new.__file__).startswith(os.getcwd() + os.sep), new.__file__

spec = importlib.util.spec_from_file_location(
    "pristine_optimized_bls12_381_curve",
    os.path.join(HERE, "pristine", "optimized_curve.py"),
)
old = importlib.util.module_from_spec(spec)
spec.loader.exec_module(old)

from py_ecc.fields import (  # noqa: E402
    optimized_bls12_381_FQ as FQ,
    optimized_bls12_381_FQ2 as FQ2,
    optimized_bls12_381_FQ12 as FQ12,
)
from py_ecc.fields.optimized_field_elements import (  # noqa: E402
    FQ as BaseFQ,
    FQ2 as BaseFQ2,
    FQP as BaseFQP,
)
from py_ecc.bls.point_compression import modular_squareroot_in_FQ2  # noqa: E402

rng = random.Random(0xC07)
CHECKS = 0


def fail(msg):
    print("MISMATCH:", msg)
    sys.exit(1)


# --------------------------------------------------------------------------
# 0. the two modules really differ only in multiply
# --------------------------------------------------------------------------
assert inspect.getsource(new.multiply) != inspect.getsource(old.multiply)
# the edited multiply no longer calls itself
assert "multiply(" not in inspect.getsource(new.multiply).split("-> Optimized_Point3D[Optimized_Field]:", 1)[1]
for name in ("double", "add", "neg", "eq", "normalize", "twist", "is_inf", "is_on_curve"):
    if inspect.getsource(getattr(new, name)) != inspect.getsource(getattr(old, name)):
        fail("unexpected difference in " + name)
for name in ("field_modulus", "curve_order", "b", "b2", "b12", "G1", "G2", "G12", "Z1", "Z2", "w"):
    if not getattr(new, name) == getattr(old, name):
        fail("constant differs: " + name)

p = new.field_modulus
r = new.curve_order


# --------------------------------------------------------------------------
# helpers
# --------------------------------------------------------------------------
def snapshot(pt):
    if pt is None or not isinstance(pt, tuple):
        return repr(pt)
    return tuple((type(c).__name__, repr(c)) for c in pt)


def same_element(a, b):
    """a, b: projective points.  Same group element and same coordinate classes."""
    if not (isinstance(a, tuple) and isinstance(b, tuple) and len(a) == 3 and len(b) == 3):
        return False
    if [type(c) for c in a] != [type(c) for c in b]:
        return False
    ia, ib = old.is_inf(a), old.is_inf(b)
    if ia or ib:
        return ia and ib
    return old.normalize(a) == old.normalize(b)


def call(fn, *args):
    try:
        return ("ok", fn(*args))
    except BaseException as e:  # noqa: BLE001
        if isinstance(e, (KeyboardInterrupt, SystemExit)):
            raise
        return ("exc", type(e))


def check(pt, n, bcoef=None, label=""):
    """multiply(pt, n) under both versions; must agree (value or exception class)."""
    global CHECKS
    CHECKS += 1
    before = snapshot(pt)
    a = call(old.multiply, pt, n)
    b = call(new.multiply, pt, n)
    if snapshot(pt) != before:
        fail("argument mutated %s n=%r" % (label, n))
    if a[0] != b[0]:
        fail("outcome kind differs %s n=%r: %r vs %r" % (label, n, a, b))
    if a[0] == "exc":
        if a[1] is not b[1]:
            fail("exception class differs %s n=%r: %r vs %r" % (label, n, a[1], b[1]))
        return a, b
    ra, rb = a[1], b[1]
    if ra is rb:
        return a, b
    if isinstance(ra, tuple) and len(ra) == 3 and hasattr(ra[2], "zero"):
        if not same_element(ra, rb):
            fail("group element differs %s n=%r:\n %r\n %r" % (label, n, ra, rb))
        if bcoef is not None and not (old.is_on_curve(rb, bcoef) and old.is_on_curve(ra, bcoef)):
            fail("result off curve %s n=%r" % (label, n))
        if not old.eq(ra, rb) or not new.eq(rb, ra):
            fail("eq() disagrees %s n=%r" % (label, n))
    else:
        # degenerate inputs (None, integer coordinates, ...): plain equality
        if not (ra is rb or ra == rb):
            fail("degenerate result differs %s n=%r: %r vs %r" % (label, n, ra, rb))
    return a, b


def rescale(pt, s):
    return (pt[0] * s, pt[1] * s, pt[2] * s)


def rand_fq2():
    return FQ2((rng.randrange(1, p), rng.randrange(p)))


def rand_fq12():
    return FQ12([rng.randrange(p) for _ in range(12)])


def to_fq12(pt):
    # E(Fp) -> E(Fp12), plain embedding of the base field
    return tuple(FQ12([c.n] + [0] * 11) for c in pt)


# --------------------------------------------------------------------------
# 1. BLS12-381 points
# --------------------------------------------------------------------------
# G1 curve ------------------------------------------------------------------
def random_E1_point():
    while True:
        x = rng.randrange(p)
        rhs = (x**3 + 4) % p
        y = pow(rhs, (p + 1) // 4, p)
        if y * y % p == rhs:
            if rng.random() < 0.5:
                y = p - y
            return (FQ(x), FQ(y), FQ(1))


G1, G2, G12 = old.G1, old.G2, old.G12
assert new.G1 == G1

order3_E1 = (FQ(0), FQ(2), FQ(1))
assert old.is_on_curve(order3_E1, old.b) and old.is_inf(old.add(old.double(order3_E1), order3_E1))
nonsub1 = [random_E1_point() for _ in range(3)]
assert all(old.is_on_curve(q, old.b) for q in nonsub1)
assert any(not old.is_inf(old.multiply(q, r)) for q in nonsub1)

E1_points = [
    ("G1", G1),
    ("-G1", old.neg(G1)),
    ("Z1", old.Z1),
    ("inf(0,0,0)", (FQ(0), FQ(0), FQ(0))),
    ("inf(x,y,0)", (FQ(5), FQ(7), FQ(0))),
    ("inf(0,1,0)", (FQ(0), FQ(1), FQ(0))),
    ("order3", order3_E1),
    ("order3 scaled", rescale(order3_E1, FQ(rng.randrange(1, p)))),
    ("order3+G1", old.add(order3_E1, G1)),
    ("G1 scaled", rescale(G1, FQ(rng.randrange(1, p)))),
    ("kG1", old.multiply(G1, rng.randrange(1, r))),
    ("kG1 raw double", old.double(old.double(G1))),
]
for i, q in enumerate(nonsub1):
    E1_points.append(("nonsub%d" % i, q))
    E1_points.append(("nonsub%d scaled" % i, rescale(q, FQ(rng.randrange(1, p)))))

small_scalars = list(range(0, 18)) + [31, 32, 33, 255, 256, 257]
special_scalars = [r - 2, r - 1, r, r + 1, r + 2, 2 * r, 2 * r + 1, 3 * r - 1, 2 * p - r,
                   p, p - 1, p + 1, (1 << 255) - 1, 1 << 255, (1 << 255) + 1,
                   (1 << 381), (1 << 640) - 1, 1 << 639, 0xAAAAAAAAAAAAAAAAAAAAAAAAAAAAAAAA,
                   0x55555555555555555555555555555555,
                   0xD201000000010000,  # |x| of BLS12-381
                   0x396C8C005555E1568C00AAAB0000AAAB]  # G1 cofactor


def random_scalars(k):
    out = []
    for _ in range(k):
        bits = rng.choice([1, 2, 3, 8, 31, 64, 65, 128, 254, 255, 256, 381, 512, 639, 640])
        out.append(rng.getrandbits(bits))
    return out


for label, pt in E1_points:
    for n in small_scalars + special_scalars + random_scalars(6):
        check(pt, n, old.b, "E1 " + label)
print("E1 done   %6d checks  %.1fs" % (CHECKS, time.time() - T0))


# G2 (twist) curve ------------------------------------------------------------
def random_E2_point():
    while True:
        x = FQ2((rng.randrange(p), rng.randrange(p)))
        rhs = x * x * x + old.b2
        y = modular_squareroot_in_FQ2(rhs)
        if y is not None and y * y == rhs:
            if rng.random() < 0.5:
                y = -y
            return (x, y, FQ2.one())


nonsub2 = [random_E2_point() for _ in range(2)]
assert all(old.is_on_curve(q, old.b2) for q in nonsub2)
assert any(not old.is_inf(old.multiply(q, r)) for q in nonsub2)
E2_points = [
    ("G2", G2),
    ("-G2", old.neg(G2)),
    ("Z2", old.Z2),
    ("inf(0,0,0)", (FQ2.zero(), FQ2.zero(), FQ2.zero())),
    ("inf(x,y,0)", (rand_fq2(), rand_fq2(), FQ2.zero())),
    ("G2 scaled", rescale(G2, rand_fq2())),
    ("kG2", old.multiply(G2, rng.randrange(1, r))),
    ("nonsub0", nonsub2[0]),
    ("nonsub1 scaled", rescale(nonsub2[1], rand_fq2())),
    ("nonsub0+G2", old.add(nonsub2[0], G2)),
]
for label, pt in E2_points:
    for n in small_scalars[:10] + special_scalars[:9] + random_scalars(3):
        check(pt, n, old.b2, "E2 " + label)
print("E2 done   %6d checks  %.1fs" % (CHECKS, time.time() - T0))

# degree-12 curve ---------------------------------------------------------------
w = old.w
order2_E12 = (w**8, FQ12.zero(), FQ12.one())  # (w^8)^3 = (1+i)^4 = -4, so y = 0
assert old.is_on_curve(order2_E12, old.b12) and old.is_inf(old.double(order2_E12))
order3_E12 = to_fq12(order3_E1)
sqrt_m3 = pow(p - 3, (p + 1) // 4, p)
assert sqrt_m3 * sqrt_m3 % p == p - 3
order3b_E12 = (-(w**16), FQ12([2 * sqrt_m3] + [0] * 11), FQ12.one())  # x^3 = -16
assert old.is_on_curve(order3b_E12, old.b12)
assert not old.is_inf(order3b_E12) and old.is_inf(old.add(old.double(order3b_E12), order3b_E12))
order6_E12 = old.add(order2_E12, order3_E12)
assert old.is_on_curve(order6_E12, old.b12)
mixed_E12 = old.add(old.add(old.twist(nonsub2[0]), to_fq12(nonsub1[0])), order2_E12)
assert old.is_on_curve(mixed_E12, old.b12)
assert new.twist(G2) == old.twist(G2) == G12

E12_points = [
    ("G12", G12),
    ("inf(1,1,0)", (FQ12.one(), FQ12.one(), FQ12.zero())),
    ("inf(0,0,0)", (FQ12.zero(), FQ12.zero(), FQ12.zero())),
    ("inf(x,y,0)", (rand_fq12(), rand_fq12(), FQ12.zero())),
    ("twist(inf)", old.twist(old.Z2)),
    ("order2", order2_E12),
    ("order2 scaled", rescale(order2_E12, rand_fq12())),
    ("order3", order3_E12),
    ("order3b", order3b_E12),
    ("order3b scaled", rescale(order3b_E12, rand_fq12())),
    ("order6", order6_E12),
    ("order9?", old.add(order3_E12, order3b_E12)),
    ("G12 scaled", rescale(G12, rand_fq12())),
    ("twist(kG2)", old.twist(old.multiply(G2, rng.randrange(1, r)))),
    ("embed(G1)+G12", old.add(to_fq12(G1), G12)),
    ("mixed nonsubgroup", mixed_E12),
]
torsion_scalars = list(range(0, 10))
for label, pt in E12_points:
    if label == "G12":
        ns = [0, 1, 2, 3, 5, 8, r - 1, r, r + 1, 2 * p - r, rng.getrandbits(640)]
    elif label.startswith(("order", "inf", "twist(inf)")):
        ns = torsion_scalars + [rng.getrandbits(640) if label in ("order6", "inf(x,y,0)")
                                else rng.getrandbits(97)]
    else:
        ns = [0, 1, 2, 3, 6, 7, rng.getrandbits(rng.choice([64, 130, 254]))]
    for n in ns:
        check(pt, n, old.b12, "E12 " + label)
print("E12 done  %6d checks  %.1fs" % (CHECKS, time.time() - T0))

# homomorphism sanity on the new version alone (n-fold sum, additivity) -------
for label, pt, bc in (("G1", G1, old.b), ("nonsub", nonsub1[0], old.b), ("G2", G2, old.b2),
                      ("order6", order6_E12, old.b12)):
    acc = (pt[0].one(), pt[0].one(), pt[0].zero())
    for n in range(0, 20):
        if not same_element(new.multiply(pt, n), acc) and not (
            old.is_inf(acc) and old.is_inf(new.multiply(pt, n))
        ):
            fail("n-fold sum %s n=%d" % (label, n))
        acc = old.add(acc, pt)
    for _ in range(1):
        a_, b_ = rng.getrandbits(300), rng.getrandbits(200)
        lhs = new.multiply(pt, a_ + b_)
        rhs = old.add(new.multiply(pt, a_), new.multiply(pt, b_))
        if not old.eq(lhs, rhs):
            fail("additivity " + label)
        if not old.eq(new.multiply(new.multiply(pt, a_ % 2**64), b_ % 2**64),
                      new.multiply(pt, (a_ % 2**64) * (b_ % 2**64))):
            fail("multiplicativity " + label)
for pt in (G1, old.multiply(G1, 12345), G2):
    for n in (7 * r + 11, rng.getrandbits(640)):
        if not old.eq(new.multiply(pt, n), new.multiply(pt, n % r)):
            fail("n mod r")
print("laws done %6d checks  %.1fs" % (CHECKS, time.time() - T0))

# identity of returned objects for n = 1 (pristine returns pt itself) ---------
for pt in (G1, G2, G12, old.Z1, order2_E12):
    assert old.multiply(pt, 1) is pt and new.multiply(pt, 1) is pt
    assert new.multiply(pt, True) is pt and old.multiply(pt, True) is pt
z_old, z_new = old.multiply(G2, 0), new.multiply(G2, 0)
assert z_old == z_new == (FQ2.one(), FQ2.one(), FQ2.zero())
assert new.multiply(G12, False) == old.multiply(G12, False)


# --------------------------------------------------------------------------
# 2. exhaustive small curves y^2 = x^3 + b over F_q and F_q^2
# --------------------------------------------------------------------------
def small_fields(q):
    class SFQ(BaseFQ):
        field_modulus = q

    class SFQP(BaseFQP):
        field_modulus = q

    class SFQ2(BaseFQ2, SFQP):
        field_modulus = q
        FQ2_MODULUS_COEFFS = (1, 0)  # i^2 = -1, q = 3 mod 4

    return SFQ, SFQ2


def exhaustive(q, bval, quadratic, scales, n_stride=1):
    SFQ, SFQ2 = small_fields(q)
    if quadratic:
        elems = [SFQ2((a, c)) for a in range(q) for c in range(q)]
        bcoef = SFQ2(bval)
        zero, one = SFQ2.zero(), SFQ2.one()
    else:
        elems = [SFQ(a) for a in range(q)]
        bcoef = SFQ(bval)
        zero, one = SFQ(0), SFQ(1)
    squares = {}
    for e in elems:
        squares.setdefault(repr(e * e), []).append(e)
    pts = []
    for x in elems:
        for y in squares.get(repr(x * x * x + bcoef), []):
            pts.append((x, y, one))
    order = len(pts) + 1
    infs = [(one, one, zero), (zero, zero, zero), (elems[2], elems[3], zero)]
    nonzero = [e for e in elems if not e == zero]
    count = 0
    for pt in pts + infs:
        reps = [pt] + [rescale(pt, nonzero[(7 * k + 3) % len(nonzero)]) for k in range(scales)]
        if old.is_inf(pt):
            reps = [pt]
        for rep in reps:
            acc = (one, one, zero)
            for n in range(0, 2 * order + 3):
                if n % n_stride == 0 or n < 12 or abs(n - order) < 3:
                    res = check(rep, n, bcoef, "small q=%d b=%r quad=%s pt=%r" % (q, bval, quadratic, rep))
                    if not (old.is_inf(acc) and old.is_inf(res[1][1])) and not same_element(res[1][1], acc):
                        fail("small curve n-fold sum q=%d n=%d pt=%r" % (q, n, rep))
                    count += 1
                acc = old.add(acc, pt)
            if not old.is_inf(acc) and False:
                pass
    return order, count


for q, bval, quad, scales, stride in (
    (7, 1, False, 2, 1),    # order 12 (even: has points of order 2, 3, 6)
    (7, 3, False, 2, 1),    # order 13
    (7, 5, False, 2, 1),    # order 7
    (11, 1, False, 2, 1),   # order 12
    (11, 4, False, 1, 1),
    (19, 2, False, 1, 1),
    (19, 3, False, 1, 1),
    (23, 4, False, 1, 1),
    (43, 7, False, 0, 1),
    (7, (3, 1), True, 0, 1),    # order 37, every point x every scalar
    (7, (1, 0), True, 0, 5),    # order 48 (points of order 2, 3, 4, 6, ...)
    (7, (0, 2), True, 0, 7),    # order 63
    (11, (2, 5), True, 0, 29),  # order 133
):
    order, count = exhaustive(q, bval, quad, scales, stride)
    print("small curve q=%-3d b=%-7r quad=%-5s order=%-4d %6d checks  %.1fs"
          % (q, bval, quad, order, count, time.time() - T0))

# --------------------------------------------------------------------------
# 3. malformed inputs: same exception class (or same result) in both versions
# --------------------------------------------------------------------------
negative_scalars = [-1, -2, -3, -(1 << 70), -r, -0.5, -2.0]
malformed_scalars = [2.0, 3.0, 2.5, 0.5, 1.5, 1.0, 0.0, -0.0, 7.75,
                     None, "3", b"\x03", [3], (3,), 3 + 0j, True, False]
for label, pt in (("G1", G1), ("G2", G2), ("Z1", old.Z1), ("order3", order3_E1),
                  ("order2", order2_E12)):
    for n in malformed_scalars:
        check(pt, n, None, "malformed-n " + label)
print("malformed-n done %6d checks  %.1fs" % (CHECKS, time.time() - T0))
# negative scalars: RecursionError in both versions.  py_ecc raises the interpreter's
# recursion limit to 100000 on import and the pristine routine has to descend all the
# way to it, so the limit is lowered while these cases run (the outcome is the same
# for any limit, only slower).
_limit = sys.getrecursionlimit()
sys.setrecursionlimit(3000)
for label, pt in (("G1", G1), ("Z1", old.Z1), ("order3", order3_E1), ("nonsub", nonsub1[0])):
    for n in negative_scalars:
        res = check(pt, n, None, "negative-n " + label)
        assert res == (("exc", RecursionError), ("exc", RecursionError)), res
assert check(G2, -1, None, "negative-n G2") == (("exc", RecursionError),) * 2
sys.setrecursionlimit(_limit)
print("negative done  %6d checks  %.1fs" % (CHECKS, time.time() - T0))
malformed_points = [None, (), (FQ(1), FQ(2)), (1, 2, 1), (FQ(1), FQ(2), 1), "abc", 5,
                    [FQ(1), FQ(2), FQ(1)], (FQ(1), FQ2.one(), FQ(1)), (G1[0], G1[1], G2[2])]
for pt in malformed_points:
    # (a malformed point together with a negative scalar is not compared: the pristine
    # routine trips over the point first, the new one refuses the scalar first)
    for n in [0, 1, 2, 3, 4, 5, 6, 2.0, None]:
        check(pt, n, None, "malformed-pt %r" % (pt,))
print("malformed done %6d checks  %.1fs" % (CHECKS, time.time() - T0))

# --------------------------------------------------------------------------
# 4. call histories: repeat / interleave, results stay equal
# --------------------------------------------------------------------------
history = []
pool = [("G1", G1, old.b), ("G2", G2, old.b2), ("nonsub", nonsub1[1], old.b), ("Z2", old.Z2, old.b2),
        ("order3", order3_E1, old.b)]
first = {}
for step in range(70):
    label, pt, bc = rng.choice(pool)
    n = rng.choice([0, 1, 2, 3, r - 1, r, r + 1, 2 * p - r, 0xDEADBEEF, 1 << 200])
    res = check(pt, n, bc, "history " + label)
    got = res[1][1]
    key = (label, n)
    if key in first:
        if not same_element(first[key], got):
            fail("repeat call changed result " + repr(key))
        # the new version is deterministic down to the representative
        if not first[key] == got:
            fail("repeat call changed representative " + repr(key))
    else:
        first[key] = got
assert new.G1 == old.G1 and new.G2 == old.G2 and new.Z1 == old.Z1 and new.G12 == old.G12

print("ALL OK: %d comparisons, %.1fs" % (CHECKS, time.time() - T0))
sys.exit(0)
