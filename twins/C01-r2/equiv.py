import os, sys; sys.path.insert(0, os.getcwd())  # noqa: E401,E702

"""
Equivalence demonstration for refactoring r2 (property C01).

r2 restructures BaseG2Ciphersuite._CoreVerify.  The pristine ciphersuites.py
(saved next to this script) is loaded under another module name inside the
py_ecc.bls package; Verify / PopVerify / _CoreVerify / FastAggregateVerify of
both versions are compared (returned value and its type, or exception class) on
honest signatures and proofs, tampered ones, and malformed inputs.
"""
import importlib.util
import random
import time

HERE = os.path.dirname(os.path.abspath(__file__))

import py_ecc.bls.ciphersuites as new  # noqa: E402

assert os.path.abspath(new.__file__).startswith(os.getcwd()), new.__file__


def load_pristine(filename, modname):
    spec = importlib.util.spec_from_file_location(
        "py_ecc.bls." + modname, os.path.join(HERE, "pristine", filename)
    )
    mod = importlib.util.module_from_spec(spec)
    sys.modules[spec.name] = mod
    spec.loader.exec_module(mod)
    return mod


old = load_pristine("ciphersuites.py", "_pristine_ciphersuites")
assert old is not new and old.__file__ != new.__file__

from py_ecc.bls.g2_primitives import (  # noqa: E402
    G1_to_pubkey,
    G2_to_signature,
    pubkey_to_G1,
    signature_to_G2,
    subgroup_check,
)
from py_ecc.optimized_bls12_381 import Z1, Z2, field_modulus as q  # noqa: E402

r = new.curve_order
rng = random.Random(0xC0102)
checks = 0
t0 = time.time()


def outcome(f, *a, **k):
    try:
        v = f(*a, **k)
        return ("ok", type(v).__name__, v)
    except BaseException as e:  # noqa: B902
        return ("exc", type(e).__name__)


def same(label, f_old, f_new, *a, expect=None, **k):
    global checks
    o, n = outcome(f_old, *a, **k), outcome(f_new, *a, **k)
    assert o == n, (label, a, k, o, n)
    if expect is not None:
        assert n == ("ok", "bool", expect), (label, a, n)
    checks += 1
    return n


SUITES = ["G2Basic", "G2MessageAugmentation", "G2ProofOfPossession"]
messages = [b"", b"\x00", b"a" * 55, b"b" * 56, b"c" * 63, b"d" * 64, b"e" * 65,
            bytes(range(256)), rng.randbytes(3000)]
sks = [1, 2, r - 2, r - 1, rng.randrange(1, r), rng.getrandbits(255) % (r - 1) + 1]
pks = {sk: new.G2Basic.SkToPk(sk) for sk in sks}
for sk in sks:
    assert old.G2Basic.SkToPk(sk) == pks[sk]


# A curve point outside the r-torsion subgroup, in compressed form.
def non_subgroup_signature():
    while True:
        z1 = (1 << 383) + rng.randrange(q)
        z2 = rng.randrange(q)
        raw = z1.to_bytes(48, "big") + z2.to_bytes(48, "big")
        try:
            pt = signature_to_G2(raw)
        except ValueError:
            continue
        if not subgroup_check(pt):
            return raw


def non_subgroup_pubkey():
    while True:
        raw = ((1 << 383) + rng.randrange(q)).to_bytes(48, "big")
        try:
            pt = pubkey_to_G1(raw)
        except ValueError:
            continue
        if not subgroup_check(pt):
            return raw


INF_SIG = G2_to_signature(Z2)
INF_PK = G1_to_pubkey(Z1)
BAD_SIG = non_subgroup_signature()
BAD_PK = non_subgroup_pubkey()

# ------------------------------------------------------- honest sign -> verify
honest = {}
for i, name in enumerate(SUITES):
    co, cn = getattr(old, name), getattr(new, name)
    for j in range(3):
        sk = sks[(2 * i + j) % len(sks)]
        msg = messages[(3 * i + j) % len(messages)]
        sig = cn.Sign(sk, msg)
        honest[(name, j)] = (sk, msg, sig)
        same("Verify-honest", co.Verify, cn.Verify, pks[sk], msg, sig, expect=True)
    # the signature does not verify for another message / key / when tampered
    sk, msg, sig = honest[(name, 0)]
    other_sk = sks[(2 * i + 1) % len(sks)]
    same("Verify-othermsg", co.Verify, cn.Verify, pks[sk], msg + b"!", sig,
         expect=False)
    same("Verify-otherkey", co.Verify, cn.Verify, pks[other_sk], msg, sig,
         expect=False)
    flipped = sig[:-1] + bytes([sig[-1] ^ 1])
    same("Verify-flipped", co.Verify, cn.Verify, pks[sk], msg, flipped)
    # keyword-argument call and direct call of the core routine
    same("Verify-kw", co.Verify, cn.Verify, PK=pks[sk], message=msg, signature=sig)

# ------------------------------------------------------------- PopProve/Verify
po, pn = old.G2ProofOfPossession, new.G2ProofOfPossession
for sk in [1, r - 1, sks[4]]:
    proof = pn.PopProve(sk)
    assert proof == po.PopProve(sk)
    same("PopVerify-honest", po.PopVerify, pn.PopVerify, pks[sk], proof, expect=True)
proof1 = pn.PopProve(sks[4])
same("PopVerify-otherkey", po.PopVerify, pn.PopVerify, pks[2], proof1, expect=False)
# a normal signature is not a proof of possession (different tag)
same("PopVerify-sig", po.PopVerify, pn.PopVerify, pks[sks[4]],
     pn.Sign(sks[4], pks[sks[4]]), expect=False)

# --------------------------------------------------- malformed / invalid inputs
sk, msg, sig = honest[("G2Basic", 0)]
pk = pks[sk]
bad_pks = [
    b"", pk[:47], pk + b"\x00", b"\x00" + pk, b"\x00" * 48, b"\xff" * 48, INF_PK,
    BAD_PK, bytes([pk[0] & 0x7F]) + pk[1:], bytes([pk[0] | 0x40]) + pk[1:],
    b"\xc0" + b"\x00" * 46 + b"\x01", b"\xe0" + b"\x00" * 47,
    ((1 << 383) + q).to_bytes(48, "big"), bytearray(pk), memoryview(pk),
    pk.hex(), None, 5, [pk], (pk,),
]
bad_sigs = [
    b"", sig[:95], sig + b"\x00", b"\x00" * 96, b"\xff" * 96, INF_SIG, BAD_SIG,
    bytes([sig[0] & 0x7F]) + sig[1:], bytes([sig[0] | 0x40]) + sig[1:],
    sig[:48] + b"\x80" + sig[49:], sig[:48] + q.to_bytes(48, "big"),
    ((1 << 383) + q).to_bytes(48, "big") + sig[48:],
    b"\xe0" + b"\x00" * 95, b"\xc0" + b"\x00" * 94 + b"\x01", pk, bytearray(sig),
    memoryview(sig), sig.hex(), None, 5, [sig],
]
bad_msgs = ["msg", None, 5, bytearray(b"m"), memoryview(b"m"), [1], (b"m",)]

for name in SUITES:
    co, cn = getattr(old, name), getattr(new, name)
    for x in bad_pks:
        same("Verify-badpk", co.Verify, cn.Verify, x, msg, sig)
    for x in bad_sigs:
        same("Verify-badsig", co.Verify, cn.Verify, pk, msg, x)
    for x in bad_msgs:
        same("Verify-badmsg", co.Verify, cn.Verify, pk, x, sig)
    same("Verify-allbad", co.Verify, cn.Verify, None, None, None)
    same("Verify-badpk+sig", co.Verify, cn.Verify, b"", msg, b"")
    same("Verify-arity", co.Verify, cn.Verify, pk, msg)
for x in bad_pks:
    same("PopVerify-badpk", po.PopVerify, pn.PopVerify, x, proof1)
for x in bad_sigs:
    same("PopVerify-badproof", po.PopVerify, pn.PopVerify, pks[sks[4]], x)

# infinity key with infinity signature (e(...) == 1 trivially) must stay refused
for name in SUITES:
    co, cn = getattr(old, name), getattr(new, name)
    same("Verify-inf", co.Verify, cn.Verify, INF_PK, msg, INF_SIG, expect=False)
same("PopVerify-inf", po.PopVerify, pn.PopVerify, INF_PK, INF_SIG, expect=False)
# valid key, infinity signature: passes all checks, pairing product != 1
same("Verify-infsig", old.G2Basic.Verify, new.G2Basic.Verify, pk, msg, INF_SIG,
     expect=False)

# -------------------------------- _CoreVerify directly, with unusual DST values
bo, bn = old.G2Basic, new.G2Basic
same("Core-dst", bo._CoreVerify, bn._CoreVerify, pk, msg, sig, bo.DST, expect=True)
same("Core-dst-other", bo._CoreVerify, bn._CoreVerify, pk, msg, sig, b"OTHER",
     expect=False)
same("Core-dst-empty", bo._CoreVerify, bn._CoreVerify, pk, msg, sig, b"")
same("Core-dst-255", bo._CoreVerify, bn._CoreVerify, pk, msg, sig, b"D" * 255)
same("Core-dst-256", bo._CoreVerify, bn._CoreVerify, pk, msg, sig, b"D" * 256,
     expect=False)
for dst in ["str", None, 5]:
    same("Core-dst-type", bo._CoreVerify, bn._CoreVerify, pk, msg, sig, dst)
    same("Core-dst-type-badsig", bo._CoreVerify, bn._CoreVerify, pk, msg, BAD_SIG, dst)
    same("Core-dst-type-badpk", bo._CoreVerify, bn._CoreVerify, BAD_PK, msg, sig, dst)

# ------------------------------ callers of Verify: FastAggregateVerify (1 key)
sk, msg, sig = honest[("G2ProofOfPossession", 0)]
same("FastAggregateVerify", po.FastAggregateVerify, pn.FastAggregateVerify,
     [pks[sk]], msg, sig, expect=True)
same("FastAggregateVerify-bad", po.FastAggregateVerify, pn.FastAggregateVerify,
     [pks[sk]], msg + b"x", sig, expect=False)

print(f"r2 equivalence OK: {checks} comparisons in {time.time() - t0:.1f}s")
