from py_ecc.fields import (
    bn128_FQ as FQ,
    bn128_FQ2 as FQ2,
    bn128_FQ12 as FQ12,
    bn128_FQP as FQP,
)
from py_ecc.fields.field_properties import (
    field_properties,
)
from py_ecc.typing import (
    Field,
    GeneralPoint,
    Point2D,
)

field_modulus = field_properties["bn128"]["field_modulus"]
curve_order = (
    21888242871839275222246405745257275088548364400416034343698204186575808495617
)

# Curve order should be prime
if not pow(2, curve_order, curve_order) == 2:
    raise ValueError("Curve order is not prime")
# Curve order should be a factor of field_modulus**12 - 1
if not (field_modulus**12 - 1) % curve_order == 0:
    raise ValueError("Curve order is not a factor of field_modulus**12 - 1")

# Curve is y**2 = x**3 + 3
b = FQ(3)
# Twisted curve over FQ**2
b2 = FQ2([3, 0]) / FQ2([9, 1])
# Extension curve over FQ**12; same b value as over FQ
b12 = FQ12([3] + [0] * 11)

# Generator for curve over FQ
G1 = (FQ(1), FQ(2))
# Generator for twisted curve over FQ2
G2 = (
    FQ2(
        [
            10857046999023057135944570762232829481370756359578518086990519993285655852781,  # noqa: E501
            11559732032986387107991004021392285783925812861821192530917403151452391805634,  # noqa: E501
        ]
    ),
    FQ2(
        [
            8495653923123431417604973247489272438418190587263600148770280649306958101930,  # noqa: E501
            4082367875863433681332203403145435568316851327593401208105741076214120093531,  # noqa: E501
        ]
    ),
)
# Point at infinity over FQ
Z1 = None
# Point at infinity for twisted curve over FQ2
Z2 = None


# Check if a point is the point at infinity
def is_inf(pt: GeneralPoint[Field]) -> bool:
    return pt is None


# Check that a point is on the curve defined by y**2 == x**3 + b
def is_on_curve(pt: Point2D[Field], b: Field) -> bool:
    if is_inf(pt) or pt is None:
        return True
    x, y = pt
    return y**2 - x**3 == b


if not is_on_curve(G1, b):
    raise ValueError("G1 is not on the curve")
if not is_on_curve(G2, b2):
    raise ValueError("G2 is not on the curve")


# Elliptic curve doubling
def double(pt: Point2D[Field]) -> Point2D[Field]:
    if is_inf(pt) or pt is None:
        return pt
    x, y = pt
    # A point with y == 0 has order 2: its tangent is vertical and 2 * P is infinity
    if y == type(y).zero():
        return None
    m = 3 * x**2 / (2 * y)
    newx = m**2 - 2 * x
    newy = -m * newx + m * x - y
    return (newx, newy)


# Elliptic curve addition
def add(p1: Point2D[Field], p2: Point2D[Field]) -> Point2D[Field]:
    if p1 is None or p2 is None:
        return p1 if p2 is None else p2
    x1, y1 = p1
    x2, y2 = p2
    if x2 == x1 and y2 == y1:
        return double(p1)
    elif x2 == x1:
        return None
    else:
        m = (y2 - y1) / (x2 - x1)
    newx = m**2 - x1 - x2
    newy = -m * newx + m * x1 - y1
    if not newy == (-m * newx + m * x2 - y2):
        raise ValueError("Point addition is incorrect")
    return (newx, newy)


# Elliptic curve point multiplication
def multiply(pt: Point2D[Field], n: int) -> Point2D[Field]:
    if n == 0:
        return None
    elif n == 1:
        return pt
    elif not n % 2:
        return multiply(double(pt), n // 2)
    else:
        return add(multiply(double(pt), int(n // 2)), pt)


def eq(p1: GeneralPoint[Field], p2: GeneralPoint[Field]) -> bool:
    return p1 == p2


# "Twist" a point in E(FQ2) into a point in E(FQ12)
w = FQ12([0, 1] + [0] * 10)


# Convert P => -P
def neg(pt: Point2D[Field]) -> Point2D[Field]:
    if pt is None:
        return None
    x, y = pt
    return (x, -y)


def twist(pt: Point2D[FQP]) -> Point2D[FQ12]:
    if pt is None:
        return None
    _x, _y = pt
    # Field isomorphism from Z[p] / x**2 to Z[p] / x**2 - 18*x + 82
    xcoeffs = [_x.coeffs[0] - _x.coeffs[1] * 9, _x.coeffs[1]]
    ycoeffs = [_y.coeffs[0] - _y.coeffs[1] * 9, _y.coeffs[1]]
    # Isomorphism into subfield of Z[p] / w**12 - 18 * w**6 + 82,
    # where w**6 = x
    nx = FQ12([int(xcoeffs[0])] + [0] * 5 + [int(xcoeffs[1])] + [0] * 5)
    ny = FQ12([int(ycoeffs[0])] + [0] * 5 + [int(ycoeffs[1])] + [0] * 5)
    # Divide x coord by w**2 and y coord by w**3
    return (nx * w**2, ny * w**3)


G12 = twist(G2)
# Check that the twist creates a point that is on the curve
if not is_on_curve(G12, b12):
    raise ValueError("Twist creates a point not on curve")
