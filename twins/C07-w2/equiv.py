import os, sys; sys.path.insert(0, os.getcwd())
"""
Equivalence demonstration for twin C07/w2.

Edited module : py_ecc/bn128/bn128_curve.py (fixed-base tables of doublings of G1
                and G2, used by multiply() only for the very generator objects and
                scalars 0 <= n < 2**254; generic recursive routine otherwise)
Pristine copy : /tmp/twin6/C07/w2/pristine/bn128_curve.py

The reference module works with affine points (None = infinity), so every group
element has exactly one representation and the two versions must return EQUAL
values (==), not merely equivalent ones.  Both versions are imported side by side
(the pristine one under another module name, sharing the field classes).

Compared:
 - multiply(G1, n), multiply(G2, n) with the module's own generator objects (table
   path) for n = 0..65, 2**i for every i up to 260 (2**i +- 1 for many i), r-1, r, r+1,
   2p-r, 2**254-1, 2**254, 2**254+1, random scalars up to 640 bits;
 - equal-but-distinct copies of the generators, the other module's generator
   object, G12, random subgroup points, points outside the prime-order subgroup of
   the twist curve, torsion-ish points on the degree-12 curve, infinity (generic path);
 - malformed input (negative / float / non-numeric scalars, malformed points);
 - small curves y^2 = x^3 + b over F_q and F_q^2, every point, every scalar;
 - call histories that repeat and interleave table and generic calls; the tables,
   the generators and the arguments are not mutated.
Exit status 0 means all checks passed.
"""
import importlib.util
import inspect
import random
import time

T0 = time.time()
HERE = os.path.dirname(os.path.abspath(__file__))

import py_ecc.bn128.bn128_curve as new  # noqa: E402
import py_ecc.bn128 as new_pkg  # noqa: E402

assert os.path.abspath(new.__file__).startswith(os.getcwd() + os.sep), new.__file__

spec = importlib.util.spec_from_file_location(
    "pristine_bn128_curve", os.path.join(HERE, "pristine", "bn128_curve.py")
)
old = importlib.util.module_from_spec(spec)
spec.loader.exec_module(old)

from py_ecc.fields import bn128_FQ as FQ, bn128_FQ2 as FQ2, bn128_FQ12 as FQ12  # noqa: E402
from py_ecc.fields.field_elements import FQ as BaseFQ, FQ2 as BaseFQ2, FQP as BaseFQP  # noqa: E402

rng = random.Random(0xC0702)
CHECKS = 0
TABLE_HITS = 0


def fail(msg):
    print("MISMATCH:", msg)
    sys.exit(1)


# --------------------------------------------------------------------------
# 0. the modules differ only in multiply (+ its new private helpers)
# --------------------------------------------------------------------------
for name in ("double", "add", "neg", "eq", "twist", "is_inf", "is_on_curve"):
    if inspect.getsource(getattr(new, name)) != inspect.getsource(getattr(old, name)):
        fail("unexpected difference in " + name)
for name in ("field_modulus", "curve_order", "b", "b2", "b12", "G1", "G2", "G12", "Z1", "Z2", "w"):
    if not getattr(new, name) == getattr(old, name):
        fail("constant differs: " + name)
public_old = {k for k in vars(old) if not k.startswith("_")}
public_new = {k for k in vars(new) if not k.startswith("_")}
if public_old != public_new:
    fail("public names differ: %r" % (public_old ^ public_new))
assert new_pkg.G1 is new.G1 and new_pkg.G2 is new.G2 and new_pkg.multiply is new.multiply

p = new.field_modulus
r = new.curve_order
TABLES = {k: v for k, v in vars(new).items()
          if k.startswith("_") and isinstance(v, tuple) and len(v) > 100}
assert len(TABLES) == 2, sorted(TABLES)
TABLE_BITS = len(next(iter(TABLES.values())))
assert all(len(t) == TABLE_BITS for t in TABLES.values()) and TABLE_BITS == 254
assert any(t[0] is new.G1 for t in TABLES.values())
assert any(t[0] is new.G2 for t in TABLES.values())
TABLES_BEFORE = repr(TABLES)
for t in TABLES.values():
    base = old.G1 if t[0] is new.G1 else old.G2
    cur = base
    for i, entry in enumerate(t):
        if not (entry == cur and type(entry) is tuple):
            fail("table entry %d wrong" % i)
        cur = old.double(cur)


# --------------------------------------------------------------------------
# helpers
# --------------------------------------------------------------------------
def snapshot(pt):
    return repr(pt)


def call(fn, *args):
    try:
        return ("ok", fn(*args))
    except BaseException as e:  # noqa: BLE001
        if isinstance(e, (KeyboardInterrupt, SystemExit)):
            raise
        return ("exc", type(e))


def same_value(ra, rb):
    if ra is None or rb is None:
        return ra is None and rb is None
    if type(ra) is not type(rb):
        return False
    if isinstance(ra, tuple):
        if len(ra) != len(rb):
            return False
        for x, y in zip(ra, rb):
            if type(x) is not type(y) or not x == y:
                return False
        return True
    return ra == rb


def check(pt_old, pt_new, n, bcoef=None, label=""):
    """old.multiply(pt_old, n) vs new.multiply(pt_new, n): equal value / same exception."""
    global CHECKS
    CHECKS += 1
    before_o, before_n = snapshot(pt_old), snapshot(pt_new)
    a = call(old.multiply, pt_old, n)
    b = call(new.multiply, pt_new, n)
    if snapshot(pt_old) != before_o or snapshot(pt_new) != before_n:
        fail("argument mutated %s n=%r" % (label, n))
    if a[0] != b[0]:
        fail("outcome kind differs %s n=%r: %r vs %r" % (label, n, a, b))
    if a[0] == "exc":
        if a[1] is not b[1]:
            fail("exception class differs %s n=%r: %r vs %r" % (label, n, a[1], b[1]))
        return a, b
    if not same_value(a[1], b[1]):
        fail("value differs %s n=%r:\n %r\n %r" % (label, n, a[1], b[1]))
    if bcoef is not None and not old.is_on_curve(b[1], bcoef):
        fail("result off curve %s n=%r" % (label, n))
    return a, b


def check_same_obj(pt, n, bcoef=None, label=""):
    return check(pt, pt, n, bcoef, label)


# --------------------------------------------------------------------------
# 1. the generators themselves (table path in the new module)
# --------------------------------------------------------------------------
scalars = list(range(0, 66))
for i in range(0, 261):
    scalars.append(1 << i)
    if i % 4 == 1 or i >= 250:
        scalars += [(1 << i) - 1, (1 << i) + 1]
scalars += [r - 2, r - 1, r, r + 1, r + 2, 2 * p - r, p, p - 1, p + 1, 2 * r, 2 * r + 1,
            (1 << 254) - 1, 1 << 254, (1 << 254) + 1, (1 << 253) | 1, r - (1 << 253),
            (1 << 640) - 1, 1 << 639, True, False]
for _ in range(60):
    scalars.append(rng.getrandbits(rng.choice([1, 2, 7, 64, 128, 200, 253, 254, 254, 255, 256, 381, 640])))
g1_scalars = scalars
g2_scalars = (list(range(0, 12)) + [1 << i for i in (4, 63, 64, 127, 252, 253, 254, 255)]
              + [r - 1, r, r + 1, 2 * p - r, (1 << 254) - 1, (1 << 254) + 1, (1 << 253) | 1, True, False]
              + [rng.getrandbits(k) for k in (64, 200, 253, 254, 254, 255, 640)])

for n in g1_scalars:
    check(old.G1, new.G1, n, old.b, "G1")
print("G1 table path done   %6d checks  %.1fs" % (CHECKS, time.time() - T0))
for n in g2_scalars:
    check(old.G2, new.G2, n, old.b2, "G2")
print("G2 table path done   %6d checks  %.1fs" % (CHECKS, time.time() - T0))

# identities of returned objects that the pristine routine guarantees
assert old.multiply(old.G1, 1) is old.G1 and new.multiply(new.G1, 1) is new.G1
assert old.multiply(old.G2, 1) is old.G2 and new.multiply(new.G2, 1) is new.G2
assert new.multiply(new.G1, True) is new.G1
assert new.multiply(new.G1, 0) is None and new.multiply(new.G2, 0) is None
assert new.multiply(new.G1, False) is None
assert new.multiply(new.G1, r) is None and new.multiply(new.G2, r) is None

# n-fold sum / independent affine model on plain integers for G1
def model_add(P, Q):
    if P is None:
        return Q
    if Q is None:
        return P
    (x1, y1), (x2, y2) = P, Q
    if x1 == x2:
        if (y1 + y2) % p == 0:
            return None
        m = 3 * x1 * x1 * pow(2 * y1, -1, p) % p
    else:
        m = (y2 - y1) * pow(x2 - x1, -1, p) % p
    x3 = (m * m - x1 - x2) % p
    return (x3, (m * (x1 - x3) - y1) % p)


def model_mul(P, n):
    R = None
    while n:
        if n & 1:
            R = model_add(R, P)
        P = model_add(P, P)
        n >>= 1
    return R


acc = None
for n in range(0, 70):
    got = new.multiply(new.G1, n)
    if not same_value(got, acc):
        fail("n-fold sum G1 n=%d" % n)
    acc = old.add(acc, old.G1)
for n in [r - 1, r, r + 1, 2 * p - r, (1 << 254) - 1, 1 << 254] + [rng.getrandbits(254) for _ in range(20)]:
    m = model_mul((1, 2), n)
    got = new.multiply(new.G1, n)
    if (m is None) != (got is None) or (m is not None and (got[0].n, got[1].n) != m):
        fail("affine integer model G1 n=%d" % n)
acc = None
for n in range(0, 20):
    if not same_value(new.multiply(new.G2, n), acc):
        fail("n-fold sum G2 n=%d" % n)
    acc = old.add(acc, old.G2)
print("models done          %6d checks  %.1fs" % (CHECKS, time.time() - T0))


# --------------------------------------------------------------------------
# 2. everything else goes through the generic routine
# --------------------------------------------------------------------------
def copy_point(pt):
    return tuple(type(c)(c.n) if hasattr(c, "n") else type(c)(c.coeffs) for c in pt)


G1_copy, G2_copy = copy_point(new.G1), copy_point(new.G2)
assert G1_copy == new.G1 and G1_copy is not new.G1 and G2_copy == new.G2


def fq2_sqrt(a):
    # sqrt in F_p[i]/(i^2+1), p = 3 mod 4 ("complex method"); None if a is not a square
    a0, a1 = int(a.coeffs[0]), int(a.coeffs[1])
    if a1 == 0:
        s = pow(a0, (p + 1) // 4, p)
        if s * s % p == a0:
            return FQ2([s, 0])
        s = pow(-a0 % p, (p + 1) // 4, p)
        return FQ2([0, s]) if s * s % p == -a0 % p else None
    norm = (a0 * a0 + a1 * a1) % p
    s = pow(norm, (p + 1) // 4, p)
    if s * s % p != norm:
        return None
    for sign in (1, -1):
        t = (a0 + sign * s) * pow(2, -1, p) % p
        x0 = pow(t, (p + 1) // 4, p)
        if x0 * x0 % p == t and x0 != 0:
            x1 = a1 * pow(2 * x0, -1, p) % p
            cand = FQ2([x0, x1])
            if cand * cand == a:
                return cand
    return None


def random_E2_point():
    while True:
        x = FQ2([rng.randrange(p), rng.randrange(p)])
        y = fq2_sqrt(x * x * x + old.b2)
        if y is not None:
            return (x, -y if rng.random() < 0.5 else y)


nonsub2 = [random_E2_point() for _ in range(2)]
assert all(old.is_on_curve(q, old.b2) for q in nonsub2)
assert any(old.multiply(q, r) is not None for q in nonsub2)


def random_E1_point():
    while True:
        x = rng.randrange(p)
        rhs = (x**3 + 3) % p
        y = pow(rhs, (p + 1) // 4, p)
        if y * y % p == rhs:
            return (FQ(x), FQ(p - y if rng.random() < 0.5 else y))


def to_fq12(pt):
    return tuple(FQ12([c.n] + [0] * 11) for c in pt)


kG1 = old.multiply(old.G1, rng.randrange(1, r))
kG2 = old.multiply(old.G2, rng.randrange(1, r))
mixed12 = old.add(old.twist(nonsub2[0]), to_fq12(random_E1_point()))
assert old.is_on_curve(mixed12, old.b12)

generic_points = [
    ("G1 copy", G1_copy, old.b, 3),
    ("old module's G1 object", old.G1, old.b, 3),
    ("G1 as list-built tuple", tuple([new.G1[0], new.G1[1]]), old.b, 3),
    ("-G1", old.neg(old.G1), old.b, 3),
    ("2G1", old.double(old.G1), old.b, 3),
    ("table entry 1 (2*G1)", [t for t in TABLES.values() if t[0] is new.G1][0][1], old.b, 3),
    ("table entry 253 of G2", [t for t in TABLES.values() if t[0] is new.G2][0][253], old.b2, 1),
    ("kG1", kG1, old.b, 3),
    ("random E1", random_E1_point(), old.b, 3),
    ("infinity", None, old.b, 3),
    ("G2 copy", G2_copy, old.b2, 1),
    ("old module's G2 object", old.G2, old.b2, 1),
    ("-G2", old.neg(old.G2), old.b2, 1),
    ("kG2", kG2, old.b2, 1),
    ("nonsub E2 #0", nonsub2[0], old.b2, 1),
    ("nonsub E2 #1", nonsub2[1], old.b2, 1),
    ("nonsub+G2", old.add(nonsub2[1], old.G2), old.b2, 1),
    ("G12", new.G12, old.b12, 0),
    ("twist(kG2)", old.twist(kG2), old.b12, 0),
    ("embed(E1)+twist(nonsub)", mixed12, old.b12, 0),
]
base_ns = list(range(0, 12)) + [r - 1, r, r + 1, 2 * p - r, (1 << 254) - 1, 1 << 254]
for label, pt, bc, weight in generic_points:
    if weight == 3:
        ns = base_ns + [rng.getrandbits(k) for k in (64, 254, 255, 640)]
    elif weight == 1:
        ns = [0, 1, 2, 3, r, rng.getrandbits(254)]
        if label == "G2 copy":
            ns += [r + 1, (1 << 254) - 1, 1 << 254, rng.getrandbits(640)]
    else:
        ns = [0, 1, 2, 3] + ([5, rng.getrandbits(20)] if label == "G12" else [])
    for n in ns:
        check_same_obj(pt, n, bc, "generic " + label)
assert new.twist(new.G2) == old.twist(old.G2) == old.G12 == new.G12
print("generic path done    %6d checks  %.1fs" % (CHECKS, time.time() - T0))

# --------------------------------------------------------------------------
# 3. malformed inputs
# --------------------------------------------------------------------------
weird_scalars = [2.0, 3.0, 2.5, 0.5, 1.5, 1.0, 0.0, -0.0, 7.75, float(1 << 60), None, "3", b"\x03",
                 [3], (3,), 3 + 0j, FQ(5), FQ(0), FQ(1)]
for n in weird_scalars:
    check(old.G1, new.G1, n, None, "weird-n G1")
    if not isinstance(n, float) or n < 4:
        check(old.G2, new.G2, n, None, "weird-n G2")
    check_same_obj(G1_copy, n, None, "weird-n G1 copy")
    check_same_obj(None, n, None, "weird-n infinity")
# negative scalars: RecursionError from both.  py_ecc lifts the recursion limit to
# 100000 on import and the recursive routine has to run into it; lower it meanwhile.
_limit = sys.getrecursionlimit()
sys.setrecursionlimit(1500)
for n in [-1, -2, -3, -(1 << 70), -r, -0.5, -2.0, -(1 << 300)]:
    res = check(old.G1, new.G1, n, None, "negative-n G1")
    assert res == (("exc", RecursionError),) * 2, res
    res = check_same_obj(kG1, n, None, "negative-n kG1")
    assert res == (("exc", RecursionError),) * 2, res
assert check(old.G2, new.G2, -1, None, "negative-n G2") == (("exc", RecursionError),) * 2
# multiply(None, negative) : double(None) is None for ever -> RecursionError too
assert check_same_obj(None, -1, None, "negative-n inf") == (("exc", RecursionError),) * 2
sys.setrecursionlimit(_limit)
malformed_points = [(), (FQ(1),), (FQ(1), FQ(2), FQ(1)), (1, 2), "ab", 5, [FQ(1), FQ(2)],
                    (FQ(1), FQ2.one()), (new.G1[0], new.G2[1]), (FQ(0), FQ(0)), (FQ(1), FQ(0))]
for pt in malformed_points:
    for n in [0, 1, 2, 3, 4, 5, 6, 2.0, None, 1 << 254]:
        check_same_obj(pt, n, None, "malformed-pt %r" % (pt,))
print("malformed done       %6d checks  %.1fs" % (CHECKS, time.time() - T0))


# --------------------------------------------------------------------------
# 4. small curves (generic path with other field classes sharing the code)
# --------------------------------------------------------------------------
def small_fields(q):
    class SFQ(BaseFQ):
        field_modulus = q

    class SFQP(BaseFQP):
        field_modulus = q

    class SFQ2(BaseFQ2, SFQP):
        field_modulus = q
        FQ2_MODULUS_COEFFS = (1, 0)

    return SFQ, SFQ2


def exhaustive(q, bval, quadratic, stride=1):
    SFQ, SFQ2 = small_fields(q)
    if quadratic:
        elems = [SFQ2([a, c]) for a in range(q) for c in range(q)]
        bcoef = SFQ2(list(bval))
    else:
        elems = [SFQ(a) for a in range(q)]
        bcoef = SFQ(bval)
    squares = {}
    for e in elems:
        squares.setdefault(repr(e * e), []).append(e)
    pts = [None]
    for x in elems:
        for y in squares.get(repr(x * x * x + bcoef), []):
            pts.append((x, y))
    order = len(pts)
    count = 0
    for pt in pts:
        acc = None
        for n in range(0, 2 * order + 3):
            if n % stride == 0 or n < 10 or abs(n - order) < 3:
                res = check_same_obj(pt, n, bcoef, "small q=%d b=%r pt=%r" % (q, bval, pt))
                if not same_value(res[1][1], acc):
                    fail("small-curve n-fold sum q=%d pt=%r n=%d" % (q, pt, n))
                count += 1
            acc = old.add(acc, pt)
    return order, count


for q, bval, quad, stride in ((7, 1, False, 1), (7, 3, False, 1), (11, 4, False, 1), (19, 3, False, 1),
                              (43, 7, False, 1), (7, (3, 1), True, 3), (7, (1, 0), True, 7)):
    order, count = exhaustive(q, bval, quad, stride)
    print("small curve q=%-3d b=%-7r quad=%-5s order=%-4d %6d checks  %.1fs"
          % (q, bval, quad, order, count, time.time() - T0))

# --------------------------------------------------------------------------
# 5. call histories: repeat and interleave table / generic calls
# --------------------------------------------------------------------------
pool = [
    ("G1", old.G1, new.G1, old.b),
    ("G2", old.G2, new.G2, old.b2),
    ("G1 copy", G1_copy, G1_copy, old.b),
    ("G2 copy", G2_copy, G2_copy, old.b2),
    ("kG1", kG1, kG1, old.b),
    ("inf", None, None, old.b),
    ("nonsub", nonsub2[0], nonsub2[0], old.b2),
]
hist_scalars = [0, 1, 2, 3, 5, r - 1, r, r + 1, 2 * p - r, (1 << 254) - 1, 1 << 254, 0xDEADBEEF,
                1 << 200, rng.getrandbits(254), rng.getrandbits(640), -1, 2.0]
first = {}
sys.setrecursionlimit(1500)
for step in range(110):
    label, po, pn, bc = rng.choice(pool)
    n = rng.choice(hist_scalars)
    if label in ("G2", "G2 copy", "nonsub") and rng.random() < 0.85:
        n = rng.choice([0, 1, 2, 3, 5, r])  # keep the F_p^2 share of the run time small
    res = check(po, pn, n, bc if isinstance(n, int) and n >= 0 else None, "history " + label)
    key = (label, repr(n))
    if key in first:
        if res[1][0] != first[key][0]:
            fail("repeat call changed outcome " + repr(key))
        if res[1][0] == "ok" and not same_value(res[1][1], first[key][1]):
            fail("repeat call changed result " + repr(key))
    else:
        first[key] = res[1]
    # interleave the other public functions too
    if step % 7 == 0:
        assert same_value(new.add(new.G1, new.G1), old.double(old.G1))
        assert new.neg(new.G1) == old.neg(old.G1) and new.eq(new.G1, old.G1)
sys.setrecursionlimit(_limit)
if repr(TABLES) != TABLES_BEFORE:
    fail("tables changed")
for name in ("G1", "G2", "G12", "Z1", "Z2", "b", "b2", "b12", "w", "curve_order", "field_modulus"):
    if not getattr(new, name) == getattr(old, name):
        fail("constant changed: " + name)
assert new.G1 == (FQ(1), FQ(2))

print("ALL OK: %d comparisons, %.1fs" % (CHECKS, time.time() - T0))
sys.exit(0)
