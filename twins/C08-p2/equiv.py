import os, sys; sys.path.insert(0, os.getcwd())  # noqa: E702

import importlib.util
import random

HERE = os.path.dirname(os.path.abspath(__file__))


def load(name, path):
    spec = importlib.util.spec_from_file_location(name, path)
    mod = importlib.util.module_from_spec(spec)
    sys.modules[name] = mod
    spec.loader.exec_module(mod)
    return mod


import py_ecc.fields.field_elements as new_ref  # noqa: E402
import py_ecc.fields.optimized_field_elements as opt  # noqa: E402
from py_ecc.fields.field_properties import field_properties  # noqa: E402

assert os.path.abspath(new_ref.__file__).startswith(os.getcwd()), new_ref.__file__
old_ref = load(
    "pristine_field_elements", os.path.join(HERE, "pristine/fields/field_elements.py")
)
assert open(new_ref.__file__).read() != open(old_ref.__file__).read()

rng = random.Random(0xC0802)
CHECKS = 0
EXC_SEEN = set()


def mk(mod, p, mc2=None, mc12=None):
    out = {"FQ": type("FQ_x", (mod.FQ,), {"field_modulus": p})}
    if mc2 is not None:
        out["FQ2"] = type(
            "FQ2_x", (mod.FQ2,), {"field_modulus": p, "FQ2_MODULUS_COEFFS": mc2}
        )
    if mc12 is not None:
        out["FQ12"] = type(
            "FQ12_x", (mod.FQ12,), {"field_modulus": p, "FQ12_MODULUS_COEFFS": mc12}
        )
    return out


def norm(v, cls=None):
    if isinstance(v, (old_ref.FQ, new_ref.FQ)):
        return ("FQ", type(v.n).__name__, v.n, None if cls is None else type(v) is cls)
    if isinstance(v, (old_ref.FQP, new_ref.FQP)):
        return (
            "FQP",
            tuple((type(c.n).__name__, c.n) for c in v.coeffs),
            None if cls is None else type(v) is cls,
        )
    return (type(v).__name__, repr(v))


def run(f, cls):
    try:
        return ("ok", norm(f(), cls))
    except BaseException as e:  # noqa: B902
        if isinstance(e, (KeyboardInterrupt, SystemExit)):
            raise
        EXC_SEEN.add(type(e).__name__)
        return ("exc", type(e).__name__, str(e))


def same(label, f_old, f_new, co=None, cn=None):
    global CHECKS
    CHECKS += 1
    a, b = run(f_old, co), run(f_new, cn)
    if a != b:
        print("MISMATCH", label, a, b)
        sys.exit(1)
    return a


class MyInt(int):
    pass


BN = field_properties["bn128"]
BLS = field_properties["bls12_381"]
BAD = [1.5, 0.0, None, "3", b"3", (1,), [2], 3 + 0j, object]


def lefts(p):
    ap = abs(p)
    ls = [0, 1, 2, -1, -2, ap - 1, ap, ap + 1, -ap, -ap - 3, 2 * ap + 1, 7 * ap + 5,
          True, False, MyInt(4), MyInt(-4)]
    ls += [rng.randrange(-4 * ap - 4, 4 * ap + 4) for _ in range(5)]
    return ls


def selfs(p):
    ap = abs(p)
    return [0, 1, 2, ap - 1, ap - 2, ap // 2, ap, -1, ap + 1] + [
        rng.randrange(-2 * ap - 2, 2 * ap + 2) for _ in range(5)
    ]


def check_fq(p, exhaustive=False):
    O, N = mk(old_ref, p)["FQ"], mk(new_ref, p)["FQ"]
    # sibling classes: another field of the same module (unreduced n after copy),
    # and the optimized module's FQ (not an instance of this module's FQ)
    O2, N2 = mk(old_ref, 1009)["FQ"], mk(new_ref, 1009)["FQ"]
    X = mk(opt, abs(p) if p else 5)["FQ"]
    vs = range(-1, abs(p) + 2) if exhaustive else selfs(p)
    ls = list(range(-abs(p) - 2, 2 * abs(p) + 3)) + lefts(p) if exhaustive else lefts(p)
    for v in vs:
        for s in ls:
            same(("rsub", p, s, v), lambda: s - O(v), lambda: s - N(v), O, N)
            same(("rdiv", p, s, v), lambda: s / O(v), lambda: s / N(v), O, N)
            same(("m-rsub", p, s, v), lambda: O(v).__rsub__(s), lambda: N(v).__rsub__(s), O, N)
            same(("m-rdiv", p, s, v), lambda: O(v).__rdiv__(s), lambda: N(v).__rdiv__(s), O, N)
            same(
                ("m-rtruediv", p, s, v),
                lambda: O(v).__rtruediv__(s),
                lambda: N(v).__rtruediv__(s),
                O,
                N,
            )
            # FQ left operand handed to the reflected methods directly
            same(
                ("fq-rsub", p, s, v),
                lambda: O(v).__rsub__(O(s)),
                lambda: N(v).__rsub__(N(s)),
                O,
                N,
            )
            same(
                ("fq-rdiv", p, s, v),
                lambda: O(v).__rdiv__(O(s)),
                lambda: N(v).__rdiv__(N(s)),
                O,
                N,
            )
            # forward operators are untouched, but they are what we delegate to
            same(("sub", p, s, v), lambda: O(v) - s, lambda: N(v) - s, O, N)
            same(("div", p, s, v), lambda: O(v) / s, lambda: N(v) / s, O, N)
        for w in (0, 1, 5, 1008, 777):
            # FQ of another modulus on the left: n is taken over unreduced
            same(
                ("x-rsub", p, w, v),
                lambda: O(v).__rsub__(O2(w)),
                lambda: N(v).__rsub__(N2(w)),
                O,
                N,
            )
            same(
                ("x-rdiv", p, w, v),
                lambda: O(v).__rdiv__(O2(w)),
                lambda: N(v).__rdiv__(N2(w)),
                O,
                N,
            )
            same(("x-op-sub", p, w, v), lambda: O2(w) - O(v), lambda: N2(w) - N(v))
            same(("x-op-div", p, w, v), lambda: O2(w) / O(v), lambda: N2(w) / N(v))
        for b in BAD + [X(3)]:
            same(("bad-rsub", p, v, repr(b)), lambda: b - O(v), lambda: b - N(v))
            same(("bad-rdiv", p, v, repr(b)), lambda: b / O(v), lambda: b / N(v))
            same(
                ("bad-m-rsub", p, v, repr(b)),
                lambda: O(v).__rsub__(b),
                lambda: N(v).__rsub__(b),
            )
            same(
                ("bad-m-rdiv", p, v, repr(b)),
                lambda: O(v).__rdiv__(b),
                lambda: N(v).__rdiv__(b),
            )
        # operands are not mutated; repeated and interleaved calls agree
        xo, xn, lo, ln = O(v), N(v), O(3), N(3)
        r1 = same(("h1",), lambda: 9 - xo, lambda: 9 - xn)
        same(("h2",), lambda: xo.__rdiv__(lo), lambda: xn.__rdiv__(ln))
        same(("h3",), lambda: 0 / xo, lambda: 0 / xn)
        r2 = same(("h4",), lambda: 9 - xo, lambda: 9 - xn)
        assert r1 == r2 and xo.n == xn.n == v % p and lo.n == ln.n == 3 % p


for p in (2, 3, 5, 7, 11, 13):
    check_fq(p, exhaustive=True)
for p in (BN["field_modulus"], BLS["field_modulus"], 1, 4, 9, 15, -7, 2**127 - 1):
    check_fq(p)

# degenerate class with field_modulus 0 (instances only through the copying
# constructor): same exception classes
for v in (0, 1, 5):
    Os, Ns = mk(old_ref, 11)["FQ"], mk(new_ref, 11)["FQ"]
    Oz, Nz = mk(old_ref, 0)["FQ"], mk(new_ref, 0)["FQ"]
    for s in (0, 1, 3, -2):
        same(("z-rsub", v, s), lambda: s - Oz(Os(v)), lambda: s - Nz(Ns(v)))
        same(("z-rdiv", v, s), lambda: s / Oz(Os(v)), lambda: s / Nz(Ns(v)))
        same(
            ("z-fq-rsub", v, s),
            lambda: Oz(Os(v)).__rsub__(Os(s)),
            lambda: Nz(Ns(v)).__rsub__(Ns(s)),
        )
        same(
            ("z-fq-rdiv", v, s),
            lambda: Oz(Os(v)).__rdiv__(Os(s)),
            lambda: Nz(Ns(v)).__rdiv__(Ns(s)),
        )

# class without a field modulus cannot be instantiated in either version
same(("nomod",), lambda: old_ref.FQ(1), lambda: new_ref.FQ(1))


# ---- reference FQP: inv()/division run int - FQ and int / FQ on coefficients
def rand_coeffs(p, d, kind):
    if kind == "zero":
        return [0] * d
    if kind == "one":
        return [1] + [0] * (d - 1)
    if kind == "minus1":
        return [p - 1] + [0] * (d - 1)
    if kind == "pm1":
        return [p - 1] * d
    if kind == "sparse":
        c = [0] * d
        c[rng.randrange(d)] = rng.randrange(p)
        return c
    if kind == "wide":
        return [rng.randrange(-3 * p, 3 * p) for _ in range(d)]
    return [rng.randrange(p) for _ in range(d)]


KINDS = ["zero", "one", "minus1", "pm1", "sparse", "sparse", "wide", "rand", "rand", "rand"]


def check_fqp(p, mc2, mc12, reps=1):
    Ko, Kn = mk(old_ref, p, mc2, mc12), mk(new_ref, p, mc2, mc12)
    for name, d in (("FQ2", 2), ("FQ12", 12)):
        O, N = Ko[name], Kn[name]
        for _ in range(reps):
            for kind in KINDS:
                c = rand_coeffs(p, d, kind)
                same((name, p, "inv", c), lambda: O(c).inv(), lambda: N(c).inv(), O, N)
                c2 = rand_coeffs(p, d, rng.choice(KINDS))
                same((name, p, "div", c, c2), lambda: O(c) / O(c2), lambda: N(c) / N(c2), O, N)
                same((name, p, "mul", c, c2), lambda: O(c) * O(c2), lambda: N(c) * N(c2), O, N)
                same((name, p, "sub", c, c2), lambda: O(c) - O(c2), lambda: N(c) - N(c2), O, N)
                same((name, p, "neg", c), lambda: -O(c), lambda: -N(c), O, N)
                for s in (0, 1, -1, p, p + 2, Ko["FQ"](5)):
                    sn = Kn["FQ"](5) if hasattr(s, "n") else s
                    same((name, p, "sdiv", c, repr(s)), lambda: O(c) / s, lambda: N(c) / sn, O, N)
                    same((name, p, "smul", c, repr(s)), lambda: s * O(c), lambda: sn * N(c), O, N)
                for e in (0, 1, 2, 5, p if p < 2**64 else 2**20 + 3):
                    same((name, p, "pow", c, e), lambda: O(c) ** e, lambda: N(c) ** e, O, N)
                # x * inv(x) == 1 in the edited tree
                x = N(c)
                if any(int(k) for k in x.coeffs) and p > 100:
                    assert x * x.inv() == N.one(), (name, p, c)
                    assert (N(c2) / x) * x == N(c2)


check_fqp(BN["field_modulus"], BN["fq2_modulus_coeffs"], BN["fq12_modulus_coeffs"])
check_fqp(BLS["field_modulus"], BLS["fq2_modulus_coeffs"], BLS["fq12_modulus_coeffs"])
check_fqp(3, (1, 0), (2, 0, 0, 0, 0, 0, 1, 0, 0, 0, 0, 0), reps=3)
check_fqp(7, (1, 0), (3, 0, 0, 0, 0, 0, -2, 0, 0, 0, 0, 0), reps=3)
check_fqp(2, (1, 1), (1, 0, 0, 1, 0, 0, 0, 0, 0, 0, 0, 0), reps=3)
check_fqp(5, (1, 1), (2, 0, 0, 0, 0, 0, 1, 0, 0, 0, 0, 0), reps=3)

# exhaustive GF(p^2): inverse and division of every element / pair sample
for p, mc2 in ((2, (1, 1)), (3, (1, 0)), (5, (1, 1)), (7, (1, 0)), (11, (1, 0))):
    O, N = mk(old_ref, p, mc2)["FQ2"], mk(new_ref, p, mc2)["FQ2"]
    for a in range(p):
        for b in range(p):
            same(("ex-inv", p, a, b), lambda: O([a, b]).inv(), lambda: N([a, b]).inv(), O, N)
            for c in range(p):
                d = (a + 2 * c + 1) % p
                same(
                    ("ex-div", p, a, b, c, d),
                    lambda: O([c, d]) / O([a, b]),
                    lambda: N([c, d]) / N([a, b]),
                    O,
                    N,
                )

assert "TypeError" in EXC_SEEN and "ZeroDivisionError" in EXC_SEEN, EXC_SEEN
print("p2 equivalence OK:", CHECKS, "comparisons; exception classes seen:", sorted(EXC_SEEN))
