import os, sys; sys.path.insert(0, os.getcwd())  # noqa: E702

"""
Equivalence demonstration for refactoring r1 (property C05).

Loads the pristine py_ecc/bn128/bn128_pairing.py (saved next to this script)
under the name py_ecc.bn128._pristine_pairing, so that its relative imports
resolve against the same curve/field modules as the refactored module, and
compares both modules on valid, boundary, infinite, off-curve and malformed
inputs: identical return values (coefficient by coefficient) or identical
exception classes.
"""
import importlib.util
import multiprocessing
import random

HERE = os.path.dirname(os.path.abspath(__file__))


def load_pristine():
    name = "py_ecc.bn128._pristine_pairing"
    if name in sys.modules:
        return sys.modules[name]
    import py_ecc.bn128  # noqa: F401  (make the parent package available)

    spec = importlib.util.spec_from_file_location(
        name, os.path.join(HERE, "pristine", "bn128_pairing.py")
    )
    mod = importlib.util.module_from_spec(spec)
    sys.modules[name] = mod
    spec.loader.exec_module(mod)
    return mod


def outcome(fn, *args):
    try:
        return ("ok", canon(fn(*args)))
    except BaseException as e:  # noqa: BLE001
        return ("exc", type(e).__name__)


def canon(v):
    """Canonical, comparable form of a field element / point / None."""
    if v is None:
        return None
    if isinstance(v, tuple):
        return tuple(canon(c) for c in v)
    if hasattr(v, "coeffs"):
        return (type(v).__name__, tuple(int(c) for c in v.coeffs))
    if hasattr(v, "n"):
        return (type(v).__name__, int(v.n))
    return v


def build_cases():
    from py_ecc.bn128 import bn128_curve as c
    from py_ecc.fields import bn128_FQ as FQ, bn128_FQ2 as FQ2

    rnd = random.Random(0xC05)
    r = c.curve_order
    G1, G2 = c.G1, c.G2
    cases = []

    # scalars of the property: 0, 1, 2, r-1, r, random full width
    wide = [rnd.randrange(r) for _ in range(2)]
    for a, bb in [(1, 1), (2, 1), (1, 2), (r - 1, 1), (1, r - 1),
                  (wide[0], wide[1]), (wide[1], 2)]:
        cases.append(("pairing", c.multiply(G2, bb), c.multiply(G1, a)))
    # sums and negations
    cases.append(("pairing", c.add(G2, c.multiply(G2, 5)), c.neg(G1)))
    cases.append(("pairing", c.neg(G2), c.add(G1, c.multiply(G1, 7))))
    # infinity in either / both arguments (also as multiples by 0 and r)
    cases.append(("pairing", None, G1))
    cases.append(("pairing", G2, None))
    cases.append(("pairing", None, None))
    cases.append(("pairing", c.multiply(G2, r), G1))
    cases.append(("pairing", G2, c.multiply(G1, 0)))
    # off-curve inputs
    cases.append(("pairing", G2, (FQ(1), FQ(3))))
    cases.append(("pairing", (G2[0], G2[1] + FQ2([1, 0])), G1))
    cases.append(("pairing", (G2[0] * 2, G2[1]), (FQ(5), FQ(5))))
    cases.append(("pairing", None, (FQ(0), FQ(0))))
    cases.append(("pairing", (FQ2([0, 0]), FQ2([0, 0])), None))
    # malformed inputs
    cases.append(("pairing", G1, G2))  # swapped groups
    cases.append(("pairing", G2, (1, 2)))
    cases.append(("pairing", G2, (FQ(1), FQ(2), FQ(1))))
    cases.append(("pairing", (G2[0],), G1))
    cases.append(("pairing", "junk", G1))
    cases.append(("pairing", G2, 7))
    # miller_loop called directly, incl. the None short-circuit
    cases.append(("miller", None, c.G12))
    cases.append(("miller", c.G12, None))
    cases.append(("miller", c.G12, (1, 2)))
    cases.append(("miller", (1, 2), c.G12))
    return cases


CASES = []  # filled in before the worker processes are forked


def run_case(index):
    case = CASES[index]
    import py_ecc.bn128.bn128_pairing as new
    from py_ecc.bn128 import bn128_curve as c

    old = load_pristine()
    kind, Q, P = case
    if kind == "pairing":
        a, b_ = outcome(old.pairing, Q, P), outcome(new.pairing, Q, P)
    else:
        a, b_ = outcome(old.miller_loop, Q, P), outcome(new.miller_loop, Q, P)
    # a slow result is worth a second look: unit on infinity
    if kind == "pairing" and a[0] == "ok" and (Q is None or P is None):
        assert a[1] == canon(new.FQ12.one())
    del c
    return (a == b_, a[0], a[1] if a[0] == "exc" else None)


def cheap_checks():
    """Helpers that are fast enough to be swept over many inputs."""
    import py_ecc.bn128.bn128_pairing as new
    from py_ecc.bn128 import bn128_curve as c
    from py_ecc.fields import bn128_FQ as FQ, bn128_FQ12 as FQ12

    old = load_pristine()
    rnd = random.Random(5)
    n = 0
    # module level data is unchanged
    for name in ("ate_loop_count", "log_ate_loop_count", "field_modulus"):
        assert getattr(old, name) == getattr(new, name)
    assert new.FINAL_EXPONENT == (old.field_modulus**12 - 1) // old.curve_order
    # the rewritten bit test selects the same iterations
    for i in range(old.log_ate_loop_count, -1, -1):
        assert bool(old.ate_loop_count & (2**i)) == bool(
            (new.ate_loop_count >> i) & 1
        )
        n += 1
    # Frobenius helper == the inlined expressions, on points and non-points
    pts = [c.G12, c.twist(c.multiply(c.G2, 3)), c.twist(c.multiply(c.G2, c.curve_order - 1))]
    for Q in pts:
        Q1 = (Q[0] ** old.field_modulus, Q[1] ** old.field_modulus)
        nQ2 = (Q1[0] ** old.field_modulus, -Q1[1] ** old.field_modulus)
        assert canon(new._frobenius(Q)) == canon(Q1)
        fx, fy = new._frobenius(Q1)
        assert canon((fx, -fy)) == canon(nQ2)
        n += 2
    # linefunc / cast_point_to_fq12 are untouched but still compared
    g = [c.multiply(c.G1, k) for k in (1, 2, 3, 5, c.curve_order - 1, c.curve_order - 2)]
    for A in g + [None]:
        for B in g[:3] + [None]:
            for T in g[:4] + [None]:
                assert outcome(old.linefunc, A, B, T) == outcome(new.linefunc, A, B, T)
                n += 1
        assert outcome(old.cast_point_to_fq12, A) == outcome(new.cast_point_to_fq12, A)
    # final_exponentiate: same values, same errors
    elems = [FQ12.one(), FQ12.zero(), FQ12([rnd.randrange(old.field_modulus) for _ in range(12)])]
    for e in elems:
        assert outcome(old.final_exponentiate, e) == outcome(new.final_exponentiate, e)
        n += 1
    for bad in (None, "x", (1, 2)):
        assert outcome(old.final_exponentiate, bad) == outcome(
            new.final_exponentiate, bad
        ), bad
        n += 1
    del FQ
    return n


def main():
    cases = build_cases()
    CASES.extend(cases)  # field elements do not pickle: workers inherit them by fork
    multiprocessing.set_start_method("fork")
    with multiprocessing.Pool(6) as pool:
        cheap = pool.apply_async(cheap_checks)
        results = pool.map(run_case, range(len(cases)), chunksize=1)
        n_cheap = cheap.get()
    bad = [(c, r) for c, r in zip(cases, results) if not r[0]]
    n_ok = sum(1 for r in results if r[1] == "ok")
    n_exc = sum(1 for r in results if r[1] == "exc")
    print(f"pairing/miller_loop cases: {len(cases)} ({n_ok} values, {n_exc} exceptions: "
          f"{sorted({r[2] for r in results if r[2]})}); helper checks: {n_cheap}")
    if bad:
        for c, r in bad:
            print("MISMATCH", c[0], r)
        sys.exit(1)
    assert n_ok >= 12 and n_exc >= 8
    print("EQUIVALENT")


if __name__ == "__main__":
    main()
