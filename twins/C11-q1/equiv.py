import os, sys; sys.path.insert(0, os.getcwd())  # noqa: E702

"""
Equivalence demonstration for property C11 (ZCash point (de)serialization).

Loads the pristine copy of py_ecc/bls/point_compression.py (saved next to this
script under pristine/) as a second module and compares it, call by call, with
the edited module of the current working tree: same return values (exact types
and coefficients), same exception classes and messages, same object identity for
the shared infinity constants, no mutation of module-level constants, and the
same answers when calls are repeated and interleaved.
"""
import importlib
import importlib.util
import random
import time

HERE = os.path.dirname(os.path.abspath(__file__))
T0 = time.time()

import py_ecc.bls.constants as bls_constants  # noqa: E402
import py_ecc.bls.g2_primitives as new_prims  # noqa: E402
import py_ecc.bls.point_compression as new_pc  # noqa: E402
from py_ecc.fields import (  # noqa: E402
    optimized_bls12_381_FQ as FQ,
    optimized_bls12_381_FQ2 as FQ2,
)
from py_ecc.optimized_bls12_381 import (  # noqa: E402
    G1,
    G2,
    Z1,
    Z2,
    add,
    b,
    b2,
    curve_order,
    field_modulus as q,
    is_on_curve,
    multiply,
    normalize,
)

assert os.path.abspath(new_pc.__file__).startswith(os.getcwd()), new_pc.__file__


def load_as(name, path):
    spec = importlib.util.spec_from_file_location(name, path)
    mod = importlib.util.module_from_spec(spec)
    sys.modules[name] = mod
    spec.loader.exec_module(mod)
    return mod


old_pc = load_as(
    "py_ecc.bls.point_compression_pristine",
    os.path.join(HERE, "pristine", "point_compression.py"),
)
# a second copy of the (untouched) byte-level helpers, rebound to the pristine
# compression functions
old_prims = load_as("py_ecc.bls.g2_primitives_pristine", new_prims.__file__)
for _n in ("compress_G1", "compress_G2", "decompress_G1", "decompress_G2"):
    setattr(old_prims, _n, getattr(old_pc, _n))
    assert getattr(new_prims, _n) is getattr(new_pc, _n)
assert old_pc is not new_pc and old_pc.decompress_G1 is not new_pc.decompress_G1

rng = random.Random(0xC11)
N_CHECKS = 0


# ---------------------------------------------------------------- canonical form
def canon(v):
    if v is None or isinstance(v, (bool, bytes, str)):
        return (type(v).__name__, v)
    if isinstance(v, int):
        return (type(v).__name__, int(v))
    if isinstance(v, FQ):
        return (type(v).__name__, type(v.n).__name__, v.n)
    if isinstance(v, FQ2):
        return (
            type(v).__name__,
            tuple((type(c).__name__, int(c)) for c in v.coeffs),
            tuple(int(c) for c in v.modulus_coeffs),
        )
    if isinstance(v, tuple):
        return ("tuple", tuple(canon(e) for e in v))
    raise AssertionError(f"unexpected value {type(v)}")


def outcome(fn, *args):
    try:
        r = fn(*args)
    except Exception as e:  # noqa: BLE001
        return ("raise", type(e), str(e)), None
    return ("ok", canon(r)), r


def same(name, *args, ident=()):
    """call old and new, require identical outcome; return new result or None"""
    global N_CHECKS
    N_CHECKS += 1
    o, o_r = outcome(getattr(old_pc, name), *args)
    n, n_r = outcome(getattr(new_pc, name), *args)
    assert o == n, (name, args, o, n)
    for const in ident:
        assert (o_r is const) == (n_r is const), (name, args, "identity")
    return n


def same_prims(name, *args):
    global N_CHECKS
    N_CHECKS += 1
    o, _ = outcome(getattr(old_prims, name), *args)
    n, _ = outcome(getattr(new_prims, name), *args)
    assert o == n, (name, args, o, n)
    return n


def snapshot_constants():
    return (
        canon(Z1),
        canon(Z2),
        canon(tuple(bls_constants.EIGHTH_ROOTS_OF_UNITY)),
        bls_constants.FQ2_ORDER,
        bls_constants.POW_2_381,
        bls_constants.POW_2_382,
        bls_constants.POW_2_383,
        canon(b),
        canon(b2),
        canon(G1),
        canon(G2),
        tuple(
            (k, canon(v))
            for k, v in sorted(vars(new_pc).items())
            if k.isupper() and isinstance(v, (int, tuple, FQ, FQ2))
        ),
    )


SNAP0 = snapshot_constants()
roots = bls_constants.EIGHTH_ROOTS_OF_UNITY
assert len(roots) == 8
assert len({tuple(r.coeffs) for r in roots}) == 8, "eighth roots must be distinct"


# ---------------------------------------------------------------- cube roots
def cube_root(w, one, rand_elem, order):
    """a cube root of w in a field of multiplicative order `order`, or None"""
    if w == one * 0:
        return None
    assert order % 9 == 0 and (order // 9) % 3 != 0
    t = order // 9
    if w ** (order // 3) != one:
        return None
    e = pow(3, -1, t)
    r = w**e
    while True:
        g = rand_elem() ** t
        if g**3 != one:
            break
    h = one
    for _ in range(9):
        if (r * h) ** 3 == w:
            return r * h
        h = h * g
    raise AssertionError("cube root search failed")


def g1_points_with_y(yn):
    x = cube_root(
        FQ(yn) ** 2 - b, FQ(1), lambda: FQ(rng.randrange(1, q)), q - 1
    )
    if x is None:
        return []
    pt = (x, FQ(yn), FQ(1))
    assert is_on_curve(pt, b)
    return [pt]


def g2_points_with_y(y):
    x = cube_root(
        y * y - b2,
        FQ2([1, 0]),
        lambda: FQ2([rng.randrange(q), rng.randrange(1, q)]),
        q * q - 1,
    )
    if x is None:
        return []
    pt = (x, y, FQ2([1, 0]))
    assert is_on_curve(pt, b2)
    return [pt]


def rescale(pt, k):
    """another projective representative of the same point"""
    x, y, z = pt
    return (x * k, y * k, z * k)


# ---------------------------------------------------------------- points
scalars = [1, 2, 3, 5, 7, 2**16 + 1, curve_order - 1, curve_order - 2]
scalars += [rng.randrange(1, curve_order) for _ in range(6)]

g1_points = [multiply(G1, k) for k in scalars]
g2_points = [multiply(G2, k) for k in scalars]

# special y values: near (p-1)/2, 1, p-1
y_cands = []
for k in range(12):
    # just below / just above the sign threshold, and at both ends of the range
    y_cands += [(q - 1) // 2 - k, (q + 1) // 2 + k, 1 + k, q - 1 - k]
for yn in y_cands:
    g1_points += g1_points_with_y(yn)
n_special_g1 = len(g1_points) - len(scalars)

special_y2 = []
cands = [1, 2, 3, (q - 1) // 2, (q + 1) // 2, q - 1, q - 2, q - 3]
cands += [rng.randrange(1, q) for _ in range(6)]
for c in cands:
    special_y2.append(FQ2([c, 0]))  # zero imaginary part
    special_y2.append(FQ2([0, c]))  # zero real part
    special_y2.append(FQ2([c, (q - 1) // 2]))
    special_y2.append(FQ2([c, (q + 1) // 2]))
n_before = len(g2_points)
n_yim0 = n_yre0 = 0
for y in special_y2:
    pts = g2_points_with_y(y)
    g2_points += pts
    if pts and y.coeffs[1] == 0:
        n_yim0 += 1
    if pts and y.coeffs[0] == 0:
        n_yre0 += 1
assert n_special_g1 >= 6 and n_yim0 >= 2 and n_yre0 >= 2, (n_special_g1, n_yim0, n_yre0)

# non-subgroup points from decompression of arbitrary x (done below as well)
# projective representatives
g1_all = []
for pt in g1_points:
    g1_all.append(pt)
    g1_all.append(rescale(pt, FQ(rng.randrange(2, q))))
    g1_all.append(rescale(pt, FQ(q - 1)))
g2_all = []
for pt in g2_points:
    g2_all.append(pt)
    g2_all.append(rescale(pt, FQ2([rng.randrange(q), rng.randrange(1, q)])))
    g2_all.append(rescale(pt, FQ2([q - 1, 0])))
    g2_all.append(rescale(pt, FQ2([0, 1])))

# infinity in several representations
g1_inf = [
    Z1,
    (FQ(1), FQ(1), FQ(0)),
    (FQ(0), FQ(1), FQ(0)),
    (FQ(5), FQ(7), FQ(0)),
    (FQ(0), FQ(0), FQ(0)),
    add(G1, multiply(G1, curve_order - 1)),
    multiply(G1, curve_order),
]
g2_inf = [
    Z2,
    (FQ2([1, 0]), FQ2([1, 0]), FQ2([0, 0])),
    (FQ2([0, 0]), FQ2([1, 0]), FQ2([0, 0])),
    (FQ2([3, 4]), FQ2([3, 4]), FQ2([0, 0])),
    (FQ2([3, 4]), FQ2([5, 6]), FQ2([0, 0])),
    add(G2, multiply(G2, curve_order - 1)),
    multiply(G2, curve_order),
]
# off-curve G2 inputs (compress_G2 refuses them), finite and "infinite"
g2_bad = [
    (FQ2([1, 2]), FQ2([3, 4]), FQ2([1, 0])),
    (G2[0], G2[1] + FQ2([1, 0]), G2[2]),
    (FQ2([0, 0]), FQ2([0, 0]), FQ2([1, 0])),
]
# off-curve G1 inputs (compress_G1 does not check; must still agree)
g1_bad = [(FQ(1), FQ(1), FQ(1)), (FQ(0), FQ(0), FQ(1)), (FQ(3), FQ(q - 1), FQ(2))]


def norm_or_inf(pt, zero):
    return None if pt[2] == zero else canon(normalize(pt))


accepted_g1_words = []
accepted_g2_words = []

for pt in g1_all + g1_inf + g1_bad:
    before = canon(pt)
    res = same("compress_G1", pt)
    assert canon(pt) == before, "argument mutated"
    pk = same_prims("G1_to_pubkey", pt)
    if res[0] == "ok":
        z = res[1][1]
        assert pk[0] == "ok" and len(pk[1][1]) == 48
        d = same("decompress_G1", z, ident=(Z1,))
        if pt not in g1_bad:
            accepted_g1_words.append(z)
            # round trip (the property itself)
            assert d[0] == "ok"
            back = new_pc.decompress_G1(z)
            assert norm_or_inf(back, FQ(0)) == norm_or_inf(pt, FQ(0)), pt
        same_prims("pubkey_to_G1", pk[1][1])

for pt in g2_all + g2_inf + g2_bad:
    before = canon(pt)
    res = same("compress_G2", pt)
    assert canon(pt) == before, "argument mutated"
    sig = same_prims("G2_to_signature", pt)
    if pt in g2_bad:
        assert res[0] == "raise" and res[1] is ValueError
    if res[0] == "ok":
        z1, z2 = (w[1] for w in res[1][1])
        assert sig[0] == "ok" and len(sig[1][1]) == 96
        d = same("decompress_G2", (z1, z2), ident=(Z2,))
        accepted_g2_words.append((z1, z2))
        assert d[0] == "ok"
        back = new_pc.decompress_G2((z1, z2))
        assert norm_or_inf(back, FQ2([0, 0])) == norm_or_inf(pt, FQ2([0, 0])), pt
        same_prims("signature_to_G2", sig[1][1])

print(f"points done: {N_CHECKS} comparisons, {time.time() - T0:.1f}s")

# ---------------------------------------------------------------- words
P381, P382, P383 = 2**381, 2**382, 2**383
flag_combos = [c * P383 + bb * P382 + a * P381 for c in (0, 1) for bb in (0, 1) for a in (0, 1)]

on_x1 = [w % P381 for w in accepted_g1_words if w % P381][:6]
off_x1 = []
x = 0
while len(off_x1) < 4:
    x += 1
    if pow((x**3 + 4) % q, (q - 1) // 2, q) != 1:
        off_x1.append(x)
xs1 = [0, 1, 2, 3, q - 1, q, q + 1, P381 - 1, (q - 1) // 2, (q + 1) // 2]
xs1 += on_x1 + off_x1 + [rng.randrange(q) for _ in range(12)]

n_acc = 0
for f in flag_combos:
    for xv in xs1:
        z = f + xv
        res = same("decompress_G1", z, ident=(Z1,))
        zb = z.to_bytes(48, "big")
        same_prims("pubkey_to_G1", zb)
        if res[0] == "ok":
            n_acc += 1
            pt = new_pc.decompress_G1(z)
            assert pt[2] == FQ(0) or is_on_curve(pt, b)
            c = same("compress_G1", pt)
            assert c == ("ok", canon(z)), (z, c)  # canonical
            assert same_prims("G1_to_pubkey", pt) == ("ok", canon(zb))
        else:
            assert res[1] is ValueError
assert n_acc >= 20
print(f"G1 words done: {N_CHECKS} comparisons, {n_acc} accepted, {time.time() - T0:.1f}s")

# flags / get_flags / is_point_at_infinity directly
for f in flag_combos:
    for xv in [0, 1, q - 1, q, P381 - 1]:
        same("get_flags", f + xv)
        same("is_point_at_infinity", f + xv)
        for z2 in [None, 0, 1, q, P381, P383]:
            same("is_point_at_infinity", f + xv, z2)

# G2 words
on_pairs = [(w1 % P381, w2) for (w1, w2) in accepted_g2_words if w1 % P381 or w2]
x1_vals = [0, 1, q - 1, q, q + 1, P381 - 1]
z2_vals = [0, 1, q - 1, q, q + 1, P381 - 1, P381, P382, P383, P383 + P382, P381 + 1, 2**384 - 1]
pairs = []
for x1v in x1_vals:
    for z2v in z2_vals:
        pairs.append((x1v, z2v))
for (x1v, x2v) in on_pairs[:10]:
    pairs.append((x1v, x2v))
    pairs.append((x1v, x2v + P381))  # flag bit in the second word
    pairs.append((x1v, x2v + P383))
    pairs.append((x1v, x2v + P382))
    pairs.append((x1v, (x2v + 1) % q))  # most likely off curve / other point
for (x1v, x2v) in on_pairs[10:]:
    pairs.append((x1v, x2v))
for _ in range(10):
    pairs.append((rng.randrange(q), rng.randrange(q)))

n_acc2 = 0
n_nosqrt = 0
for f in flag_combos:
    # only the pairs that reach the expensive square root once per sign flag
    for (x1v, z2v) in pairs:
        z = (f + x1v, z2v)
        res = same("decompress_G2", z, ident=(Z2,))
        if res[0] == "ok":
            n_acc2 += 1
            pt = new_pc.decompress_G2(z)
            assert pt[2] == FQ2([0, 0]) or is_on_curve(pt, b2)
            c = same("compress_G2", pt)
            assert c == ("ok", canon(z)), (z, c)
        else:
            assert res[1] is ValueError
            if "squareroot" in res[2]:
                n_nosqrt += 1
        if max(z) < 2**384:
            zb = z[0].to_bytes(48, "big") + z[1].to_bytes(48, "big")
            r2 = same_prims("signature_to_G2", zb)
            assert r2 == res
            if res[0] == "ok":
                assert same_prims("G2_to_signature", pt) == ("ok", canon(zb))
assert n_acc2 >= 40 and n_nosqrt >= 5, (n_acc2, n_nosqrt)
print(
    f"G2 words done: {N_CHECKS} comparisons, {n_acc2} accepted, "
    f"{n_nosqrt} without square root, {time.time() - T0:.1f}s"
)

# ---------------------------------------------------------------- square roots
vals = [FQ2([1, 0]), FQ2([0, 1]), FQ2([q - 1, 0]), FQ2([0, q - 1]), FQ2([4, 0]), FQ2([2, 0])]
vals += [FQ2([0, 0])]
vals += list(roots)
vals += [FQ2([rng.randrange(q), rng.randrange(q)]) for _ in range(20)]
vals += [v * v for v in vals[-10:]]
vals += [FQ2([rng.randrange(q), 0]) for _ in range(5)]
for v in vals:
    before = canon(v)
    res = same("modular_squareroot_in_FQ2", v)
    assert canon(v) == before
    if res[0] == "ok" and res[1][1] is not None:
        r = new_pc.modular_squareroot_in_FQ2(v)
        assert r * r == v
print(f"square roots done: {N_CHECKS} comparisons, {time.time() - T0:.1f}s")

# ---------------------------------------------------------------- call histories
# repeat and interleave calls with equal and different arguments; every answer
# must equal the first answer for that argument, in both versions
history = []
for z in accepted_g1_words[:6] + [0, P383, P383 + P382, P383 + P382 + P381, P383 + q]:
    history.append(("decompress_G1", z))
for z in accepted_g2_words[:4] + [(P383 + P382, 0), (P383, 0), (P383 + 1, P381), (0, 0)]:
    history.append(("decompress_G2", z))
for pt in g1_all[:4] + g1_inf[:3]:
    history.append(("compress_G1", pt))
for pt in g2_all[:4] + g2_inf[:3] + g2_bad[:1]:
    history.append(("compress_G2", pt))
for v in vals[:4]:
    history.append(("modular_squareroot_in_FQ2", v))
first = {}
seq = history * 2
rng.shuffle(seq)
seq = history + seq + history[::-1]
for i, (name, arg) in enumerate(seq):
    res = same(name, arg, ident=(Z1, Z2))
    key = (name, repr(canon(arg)))
    if key in first:
        assert first[key] == res, ("history dependent", name, arg)
    else:
        first[key] = res
    assert snapshot_constants() == SNAP0 if i % 10 == 0 else True

assert snapshot_constants() == SNAP0, "a module-level constant was mutated"
print(f"OK: {N_CHECKS} comparisons identical, {time.time() - T0:.1f}s")
