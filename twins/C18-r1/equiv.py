import os, sys; sys.path.insert(0, os.getcwd())

"""
Equivalence demonstration for a refactoring of py_ecc/secp256k1/secp256k1.py.

Loads the pristine copy (saved next to this script under pristine/) under a
different module name and the refactored module from the current working
directory, then compares return values (including types) and exception classes
on a broad input set:

  * real secp256k1: generic pairs, P+P, P+(-P), identity operands, boundary and
    random scalars (negative, >= N, up to 512 bits), privtopub on byte strings;
  * the Jacobian-level helpers and inv() called directly, including z = 0,
    y = 0, unreduced and negative coordinates;
  * malformed inputs (None, strings, floats, short tuples, lists);
  * both modules re-parameterised to small prime-order curves (constants
    replaced in the module namespace) with every pair and a full scalar range
    enumerated, additionally checked against an independent affine group law;
  * ECDSA sign / recover, which are built on the same functions;
  * purity: mutable (list) operands are not modified.
"""

import copy
import importlib.util
import random
import time

HERE = os.path.dirname(os.path.abspath(__file__))
T0 = time.time()


def load(path, name):
    spec = importlib.util.spec_from_file_location(name, path)
    mod = importlib.util.module_from_spec(spec)
    spec.loader.exec_module(mod)
    return mod


OLD = load(os.path.join(HERE, "pristine", "secp256k1.py"), "secp256k1_pristine")

import py_ecc.secp256k1.secp256k1 as NEW  # noqa: E402

assert os.path.realpath(NEW.__file__).startswith(
    os.path.realpath(os.getcwd())
), "refactored module not imported from cwd: %s" % NEW.__file__
assert os.path.realpath(NEW.__file__) != os.path.realpath(OLD.__file__)

# the public package must still re-export the same names
import py_ecc.secp256k1 as PKG  # noqa: E402

for _name in ("G", "N", "P", "ecdsa_raw_recover", "ecdsa_raw_sign", "privtopub"):
    assert hasattr(PKG, _name), _name

CHECKS = 0
FAILS = []


def shape(v):
    """value + type structure, so 1 vs True vs 1.0 or tuple vs list differ"""
    if isinstance(v, (tuple, list)):
        return (type(v).__name__, tuple(shape(e) for e in v))
    if isinstance(v, float) and v != v:
        return ("float", "nan")
    return (type(v).__name__, v)


def run(mod, fname, args):
    args = copy.deepcopy(args)
    before = copy.deepcopy(args)
    old_limit = sys.getrecursionlimit()
    try:
        res = ("ok", shape(getattr(mod, fname)(*args)))
    except RecursionError:
        res = ("exc", "RecursionError")
    except Exception as e:  # noqa: BLE001
        res = ("exc", type(e).__name__)
    finally:
        sys.setrecursionlimit(old_limit)
    pure = shape(list(args)) == shape(list(before))
    return res, pure


def check(fname, *args):
    global CHECKS
    CHECKS += 1
    a, pa = run(OLD, fname, args)
    b, pb = run(NEW, fname, args)
    if a != b or pa != pb or not pa:
        FAILS.append((fname, args, a, b, pa, pb))
        if len(FAILS) <= 10:
            print("MISMATCH", fname, repr(args)[:200], a, b, pa, pb)
    return a


# ---------------------------------------------------------------- constants
for name in ("P", "N", "A", "B", "Gx", "Gy", "G"):
    assert shape(getattr(OLD, name)) == shape(getattr(NEW, name)), name
assert NEW.P == 2**256 - 2**32 - 977
assert NEW.N == 0xFFFFFFFFFFFFFFFFFFFFFFFFFFFFFFFEBAAEDCE6AF48A03BBFD25E8CD0364141
assert (NEW.Gy**2 - NEW.Gx**3 - 7) % NEW.P == 0

public = sorted(n for n in dir(OLD) if not n.startswith("_"))
for n in public:
    assert hasattr(NEW, n), "name removed: " + n

rng = random.Random(0xC18)
P, N, G = OLD.P, OLD.N, OLD.G

# ---------------------------------------------------------------- inv
inv_args = [0, 1, 2, 3, -1, -2, P - 1, P, P + 1, 2 * P, -P, 3 * P + 5, N, N - 1]
inv_args += [rng.randrange(1, P) for _ in range(200)]
inv_args += [rng.randrange(-(2**300), 2**300) for _ in range(100)]
for a in inv_args:
    for n in (P, N, 2, 3, 5, 7, 97, 1, 0, -7, 2**61 - 1):
        check("inv", a, n)
for bad in (None, "1", 1.5, 2.0, b"\x01", (1,), True, False):
    check("inv", bad, P)
    check("inv", 5, bad)
for a in rng.sample(inv_args, 50):
    r = NEW.inv(a, P)
    if a % P:
        assert (r * a) % P == 1
    else:
        assert r == (0 if a == 0 else 1)

# ---------------------------------------------------------------- points
scalars_small = [1, 2, 3, 4, 5, 7, 8, 15, 16, 17, 255, 256, 65537]
points = [G]
for k in scalars_small[1:]:
    points.append(OLD.multiply(G, k))
for _ in range(12):
    points.append(OLD.multiply(G, rng.randrange(1, N)))
ident = (0, 0)


def neg(pt):
    return (pt[0], (-pt[1]) % P)


beta = pow(2, (P - 1) // 3, P)  # cube root of unity: same y, different x
special = []
for pt in points[:6]:
    special.append(neg(pt))
    special.append(((pt[0] * beta) % P, pt[1]))
    special.append(((pt[0] * beta) % P, (-pt[1]) % P))
unreduced = [(G[0] + P, G[1]), (G[0], G[1] + P), (G[0] - P, G[1] - P), (G[0], -G[1])]
offcurve = [(1, 1), (0, 1), (1, 0), (5, 0), (0, 7), (P, P), (P, 1), (1, P), (2, 3)]
allpts = points + special + [ident] + unreduced + offcurve

for a in allpts:
    for b in allpts:
        check("add", a, b)
for a in points:
    check("add", a, a)
    check("add", a, neg(a))
    check("add", neg(a), a)
    check("add", a, ident)
    check("add", ident, a)
check("add", ident, ident)
# lists as operands (purity)
check("add", [G[0], G[1]], [G[0], G[1]])
check("add", [0, 0], [G[0], G[1]])
check("add", [G[0], G[1]], [0, 0])
check("add", [G[0], G[1]], list(points[3]))
# longer sequences
check("add", (G[0], G[1], 5), (G[0], G[1], 9, 9))

scalars = [0, 1, 2, 3, 4, 5, N - 2, N - 1, N, N + 1, N + 2, 2 * N, 2 * N + 1]
scalars += [2 * N + 12345, 3 * N - 1, -1, -2, -3, -N, -N - 1, -N + 1, -2 * N - 77]
scalars += [N // 2, N // 2 + 1, (N - 1) // 2, 2**255, 2**256 - 1, 2**256, 2**256 + 1]
scalars += [P, P - 1, P + 1, True, False]
scalars += [rng.randrange(0, N) for _ in range(12)]
scalars += [rng.getrandbits(512) for _ in range(8)]
scalars += [-rng.getrandbits(512) for _ in range(4)]
scalars += [rng.getrandbits(b) for b in (8, 16, 64, 128, 257, 300)]
for n in scalars:
    check("multiply", G, n)
    check("multiply", ident, n)
for pt in points[1:8] + special[:4] + unreduced + offcurve[:5]:
    for n in scalars[:30] + scalars[-10:-4]:
        check("multiply", pt, n)
check("multiply", [G[0], G[1]], 12345)
check("multiply", [0, 0], 12345)

# n*P consistency against repeated addition on the refactored module
acc = ident
for k in range(0, 40):
    assert NEW.multiply(G, k) == acc, k
    assert NEW.multiply(G, k - N) == acc and NEW.multiply(G, k + 2 * N) == acc
    acc = NEW.add(acc, G)
assert NEW.multiply(G, N) == ident and NEW.multiply(G, -1) == neg(G)

# malformed
bad_pts = [None, (), (1,), "ab", b"ab", 5, (None, None), ("a", "b"), (1.5, 2.5),
           (G[0], None), (None, G[1]), (float(3), float(4)), [1], {}, {0: 1, 1: 2}]
for bp in bad_pts:
    check("add", bp, G)
    check("add", G, bp)
    check("add", bp, bp)
    check("add", bp, ident)
    check("add", ident, bp)
    check("multiply", bp, 0)
    check("multiply", bp, 1)
    check("multiply", bp, 2)
    check("multiply", bp, 7)
    check("multiply", bp, -3)
bad_ns = [None, "3", b"\x03", 1.0, 2.0, 3.0, 2.5, 0.5, 7.25, -1.0, -2.5, 1e30,
          float("inf"), (1,), [2], 0.0, -0.0, 6.0, 1e3, 2**70 + 0.0]
for bn in bad_ns:
    check("multiply", G, bn)
    check("multiply", ident, bn)
    check("multiply", points[4], bn)
    check("jacobian_multiply", (G[0], G[1], 1), bn)
    check("jacobian_multiply", (0, 0, 1), bn)

# ---------------------------------------------------------------- jacobian level
def rand_jac(pt):
    z = rng.randrange(1, P)
    return ((pt[0] * z * z) % P, (pt[1] * z**3) % P, z)


jacs = [(0, 0, 0), (0, 0, 1), (1, 0, 1), (5, 0, 0), (0, 1, 0), (1, 1, 0), (7, 9, 0)]
jacs += [(G[0], G[1], 1), (G[0], G[1], 0), (G[0], P, 1), (G[0], G[1] + P, 1)]
jacs += [(G[0], G[1], P), (G[0], G[1], 2 * P), (G[0], G[1], -1)]
for pt in points[:8] + special[:6]:
    jacs.append(rand_jac(pt))
    jacs.append(rand_jac(pt))
    jacs.append((pt[0], pt[1], 1))
jacs += [tuple(rng.randrange(0, P) for _ in range(3)) for _ in range(6)]
jacs += [tuple(rng.randrange(-P, 2 * P) for _ in range(3)) for _ in range(3)]
for a in jacs:
    check("from_jacobian", a)
    check("jacobian_double", a)
    for n in (0, 1, 2, 3, 10, N - 1, N, N + 3, -5, rng.getrandbits(300)):
        check("jacobian_multiply", a, n)
    for b in jacs:
        check("jacobian_add", a, b)
# returned-object identity for the pass-through branches
for mod in (OLD, NEW):
    p_, q_ = (0, 0, 1), (G[0], G[1], 1)
    assert mod.jacobian_add(p_, q_) is q_ and mod.jacobian_add(q_, p_) is q_
    assert mod.jacobian_add((3, 0, 0), q_) is q_
    assert mod.jacobian_multiply(q_, 1) is q_
for bj in [None, (), (1,), (1, 2), "abc", (None, None, None), (1, "a", 1), (1, 2, None),
           (1.0, 2.0, 1.0), [G[0], G[1], 1], (1, 2, "z")]:
    check("from_jacobian", bj)
    check("jacobian_double", bj)
    check("jacobian_add", bj, (G[0], G[1], 1))
    check("jacobian_add", (G[0], G[1], 1), bj)
    check("jacobian_add", bj, bj)
    check("jacobian_multiply", bj, 5)
    check("jacobian_multiply", bj, 0)
    check("to_jacobian", bj)
for pt in allpts:
    check("to_jacobian", pt)

# ---------------------------------------------------------------- privtopub, bytes_to_int, ecdsa
keys = [b"", b"\x00", b"\x01", b"\x00" * 32, b"\x00" * 31 + b"\x01", b"\xff" * 32,
        b"\xff" * 33, b"\x01" + b"\x00" * 32, N.to_bytes(32, "big"),
        (N - 1).to_bytes(32, "big"), (N + 1).to_bytes(32, "big"),
        (2 * N + 5).to_bytes(33, "big"), bytearray(b"\x05" * 32), "abc", [1, 2, 3],
        None, 5, (300, 2), [b"a", b"b"], 1.5]
keys += [rng.getrandbits(256).to_bytes(32, "big") for _ in range(25)]
keys += [rng.getrandbits(512).to_bytes(64, "big") for _ in range(5)]
for k in keys:
    check("privtopub", k)
    check("bytes_to_int", k)
for d in (1, 2, 3, 0xDEADBEEF, N - 1):
    assert NEW.privtopub(d.to_bytes(32, "big")) == NEW.multiply(G, d)
assert NEW.privtopub((1).to_bytes(32, "big")) == (OLD.Gx, OLD.Gy)

for i in range(6):
    priv = rng.getrandbits(256).to_bytes(32, "big")
    msg = rng.getrandbits(256).to_bytes(32, "big")
    sig = check("ecdsa_raw_sign", msg, priv)
    vrs = OLD.ecdsa_raw_sign(msg, priv)
    check("ecdsa_raw_recover", msg, vrs)
    check("ecdsa_raw_recover", msg, (vrs[0], vrs[1], N - vrs[2]))
    check("ecdsa_raw_recover", msg, (55 - vrs[0], vrs[1], vrs[2]))
    check("ecdsa_raw_recover", msg, (vrs[0], 0, vrs[2]))
    check("ecdsa_raw_recover", msg, (vrs[0], vrs[1], 0))
    check("ecdsa_raw_recover", msg, (26, vrs[1], vrs[2]))
    check("ecdsa_raw_recover", msg, (vrs[0], 5, vrs[2]))
    assert NEW.ecdsa_raw_recover(msg, vrs) == NEW.privtopub(priv)

print("big-curve checks: %d  (%.1fs)" % (CHECKS, time.time() - T0))

# ---------------------------------------------------------------- small curves
def is_prime(n):
    if n < 2:
        return False
    i = 2
    while i * i <= n:
        if n % i == 0:
            return False
        i += 1
    return True


def curve_points(p, a, b):
    sq = {}
    for y in range(p):
        sq.setdefault(y * y % p, []).append(y)
    pts = []
    for x in range(p):
        for y in sq.get((x**3 + a * x + b) % p, []):
            pts.append((x, y))
    return pts


def find_curves():
    out = []
    # a = 0 like secp256k1, plus a != 0 to exercise the A * z**4 term
    for a, b in ((0, 7), (0, 3), (2, 3), (-3, 5), (1, 1)):
        cnt = 0
        for p in range(11, 140):
            if not is_prime(p) or (4 * a**3 + 27 * b * b) % p == 0:
                continue
            pts = curve_points(p, a % p, b % p)
            n = len(pts) + 1
            if is_prime(n) and n != p and n > 7 and all(y for _, y in pts):
                out.append((p, a % p, b % p, n, pts))
                cnt += 1
                if cnt == 3:
                    break
    return out


def ref_add(p, a, p1, p2):
    """independent textbook affine law; identity encoded as (0, 0)"""
    if p1 == (0, 0):
        return p2
    if p2 == (0, 0):
        return p1
    x1, y1 = p1
    x2, y2 = p2
    if x1 == x2:
        if (y1 + y2) % p == 0:
            return (0, 0)
        lam = (3 * x1 * x1 + a) * pow(2 * y1, -1, p) % p
    else:
        lam = (y2 - y1) * pow(x2 - x1, -1, p) % p
    x3 = (lam * lam - x1 - x2) % p
    return (x3, (lam * (x1 - x3) - y1) % p)


saved = {m: {k: getattr(m, k) for k in ("P", "N", "A", "B", "Gx", "Gy", "G")} for m in (OLD, NEW)}
curves = find_curves()
assert len(curves) >= 6, len(curves)
try:
    for (p, a, b, n, pts) in curves:
        g = pts[len(pts) // 3]
        for m in (OLD, NEW):
            m.P, m.N, m.A, m.B, m.Gx, m.Gy, m.G = p, n, a, b, g[0], g[1], g
        before = CHECKS
        everything = pts + [(0, 0)]
        for p1 in everything:
            for p2 in everything:
                r = check("add", p1, p2)
                assert r == ("ok", shape(ref_add(p, a, p1, p2))), (p, a, b, p1, p2, r)
        # multiples of g by the reference law
        mult = [(0, 0)]
        for _ in range(n - 1):
            mult.append(ref_add(p, a, mult[-1], g))
        assert ref_add(p, a, mult[-1], g) == (0, 0)
        for k in range(-2 * n - 3, 3 * n + 4):
            r = check("multiply", g, k)
            assert r == ("ok", shape(mult[k % n])), (p, a, b, k, r)
            check("multiply", (0, 0), k)
        for pt in pts[:: max(1, len(pts) // 12)]:
            for k in list(range(-n - 2, 2 * n + 3)) + [rng.getrandbits(512), -rng.getrandbits(200)]:
                check("multiply", pt, k)
        for k in range(0, 3 * n):
            kb = k.to_bytes(2, "big")
            r = check("privtopub", kb)
            assert r == ("ok", shape(mult[k % n]))
        # jacobian level with arbitrary z (including unreachable states)
        sample = [(x * z * z % p, y * z**3 % p, z) for (x, y) in pts[::5] for z in (1, 2, p - 1)]
        sample += [(0, 0, 0), (0, 0, 1), (1, 0, 1), (3, 4, 0), (2, 0, 0)]
        for j1 in sample:
            check("from_jacobian", j1)
            check("jacobian_double", j1)
            for k in (0, 1, 2, 3, n - 1, n, n + 1, -1, 2 * n + 3):
                check("jacobian_multiply", j1, k)
            for j2 in sample:
                check("jacobian_add", j1, j2)
        for v in range(-p, 2 * p + 1):
            check("inv", v, p)
            check("inv", v, n)
        print("curve y^2=x^3+%dx+%d over F_%d order %d: %d checks" % (a, b, p, n, CHECKS - before))
finally:
    for m in (OLD, NEW):
        for k, v in saved[m].items():
            setattr(m, k, v)

assert NEW.P == P and NEW.N == N and NEW.G == G
check("multiply", G, 123456789)

print("total checks: %d, mismatches: %d, %.1fs" % (CHECKS, len(FAILS), time.time() - T0))
if FAILS:
    sys.exit(1)
print("EQUIVALENT")
sys.exit(0)
