import os, sys; sys.path.insert(0, os.getcwd())  # noqa: E401,E702

"""
Equivalence demonstration for C08/s2.

The edit rewrites the constants in ``py_ecc/fields/field_properties.py``: the two
field primes are now computed from the curve parameters (BN u, BLS x) and the
degree-12 modulus coefficient tuples are produced by a generator expression.

This script loads the PRISTINE ``field_properties.py`` (saved next to this script)
under another module name and checks
  * that the published table is identical (keys, key order, values, exact types);
  * that every module-level constant derived from it elsewhere in the package is
    identical;
  * that the published field classes of ``py_ecc.fields`` (built from the edited
    table) behave exactly like classes built from the pristine table on a broad
    set of field operations (results compared as integer coefficients, exception
    classes compared).
"""

import importlib
import importlib.util
import random

HERE = os.path.dirname(os.path.abspath(__file__))


def load(name, path):
    spec = importlib.util.spec_from_file_location(name, path)
    mod = importlib.util.module_from_spec(spec)
    sys.modules[name] = mod
    spec.loader.exec_module(mod)
    return mod


old_fp = load("pristine_field_properties", os.path.join(HERE, "pristine", "fields", "field_properties.py"))
new_fp = importlib.import_module("py_ecc.fields.field_properties")
assert os.path.realpath(new_fp.__file__).startswith(os.path.realpath(os.getcwd()))
assert hasattr(new_fp, "BN128_U"), "the edited tree is expected in the current directory"

CHECKS = 0


def deep_same(a, b, path="field_properties"):
    """Equal values AND identical concrete types, recursively; dict order too."""
    global CHECKS
    CHECKS += 1
    assert type(a) is type(b), (path, type(a), type(b))
    if isinstance(a, dict):
        assert list(a.keys()) == list(b.keys()), (path, list(a), list(b))
        for k in a:
            deep_same(a[k], b[k], f"{path}[{k!r}]")
    elif isinstance(a, (tuple, list)):
        assert len(a) == len(b), path
        for i, (x, y) in enumerate(zip(a, b)):
            deep_same(x, y, f"{path}[{i}]")
    else:
        assert a == b, (path, a, b)


old_t, new_t = old_fp.field_properties, new_fp.field_properties
deep_same(old_t, new_t)
assert repr(old_t) == repr(new_t)
assert hash(tuple(old_t["bn128"]["fq12_modulus_coeffs"])) == hash(new_t["bn128"]["fq12_modulus_coeffs"])
# the TypedDict / alias names are still there
for nm in ("Curve_Field_Properties", "Field_Properties", "field_properties"):
    assert hasattr(new_fp, nm)
assert new_fp.Curve_Field_Properties.__annotations__.keys() == old_fp.Curve_Field_Properties.__annotations__.keys()

# -- every module that copies a constant out of the table
P = {c: old_t[c]["field_modulus"] for c in old_t}
for modname, curve in [
    ("py_ecc.bn128.bn128_curve", "bn128"),
    ("py_ecc.bn128.bn128_pairing", "bn128"),
    ("py_ecc.optimized_bn128.optimized_curve", "bn128"),
    ("py_ecc.optimized_bn128.optimized_pairing", "bn128"),
    ("py_ecc.bls12_381.bls12_381_curve", "bls12_381"),
    ("py_ecc.bls12_381.bls12_381_pairing", "bls12_381"),
    ("py_ecc.optimized_bls12_381.optimized_curve", "bls12_381"),
    ("py_ecc.optimized_bls12_381.optimized_pairing", "bls12_381"),
]:
    m = importlib.import_module(modname)
    deep_same(m.field_modulus, P[curve], modname + ".field_modulus")

import py_ecc.fields as F  # noqa: E402
from py_ecc.fields import field_elements as fe, optimized_field_elements as ofe  # noqa: E402,E401,E501

assert F.field_properties is new_t

PUBLISHED = {}
for curve in ("bn128", "bls12_381"):
    for pre, mod in (("", fe), ("optimized_", ofe)):
        for kind in ("FQ", "FQP", "FQ2", "FQ12"):
            cls = getattr(F, f"{pre}{curve}_{kind}")
            deep_same(cls.field_modulus, old_t[curve]["field_modulus"], cls.__name__)
            if kind == "FQ2":
                deep_same(cls.FQ2_MODULUS_COEFFS, old_t[curve]["fq2_modulus_coeffs"], cls.__name__)
            if kind == "FQ12":
                deep_same(cls.FQ12_MODULUS_COEFFS, old_t[curve]["fq12_modulus_coeffs"], cls.__name__)
            PUBLISHED[(curve, pre, kind)] = cls


# -- classes built from the PRISTINE table, exactly as py_ecc/fields/__init__.py does
def build(mod, curve):
    props = old_t[curve]
    fq = type("FQ_", (mod.FQ,), {"field_modulus": props["field_modulus"]})
    fqp = type("FQP_", (mod.FQP,), {"field_modulus": props["field_modulus"]})
    fq2 = type(
        "FQ2_",
        (mod.FQ2, fqp),
        {"field_modulus": props["field_modulus"], "FQ2_MODULUS_COEFFS": props["fq2_modulus_coeffs"]},
    )
    fq12 = type(
        "FQ12_",
        (mod.FQ12, fqp),
        {"field_modulus": props["field_modulus"], "FQ12_MODULUS_COEFFS": props["fq12_modulus_coeffs"]},
    )
    return {"FQ": fq, "FQ2": fq2, "FQ12": fq12}


def outcome(f):
    try:
        return ("ok", f())
    except BaseException as e:  # noqa: B902
        return ("exc", type(e).__name__)


def norm(v):
    if isinstance(v, (bool, int, str, float)) or v is None:
        return (type(v).__name__, v)
    if hasattr(v, "coeffs"):
        return (
            "FQP",
            tuple((isinstance(c, int), c.n if hasattr(c, "n") else c) for c in v.coeffs),
            tuple((type(c).__name__, c) for c in v.modulus_coeffs),
            v.degree,
            getattr(v, "mc_tuples", None) and tuple(v.mc_tuples),
        )
    if hasattr(v, "n"):
        return ("FQ", type(v.n).__name__, v.n)
    raise AssertionError(f"unexpected result {v!r}")


def same(fo, fn, what):
    global CHECKS
    a, b = outcome(fo), outcome(fn)
    if a[0] == "ok":
        a = ("ok", norm(a[1]))
    if b[0] == "ok":
        b = ("ok", norm(b[1]))
    assert a == b, (what, a, b)
    CHECKS += 1


OPS = [
    ("add", lambda a, b: a + b),
    ("sub", lambda a, b: a - b),
    ("mul", lambda a, b: a * b),
    ("div", lambda a, b: a / b),
    ("eq", lambda a, b: a == b),
    ("ne", lambda a, b: a != b),
]
rng = random.Random(0xC0852)

for curve in ("bn128", "bls12_381"):
    p = P[curve]
    ints = [0, 1, -1, 2, p, p - 1, p + 1, -p - 5, 2 * p + 3]
    for pre, mod in (("", fe), ("optimized_", ofe)):
        old_cls = build(mod, curve)
        # ---- prime field
        Fo, Fn = old_cls["FQ"], PUBLISHED[(curve, pre, "FQ")]
        vals = [0, 1, 2, p - 1, p - 2, p, p + 1, -1, (p - 1) // 2, 1 << 200] + [rng.randrange(p) for _ in range(8)]
        for a in vals:
            xo, xn = Fo(a), Fn(a)
            same(lambda: xo, lambda: xn, ("ctor", curve, pre, a))
            same(lambda: -xo, lambda: -xn, ("neg", a))
            same(lambda: 1 / xo, lambda: 1 / xn, ("inv", a))
            same(lambda: xo * (1 / xo), lambda: xn * (1 / xn), ("inv-law", a))
            for e in [0, 1, 2, p - 2, p - 1, p, p**12 - 1, rng.randrange(p**12)]:
                same(lambda: xo**e, lambda: xn**e, ("pow", a, e))
            for b in vals:
                yo, yn = Fo(b), Fn(b)
                for nm, op in OPS:
                    same(lambda: op(xo, yo), lambda: op(xn, yn), (nm, a, b))
            for k in ints:
                for nm, op in OPS:
                    same(lambda: op(xo, k), lambda: op(xn, k), (nm, a, k))
                    same(lambda: op(k, xo), lambda: op(k, xn), ("r" + nm, a, k))
            for bad in (None, 1.5, "x"):
                for nm, op in OPS:
                    same(lambda: op(xo, bad), lambda: op(xn, bad), ("bad", nm, a))
        # ---- extensions
        for kind, d in (("FQ2", 2), ("FQ12", 12)):
            Eo, En = old_cls[kind], PUBLISHED[(curve, pre, kind)]
            z, one = (0,) * d, (1,) + (0,) * (d - 1)
            elems = [z, one, (p - 1,) + (0,) * (d - 1), (p - 1,) * d, (0,) * (d - 1) + (1,), (1,) * d]
            elems += [(0,) * (d // 2) + (1,) + (0,) * (d - d // 2 - 1)]
            nrand = 6 if (d == 2 or pre) else 1
            elems += [tuple(rng.randrange(p) for _ in range(d)) for _ in range(nrand)]
            sparse = [0] * d
            sparse[rng.randrange(d)] = rng.randrange(p)
            elems.append(tuple(sparse))
            heavy = d == 12 and not pre  # reference FQ12 is slow
            exps = [0, 1, 2, 3, 1 << 130] if heavy else [0, 1, 2, 3, p, p * p - 1, rng.randrange(p**12), p**12 - 1]
            for idx, cs in enumerate(elems):
                # FQ12: the huge exponents only for every 3rd element (runtime)
                small_only = d == 12 and idx % 3 != 1
                exps_here = [e for e in exps if e < p * p] if small_only else exps
                xo, xn = Eo(list(cs)), En(list(cs))
                same(lambda: xo, lambda: xn, ("ctor", kind, cs))
                same(lambda: -xo, lambda: -xn, ("neg", kind, cs))
                same(lambda: xo.inv(), lambda: xn.inv(), ("inv", kind, cs))
                same(lambda: xo * xo.inv(), lambda: xn * xn.inv(), ("inv-law", kind, cs))
                same(lambda: repr(xo), lambda: repr(xn), ("repr", kind, cs))
                if pre:
                    same(lambda: xo.sgn0, lambda: xn.sgn0, ("sgn0", kind, cs))
                for e in exps_here:
                    same(lambda: xo**e, lambda: xn**e, ("pow", kind, cs, e))
                for k in ints:
                    same(lambda: xo * k, lambda: xn * k, ("mulint", kind, cs, k))
                    same(lambda: k * xo, lambda: k * xn, ("rmulint", kind, cs, k))
                    same(lambda: xo / k, lambda: xn / k, ("divint", kind, cs, k))
                for bad in (None, 1.5, "x", [1] * d):
                    for nm, op in OPS:
                        same(lambda: op(xo, bad), lambda: op(xn, bad), ("bad", nm, kind, cs))
            pairs = [(a, b) for a in elems[:7] for b in elems[:7]] if not heavy else []
            pairs += [(rng.choice(elems), rng.choice(elems)) for _ in range(5 if heavy else 10)]
            for ca, cb in pairs:
                xo, xn, yo, yn = Eo(list(ca)), En(list(ca)), Eo(list(cb)), En(list(cb))
                for nm, op in OPS:
                    same(lambda: op(xo, yo), lambda: op(xn, yn), (nm, kind, ca, cb))
                same(lambda: (xo / yo) * yo, lambda: (xn / yn) * yn, ("div-law", kind, ca, cb))
            same(lambda: Eo.one(), lambda: En.one(), "one")
            same(lambda: Eo.zero(), lambda: En.zero(), "zero")
            for badc in ([], [1] * (d + 1), [1] * (d - 1), None, [1.5] * d):
                same(lambda: Eo(badc), lambda: En(badc), ("ctor-bad", kind, badc))

# the table is not mutated by any of the above
deep_same(old_t, new_fp.field_properties)
deep_same(new_fp.field_properties, importlib.import_module("py_ecc.fields").field_properties)

print("C08/s2 equivalence: %d comparisons identical" % CHECKS)
