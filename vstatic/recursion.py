"""Recursion budget (C04.R8): which recursive functions can run below the verification entry points, how deep their
recursion goes for the scalars handed to them there, and which interpreter recursion limit the package leaves in force at
import time.

Everything is read from the syntax tree: a resolved-name call graph (calls through attributes are resolved by method name
over the whole package — an over-approximation that is only used for reachability), direct and mutual recursion as the
cycles of the resolved-name part, the halving measure of the recursive call, constant folding of the scalar at every
external call site, and the top-level `sys.setrecursionlimit(...)` statements of the modules that importing the BLS API
executes."""
from __future__ import annotations

import ast

from .term import AnalysisError
from .interp import Interp, World

DEFAULT_LIMIT = 1000        # CPython's default recursion limit (sys.getrecursionlimit() in a fresh interpreter)


def _funcs(repo):
    for m in repo.modules.values():
        for f in m.functions.values():
            yield m, None, f
        for c in m.classes.values():
            for f in c.methods.values():
                yield m, c, f


def _own_nodes(fnode):
    """nodes of a function body without the bodies of nested defs/classes (lambdas and comprehensions are kept)"""
    stack = list(fnode.body)
    while stack:
        n = stack.pop()
        yield n
        for ch in ast.iter_child_nodes(n):
            if isinstance(ch, (ast.FunctionDef, ast.AsyncFunctionDef, ast.ClassDef)):
                continue
            stack.append(ch)


class CallGraph:
    def __init__(self, repo):
        self.repo = repo
        self.by_name = {}
        self.funcs = {}
        for m, c, f in _funcs(repo):
            self.funcs[f.qualname] = (m, c, f)
            self.by_name.setdefault(f.node.name, []).append(f.qualname)
        self.exact = {q: set() for q in self.funcs}       # resolved by name binding
        self.loose = {q: set() for q in self.funcs}       # resolved by attribute name only
        self.sites = {}                                    # (caller, callee) -> [Call nodes]
        for q, (m, c, f) in self.funcs.items():
            for n in _own_nodes(f.node):
                if not isinstance(n, ast.Call):
                    continue
                fn = n.func
                if isinstance(fn, ast.Name):
                    self._edge_name(q, m, fn.id, n)
                elif isinstance(fn, ast.Attribute):
                    tgt = None
                    if isinstance(fn.value, ast.Name):
                        try:
                            r = repo.resolve_binding(m, fn.value.id)
                        except AnalysisError:
                            r = None
                        if r is not None and r[0] == "module" and fn.attr in r[1].functions:
                            tgt = r[1].functions[fn.attr].qualname
                    if tgt is not None:
                        self.exact[q].add(tgt)
                        self.sites.setdefault((q, tgt), []).append(n)
                    else:
                        for t in self.by_name.get(fn.attr, ()):
                            self.loose[q].add(t)
            # a function object that is passed on or stored (map(f, …), table entries) may be called by the receiver
            for n in _own_nodes(f.node):
                if isinstance(n, ast.Name) and isinstance(n.ctx, ast.Load):
                    try:
                        r = repo.resolve_binding(m, n.id)
                    except AnalysisError:
                        r = None
                    if r is not None and r[0] == "func" and r[1].qualname in self.funcs:
                        self.loose[q].add(r[1].qualname)

    def _edge_name(self, q, m, name, node):
        try:
            r = self.repo.resolve_binding(m, name)
        except AnalysisError:
            r = None
        if r is None:
            return
        if r[0] == "func" and r[1].qualname in self.funcs:
            self.exact[q].add(r[1].qualname)
            self.sites.setdefault((q, r[1].qualname), []).append(node)
        elif r[0] == "class":
            for mn, meth in r[1].methods.items():
                if mn in ("__init__", "__new__", "__call__"):
                    self.loose[q].add(meth.qualname)

    def reachable(self, roots):
        seen, stack = set(), [r for r in roots]
        while stack:
            q = stack.pop()
            if q in seen or q not in self.funcs:
                continue
            seen.add(q)
            stack.extend(self.exact[q] | self.loose[q])
        return seen

    def recursive(self):
        """functions on a cycle of the resolved-name graph -> {qualname: cycle members}"""
        index, low, onstack, stack, comps = {}, {}, set(), [], []

        def strong(v):
            # iterative Tarjan
            work = [(v, iter(sorted(self.exact.get(v, ()))))]
            index[v] = low[v] = len(index)
            stack.append(v)
            onstack.add(v)
            while work:
                node, itr = work[-1]
                adv = False
                for t in itr:
                    if t not in self.funcs:
                        continue
                    if t not in index:
                        index[t] = low[t] = len(index)
                        stack.append(t)
                        onstack.add(t)
                        work.append((t, iter(sorted(self.exact.get(t, ())))))
                        adv = True
                        break
                    if t in onstack:
                        low[node] = min(low[node], index[t])
                if adv:
                    continue
                work.pop()
                if work:
                    low[work[-1][0]] = min(low[work[-1][0]], low[node])
                if low[node] == index[node]:
                    comp = []
                    while True:
                        x = stack.pop()
                        onstack.discard(x)
                        comp.append(x)
                        if x == node:
                            break
                    comps.append(comp)
        for q in sorted(self.funcs):
            if q not in index:
                strong(q)
        out = {}
        for comp in comps:
            if len(comp) > 1 or comp[0] in self.exact.get(comp[0], ()):
                for q in comp:
                    out[q] = sorted(comp)
        return out


def halving_parameter(f):
    """index and name of the parameter whose value in every self-call is `p // 2`, `int(p // 2)`, `p >> 1` or `p // 2` of
    `-p`-free form — the measure of a double-and-add recursion; None when the recursion has another shape"""
    params = [a.arg for a in f.node.args.posonlyargs + f.node.args.args]
    found = None
    for n in _own_nodes(f.node):
        if isinstance(n, ast.Call) and isinstance(n.func, ast.Name) and n.func.id == f.node.name:
            hit = None
            for i, a in enumerate(n.args):
                e = a
                if isinstance(e, ast.Call) and isinstance(e.func, ast.Name) and e.func.id == "int" and len(e.args) == 1:
                    e = e.args[0]
                if isinstance(e, ast.BinOp) and isinstance(e.left, ast.Name) and isinstance(e.right, ast.Constant):
                    if (isinstance(e.op, ast.FloorDiv) and e.right.value == 2) or (isinstance(e.op, ast.RShift) and e.right.value == 1):
                        if i < len(params) and e.left.id == params[i]:
                            hit = i
            if hit is None:
                # a call that re-enters with a reduced or negated scalar (n % N, -n) adds one frame, not a level per bit
                continue
            if found is not None and found != hit:
                return None
            found = hit
    if found is None:
        return None
    return found, params[found]


def extra_frames(f):
    """self-calls that are not the halving step (re-entry with n % N, with -n): each adds at most one frame"""
    k = 0
    hp = halving_parameter(f)
    for n in _own_nodes(f.node):
        if isinstance(n, ast.Call) and isinstance(n.func, ast.Name) and n.func.id == f.node.name:
            k += 1
    return k if hp is None else min(k, 2)


def fold_int(repo, world, mod, e, it=None):
    """integer value of an expression made of literals, module constants, arithmetic, max/min and getrecursionlimit()"""
    it = it or Interp(world)
    if isinstance(e, ast.Constant) and isinstance(e.value, int) and not isinstance(e.value, bool):
        return e.value
    if isinstance(e, ast.Name):
        v = it.eval_global(mod, e.id)
        if isinstance(v, int) and not isinstance(v, bool):
            return v
        raise AnalysisError(f"{mod.relpath}: {e.id} is not an integer constant")
    if isinstance(e, ast.UnaryOp) and isinstance(e.op, ast.USub):
        return -fold_int(repo, world, mod, e.operand, it)
    if isinstance(e, ast.BinOp):
        a, b = fold_int(repo, world, mod, e.left, it), fold_int(repo, world, mod, e.right, it)
        ops = {ast.Add: lambda: a + b, ast.Sub: lambda: a - b, ast.Mult: lambda: a * b, ast.FloorDiv: lambda: a // b,
               ast.Pow: lambda: a ** b if 0 <= b < 4096 else None, ast.LShift: lambda: a << b if 0 <= b < 4096 else None}
        fn = ops.get(type(e.op))
        v = fn() if fn else None
        if v is None:
            raise AnalysisError(f"{mod.relpath}:{e.lineno}: operator outside the constant fragment")
        return v
    if isinstance(e, ast.Call):
        name = e.func.id if isinstance(e.func, ast.Name) else e.func.attr if isinstance(e.func, ast.Attribute) else None
        if name == "getrecursionlimit" and not e.args:
            return DEFAULT_LIMIT
        if name in ("max", "min") and e.args and not e.keywords:
            vals = [fold_int(repo, world, mod, a, it) for a in e.args]
            return max(vals) if name == "max" else min(vals)
        if name == "int" and len(e.args) == 1:
            return fold_int(repo, world, mod, e.args[0], it)
    raise AnalysisError(f"{mod.relpath}:{getattr(e, 'lineno', '?')}: `{ast.unparse(e)[:60]}` is not a constant integer expression")


def import_closure(repo, roots):
    """package modules whose top-level code runs when the root modules are imported (parents first, then their imports)"""
    seen, stack = [], []
    for r in roots:
        parts = r.split(".")
        for i in range(1, len(parts) + 1):
            stack.append(".".join(parts[:i]))
    stack.reverse()
    while stack:
        mn = stack.pop()
        if mn in seen or mn not in repo.modules:
            continue
        seen.append(mn)
        m = repo.modules[mn]
        for st in _toplevel_statements(m.tree.body):
            tg = []
            if isinstance(st, ast.Import):
                tg = [a.name for a in st.names]
            elif isinstance(st, ast.ImportFrom):
                try:
                    base = repo.resolve_module_name(m, st.module, st.level)
                except AnalysisError:
                    continue
                tg = [base] + [f"{base}.{a.name}" for a in st.names]
            for t in tg:
                parts = t.split(".")
                for i in range(1, len(parts) + 1):
                    p = ".".join(parts[:i])
                    if p in repo.modules and p not in seen:
                        stack.append(p)
    return seen


def _toplevel_statements(body):
    """statements executed at import: module body, descending into if/try/with/for at top level, not into def/class"""
    for st in body:
        if isinstance(st, (ast.FunctionDef, ast.AsyncFunctionDef, ast.ClassDef)):
            continue
        yield st
        for fld in ("body", "orelse", "finalbody", "handlers"):
            sub = getattr(st, fld, None)
            if isinstance(sub, list):
                inner = []
                for x in sub:
                    if isinstance(x, ast.ExceptHandler):
                        inner.extend(x.body)
                    elif isinstance(x, ast.stmt):
                        inner.append(x)
                yield from _toplevel_statements(inner)


def import_time_limit(repo, world, roots):
    """-> (limit in force after import, [(where, value)]) — the smallest value any executed setrecursionlimit call may set,
    CPython's default when there is none"""
    found = []
    for mn in import_closure(repo, roots):
        m = repo.modules[mn]
        if "TYPE_CHECKING" in mn:
            continue
        for st in _toplevel_statements(m.tree.body):
            for n in ast.walk(st) if isinstance(st, ast.Expr) or isinstance(st, ast.Assign) else ():
                if isinstance(n, ast.Call) and ((isinstance(n.func, ast.Attribute) and n.func.attr == "setrecursionlimit")
                                                or (isinstance(n.func, ast.Name) and n.func.id == "setrecursionlimit")):
                    if len(n.args) != 1:
                        raise AnalysisError(f"{m.relpath}:{n.lineno}: setrecursionlimit call not understood")
                    found.append((f"{m.relpath}:{n.lineno}", fold_int(repo, world, m, n.args[0])))
    limit = min((v for _w, v in found), default=DEFAULT_LIMIT)
    return limit, found


def recursion_budget(repo, world, roots, import_roots):
    """-> list of (construct, key, ok, detail, where)"""
    cg = CallGraph(repo)
    reach = cg.reachable(roots)
    rec = cg.recursive()
    out = []
    limit, found = import_time_limit(repo, world, import_roots)
    it = Interp(world)
    need = 0
    nrec = 0
    for q in sorted(rec):
        if q not in reach:
            continue
        nrec += 1
        m, c, f = cg.funcs[q]
        if rec[q] != [q]:
            raise AnalysisError(f"{f.where}: mutual recursion {rec[q]} below the verification entry points: no depth schema")
        hp = halving_parameter(f)
        if hp is None:
            # no per-bit self-call: the self-calls are re-entries with a reduced or negated scalar (`multiply(neg(pt), -n)` under
            # `n < 0`), each taken at most once when the routine terminates at all (C07.R3 / C18.R2 decide termination)
            d = extra_frames(f)
            need = max(need, d)
            out.append((q, "recursion depth below the verification entry points (re-entry calls only, no frame per bit)", True,
                        f"{d} self-call site(s), none of them the halving step", f.where))
            continue
        idx, pname = hp
        depth = 0
        nsites = 0

        def bound(caller, arg, n, hops=0):
            """bit length bound of an integer argument: a constant expression, or a parameter of the caller that receives
            constants at every call site of the caller below the entry points"""
            cm, _cc, cf = cg.funcs[caller]
            try:
                return abs(fold_int(repo, world, cm, arg, it)).bit_length()
            except AnalysisError as e:
                err = e
            cparams = [a.arg for a in cf.node.args.posonlyargs + cf.node.args.args]
            if isinstance(arg, ast.Name) and arg.id not in cparams and hops < 4:
                # a local bound exactly once in the caller (`r = curve_order`): its defining expression
                defs = [x for x in _own_nodes(cf.node) if isinstance(x, ast.Assign) and len(x.targets) == 1
                        and isinstance(x.targets[0], ast.Name) and x.targets[0].id == arg.id]
                stores = [x for x in _own_nodes(cf.node) if isinstance(x, ast.Name) and x.id == arg.id and isinstance(x.ctx, ast.Store)]
                if len(defs) == 1 and len(stores) == 1:
                    return bound(caller, defs[0].value, n, hops + 1)
            if isinstance(arg, ast.Name) and arg.id in cparams and hops < 4 and \
                    not any(isinstance(x, ast.Name) and x.id == arg.id and isinstance(x.ctx, ast.Store) for x in _own_nodes(cf.node)):
                j = cparams.index(arg.id)
                best, k = 0, 0
                for (c2, callee2), nodes2 in sorted(cg.sites.items()):
                    if callee2 != caller or c2 not in reach or c2 == caller:
                        continue
                    for n2 in nodes2:
                        a2 = n2.args[j] if j < len(n2.args) else next((kw.value for kw in n2.keywords if kw.arg == arg.id), None)
                        if a2 is None:
                            d_ = cf.node.args.defaults
                            off = j - (len(cparams) - len(d_))
                            if off < 0:
                                raise AnalysisError(f"{cm.relpath}:{n2.lineno}: argument `{arg.id}` of {caller} not found")
                            a2, c2m = d_[off], caller
                            best = max(best, bound(caller, a2, n2, hops + 4))
                        else:
                            best = max(best, bound(c2, a2, n2, hops + 1))
                        k += 1
                if k:
                    return best
            raise AnalysisError(f"{cm.relpath}:{n.lineno}: recursion depth of {f.node.name} depends on `{ast.unparse(arg)[:40]}`, "
                                f"which has no static bound here ({err})")
        for (caller, callee), nodes in sorted(cg.sites.items()):
            if callee != q or caller == q or caller not in reach:
                continue
            cm = cg.funcs[caller][0]
            for n in nodes:
                arg = None
                if idx < len(n.args):
                    arg = n.args[idx]
                for kw in n.keywords:
                    if kw.arg == pname:
                        arg = kw.value
                if arg is None:
                    raise AnalysisError(f"{cm.relpath}:{n.lineno}: scalar argument of {q} not found")
                nsites += 1
                depth = max(depth, bound(caller, arg, n))
        if nsites == 0:
            continue
        d = depth + extra_frames(f)
        need = max(need, d)
        out.append((q, f"recursion depth below the verification entry points (one frame per bit of `{pname}`)", True,
                    f"{nsites} call site(s) with constant scalars; deepest: {d} frames", f.where))
    ok = limit >= DEFAULT_LIMIT + need
    src = "; ".join(f"{w}: {v}" for w, v in found) or "no setrecursionlimit at import: CPython's default"
    out.append(("py_ecc (import-time recursion limit)",
                "the package provisions the recursion its verification path needs: limit after import >= default limit + deepest recursion",
                ok, f"limit in force after import {limit} ({src}); deepest recursion {need} frames in {nrec} recursive function(s); "
                    f"required >= {DEFAULT_LIMIT + need}" + ("" if ok else
                    ": a caller already a few hundred frames deep gets RecursionError (not caught by the entry points' except clauses) "
                    "instead of a boolean"),
                "py_ecc/__init__.py"))
    return out
