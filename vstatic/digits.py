"""Mixed-radix digit domain for the 384-bit compressed-point words (C11), an
interval domain for the few integer quantities the decoders compare, and
linear forms over opaque integer atoms.

A word is  z = hi * 2^381 + lo  with `hi` concrete (the three flag bits) and
`lo` either the concrete 0 or a symbolic integer whose interval is tracked by
IntervalDomain.  Shifts / remainders / quotients by powers of two >= 2^381 are
exact in this form; anything else becomes an opaque integer term, on which the
decoders' branches fork both ways (and the decision table then disagrees with
the format's table, which is the report)."""
from __future__ import annotations

from .term import AnalysisError, AbstractValue, Term, is_sym, show, t_arith, t_cmp

LOW_BITS = 381


def _pow2(n):
    return isinstance(n, int) and not isinstance(n, bool) and n > 0 and n & (n - 1) == 0


class Word(AbstractValue):
    sort = "int"
    __slots__ = ("hi", "lo", "name")

    def __init__(self, hi, lo, name="z"):
        self.hi, self.lo, self.name = hi, lo, name

    def as_term(self):
        return t_arith("add", t_arith("mul", self.hi, 2 ** LOW_BITS) if self.hi else 0, self.lo) if is_sym(self.lo) \
            else self.hi * 2 ** LOW_BITS + self.lo

    def _opaque(self, op, other, reflected):
        a, b = (other, self.as_term()) if reflected else (self.as_term(), other)
        return t_arith(op, a, b)

    def v_binop(self, op, other, reflected, it):
        if reflected or is_sym(other) or isinstance(other, bool) or not isinstance(other, int):
            if isinstance(other, Word):
                other = other.as_term()
            return self._opaque(op, other, reflected)
        if op == "rshift" and other >= LOW_BITS:
            return self.hi >> (other - LOW_BITS)
        if op == "floordiv" and _pow2(other) and other.bit_length() - 1 >= LOW_BITS:
            return self.hi >> (other.bit_length() - 1 - LOW_BITS)
        if op == "mod" and _pow2(other) and other.bit_length() - 1 >= LOW_BITS:
            h = self.hi % (1 << (other.bit_length() - 1 - LOW_BITS))
            return self.lo if h == 0 else Word(h, self.lo, self.name)
        if op == "and" and _pow2(other + 1) and (other + 1).bit_length() - 1 >= LOW_BITS:
            h = self.hi & (other >> LOW_BITS)
            return self.lo if h == 0 else Word(h, self.lo, self.name)
        if op == "and" and other % (1 << LOW_BITS) == 0:
            return (self.hi & (other >> LOW_BITS)) << LOW_BITS
        if op in ("add", "sub") and other % (1 << LOW_BITS) == 0:
            h = self.hi + (other >> LOW_BITS) * (1 if op == "add" else -1)
            if h >= 0:
                return self.lo if h == 0 else Word(h, self.lo, self.name)
        return self._opaque(op, other, reflected)

    def v_compare(self, op, other, it):
        if isinstance(other, Word):
            other = other.as_term()
        if is_sym(other) or isinstance(other, bool) or not isinstance(other, int):
            return t_cmp(op, self.as_term(), other)
        base = self.hi << LOW_BITS
        k = other - base
        # lo in [0, 2^381)
        if k < 0:
            return op in ("!=", ">", ">=")
        if k >= 1 << LOW_BITS:
            return op in ("!=", "<", "<=")
        import ast
        opn = {"==": ast.Eq, "!=": ast.NotEq, "<": ast.Lt, "<=": ast.LtE, ">": ast.Gt, ">=": ast.GtE}[op]()
        return it.compare(opn, self.lo, k, None)

    def v_truth(self, it):
        if self.hi:
            return True
        import ast
        return it.compare(ast.NotEq(), self.lo, 0, None)

    def v_int(self, it):
        return self

    def v_isinstance(self, T, it):
        if T == "int":
            return True
        if T in ("bytes", "bool", "str", "bytearray", "list", "tuple", "float"):
            return False
        return NotImplemented

    def __repr__(self):
        return f"Word({self.name}: flags={self.hi:03b}, low={show(self.lo)})"

    def __deepcopy__(self, memo):
        return self


class IntervalDomain:
    """Interp domain: exact intervals (with holes) for a few integer variables.
    decide()/assume() follow the Interp protocol: atoms are eq(x, c) / lt(x, c) /
    lt(c, x) terms with x a tracked variable and c a concrete integer."""

    def __init__(self, bounds):
        self.iv = {v: [lo, hi, set()] for v, (lo, hi) in bounds.items()}

    def _split(self, atom):
        if not isinstance(atom, Term) or atom.op not in ("eq", "lt") or len(atom.args) != 2:
            return None
        a, b = atom.args
        if a in self.iv and isinstance(b, int) and not isinstance(b, bool):
            return atom.op, a, b, "L"
        if b in self.iv and isinstance(a, int) and not isinstance(a, bool):
            return atom.op, b, a, "R"
        return None

    def decide(self, it, atom):
        s = self._split(atom)
        if s is None:
            return None
        op, v, c, side = s
        lo, hi, holes = self.iv[v]
        if op == "eq":
            if c < lo or c > hi or c in holes:
                return False
            if lo == hi == c:
                return True
            return None
        if side == "L":            # v < c
            if hi < c:
                return True
            if lo >= c:
                return False
            return None
        if lo > c:                 # c < v
            return True
        if hi <= c:
            return False
        return None

    def assume(self, it, atom, truth):
        s = self._split(atom)
        if s is None:
            return
        op, v, c, side = s
        st = self.iv[v]
        if op == "eq":
            if truth:
                st[0] = st[1] = c
            else:
                st[2].add(c)
        elif side == "L":
            if truth:
                st[1] = min(st[1], c - 1)
            else:
                st[0] = max(st[0], c)
        else:
            if truth:
                st[0] = max(st[0], c + 1)
            else:
                st[1] = min(st[1], c)
        while st[0] in st[2]:
            st[0] += 1
        while st[1] in st[2]:
            st[1] -= 1
        if st[0] > st[1]:
            raise AnalysisError(f"interval domain: infeasible path for {show(v)}")

    def interval(self, v):
        lo, hi, holes = self.iv[v]
        return lo, hi, set(h for h in holes if lo <= h <= hi)


def linform(t):
    """integer term -> (const, {atom: coeff}) for sums of integer multiples of atoms; atoms are maximal
    non-linear sub-terms"""
    if isinstance(t, bool):
        t = int(t)
    if isinstance(t, int):
        return t, {}
    if isinstance(t, Word):
        t = t.as_term()
        if isinstance(t, int):
            return t, {}
    if isinstance(t, Term) and t.op in ("add", "sub"):
        c1, m1 = linform(t.args[0])
        c2, m2 = linform(t.args[1])
        s = 1 if t.op == "add" else -1
        m = dict(m1)
        for k, v in m2.items():
            m[k] = m.get(k, 0) + s * v
        return c1 + s * c2, {k: v for k, v in m.items() if v}
    if isinstance(t, Term) and t.op == "mul":
        for a, b in ((t.args[0], t.args[1]), (t.args[1], t.args[0])):
            if isinstance(b, int) and not isinstance(b, bool):
                c, m = linform(a)
                return c * b, {k: v * b for k, v in m.items() if v * b}
    if isinstance(t, Term) and t.op == "lshift" and isinstance(t.args[1], int):
        c, m = linform(t.args[0])
        f = 1 << t.args[1]
        return c * f, {k: v * f for k, v in m.items()}
    if isinstance(t, Term) and t.op == "or" and isinstance(t.args[1], int):
        # x | const with disjoint bit ranges is x + const; only used by callers that check the ranges
        return 0, {t: 1}
    return 0, {t: 1}
