"""E7: effect analysis.  Every store site of the package is classified by the
origin of the object written to (intraprocedural, flow-insensitive alias
tracking with interprocedural parameter-mutation summaries)."""
from __future__ import annotations

import ast

from .term import AnalysisError
from .loader import Repo, FuncRef, ClassInfo, norm_stmt

MUTATORS = {"append", "extend", "pop", "insert", "remove", "clear", "sort", "reverse", "update", "add",
            "discard", "setdefault", "popitem", "__setitem__", "__delitem__", "__setattr__", "__iadd__",
            "appendleft", "popleft", "extendleft", "rotate", "intersection_update", "difference_update",
            "symmetric_difference_update"}
FRESH_CALLS = {"list", "dict", "set", "bytearray", "tuple", "sorted", "reversed", "enumerate", "zip", "range",
               "bytes", "int", "str", "bool", "float", "frozenset", "sum", "len", "max", "min", "abs", "pow",
               "repr", "ord", "divmod", "map", "filter", "iter"}
IMMUTABLE_ANN = {"int", "bytes", "bool", "str", "float", "None", "T_FQ", "T_FQP", "T_FQ2", "T_FQ12", "IntOrFQ",
                 "FQ", "FQ2", "FQ12", "FQP", "BLSPubkey", "BLSSignature", "HASH", "Any", "Optimized_Field", "Field",
                 "G1Compressed"}
NUMERIC_ANN = {"int", "bool", "float", "T_FQ", "T_FQP", "T_FQ2", "T_FQ12", "IntOrFQ", "FQ", "FQ2", "FQ12", "FQP",
               "Optimized_Field", "Field", "G1Compressed"}
INPLACE_DUNDERS = {"__iadd__", "__isub__", "__imul__", "__itruediv__", "__ifloordiv__", "__imod__", "__ipow__",
                   "__ilshift__", "__irshift__", "__iand__", "__ior__", "__ixor__", "__imatmul__", "__setattr__",
                   "__setitem__", "__delitem__", "__delattr__"}
NONDET_MODULES = {"random", "secrets", "time", "os", "datetime", "uuid", "socket", "subprocess", "threading",
                  "multiprocessing", "tempfile", "pathlib", "io", "pickle", "shelve", "sqlite3", "atexit",
                  "weakref", "gc", "inspect", "ctypes", "signal", "asyncio", "logging", "shutil", "glob", "platform",
                  "getpass", "urllib", "http", "requests"}
ALLOWED_IMPORT_ROOTS = {"hashlib", "hmac", "math", "typing", "abc", "functools", "importlib", "sys", "types",
                        "eth_typing", "eth_utils", "_hashlib", "py_ecc", "__future__", "typing_extensions",
                        "collections", "itertools", "operator", "numbers", "enum", "dataclasses", "struct"}
# from threading only the mutual-exclusion primitives (no effect on values)
ALLOWED_FROM = {"threading": {"Lock", "RLock"}}
NONDET_CALLS = {"id", "hash", "input", "open", "print", "exec", "eval", "compile", "__import__", "vars", "locals",
                "setattr", "delattr", "breakpoint", "object.__setattr__"}
MEMO_DECOS = {"lru_cache", "cache", "cached_property", "functools.lru_cache", "functools.cache",
              "functools.cached_property", "singledispatch"}

FRESH, PARAM, MODULE, CLASS, SELF_INIT, SELF, UNKNOWN, IMMUT, FRESHPART = (
    "fresh", "param", "module", "class", "self-in-init", "self", "unknown", "immutable", "part-of-fresh")


MEMO_DECORATORS = ("lru_cache", "cache")


def is_memoised(f):
    """decorated with functools.lru_cache / functools.cache"""
    for d in f.node.decorator_list:
        dn = ast.unparse(d).split("(")[0].split(".")[-1]
        if dn in MEMO_DECORATORS:
            return True
    return False


class Site:
    def __init__(self, func, node, kind, target_src, origin, detail=""):
        self.func, self.node, self.kind, self.target_src, self.origin, self.detail = func, node, kind, target_src, origin, detail

    @property
    def where(self):
        return f"{self.func.module.relpath}:{self.node.lineno}"

    def key(self):
        return f"{self.kind} {self.target_src} [{self.origin}]"


class FuncEffects:
    def __init__(self, repo: Repo, f: FuncRef, analysis):
        self.repo, self.f, self.A = repo, f, analysis
        self.params = f.params
        self.assigns = {}        # local name -> list of rhs descriptors
        self.sites = []
        self.mutated_params = set()
        self.returns_fresh = None
        self._origin_cache = {}
        self.inner_params = set()
        self._collect()

    # -------------------------------------------------------------- collection
    def _collect(self):
        f = self.f
        for node in ast.walk(f.node):
            if isinstance(node, (ast.FunctionDef, ast.AsyncFunctionDef, ast.Lambda)) and node is not f.node:
                # a closure: its body is scanned as part of the enclosing function; its own parameters are treated like
                # parameters (conservative: a store through them is a store to caller-visible state)
                if isinstance(node, ast.AsyncFunctionDef):
                    raise AnalysisError(f"{f.where}: async function at line {node.lineno} is outside the fragment")
                if not isinstance(node, ast.Lambda):
                    self.assigns.setdefault(node.name, []).append(("fresh", None))
                a = node.args
                for arg in a.posonlyargs + a.args + a.kwonlyargs + ([a.vararg] if a.vararg else []) + ([a.kwarg] if a.kwarg else []):
                    self.inner_params.add(arg.arg)
                continue
            if isinstance(node, ast.Assign):
                for t in node.targets:
                    self._bind_target(t, ("expr", node.value))
            elif isinstance(node, ast.AnnAssign) and node.value is not None:
                self._bind_target(node.target, ("expr", node.value))
            elif isinstance(node, ast.AugAssign):
                if isinstance(node.target, ast.Name):
                    self.assigns.setdefault(node.target.id, []).append(("aug", node))
            elif isinstance(node, (ast.For, ast.comprehension)):
                self._bind_target(node.target, ("elem", node.iter))
            elif isinstance(node, ast.With):
                for item in node.items:
                    if item.optional_vars is not None:
                        self._bind_target(item.optional_vars, ("expr", item.context_expr))
            elif isinstance(node, ast.NamedExpr):
                self._bind_target(node.target, ("expr", node.value))
            elif isinstance(node, ast.ExceptHandler) and node.name:
                self.assigns.setdefault(node.name, []).append(("fresh", None))

    def _bind_target(self, t, src):
        if isinstance(t, ast.Name):
            self.assigns.setdefault(t.id, []).append(src)
        elif isinstance(t, (ast.Tuple, ast.List)):
            kind, v = src
            if kind == "expr" and isinstance(v, (ast.Tuple, ast.List)) and len(v.elts) == len(t.elts) and \
                    not any(isinstance(x, ast.Starred) for x in list(v.elts) + list(t.elts)):
                # `a, b = x, y`: each target is bound to its own expression (parallel assignment of a display)
                for e, ve in zip(t.elts, v.elts):
                    self._bind_target(e, ("expr", ve))
                return
            for e in t.elts:
                self._bind_target(e, ("elem", v) if kind in ("expr", "elem") else src)
        elif isinstance(t, ast.Starred):
            self._bind_target(t.value, src)

    # -------------------------------------------------------------- origins
    def origin_of_name(self, name, seen=()):
        if name in self._origin_cache:
            return self._origin_cache[name]
        if name in seen:
            return FRESH      # cyclic definitions contribute nothing new
        outs = set()
        if name in self.inner_params and name not in self.params:
            outs.add(PARAM)
        if name in self.params:
            is_first = self.params and name == self.params[0] and self.f.cls is not None and self.f.kind != "staticmethod"
            if is_first and self.f.kind == "classmethod":
                outs.add(CLASS)
            elif is_first:
                outs.add(SELF_INIT if self.f.node.name == "__init__" else SELF)
            else:
                outs.add(IMMUT if self._param_immutable(name) else PARAM)
        if name in self.assigns:
            for kind, v in self.assigns[name]:
                if kind == "fresh":
                    outs.add(FRESH)
                elif kind == "aug":
                    outs.add(self.origin_of_expr(v.value, seen + (name,)) if isinstance(v.value, (ast.List, ast.Tuple)) else IMMUT)
                elif kind == "expr":
                    outs.add(self.origin_of_expr(v, seen + (name,)))
                elif kind == "elem":
                    o = self.origin_of_expr(v, seen + (name,))
                    outs.add(FRESHPART if o == FRESH else o)
        if not outs:
            # global / builtin
            r = self.repo.resolve_binding(self.f.module, name)
            if r is None:
                outs.add(IMMUT)          # builtin name
            elif r[0] in ("func", "class", "typing"):
                outs.add(IMMUT)
            elif r[0] == "module" or r[0] == "external":
                outs.add(MODULE)
            else:
                outs.add(MODULE)
        o = self._join(outs)
        self._origin_cache[name] = o
        return o

    @staticmethod
    def _join(outs):
        for bad in (MODULE, CLASS, PARAM, SELF, UNKNOWN, SELF_INIT, FRESHPART):
            if bad in outs:
                return bad
        if FRESH in outs:
            return FRESH
        return IMMUT

    def _param_immutable(self, name):
        for a in self.f.node.args.posonlyargs + self.f.node.args.args:
            if a.arg == name and a.annotation is not None:
                ann = a.annotation
                s = ast.unparse(ann).strip('"\'')
                if s in IMMUTABLE_ANN:
                    return True
        return False

    def _param_numeric(self, name):
        for a in self.f.node.args.posonlyargs + self.f.node.args.args:
            if a.arg == name and a.annotation is not None:
                s = ast.unparse(a.annotation).strip('"\'')
                return s in NUMERIC_ANN
        return False

    def origin_of_expr(self, e, seen=()):
        if isinstance(e, ast.Name):
            return self.origin_of_name(e.id, seen)
        if isinstance(e, (ast.List, ast.Dict, ast.Set, ast.ListComp, ast.DictComp, ast.SetComp, ast.GeneratorExp, ast.Tuple)):
            return FRESH
        if isinstance(e, ast.Constant) or isinstance(e, ast.JoinedStr):
            return IMMUT
        if isinstance(e, ast.Starred):
            return self.origin_of_expr(e.value, seen)
        if isinstance(e, (ast.BinOp, ast.UnaryOp, ast.Compare, ast.BoolOp)):
            if isinstance(e, ast.BoolOp):
                return self._join({self.origin_of_expr(v, seen) for v in e.values})
            return FRESH          # operators allocate (no in-place dunders: checked by R2)
        if isinstance(e, ast.IfExp):
            return self._join({self.origin_of_expr(e.body, seen), self.origin_of_expr(e.orelse, seen)})
        if isinstance(e, (ast.Subscript, ast.Attribute)):
            if isinstance(e, ast.Subscript) and isinstance(e.slice, ast.Slice):
                base = self.origin_of_expr(e.value, seen)
                return FRESH if base in (FRESH, IMMUT, PARAM, MODULE, SELF, SELF_INIT, CLASS, FRESHPART) and self._slice_copies(e) else base
            o = self.origin_of_expr(e.value, seen)
            if isinstance(e, ast.Attribute) and o in (SELF, SELF_INIT) and self._is_class_level_container(e.attr):
                return CLASS          # self.X where X is a mutable container bound in a class body: shared by all instances
            return FRESHPART if o == FRESH else o
        if isinstance(e, ast.Call):
            fn = e.func
            if isinstance(fn, ast.Name):
                if fn.id == "cast" and len(e.args) == 2:
                    return self.origin_of_expr(e.args[1], seen)
                if fn.id in FRESH_CALLS and self.repo.resolve_binding(self.f.module, fn.id) is None:
                    return FRESH
                if fn.id in ("type", "super", "isinstance", "hasattr"):
                    return IMMUT
                if fn.id == "globals":
                    return MODULE
                r = self.repo.resolve_binding(self.f.module, fn.id)
                if r is not None and r[0] == "class":
                    return FRESH
                if r is not None and r[0] == "func":
                    return self.A.return_origin(r[1], e, self)
                if r is not None and r[0] == "assign":
                    return FRESH if fn.id[:1].isupper() else UNKNOWN     # NewType wrappers / class aliases
                if fn.id in self.params or fn.id in self.assigns:
                    return FRESH if fn.id == "cls" or fn.id == self.params[:1] else UNKNOWN
                return UNKNOWN
            if isinstance(fn, ast.Call) and isinstance(fn.func, ast.Name) and fn.func.id == "type":
                return FRESH             # type(self)(...)
            if isinstance(fn, ast.Attribute):
                if fn.attr in ("digest", "to_bytes", "from_bytes", "join", "keys", "values", "items", "index", "copy",
                               "one", "zero", "inv", "hex", "encode", "decode", "bit_length", "new", "ceil", "log2"):
                    return FRESH
                if fn.attr == "pop":
                    o = self.origin_of_expr(fn.value, seen)
                    return FRESHPART if o == FRESH else o
                tgt = self.A.resolve_method(fn, self)
                if tgt is not None:
                    if isinstance(tgt, ClassInfo):
                        return FRESH
                    return self.A.return_origin(tgt, e, self)
                return UNKNOWN
            return UNKNOWN
        if isinstance(e, ast.NamedExpr):
            return self.origin_of_expr(e.value, seen)
        return UNKNOWN

    def _is_class_level_container(self, attr):
        """attr is bound in the body of the method's class (or a base) to a dict/list/set display or constructor call and never
        assigned on instances by this class's methods"""
        cls = self.f.cls
        if cls is None:
            return False
        try:
            mro = cls.mro(self.repo)
        except Exception:
            mro = [cls]
        for c in mro:
            node = getattr(c, "attr_nodes", {}).get(attr)
            if node is None:
                continue
            mutable = isinstance(node, (ast.Dict, ast.List, ast.Set, ast.DictComp, ast.ListComp, ast.SetComp)) or (
                isinstance(node, ast.Call) and isinstance(node.func, ast.Name)
                and node.func.id in ("dict", "list", "set", "OrderedDict", "defaultdict", "bytearray", "deque"))
            if not mutable:
                return False
            for m in getattr(c, "methods", {}).values():
                for n in ast.walk(m.node):
                    if isinstance(n, ast.Attribute) and n.attr == attr and isinstance(n.ctx, ast.Store):
                        return False      # rebound per instance
            return True
        return False

    @staticmethod
    def _slice_copies(e):
        return True           # slicing list/tuple/bytes copies the spine


class Effects:
    def __init__(self, repo: Repo):
        self.repo = repo
        self.funcs = {}
        for f in repo.all_functions():
            self.funcs[f.qualname] = FuncEffects(repo, f, self)
        self._ret_cache = {}
        self.sites = []
        self.calls = []       # (caller FuncEffects, call node, callee FuncRef)
        for fe in self.funcs.values():
            self._scan_sites(fe)

    # ---- helpers -------------------------------------------------------
    def resolve_method(self, attr_node, fe):
        """cls.m / self.m / Class.m / module.f -> FuncRef|ClassInfo|None"""
        v = attr_node.value
        name = attr_node.attr
        if isinstance(v, ast.Name):
            if fe.f.cls is not None and fe.params and v.id == fe.params[0] and fe.f.kind != "staticmethod":
                for c in self._subclasses_and_mro(fe.f.cls):
                    if name in c.methods:
                        return c.methods[name]
                return None
            r = self.repo.resolve_binding(fe.f.module, v.id)
            if r is not None and r[0] == "class":
                for c in r[1].mro(self.repo):
                    if name in c.methods:
                        return c.methods[name]
            if r is not None and r[0] == "module":
                r2 = self.repo.resolve_binding(r[1], name)
                if r2 is not None and r2[0] in ("func", "class"):
                    return r2[1]
        if isinstance(v, ast.Call) and isinstance(v.func, ast.Name) and v.func.id == "super" and fe.f.cls is not None:
            for c in fe.f.cls.mro(self.repo)[1:]:
                if name in c.methods:
                    return c.methods[name]
        return None

    def _subclasses_and_mro(self, cls):
        return cls.mro(self.repo)

    def return_origin(self, callee: FuncRef, call_node, caller_fe):
        """origin of the value returned by a call of callee, in the caller's terms"""
        key = callee.qualname
        if key not in self._ret_cache:
            self._ret_cache[key] = ("pending",)
            fe = self.funcs.get(key)
            outs = set()
            if fe is None:
                outs.add(UNKNOWN)
            else:
                for n in ast.walk(callee.node):
                    if isinstance(n, ast.Return) and n.value is not None:
                        o = fe.origin_of_expr(n.value)
                        if o == PARAM:
                            outs.add(("param", self._params_in(n.value, fe)))
                        else:
                            outs.add(o)
            if is_memoised(callee):
                # one object per distinct argument tuple, shared by every caller: fresh results become shared state
                outs = {MODULE if o in (FRESH, FRESHPART) else o for o in outs}
            self._ret_cache[key] = tuple(outs)
        outs = self._ret_cache[key]
        if outs == ("pending",):
            return FRESH
        res = set()
        for o in outs:
            if isinstance(o, tuple) and o[0] == "param":
                # returns (part of) a parameter: map to the caller's argument origins
                fe = self.funcs[key]
                offset = 1 if (callee.cls is not None and callee.kind != "staticmethod") else 0
                for pn in o[1]:
                    try:
                        idx = fe.params.index(pn) - offset
                    except ValueError:
                        continue
                    if isinstance(call_node.func, ast.Attribute) and not offset:
                        pass
                    if 0 <= idx < len(call_node.args):
                        res.add(caller_fe.origin_of_expr(call_node.args[idx]))
                    else:
                        kws = {k.arg: k.value for k in call_node.keywords}
                        res.add(caller_fe.origin_of_expr(kws[pn]) if pn in kws else UNKNOWN)
            elif o in (SELF, SELF_INIT):
                if isinstance(call_node.func, ast.Attribute):
                    res.add(caller_fe.origin_of_expr(call_node.func.value))
                else:
                    res.add(UNKNOWN)
            elif o == CLASS:
                res.add(CLASS)
            else:
                res.add(o)
        return FuncEffects._join(res) if res else IMMUT

    @staticmethod
    def _params_in(expr, fe):
        names = set()
        todo = [expr]
        seen = set()
        while todo:
            e = todo.pop()
            for n in ast.walk(e):
                if isinstance(n, ast.Name) and n.id not in seen:
                    seen.add(n.id)
                    if n.id in fe.params:
                        names.add(n.id)
                    for kind, v in fe.assigns.get(n.id, []):
                        if kind in ("expr", "elem") and v is not None:
                            todo.append(v)
        return tuple(sorted(names))

    # ---- store sites ---------------------------------------------------
    def _scan_sites(self, fe: FuncEffects):
        f = fe.f
        for node in ast.walk(f.node):
            tgts = []
            if isinstance(node, ast.Assign):
                tgts = [(t, "store") for t in node.targets]
            elif isinstance(node, ast.AnnAssign) and node.value is not None:
                tgts = [(node.target, "store")]
            elif isinstance(node, ast.AugAssign):
                tgts = [(node.target, "augstore")]
            elif isinstance(node, ast.Delete):
                tgts = [(t, "del") for t in node.targets]
            elif isinstance(node, (ast.Global, ast.Nonlocal)):
                self.sites.append(Site(f, node, "global-decl", ",".join(node.names), MODULE))
            for t, kind in tgts:
                for tt in self._flatten(t):
                    if isinstance(tt, (ast.Attribute, ast.Subscript)):
                        o = fe.origin_of_expr(tt.value)
                        if o == SELF_INIT and isinstance(tt, ast.Attribute) and isinstance(tt.value, ast.Name):
                            o = "self-field-in-init"
                        self.sites.append(Site(f, node, kind, ast.unparse(tt), o))
                        self._note_param_mutation(fe, tt.value, o)
                    elif isinstance(tt, ast.Name) and kind == "augstore":
                        o = fe.origin_of_name(tt.id)
                        if o == IMMUT and tt.id in fe.params and not fe._param_numeric(tt.id) \
                                and not any(k != "aug" for k, _ in fe.assigns.get(tt.id, [])):
                            # `param += x` rebinds for bytes/str/tuple but extends a bytearray/list argument in place; annotations
                            # are not enforced and the byte-string parameters of this package accept bytearray
                            o = PARAM
                        if isinstance(node, ast.AugAssign) and isinstance(node.value, ast.Constant) and \
                                isinstance(node.value.value, (int, float)) and not isinstance(node.value.value, bool):
                            # `k += 1`, `e >>= 1`: a numeric right operand — a container on the left would raise TypeError, a number
                            # is rebound; nothing is mutated either way
                            o = IMMUT
                        # rebinding for immutable values; in-place for lists & co
                        self.sites.append(Site(f, node, "aug-name", tt.id, o))
                        self._note_param_mutation(fe, tt, o)
                    elif isinstance(tt, ast.Name) and kind == "del":
                        pass
            if isinstance(node, ast.Call):
                fn = node.func
                if isinstance(fn, ast.Attribute) and fn.attr in MUTATORS:
                    o = fe.origin_of_expr(fn.value)
                    self.sites.append(Site(f, node, "mutating-call", ast.unparse(fn), o))
                    self._note_param_mutation(fe, fn.value, o)
                callee = None
                if isinstance(fn, ast.Name):
                    r = self.repo.resolve_binding(f.module, fn.id)
                    if r is not None and r[0] == "func":
                        callee = r[1]
                elif isinstance(fn, ast.Attribute):
                    callee = self.resolve_method(fn, fe)
                if isinstance(callee, FuncRef):
                    self.calls.append((fe, node, callee))

    def _note_param_mutation(self, fe, base_expr, origin):
        if origin in (PARAM, SELF):
            for n in ast.walk(base_expr):
                if isinstance(n, ast.Name):
                    ps = self._params_in(n, fe)
                    fe.mutated_params.update(ps)
                    if origin == SELF and fe.params:
                        fe.mutated_params.add(fe.params[0])

    @staticmethod
    def _flatten(t):
        if isinstance(t, (ast.Tuple, ast.List)):
            for e in t.elts:
                yield from Effects._flatten(e)
        elif isinstance(t, ast.Starred):
            yield from Effects._flatten(t.value)
        else:
            yield t


def constructor_helpers(E):
    """private methods whose every call in the package is `self.<name>(…)` from a constructor (or from another such
    helper): they initialise the object under construction, like __init__ itself"""
    ctor_helpers = set()
    grew = True
    while grew:
        grew = False
        sites_of = {}
        for caller, call, callee in E.calls:
            sites_of.setdefault(callee.qualname, []).append((caller, call))
        for q, sites in sites_of.items():
            fe = E.funcs.get(q)
            if fe is None or q in ctor_helpers or fe.f.cls is None or not fe.f.node.name.startswith("_") \
                    or fe.f.node.name.startswith("__") or fe.f.kind in ("staticmethod", "classmethod"):
                continue
            ok_all = True
            for caller, call in sites:
                cname = caller.f.node.name
                recv_ok = (isinstance(call.func, ast.Attribute) and isinstance(call.func.value, ast.Name) and caller.params
                           and call.func.value.id == caller.params[0])
                if not (recv_ok and (cname == "__init__" or caller.f.qualname in ctor_helpers)):
                    ok_all = False
            if ok_all:
                ctor_helpers.add(q)
                grew = True
    return ctor_helpers
