"""Self-test of the checkers (DESIGN §6): scratch copies of the package with one
AST/text-located edit each; 'fire' variants must produce a VIOLATION for the
named property, 'silent' variants (behaviour-preserving twins) must pass.
Usage: python -m vstatic.selftest [--only SUBSTR] [--jobs N] [--prop Cxx]"""
from __future__ import annotations

import argparse
import os
import shutil
import subprocess
import sys
import tempfile
import time
from concurrent.futures import ThreadPoolExecutor
from pathlib import Path

from .selftest_cases import CASES

VERIF = Path(__file__).resolve().parent.parent
REPO = Path(os.environ.get("VERIF_REPO", "/repo"))


def run_case(case, root):
    d = root / case["id"]
    (d / "out").mkdir(parents=True)
    shutil.copytree(REPO / "py_ecc", d / "py_ecc")
    if case.get("transform"):
        import ast
        from .treetwins import TRANSFORMS
        for f in (d / "py_ecc").rglob("*.py"):
            tree = ast.parse(f.read_text())
            tr = TRANSFORMS[case["transform"]]
            if tr is not None:
                tree = ast.fix_missing_locations(tr(tree))
            f.write_text(ast.unparse(tree) + "\n")
    for ed in case["edits"]:
        f = d / ed["file"]
        s = f.read_text()
        cnt = s.count(ed["old"])
        if cnt != ed.get("count", 1):
            return case, "BROKEN-CASE", f"{ed['file']}: pattern occurs {cnt}x: {ed['old'][:60]!r}", 0
        s = s.replace(ed["old"], ed["new"])
        f.write_text(s)
    env = dict(os.environ, VERIF_REPO=str(d), VERIF_OUT=str(d / "out"))
    t = time.time()
    res = []
    for prop in case["props"]:
        r = subprocess.run([str(VERIF / "check"), prop], capture_output=True, text=True, env=env)
        res.append((prop, r.returncode, r.stdout + r.stderr))
    shutil.rmtree(d, ignore_errors=True)
    dt = time.time() - t
    if case["expect"] == "fire":
        fired = [p for p, rc, out in res if rc == 1 and f"VIOLATION property={p}" in out]
        if fired:
            want = case.get("rule")
            if want and not any(want in out for _, _, out in res):
                return case, "WRONG-RULE", "\n".join(out for _, _, out in res)[-1500:], dt
            return case, "ok", "", dt
        return case, "MISSED", "\n".join(f"[{p} rc={rc}] " + out[-600:] for p, rc, out in res), dt
    else:
        badp = [(p, rc, out) for p, rc, out in res if rc != 0]
        if badp:
            return case, "FALSE-ALARM", "\n".join(f"[{p} rc={rc}] " + out[-900:] for p, rc, out in badp), dt
        return case, "ok", "", dt


def main():
    ap = argparse.ArgumentParser()
    ap.add_argument("--only", default=None)
    ap.add_argument("--prop", default=None)
    ap.add_argument("--jobs", type=int, default=14)
    ap.add_argument("-v", action="store_true")
    a = ap.parse_args()
    cases = [c for c in CASES if (not a.only or a.only in c["id"]) and (not a.prop or a.prop in c["props"])]
    root = Path(tempfile.mkdtemp(prefix="pyecc-selftest-"))
    bad = 0
    try:
        with ThreadPoolExecutor(a.jobs) as ex:
            for case, status, msg, dt in ex.map(lambda c: run_case(c, root), cases):
                print(f"{status:12s} {case['expect']:6s} {','.join(case['props']):8s} {case['id']}  ({dt:.1f}s)")
                if status != "ok":
                    bad += 1
                    print("    " + msg.replace("\n", "\n    "))
                elif a.v:
                    print("    " + msg)
    finally:
        shutil.rmtree(root, ignore_errors=True)
    print(f"{len(cases)} cases, {bad} not ok")
    return 1 if bad else 0


if __name__ == "__main__":
    sys.exit(main())
