"""E1: loader / resolver.  Parses every module of the package under analysis
with `ast`, builds top-level binding tables, resolves import chains to defining
modules, builds class tables with C3 MRO.  Nothing is imported or executed.
"""
from __future__ import annotations

import ast
import os
import hashlib
from pathlib import Path

from .term import AnalysisError

REPO = Path(os.environ.get("VERIF_REPO", "/repo"))
PKG = "py_ecc"


class External:
    """A name that lives outside the analysed package (stdlib, eth_utils …)."""
    __slots__ = ("qual",)
    _cache: dict = {}

    def __new__(cls, qual):
        e = cls._cache.get(qual)
        if e is None:
            e = object.__new__(cls)
            e.qual = qual
            cls._cache[qual] = e
        return e

    def __repr__(self):
        return f"<ext {self.qual}>"

    def __deepcopy__(self, memo):
        return self


class FuncRef:
    __slots__ = ("module", "node", "cls", "qualname", "kind")

    def __init__(self, module, node, cls=None):
        self.module = module
        self.node = node
        self.cls = cls
        self.qualname = (f"{module.name}.{cls.name}.{node.name}" if cls
                         else f"{module.name}.{node.name}")
        kind = "function"
        for d in node.decorator_list:
            dn = ast.unparse(d)
            if dn in ("classmethod", "staticmethod", "cached_property", "property"):
                kind = dn
        self.kind = kind

    def __repr__(self):
        return f"<func {self.qualname}>"

    def __deepcopy__(self, memo):
        return self

    @property
    def params(self):
        a = self.node.args
        return [x.arg for x in a.posonlyargs + a.args]

    @property
    def where(self):
        return f"{self.module.relpath}:{self.node.lineno}"


class ClassInfo:
    def __init__(self, module, name, node=None, bases=None, dyn_attrs=None):
        self.module = module
        self.name = name
        self.node = node
        self._bases = bases          # resolved lazily for static classes
        self.dyn_attrs = dyn_attrs or {}
        self.attr_nodes = {}
        self.methods = {}
        self._mro = None
        self._attr_cache = {}
        if node is not None:
            for st in node.body:
                if isinstance(st, ast.FunctionDef):
                    self.methods[st.name] = FuncRef(module, st, self)
                elif isinstance(st, ast.Assign):
                    for t in st.targets:
                        if isinstance(t, ast.Name):
                            self.attr_nodes[t.id] = st.value
                elif isinstance(st, ast.AnnAssign) and isinstance(st.target, ast.Name):
                    if st.value is not None:
                        self.attr_nodes[st.target.id] = st.value

    @property
    def qualname(self):
        return f"{self.module.name}.{self.name}" if self.module else self.name

    def __repr__(self):
        return f"<class {self.qualname}>"

    def __deepcopy__(self, memo):
        return self

    def bases(self, repo):
        if self._bases is None:
            bs = []
            for b in self.node.bases:
                v = repo.eval_static_name(self.module, b)
                bs.append(v)
            self._bases = bs
        return self._bases

    def mro(self, repo):
        if self._mro is None:
            self._mro = _c3(self, repo)
        return self._mro

    def is_subclass(self, other, repo):
        return other in self.mro(repo)


def _c3(cls, repo):
    bases = [b for b in cls.bases(repo) if isinstance(b, ClassInfo)]
    seqs = [list(b.mro(repo)) for b in bases] + [list(bases)]
    res = [cls]
    while True:
        seqs = [s for s in seqs if s]
        if not seqs:
            return res
        for s in seqs:
            cand = s[0]
            if not any(cand in t[1:] for t in seqs):
                break
        else:
            raise AnalysisError(f"inconsistent MRO for {cls.qualname}")
        res.append(cand)
        for s in seqs:
            if s[0] is cand:
                del s[0]


class ModuleInfo:
    def __init__(self, name, path, relpath, src):
        self.name = name
        self.path = path
        self.relpath = relpath
        self.src = src
        self.tree = ast.parse(src, filename=str(path))
        self.is_pkg = path.name == "__init__.py"
        self.bindings = {}      # name -> list of (kind, payload)
        self.functions = {}
        self.classes = {}
        self.toplevel_touched = {}
        self.toplevel_touching = {}
        self._index(self.tree.body)

    def __repr__(self):
        return f"<module {self.name}>"

    def __deepcopy__(self, memo):
        return self

    def _bind(self, name, kind, payload):
        self.bindings.setdefault(name, []).append((kind, payload))

    def _index(self, body):
        for st in body:
            if isinstance(st, ast.FunctionDef):
                f = FuncRef(self, st)
                self.functions[st.name] = f
                self._bind(st.name, "func", f)
            elif isinstance(st, ast.ClassDef):
                c = ClassInfo(self, st.name, st)
                self.classes[st.name] = c
                self._bind(st.name, "class", c)
            elif isinstance(st, ast.Import):
                for a in st.names:
                    self._bind(a.asname or a.name.split(".")[0], "import",
                               (a.name if a.asname else a.name.split(".")[0]))
            elif isinstance(st, ast.ImportFrom):
                for a in st.names:
                    self._bind(a.asname or a.name, "from", (st.module, st.level, a.name))
            elif isinstance(st, ast.Assign):
                for t in st.targets:
                    self._bind_target(t, st.value, st)
            elif isinstance(st, ast.AnnAssign):
                if st.value is not None:
                    self._bind_target(st.target, st.value, st)
            elif isinstance(st, ast.If):
                # `if TYPE_CHECKING:` imports are typing-only; other top-level ifs are
                # import-time sanity checks (raise) and bind nothing we follow.
                if ast.unparse(st.test) == "TYPE_CHECKING":
                    for s2 in st.body:
                        if isinstance(s2, ast.ImportFrom):
                            for a in s2.names:
                                self._bind(a.asname or a.name, "typing", None)
                elif not (all(isinstance(s2, (ast.Raise, ast.Assert, ast.Pass)) for s2 in st.body) and not st.orelse):
                    self._touch(st)
            elif isinstance(st, (ast.For, ast.While, ast.With, ast.Try, ast.AugAssign, ast.Delete)):
                self._touch(st)
            elif isinstance(st, ast.Expr) and not isinstance(st.value, ast.Constant):
                self._touch(st)

    def _touch(self, st):
        """a module-level statement that is not a plain binding: the names it may bind or mutate (stores, receivers of
        mutating method calls) are not the value of their defining assignment any more.  A name merely passed to a function
        (import-time sanity checks do that) is not counted: mutation of an argument by a callee is C20's subject"""
        probe = ModuleProbe()
        probe.toplevel_touched = {}
        ModuleInfo._touch_names(probe, st)
        for nm, ln in probe.toplevel_touched.items():
            self.toplevel_touched.setdefault(nm, ln)
            self.toplevel_touching.setdefault(nm, []).append(st)

    def _touch_names(self, st):
        for n in ast.walk(st):
            if isinstance(n, ast.Name) and isinstance(n.ctx, (ast.Store, ast.Del)):
                self.toplevel_touched.setdefault(n.id, st.lineno)
            elif isinstance(n, (ast.Attribute, ast.Subscript)) and isinstance(n.ctx, (ast.Store, ast.Del)):
                b = n.value
                while isinstance(b, (ast.Attribute, ast.Subscript)):
                    b = b.value
                if isinstance(b, ast.Name):
                    self.toplevel_touched.setdefault(b.id, st.lineno)
            elif isinstance(n, ast.Call):
                if isinstance(n.func, ast.Attribute) and n.func.attr in _MUTATORS:
                    b = n.func.value
                    while isinstance(b, (ast.Attribute, ast.Subscript)):
                        b = b.value
                    if isinstance(b, ast.Name):
                        self.toplevel_touched.setdefault(b.id, st.lineno)

    def _bind_target(self, t, value, st):
        if isinstance(t, ast.Name):
            self._bind(t.id, "assign", (value, None, st))
        elif isinstance(t, (ast.Tuple, ast.List)):
            for i, e in enumerate(t.elts):
                if isinstance(e, ast.Name):
                    self._bind(e.id, "assign", (value, i, st))
                else:
                    raise AnalysisError(f"{self.relpath}:{st.lineno}: nested unpack at top level")


class ModuleProbe:
    pass


_MUTATORS = {"append", "extend", "insert", "pop", "remove", "clear", "update", "setdefault", "add", "discard", "sort", "reverse",
             "popitem", "appendleft", "extendleft", "popleft", "rotate", "move_to_end", "__setitem__", "__delitem__", "write",
             "writelines", "put", "send", "fill", "difference_update", "intersection_update", "symmetric_difference_update"}
_PURE_BUILTINS = {"range", "len", "int", "max", "min", "pow", "sum", "abs", "isinstance", "issubclass", "print", "repr", "str",
                  "bytes", "tuple", "list", "dict", "set", "frozenset", "enumerate", "zip", "reversed", "sorted", "all", "any",
                  "divmod", "bool", "float", "hash", "id", "type", "iter", "next", "map", "filter", "round", "bin", "hex", "ord", "chr"}


class Repo:
    def __init__(self, root: Path = None, sources: dict = None):
        self.root = Path(root) if root else REPO
        self.from_sources = sources is not None
        self.modules = {}
        self.digest = hashlib.sha256()
        pkgdir = self.root / PKG
        if sources is None:
            if not pkgdir.is_dir():
                raise AnalysisError(f"package directory {pkgdir} not found")
            files = [(p, p.read_text()) for p in sorted(pkgdir.rglob("*.py"))]
        else:
            files = [(self.root / rel, src) for rel, src in sorted(sources.items())]
        for p, src in files:
            rel = p.relative_to(self.root)
            parts = list(rel.with_suffix("").parts)
            if parts[-1] == "__init__":
                parts = parts[:-1]
            name = ".".join(parts)
            self.digest.update(str(rel).encode() + b"\0" + src.encode() + b"\0")
            try:
                self.modules[name] = ModuleInfo(name, p, str(rel), src)
            except SyntaxError as e:
                raise AnalysisError(f"syntax error in {rel}: {e}")
        self.stats = {"modules": len(self.modules),
                      "functions": sum(len(m.functions) + sum(len(c.methods) for c in m.classes.values())
                                       for m in self.modules.values()),
                      "classes": sum(len(m.classes) for m in self.modules.values())}

    # ---- lookups -------------------------------------------------------
    def module(self, name):
        m = self.modules.get(name)
        if m is None:
            raise AnalysisError(f"anchor vanished: module {name}")
        return m

    def func(self, qual):
        """'py_ecc.bls.hash.i2osp' or 'py_ecc.bls.ciphersuites.G2Basic.Verify'"""
        parts = qual.split(".")
        for i in range(len(parts) - 1, 0, -1):
            mn = ".".join(parts[:i])
            if mn in self.modules:
                m = self.modules[mn]
                rest = parts[i:]
                if len(rest) == 1 and rest[0] in m.functions:
                    return m.functions[rest[0]]
                if len(rest) == 2 and rest[0] in m.classes and rest[1] in m.classes[rest[0]].methods:
                    return m.classes[rest[0]].methods[rest[1]]
                if len(rest) == 1 and rest[0] in m.bindings:
                    # the name is still exported by the module but defined elsewhere (moved and re-exported)
                    try:
                        r = self.resolve_binding(m, rest[0])
                    except AnalysisError:
                        r = None
                    if r is not None and r[0] == "func":
                        return r[1]
        raise AnalysisError(f"anchor vanished: function {qual}")

    def is_func(self, binding, qual):
        """the resolved binding (result of resolve_binding) is the function the package exports as `qual` — compared as
        objects, so a function that was moved to another module and re-exported still counts"""
        if not binding or binding[0] != "func":
            return False
        try:
            return binding[1] is self.func(qual)
        except AnalysisError:
            return False

    def aliases_of(self, qualname):
        """other dotted names under which the package exports the function defined as `qualname` (re-exports through imports)"""
        if getattr(self, "_aliases", None) is None:
            al = {}
            for m in self.modules.values():
                for name, bs in m.bindings.items():
                    if not any(k == "from" for k, _ in bs):
                        continue
                    try:
                        r = self.resolve_binding(m, name)
                    except AnalysisError:
                        continue
                    if r is not None and r[0] == "func" and r[1].module is not m:
                        al.setdefault(r[1].qualname, set()).add(f"{m.name}.{name}")
            self._aliases = al
        return self._aliases.get(qualname, ())

    def cls(self, qual):
        mn, _, cn = qual.rpartition(".")
        m = self.module(mn)
        if cn not in m.classes:
            raise AnalysisError(f"anchor vanished: class {qual}")
        return m.classes[cn]

    def resolve_module_name(self, cur: ModuleInfo, module, level):
        if level == 0:
            return module
        base = cur.name.split(".")
        if not cur.is_pkg:
            base = base[:-1]
        if level > 1:
            base = base[: len(base) - (level - 1)]
        return ".".join(base + ([module] if module else []))

    def resolve_binding(self, mod: ModuleInfo, name, _seen=None):
        """Follow import chains.  Returns one of
        ('func', FuncRef) ('class', ClassInfo) ('assign', (ModuleInfo, value_node, index, stmt))
        ('module', ModuleInfo) ('external', External) ('typing', None)"""
        _seen = _seen or set()
        key = (mod.name, name)
        if key in _seen:
            raise AnalysisError(f"import cycle resolving {name} in {mod.name}")
        _seen.add(key)
        bs = mod.bindings.get(name)
        if not bs:
            return None
        kinds = {k for k, _ in bs}
        if len(bs) > 1:
            if kinds == {"typing"} or kinds <= {"typing", "from"}:
                bs = [b for b in bs if b[0] != "typing"] or bs[:1]
            if len(bs) > 1:
                if all(k in ("func", "class", "from", "import") for k, _ in bs):
                    bs = bs[-1:]       # a def / class / import that shadows an earlier one: the last top-level binding is what
                    #                    every function body sees when it runs
                else:
                    raise AnalysisError(f"{mod.relpath}: top-level name {name!r} bound {len(bs)} times")
        kind, payload = bs[0]
        if kind in ("func", "class", "typing"):
            return (kind, payload)
        if kind == "assign":
            value, idx, st = payload
            if isinstance(value, ast.Name) and idx is None and value.id != name:
                # `exp_by_p = frobenius`: another name for a function or class
                r = self.resolve_binding(mod, value.id, _seen)
                if r is not None and r[0] in ("func", "class"):
                    return r
            return ("assign", (mod, value, idx, st))
        if kind == "import":
            top = payload
            if top == PKG or top.startswith(PKG + "."):
                return ("module", self.module(top))
            return ("external", External(top))
        if kind == "from":
            module, level, orig = payload
            target = self.resolve_module_name(mod, module, level)
            if target == PKG or target.startswith(PKG + "."):
                sub = f"{target}.{orig}"
                if target in self.modules:
                    tm = self.modules[target]
                    r = self.resolve_binding(tm, orig, _seen)
                    if r is not None:
                        return r
                if sub in self.modules:
                    return ("module", self.modules[sub])
                raise AnalysisError(f"{mod.relpath}: cannot resolve `from {target} import {orig}`")
            return ("external", External(f"{target}.{orig}"))
        raise AnalysisError(f"binding kind {kind}")

    def eval_static_name(self, mod, node):
        """resolve a Name/Attribute used as a base class"""
        if isinstance(node, ast.Name):
            r = self.resolve_binding(mod, node.id)
            if r is None:
                return External(f"builtins.{node.id}")
            if r[0] in ("class", "external"):
                return r[1]
        raise AnalysisError(f"{mod.relpath}: unsupported base class expression {ast.unparse(node)}")

    # ---- iteration helpers ---------------------------------------------
    def all_functions(self):
        for m in self.modules.values():
            for f in m.functions.values():
                yield f
            for c in m.classes.values():
                for f in c.methods.values():
                    yield f


def norm_stmt(node):
    """normalised statement text used as a line-independent key"""
    return " ".join(ast.unparse(node).split())
