"""Domains for C10: the simplified-SWU code is walked by the evaluator with

  LR  — Laurent polynomials in (u, v) with one power atom π = m^e  (analysis of sqrt_division_*):
        π² = ω / m  where ω = m^(2e+1) is a root of unity of small order k (Fermat), case-split over μ_k;
  SW  — polynomials in t over K with one atom Γ (the value returned by sqrt_division) subject to
        Γ²·v = c·u  (the summary established with LR); zero tests are decided exactly in K[t]
        (PID: gcd / remainder), also modulo the exceptional-case condition.
"""
from __future__ import annotations

from math import gcd as igcd

from .term import AnalysisError, AbstractValue, Term
from .fieldmodel import FieldVal
from .kpoly import KT, gcd, squarefree, coprime_part, rational_part, has_root


def k_of(K, o):
    """lift an int / concrete field value into K"""
    ext = hasattr(K, "d")
    if isinstance(o, bool):
        o = int(o)
    if isinstance(o, int):
        return ((o % K.p,) + (0,) * (K.d - 1)) if ext else o % K.p
    if isinstance(o, FieldVal):
        if o.kind == "FQ":
            return ((o.v % K.p,) + (0,) * (K.d - 1)) if ext else o.v % K.p
        if ext and len(o.v) == K.d:
            return tuple(c % K.p for c in o.v)
    return None


class RingClass(AbstractValue):
    """type(x) of a symbolic field element of the map: only the constants zero()/one() are used"""
    sort = "class"

    def v_getattr(self, name, it):
        if name == "zero":
            return lambda: 0
        if name == "one":
            return lambda: 1
        raise AnalysisError(f"attribute {name} of the class of a symbolic field element")


class Pruned(Exception):
    """the current path is infeasible (decided numerically on folded constants)"""


# ---------------------------------------------------------------------------
# LR: analysis of the square-root-of-ratio helpers
# ---------------------------------------------------------------------------
class LRCtx:
    def __init__(self, K, order, omega=None):
        self.K, self.n, self.omega = K, order, omega
        self.atom = None          # (alpha, beta, e)

    def relation(self):
        a, b, e = self.atom
        return self.omega, -a, -b      # π² = ω u^-a v^-b


class LR(AbstractValue):
    sort = "field"
    __slots__ = ("t", "cx")

    def __init__(self, terms, cx):
        z = cx.K.zero()
        self.t = {m: c for m, c in terms.items() if c != z}
        self.cx = cx

    @staticmethod
    def mono(cx, a, b, c=0):
        return LR({(a, b, c): cx.K.one()}, cx)

    def _lift(self, o):
        if isinstance(o, LR):
            return o
        k = k_of(self.cx.K, o)
        if k is None:
            return None
        return LR({(0, 0, 0): k}, self.cx)

    def _add(self, o, sign):
        K = self.cx.K
        t = dict(self.t)
        for m, c in o.t.items():
            c = c if sign > 0 else K.neg(c)
            t[m] = K.add(t[m], c) if m in t else c
        return LR(t, self.cx)

    def _mul(self, o):
        K = self.cx.K
        t = {}
        for (a1, b1, c1), x in self.t.items():
            for (a2, b2, c2), y in o.t.items():
                a, b, c, k = a1 + a2, b1 + b2, c1 + c2, K.mul(x, y)
                if c >= 2:
                    if self.cx.atom is None:
                        raise AnalysisError("power atom used before it was created")
                    w, da, db = self.cx.relation()
                    j = c // 2
                    c -= 2 * j
                    a += da * j
                    b += db * j
                    k = K.mul(k, K.pow(w, j))
                m = (a, b, c)
                t[m] = K.add(t[m], k) if m in t else k
        return LR(t, self.cx)

    def v_binop(self, op, other, reflected, it):
        K = self.cx.K
        if op == "pow":
            if reflected or not isinstance(other, int) or isinstance(other, bool) or other < 0:
                raise AnalysisError(f"power {other!r} in the square-root helper")
            if other <= 64:
                r = LR({(0, 0, 0): K.one()}, self.cx)
                for _ in range(other):
                    r = r._mul(self)
                return r
            if len(self.t) != 1:
                raise AnalysisError("large power of a non-monomial in the square-root helper")
            (a, b, c), k = next(iter(self.t.items()))
            if c != 0:
                raise AnalysisError("large power of a value that already contains the power atom")
            if self.cx.atom is not None and self.cx.atom != (a, b, other):
                raise AnalysisError("more than one large power in the square-root helper")
            self.cx.atom = (a, b, other)
            return LR({(0, 0, 1): K.pow(k, other)}, self.cx)
        o = self._lift(other)
        if o is None:
            return NotImplemented
        x, y = (o, self) if reflected else (self, o)
        if op == "add":
            return x._add(y, 1)
        if op == "sub":
            return x._add(y, -1)
        if op == "mul":
            return x._mul(y)
        raise AnalysisError(f"operator {op} in the square-root helper")

    def __neg__(self):
        return LR({m: self.cx.K.neg(c) for m, c in self.t.items()}, self.cx)

    def v_type(self, it):
        return RingClass()

    def zero_status(self):
        if not self.t:
            return True
        if len(self.t) == 1:
            return False          # a unit: u, v, π are non-zero
        return None

    def v_compare(self, op, other, it):
        o = self._lift(other)
        if o is None or op not in ("==", "!="):
            raise AnalysisError(f"comparison {op} in the square-root helper")
        c = LRCond(self._add(o, -1), True)
        return c if op == "==" else c.negate()

    def __repr__(self):
        return "LR{" + ", ".join(f"u^{a} v^{b} π^{c}" for (a, b, c) in self.t) + "}"

    def __deepcopy__(self, memo):
        return self


class LRCond(AbstractValue):
    sort = "bool"

    def __init__(self, x, eq):
        self.x, self.eq = x, eq

    def negate(self):
        return LRCond(self.x, not self.eq)

    def decide(self, it):
        z = self.x.zero_status()
        return None if z is None else (z == self.eq)

    def assume(self, it, truth):
        pass


def small_order_roots(K, order, e, candidates):
    """k = order / gcd(order, 2e+1) and the k-th roots of unity in K (k a power of two <= 16), else None"""
    k = order // igcd(order, 2 * e + 1)
    if k not in (1, 2, 4, 8, 16):
        return k, None
    if k == 1:
        return 1, [K.one()]
    for g in candidates:
        z = K.pow(g, order // k)
        if K.pow(z, k // 2) != K.one():
            roots = [K.pow(z, j) for j in range(k)]
            return k, roots
    raise AnalysisError("no primitive root of unity found among the trial elements")


# ---------------------------------------------------------------------------
# SW: the map itself, in K[t][Γ]
# ---------------------------------------------------------------------------
class SWCtx:
    def __init__(self, K):
        self.K = K
        self.M = None            # square-free KT: the path runs over the roots of M only
        self.nonzero = []        # KT known non-zero on this path
        self.G = None            # (c, u, v): Γ² v = c u
        self.sgn_log = []
        self.notes = []

    def nzprod(self):
        r = KT.const(self.K, self.K.one())
        for f in self.nonzero:
            r = r * f
        if self.G is not None:
            r = r * self.G[1]           # u = g(x1)·D³ ≠ 0: no point of order 2 on E' and D ≠ 0 (checked at the helper call)
        return r

    def red(self, f: KT):
        return f % self.M if self.M is not None else f

    def parts(self, x: "SW"):
        """x = E + Γ·O with Γ² replaced by c·u/v and denominators cleared; both reduced modulo the path condition"""
        K = self.K
        even, odd = {}, {}
        for k, f in x.p.items():
            (odd if k % 2 else even)[k // 2] = f
        parts = []
        for grp in (even, odd):
            if not grp:
                parts.append(KT(K, []))
                continue
            if self.G is None:
                if set(grp) != {0}:
                    raise AnalysisError("Γ used before the square-root helper was called")
                parts.append(grp[0])
                continue
            c, u, v = self.G
            J = max(grp)
            cu = u.scale(c)
            tot = KT(K, [])
            for j, f in grp.items():
                tot = tot + f * (cu ** j) * (v ** (J - j))
            parts.append(tot)
        return self.red(parts[0]), self.red(parts[1])

    def zero_status(self, x: "SW"):
        E, O = self.parts(x)
        if not O.is_zero():
            return None
        if E.is_zero():
            return True
        if self.M is not None:
            return False if gcd(E, self.M).is_const() else None        # M has only roots in K (rational_part)
        g = coprime_part(E, self.nzprod())
        if g.is_const() or not has_root(g):
            return False            # every root of E in K is excluded by the path, or E has no root in K at all
        return None


class SW(AbstractValue):
    sort = "field"
    __slots__ = ("p", "cx")

    def __init__(self, parts, cx):
        self.p = {k: f for k, f in parts.items() if not f.is_zero()}
        self.cx = cx

    @staticmethod
    def t(cx):
        return SW({0: KT.var(cx.K)}, cx)

    @staticmethod
    def gamma(cx):
        return SW({1: KT.const(cx.K, cx.K.one())}, cx)

    def pure(self):
        if set(self.p) - {0}:
            return None
        return self.p.get(0, KT(self.cx.K, []))

    def _lift(self, o):
        if isinstance(o, SW):
            return o
        k = k_of(self.cx.K, o)
        if k is None:
            return None
        return SW({0: KT.const(self.cx.K, k)}, self.cx)

    def _add(self, o, sign):
        p = dict(self.p)
        for k, f in o.p.items():
            g = f if sign > 0 else -f
            p[k] = p[k] + g if k in p else g
        return SW(p, self.cx)

    def _mul(self, o):
        p = {}
        for k1, f in self.p.items():
            for k2, g in o.p.items():
                h = f * g
                p[k1 + k2] = p[k1 + k2] + h if (k1 + k2) in p else h
        return SW(p, self.cx)

    def v_binop(self, op, other, reflected, it):
        if op == "pow":
            if reflected or not isinstance(other, int) or isinstance(other, bool) or other < 0 or other > 64:
                raise AnalysisError(f"power {other!r} of a symbolic field element in the map")
            r = SW({0: KT.const(self.cx.K, self.cx.K.one())}, self.cx)
            for _ in range(other):
                r = r._mul(self)
            return r
        o = self._lift(other)
        if o is None:
            return NotImplemented
        x, y = (o, self) if reflected else (self, o)
        if op == "add":
            return x._add(y, 1)
        if op == "sub":
            return x._add(y, -1)
        if op == "mul":
            return x._mul(y)
        raise AnalysisError(f"operator {op} on a symbolic field element in the map")

    def __neg__(self):
        return SW({k: -f for k, f in self.p.items()}, self.cx)

    def v_compare(self, op, other, it):
        o = self._lift(other)
        if o is None or op not in ("==", "!="):
            raise AnalysisError(f"comparison {op} on a symbolic field element in the map")
        c = SWCond(self._add(o, -1), True)
        return c if op == "==" else c.negate()

    def v_type(self, it):
        return RingClass()

    def v_getattr(self, name, it):
        if name == "__class__":
            return RingClass()
        if name == "sgn0":
            self.cx.sgn_log.append(self)
            return Term("sgn0", (len(self.cx.sgn_log) - 1,), "int")
        raise AnalysisError(f"attribute {name} of a symbolic field element in the map")

    def is_zero(self):
        return self.cx.zero_status(self) is True

    def __repr__(self):
        return "SW{" + ", ".join(f"Γ^{k}:deg{f.deg()}" for k, f in sorted(self.p.items())) + "}"

    def __deepcopy__(self, memo):
        return self


class SWCond(AbstractValue):
    sort = "bool"

    def __init__(self, x, eq):
        self.x, self.eq = x, eq

    def negate(self):
        return SWCond(self.x, not self.eq)

    def decide(self, it):
        z = self.x.cx.zero_status(self.x)
        return None if z is None else (z == self.eq)

    def assume(self, it, truth):
        cx = self.x.cx
        f, O = cx.parts(self.x)
        if not O.is_zero():
            cx.notes.append("undecided test with an odd power of Γ")
            return
        zero = (truth == self.eq)
        if cx.M is None:
            if zero:
                cx.M = rational_part(squarefree(f))      # the path runs over the roots of f in K
            else:
                cx.nonzero.append(f)
        else:
            g = gcd(f, cx.M)
            cx.M = g if zero else (cx.M // g).monic()
