"""Textbook affine chord-and-tangent law (oracle) and the path/case
correspondence checker used by C13, C07.R1 and C18.R1."""
from __future__ import annotations

from .term import AnalysisError, show
from .poly import Poly, Rat, P
from .ecalg import AlgState, FieldSym, FieldSymClass, PolyCond, alg_paths
from .interp import Raised


# ---------------------------------------------------------------------------
# representations
# ---------------------------------------------------------------------------
class Rep:
    """how a point value is read: affine image or identity"""

    def __init__(self, kind, cls=None):
        self.kind = kind          # 'affine' | 'proj' | 'jac'
        self.cls = cls or FieldSymClass()

    def sym_point(self, tag, klass):
        """symbolic argument of representation class `klass` ('finite'|'inf')
        -> (value, nonzero polys, description)"""
        x, y, z = (FieldSym.var(f"{c}{tag}", self.cls) for c in "xyz")
        zero = FieldSym(Rat(Poly.const(0)), self.cls)
        if self.kind == "affine":
            return (None, [], "O") if klass == "inf" else ((x, y), [], f"({x.r.n!r}, {y.r.n!r})")
        if self.kind == "proj":
            if klass == "inf":
                return (x, y, zero), [], f"(x{tag} : y{tag} : 0)"
            return (x, y, z), [Poly.var(f"z{tag}")], f"(x{tag} : y{tag} : z{tag}), z{tag} != 0"
        if self.kind == "jac":
            if klass == "inf":
                return (zero, zero, z), [], f"(0, 0, z{tag})"
            return (x, y, z), [Poly.var(f"z{tag}"), Poly.var(f"y{tag}")], f"(x{tag}, y{tag}, z{tag}), y{tag}, z{tag} != 0"
        raise AnalysisError(self.kind)

    def image(self, v, st: AlgState):
        """-> ('inf',) | ('fin', X, Y) | ('unknown', marker Rat)"""
        if self.kind == "affine":
            if v is None:
                return ("inf",)
            if isinstance(v, tuple) and len(v) == 2:
                return ("fin", _rat(v[0], self.cls.tag), _rat(v[1], self.cls.tag))
            raise AnalysisError(f"affine point value {v!r}")
        if not (isinstance(v, tuple) and len(v) == 3):
            raise AnalysisError(f"point value {show(v)[:80]} is not a coordinate triple")
        X, Y, Z = (_rat(c, self.cls.tag) for c in v)
        if self.kind == "proj":
            z = st.is_zero(Z)
            if z is True:
                return ("inf",)
            if z is None:
                return ("unknown", Z)
            return ("fin", X / Z, Y / Z)
        # Jacobian, the code's marker: identity is (0, 0, *).  A result with Z provably non-zero is finite
        # (a finite point with Y = 0 would have order 2; excluded by the stated no-2-torsion assumption).
        zy = st.is_zero(Y)
        if zy is True:
            if st.is_zero(X) is not True:
                return ("badrep", X)
            return ("inf",)
        if st.is_zero(Z) is not False:
            return ("unknown", Z)
        return ("fin", X / (Z * Z), Y / (Z * Z * Z))

    def aff_of_arg(self, v, klass):
        if klass == "inf":
            return None
        if self.kind == "affine":
            return (_rat(v[0]), _rat(v[1]))
        X, Y, Z = (_rat(c) for c in v)
        if self.kind == "proj":
            return (X / Z, Y / Z)
        return (X / (Z * Z), Y / (Z * Z * Z))


class ConcreteCoord(AnalysisError):
    """a result coordinate is an object of a concrete field class although the operands are symbolic (a module constant
    selected by a type dispatch): decidable only in a run typed with the operands' field class"""


def _const_of_instance(c):
    """integer value of a concrete field object that is a base-field constant (c, 0, …, 0), else None"""
    from .interp import Instance
    if not isinstance(c, Instance):
        return None
    if "n" in c.attrs and isinstance(c.attrs["n"], int):
        return c.attrs["n"]
    cs = c.attrs.get("coeffs")
    if isinstance(cs, tuple) and cs:
        vals = []
        for x in cs:
            if isinstance(x, Instance) and isinstance(x.attrs.get("n"), int):
                vals.append(x.attrs["n"])
            elif isinstance(x, int) and not isinstance(x, bool):
                vals.append(x)
            else:
                return None
        if not any(vals[1:]):
            return vals[0]
    return None


def _rat(c, tag=None):
    if isinstance(c, FieldSym):
        return c.r
    if isinstance(c, int):
        return Rat(Poly.const(c))
    k = _const_of_instance(c)
    if k is not None:
        if tag is None:
            raise ConcreteCoord(f"coordinate {c!r} is an object of a concrete field class")
        if c.cls is not tag:
            raise WrongField(f"a coordinate of class {c.cls.qualname} is returned for operands over {tag.qualname}")
        return Rat(Poly.const(k))
    raise AnalysisError(f"coordinate {c!r} is not a field element")


class WrongField(Exception):
    pass


# ---------------------------------------------------------------------------
# the affine table.  a is the curve coefficient of x (0 for every curve here,
# kept symbolic-capable); expected results: ('inf',) | ('fin', X, Y) | bool
# ---------------------------------------------------------------------------

def chord(P1, P2):
    (x1, y1), (x2, y2) = P1, P2
    m = (y2 - y1) / (x2 - x1)
    x3 = m * m - x1 - x2
    return ("fin", x3, m * (x1 - x3) - y1)


def tangent(P1, a=0):
    x1, y1 = P1
    m = (Rat(3) * x1 * x1 + Rat(a)) / (Rat(2) * y1)
    x3 = m * m - x1 - x1
    return ("fin", x3, m * (x1 - x3) - y1)


def cases_add(A, B):
    """A, B affine images (None = O).  -> list of (name, conditions, expected)"""
    if A is None and B is None:
        return [("O+O", [], ("inf",))]
    if A is None:
        return [("O+Q", [], ("fin",) + B)]
    if B is None:
        return [("P+O", [], ("fin",) + A)]
    (x1, y1), (x2, y2) = A, B
    return [
        ("generic x1≠x2", [(x1 - x2, "ne")], chord(A, B)),
        ("P=Q, y≠0 (tangent)", [(x1 - x2, "eq"), (y1 - y2, "eq"), (y1, "ne")], tangent(A)),
        ("P=Q, y=0 (order 2)", [(x1 - x2, "eq"), (y1 - y2, "eq"), (y1, "eq")], ("inf",)),
        ("x1=x2, y1≠y2 (inverse)", [(x1 - x2, "eq"), (y1 - y2, "ne")], ("inf",)),
    ]


def cases_double(A):
    if A is None:
        return [("2·O", [], ("inf",))]
    x1, y1 = A
    return [("y≠0 (tangent)", [(y1, "ne")], tangent(A)), ("y=0 (order 2)", [(y1, "eq")], ("inf",))]


def cases_neg(A):
    if A is None:
        return [("-O", [], ("inf",))]
    return [("-P", [], ("fin", A[0], -A[1]))]


def cases_eq(A, B):
    if A is None and B is None:
        return [("O==O", [], True)]
    if A is None or B is None:
        return [("O==P", [], False)]
    (x1, y1), (x2, y2) = A, B
    return [("equal", [(x1 - x2, "eq"), (y1 - y2, "eq")], True),
            ("x differs", [(x1 - x2, "ne")], False),
            ("y differs", [(x1 - x2, "eq"), (y1 - y2, "ne")], False)]


def cases_on_curve(A, b, a=0):
    if A is None:
        return [("O on curve", [], True)]
    x, y = A
    f = y * y - x * x * x - Rat(a) * x - b
    return [("on curve", [(f, "eq")], True), ("off curve", [(f, "ne")], False)]


def cases_normalize(A):
    if A is None:
        return []
    return [("finite", [], ("fin",) + A)]


# ---------------------------------------------------------------------------
# the correspondence checker
# ---------------------------------------------------------------------------

class Obligation:
    def __init__(self, combo, case, ok, detail, path=None):
        self.combo, self.case, self.ok, self.detail, self.path = combo, case, ok, detail, path


def apply_case(st: AlgState, conds):
    """augment st with the case conditions; False if inconsistent"""
    for r, kind in conds:
        z = st.is_zero(r)
        if kind == "eq":
            if z is False:
                return False
            if z is None:
                st.assume_zero(r, "case")
        else:
            if z is True:
                return False
            if z is None:
                st.assume_nonzero(r, "case")
    return True


def path_consistent(p, st: AlgState):
    """the path's own branch facts must not be contradicted under st"""
    for c, choice, where in p.facts:
        if isinstance(c, PolyCond):
            z = st.is_zero(c.r)
            if z is not None and (z == c.eq) != choice:
                return False
    return True


def check_function(world, call, rep_in, rep_out, combos, table, result_kind="point", label="", **kw):
    """call(it, args) runs the function under analysis.
    combos: list of tuples of classes ('finite'/'inf') per point argument.
    table(affine_images) -> cases.  Returns list[Obligation] and stats."""
    obs = []
    npaths = 0
    for combo in combos:
        args, nz, descr = [], [], []
        for i, kl in enumerate(combo):
            v, n, d = rep_in.sym_point(str(i + 1), kl)
            args.append(v)
            nz += n
            descr.append(d)
        alg0 = AlgState(nonzero=nz)
        affs = [rep_in.aff_of_arg(v, kl) for v, kl in zip(args, combo)]

        def run(it):
            r = call(it, args)
            if result_kind == "bool" and not isinstance(r, bool):
                return it.truth(r)
            return r
        paths = alg_paths(world, run, alg0, **kw)
        npaths += len(paths)
        cname = " , ".join(descr)
        for name, conds, expected in table(*affs):
            if not apply_case(alg0.copy(), conds):
                continue            # impossible in this representation class
            handled = False
            for p in paths:
                st = p.alg.copy()
                if not apply_case(st, conds):
                    continue
                if not path_consistent(p, st):
                    continue
                handled = True
                pl = " ".join(p.branch_lines()) or "(straight line)"
                if p.outcome == "raise":
                    obs.append(Obligation(cname, name, False, f"raises {p.value.clsname()} at {p.value.where} on path {pl}", p))
                    continue
                if result_kind == "bool":
                    ok = p.value is expected
                    obs.append(Obligation(cname, name, ok, f"returns {p.value!r}, affine predicate is {expected} (path {pl})", p))
                    continue
                if result_kind in ("ratio", "value"):
                    v = p.value
                    if result_kind == "ratio":
                        if not (isinstance(v, tuple) and len(v) == 2):
                            obs.append(Obligation(cname, name, False, f"result is not a (numerator, denominator) pair (path {pl})", p))
                            continue
                        n_, d_ = _rat(v[0]), _rat(v[1])
                        if st.is_zero(d_) is not False:
                            obs.append(Obligation(cname, name, False,
                                                  f"denominator {st.norm(d_).n!r} not provably non-zero in this case (path {pl})", p))
                            continue
                        got = n_ / d_
                    else:
                        got = _rat(v)
                    z = st.is_zero(got - expected[1])
                    obs.append(Obligation(cname, name, z is True,
                                          "equal as rational functions" if z is True else
                                          f"residue {st.norm(got - expected[1]).n!r} (path {pl})", p))
                    continue
                try:
                    img = rep_out.image(p.value, st)
                except WrongField as wf:
                    obs.append(Obligation(cname, name, False, f"{wf} (path {pl})", p))
                    continue
                if expected == ("inf",):
                    ok = img == ("inf",)
                    obs.append(Obligation(cname, name, ok,
                                          "identity" if ok else f"expected the identity, got {_show_img(img, p.value)} (path {pl})", p))
                else:
                    if img[0] != "fin":
                        obs.append(Obligation(cname, name, False,
                                              f"expected a finite point, got {_show_img(img, p.value)} (path {pl})", p))
                        continue
                    zx = st.is_zero(img[1] - expected[1])
                    zy = st.is_zero(img[2] - expected[2])
                    ok = zx is True and zy is True
                    det = "affine images equal" if ok else (
                        f"x residue {st.norm(img[1] - expected[1]).n!r}; y residue {st.norm(img[2] - expected[2]).n!r} (path {pl})")
                    obs.append(Obligation(cname, name, ok, det, p))
            if not handled:
                obs.append(Obligation(cname, name, False, "case is consistent with no control path (not handled)", None))
    return obs, npaths


def _show_img(img, v):
    if img[0] == "inf":
        return "the identity"
    if img[0] == "unknown":
        return f"a value whose identity marker {img[1].n!r} is neither provably zero nor non-zero"
    if img[0] == "badrep":
        return f"a finite value with Z = {img[1].n!r} not provably non-zero"
    return f"({img[1].n!r}/{img[1].d!r}, …)"


def cases_isinf(A):
    return [("O", [], True)] if A is None else [("finite", [], False)]


def cases_line(A, B, T):
    """affine line through A and B (tangent if A == B) evaluated at T"""
    (x1, y1), (x2, y2), (xt, yt) = A, B, T
    sec = (y2 - y1) / (x2 - x1)
    tan = (Rat(3) * x1 * x1) / (Rat(2) * y1)
    return [
        ("secant x1≠x2", [(x1 - x2, "ne")], ("val", sec * (xt - x1) - (yt - y1))),
        ("tangent, y1≠0", [(x1 - x2, "eq"), (y1 - y2, "eq"), (y1, "ne")], ("val", tan * (xt - x1) - (yt - y1))),
        ("vertical x1=x2, y1≠y2", [(x1 - x2, "eq"), (y1 - y2, "ne")], ("val", xt - x1)),
    ]
