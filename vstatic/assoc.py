"""Associativity of the affine chord-and-tangent table of curvelaw.py (the oracle every curve rule compares the code
with), as formal identities over Z[x_i, y_i, b]/(y_i² − x_i³ − b): the generic stratum (three chords on each side) and
the codimension-one strata (one doubling, a sum equal to the third point, inverse cancellation).  Together with the
per-path identities code ≡ table (C07.R1/R2, C13, C18.R1) this gives associativity of the code on those strata."""
from __future__ import annotations

import time

from .poly import Poly, Rat, reduce_by
from .curvelaw import chord, tangent


def _setup():
    V = Poly.var
    pts = [(V(f"x{i}"), V(f"y{i}")) for i in (1, 2, 3)]
    b = V("b")
    rules = [(f"y{i}", 2, V(f"x{i}") ** 3 + b) for i in (1, 2, 3)]
    return pts, rules


def _red(r, rules):
    return Rat(reduce_by(r.n, rules), reduce_by(r.d, rules))


HEAVY = {"generic: (P+Q)+R = P+(Q+R), three chords on each side": "generic",
         "R = P+Q: 2(P+Q) = P+(Q+(P+Q))": "sum3"}


def _heavy(args):
    """one coordinate of one heavy identity (run in a worker process)"""
    which, coord = args
    pts, rules = _setup()
    P, Q, R3 = [(Rat(x), Rat(y)) for x, y in pts]

    def ch(A, B):
        t = chord(A, B)
        return (_red(t[1], rules), _red(t[2], rules))

    def tg(A):
        t = tangent(A)
        return (_red(t[1], rules), _red(t[2], rules))
    t0 = time.time()
    if which == "generic":
        A, B = ch(ch(P, Q), R3), ch(P, ch(Q, R3))
    else:
        A, B = tg(ch(P, Q)), ch(P, ch(Q, ch(P, Q)))
    e = reduce_by(A[coord].n * B[coord].d - B[coord].n * A[coord].d, rules)
    return which, coord, len(e.t), time.time() - t0


def obligations(tier):
    """-> list of (name, ok, detail)"""
    pts, rules = _setup()
    P, Q, R3 = [(Rat(x), Rat(y)) for x, y in pts]

    def ch(A, B):
        t = chord(A, B)
        return (_red(t[1], rules), _red(t[2], rules))

    def tg(A):
        t = tangent(A)
        return (_red(t[1], rules), _red(t[2], rules))

    def neg(A):
        return (A[0], -A[1])

    def same(A, B):
        ex = reduce_by(A[0].n * B[0].d - B[0].n * A[0].d, rules)
        ey = reduce_by(A[1].n * B[1].d - B[1].n * A[1].d, rules)
        return ex.is_zero() and ey.is_zero(), f"residues {len(ex.t)} / {len(ey.t)} terms"
    jobs = [
        ("commutativity: P+Q = Q+P", lambda: same(ch(P, Q), ch(Q, P))),
        ("Q = P: (P+P)+R = P+(P+R)", lambda: same(ch(tg(P), R3), ch(P, ch(P, R3)))),
        ("R = Q: (P+Q)+Q = P+(Q+Q)", lambda: same(ch(ch(P, Q), Q), ch(P, tg(Q)))),
        ("inverse cancellation: Q + (−(P+Q)) = −P", lambda: same(ch(Q, neg(ch(P, Q))), neg(P))),
        ("2P+P = P+2P", lambda: same(ch(tg(P), P), ch(P, tg(P)))),
        ("(P+P)+(P+P) = ((P+P)+P)+P", lambda: same(tg(tg(P)), ch(ch(tg(P), P), P))),
    ]
    out = []
    heavy = {}
    if tier == "thorough":
        from concurrent.futures import ProcessPoolExecutor
        with ProcessPoolExecutor(4) as ex:
            for which, coord, n, dt in ex.map(_heavy, [(w, c) for w in ("generic", "sum3") for c in (0, 1)]):
                heavy.setdefault(which, []).append((coord, n, dt))
    for name, fn in jobs:
        t = time.time()
        ok, det = fn()
        out.append((name, ok, f"{det}; {time.time() - t:.1f}s"))
    for name, which in HEAVY.items():
        if which in heavy:
            rs = sorted(heavy[which])
            out.append((name, all(n == 0 for _, n, _ in rs),
                        "; ".join(f"{'xy'[c]} residue {n} terms in {dt:.0f}s" for c, n, dt in rs)))
    return out
