"""mutants ('fire') and behaviour-preserving twins ('silent') for the self-test"""
CS = "py_ecc/bls/ciphersuites.py"
G2P = "py_ecc/bls/g2_primitives.py"
PC = "py_ecc/bls/point_compression.py"

CASES = []


def case(id, props, file, old, new, expect="fire", count=1, rule=None, more=()):
    edits = [{"file": file, "old": old, "new": new, "count": count}] + [
        {"file": f, "old": o, "new": n, "count": c} for f, o, n, c in more]
    CASES.append({"id": id, "props": props if isinstance(props, list) else [props], "edits": edits,
                  "expect": expect, "rule": rule})


# ---------------------------------------------------------------- C04
case("c04-except-narrow-coreverify", "C04", CS,
     "            return final_exponentiation == FQ12.one()\n        except (ValidationError, ValueError, AssertionError):",
     "            return final_exponentiation == FQ12.one()\n        except (ValidationError, AssertionError):", rule="C04.R1")
case("c04-except-narrow-coreaggverify", "C04", CS,
     "            return final_exponentiate(aggregate) == FQ12.one()\n\n        except (ValidationError, ValueError, AssertionError):",
     "            return final_exponentiate(aggregate) == FQ12.one()\n\n        except (ValidationError, AssertionError):", rule="C04.R1")
case("c04-keyvalidate-except-narrow", "C04", CS,
     "            pubkey_point = pubkey_to_G1(PK)\n        except (ValidationError, ValueError, AssertionError):",
     "            pubkey_point = pubkey_to_G1(PK)\n        except (ValidationError, AssertionError):", rule="C04.R1")
case("c04-decoder-raises-typeerror", "C04", PC,
     '        raise ValueError("c_flag should be 1")', '        raise TypeError("c_flag should be 1")', count=2, rule="C04.R1")
case("c04-no-sig-subgroup-coreverify", "C04", CS,
     "            signature_point = signature_to_G2(signature)\n            if not subgroup_check(signature_point):\n                return False\n            final_exponentiation",
     "            signature_point = signature_to_G2(signature)\n            final_exponentiation", rule="C04.R2")
case("c04-no-sig-subgroup-coreaggverify", "C04", CS,
     "            signature_point = signature_to_G2(signature)\n            if not subgroup_check(signature_point):\n                return False\n            aggregate = FQ12.one()",
     "            signature_point = signature_to_G2(signature)\n            aggregate = FQ12.one()", rule="C04.R2")
case("c04-no-keyvalidate-coreverify", "C04", CS,
     "            if not cls.KeyValidate(PK):\n                raise ValidationError(\"Invalid public key\")\n            signature_point",
     "            signature_point", rule="C04.R2")
case("c04-no-keyvalidate-in-loop", "C04", CS,
     "                if not cls.KeyValidate(pk):\n                    raise ValidationError(\"Invalid public key\")\n", "", rule="C04.R2")
case("c04-keyvalidate-no-subgroup", "C04", CS,
     "        if not subgroup_check(pubkey_point):\n            return False\n\n        return True", "        return True")
case("c04-keyvalidate-no-isinf", "C04", CS,
     "        if is_inf(pubkey_point):\n            return False\n", "")
case("c04-pubkey-len-ge", "C04", CS, "len(pubkey) == 48", "len(pubkey) >= 48", rule="C04.R3")
case("c04-sig-len-le", "C04", CS, "len(signature) == 96", "len(signature) <= 96", rule="C04.R3")
case("c04-pubkey-no-isinstance", "C04", CS, "return isinstance(pubkey, bytes) and len(pubkey) == 48", "return len(pubkey) == 48", rule="C04.R3")
case("c04-pop-validpubkey-len-only", "C04", CS,
     "        return cls.KeyValidate(BLSPubkey(pubkey))", "        return True")
case("c04-keyvalidate-handler-true", "C04", CS,
     "            pubkey_point = pubkey_to_G1(PK)\n        except (ValidationError, ValueError, AssertionError):\n            return False",
     "            pubkey_point = pubkey_to_G1(PK)\n        except (ValidationError, ValueError, AssertionError):\n            return True")
case("c04-keyvalidate-no-len-gate", "C04", CS,
     "        if not BaseG2Ciphersuite._is_valid_pubkey(PK):\n            return False\n", "", rule="C04.R3")
case("c04-fastagg-validate-removed", "C04", CS,
     "            for pk in PKs:\n                if not cls._is_valid_pubkey(pk):\n                    raise ValidationError(\"Invalid public key\")\n            if not cls._is_valid_message(message):\n                raise ValidationError(\"Invalid message\")\n            if not cls._is_valid_signature(signature):\n                raise ValidationError(\"Invalid signature\")\n\n            # Preconditions\n            if len(PKs) < 1:\n                raise ValidationError(\"Insufficient number of PKs. (n < 1)\")\n\n            # Procedure\n            aggregate_pubkey",
     "            if not cls._is_valid_message(message):\n                raise ValidationError(\"Invalid message\")\n            if not cls._is_valid_signature(signature):\n                raise ValidationError(\"Invalid signature\")\n\n            # Preconditions\n            if len(PKs) < 1:\n                raise ValidationError(\"Insufficient number of PKs. (n < 1)\")\n\n            # Procedure\n            aggregate_pubkey")
# silent twins
case("c04-twin-rename-and-reorder", "C04", CS,
     "            if not cls._is_valid_message(message):\n                raise ValidationError(\"Invalid message\")\n            if not cls._is_valid_signature(signature):\n                raise ValidationError(\"Invalid signature\")\n\n            # Procedure\n            if not cls.KeyValidate(PK):",
     "            if not cls._is_valid_signature(signature):\n                raise ValidationError(\"Invalid signature!\")\n            if not cls._is_valid_message(message):\n                raise ValidationError(\"Invalid message!\")\n\n            # Procedure\n            if not cls.KeyValidate(PK):", expect="silent")
case("c04-twin-neq-form", "C04", CS,
     "        if not subgroup_check(pubkey_point):\n            return False\n\n        return True",
     "        return subgroup_check(pubkey_point)", expect="silent")
case("c04-twin-extra-validation", "C04", CS,
     "            signature_point = signature_to_G2(signature)\n            if not subgroup_check(signature_point):\n                return False\n            final_exponentiation",
     "            signature_point = signature_to_G2(signature)\n            if not subgroup_check(signature_point):\n                return False\n            if len(signature) != 96:\n                return False\n            final_exponentiation", expect="silent")
case("c04-twin-len-form", "C04", CS, "len(pubkey) == 48", "48 == len(pubkey)", expect="silent")
