"""mutants ('fire') and behaviour-preserving twins ('silent') for the self-test"""
CS = "py_ecc/bls/ciphersuites.py"
G2P = "py_ecc/bls/g2_primitives.py"
PC = "py_ecc/bls/point_compression.py"

CASES = []


def case(id, props, file, old, new, expect="fire", count=1, rule=None, more=()):
    edits = [{"file": file, "old": old, "new": new, "count": count}] + [
        {"file": f, "old": o, "new": n, "count": c} for f, o, n, c in more]
    CASES.append({"id": id, "props": props if isinstance(props, list) else [props], "edits": edits,
                  "expect": expect, "rule": rule})


# ---------------------------------------------------------------- C04
case("c04-except-narrow-coreverify", "C04", CS,
     "            return final_exponentiation == FQ12.one()\n        except (ValidationError, ValueError, AssertionError):",
     "            return final_exponentiation == FQ12.one()\n        except (ValidationError, AssertionError):", rule="C04.R1")
case("c04-except-narrow-coreaggverify", "C04", CS,
     "            return final_exponentiate(aggregate) == FQ12.one()\n\n        except (ValidationError, ValueError, AssertionError):",
     "            return final_exponentiate(aggregate) == FQ12.one()\n\n        except (ValidationError, AssertionError):", rule="C04.R1")
case("c04-keyvalidate-except-narrow", "C04", CS,
     "            pubkey_point = pubkey_to_G1(PK)\n        except (ValidationError, ValueError, AssertionError):",
     "            pubkey_point = pubkey_to_G1(PK)\n        except (ValidationError, AssertionError):", rule="C04.R1")
case("c04-decoder-raises-typeerror", "C04", PC,
     '        raise ValueError("c_flag should be 1")', '        raise TypeError("c_flag should be 1")', count=2, rule="C04.R1")
case("c04-no-sig-subgroup-coreverify", "C04", CS,
     "            signature_point = signature_to_G2(signature)\n            if not subgroup_check(signature_point):\n                return False\n            final_exponentiation",
     "            signature_point = signature_to_G2(signature)\n            final_exponentiation", rule="C04.R2")
case("c04-no-sig-subgroup-coreaggverify", "C04", CS,
     "            signature_point = signature_to_G2(signature)\n            if not subgroup_check(signature_point):\n                return False\n            aggregate = FQ12.one()",
     "            signature_point = signature_to_G2(signature)\n            aggregate = FQ12.one()", rule="C04.R2")
case("c04-no-keyvalidate-coreverify", "C04", CS,
     "            if not cls.KeyValidate(PK):\n                raise ValidationError(\"Invalid public key\")\n            signature_point",
     "            signature_point", rule="C04.R2")
case("c04-no-keyvalidate-in-loop", "C04", CS,
     "                if not cls.KeyValidate(pk):\n                    raise ValidationError(\"Invalid public key\")\n", "", rule="C04.R2")
case("c04-keyvalidate-no-subgroup", "C04", CS,
     "        if not subgroup_check(pubkey_point):\n            return False\n\n        return True", "        return True")
case("c04-keyvalidate-no-isinf", "C04", CS,
     "        if is_inf(pubkey_point):\n            return False\n", "")
case("c04-pubkey-len-ge", "C04", CS, "len(pubkey) == 48", "len(pubkey) >= 48", rule="C04.R3")
case("c04-sig-len-le", "C04", CS, "len(signature) == 96", "len(signature) <= 96", rule="C04.R3")
case("c04-pubkey-no-isinstance", "C04", CS, "return isinstance(pubkey, bytes) and len(pubkey) == 48", "return len(pubkey) == 48", rule="C04.R3")
case("c04-pop-validpubkey-len-only", "C04", CS,
     "        return cls.KeyValidate(BLSPubkey(pubkey))", "        return True")
case("c04-keyvalidate-handler-true", "C04", CS,
     "            pubkey_point = pubkey_to_G1(PK)\n        except (ValidationError, ValueError, AssertionError):\n            return False",
     "            pubkey_point = pubkey_to_G1(PK)\n        except (ValidationError, ValueError, AssertionError):\n            return True")
case("c04-keyvalidate-no-len-gate", "C04", CS,
     "        if not BaseG2Ciphersuite._is_valid_pubkey(PK):\n            return False\n", "", rule="C04.R3")
case("c04-fastagg-validate-removed", "C04", CS,
     "            for pk in PKs:\n                if not cls._is_valid_pubkey(pk):\n                    raise ValidationError(\"Invalid public key\")\n            if not cls._is_valid_message(message):\n                raise ValidationError(\"Invalid message\")\n            if not cls._is_valid_signature(signature):\n                raise ValidationError(\"Invalid signature\")\n\n            # Preconditions\n            if len(PKs) < 1:\n                raise ValidationError(\"Insufficient number of PKs. (n < 1)\")\n\n            # Procedure\n            aggregate_pubkey",
     "            if not cls._is_valid_message(message):\n                raise ValidationError(\"Invalid message\")\n            if not cls._is_valid_signature(signature):\n                raise ValidationError(\"Invalid signature\")\n\n            # Preconditions\n            if len(PKs) < 1:\n                raise ValidationError(\"Insufficient number of PKs. (n < 1)\")\n\n            # Procedure\n            aggregate_pubkey")
# silent twins
case("c04-twin-rename-and-reorder", "C04", CS,
     "            if not cls._is_valid_message(message):\n                raise ValidationError(\"Invalid message\")\n            if not cls._is_valid_signature(signature):\n                raise ValidationError(\"Invalid signature\")\n\n            # Procedure\n            if not cls.KeyValidate(PK):",
     "            if not cls._is_valid_signature(signature):\n                raise ValidationError(\"Invalid signature!\")\n            if not cls._is_valid_message(message):\n                raise ValidationError(\"Invalid message!\")\n\n            # Procedure\n            if not cls.KeyValidate(PK):", expect="silent")
case("c04-twin-neq-form", "C04", CS,
     "        if not subgroup_check(pubkey_point):\n            return False\n\n        return True",
     "        return subgroup_check(pubkey_point)", expect="silent")
case("c04-twin-extra-validation", "C04", CS,
     "            signature_point = signature_to_G2(signature)\n            if not subgroup_check(signature_point):\n                return False\n            final_exponentiation",
     "            signature_point = signature_to_G2(signature)\n            if not subgroup_check(signature_point):\n                return False\n            if len(signature) != 96:\n                return False\n            final_exponentiation", expect="silent")
case("c04-twin-len-form", "C04", CS, "len(pubkey) == 48", "48 == len(pubkey)", expect="silent")

# ---------------------------------------------------------------- C01
case("c01-privkey-le-order", "C01", CS, "privkey > 0 and privkey < curve_order", "privkey > 0 and privkey <= curve_order", rule="C01.R2")
case("c01-privkey-no-upper", "C01", CS, "privkey > 0 and privkey < curve_order", "privkey > 0")
case("c01-privkey-ge-zero", "C01", CS, "privkey > 0 and", "privkey >= 0 and")
case("c01-privkey-no-isinstance", "C01", CS, "return isinstance(privkey, int) and privkey > 0", "return privkey > 0")
case("c01-coresign-no-gate", "C01", CS,
     "        if not cls._is_valid_privkey(SK):\n            raise ValidationError(\"Invalid secret key\")\n", "", rule="C01.R1")
case("c01-sktopk-return-instead-of-raise", "C01", CS,
     "        if not cls._is_valid_privkey(privkey):\n            raise ValidationError(\"Invalid private key\")",
     "        if not cls._is_valid_privkey(privkey):\n            return BLSPubkey(b\"\")")
case("c01-sktopk-raises-valueerror", "C01", CS,
     "            raise ValidationError(\"Invalid private key\")", "            raise ValueError(\"Invalid private key\")")
case("c01-keygen-if-not-while", "C01", CS, "        while SK == 0:", "        if SK == 0:", rule="C01.R3")
case("c01-keygen-plus-one", "C01", CS, "            SK = os2ip(okm) % curve_order\n        return SK", "            SK = os2ip(okm) % curve_order\n        return SK + 1")
case("c01-keygen-wrong-modulus", "C01", CS, "SK = os2ip(okm) % curve_order", "SK = os2ip(okm) % (curve_order + 1)")
case("c01-popverify-uses-dst", "C01", CS, "        return cls._CoreVerify(PK, PK, proof, cls.POP_TAG)", "        return cls._CoreVerify(PK, PK, proof, cls.DST)")
case("c01-aug-sign-suffix", "C01", CS, "        return cls._CoreSign(SK, PK + message, cls.DST)", "        return cls._CoreSign(SK, message + PK, cls.DST)")
case("c01-verify-pairs-wrong-sign", "C01", CS, "                    neg(pubkey_to_G1(PK)),", "                    pubkey_to_G1(PK),")
case("c01-twin-bounds-rewritten", "C01", CS, "privkey > 0 and privkey < curve_order", "1 <= privkey <= curve_order - 1", expect="silent")
case("c01-twin-chained", "C01", CS, "privkey > 0 and privkey < curve_order", "0 < privkey < curve_order", expect="silent")
case("c01-twin-keygen-neq", "C01", CS, "        while SK == 0:", "        while not SK != 0:", expect="silent")
# ---------------------------------------------------------------- C02
case("c02-return-true-on-identity", "C02", CS,
     "            if not subgroup_check(signature_point):\n                return False\n            final_exponentiation",
     "            if not subgroup_check(signature_point):\n                return False\n            if is_inf(signature_point):\n                return True\n            final_exponentiation", rule="C02.R1")
case("c02-except-returns-true", "C02", CS,
     "            return final_exponentiation == FQ12.one()\n        except (ValidationError, ValueError, AssertionError):\n            return False",
     "            return final_exponentiation == FQ12.one()\n        except (ValidationError, ValueError, AssertionError):\n            return True")
case("c02-neq", "C02", CS, "            return final_exponentiation == FQ12.one()", "            return final_exponentiation != FQ12.one()")
case("c02-pop-tag-equals-dst", "C02", CS, '    POP_TAG = b"BLS_POP_BLS12381G2_XMD:SHA-256_SSWU_RO_POP_"', "    POP_TAG = DST", rule="C02.R2")
case("c02-suite-loses-dst", "C02", CS, '    DST = b"BLS_SIG_BLS12381G2_XMD:SHA-256_SSWU_RO_AUG_"\n', "", rule="C02.R2")
case("c02-popverify-dst", "C02", CS, "        return cls._CoreVerify(PK, PK, proof, cls.POP_TAG)", "        return cls._CoreVerify(PK, PK, proof, cls.DST)", rule="C02.R2")
case("c02-aug-verify-no-prefix", "C02", CS, "        return cls._CoreVerify(PK, PK + message, signature, cls.DST)", "        return cls._CoreVerify(PK, message, signature, cls.DST)", rule="C02.R3")
case("c02-aug-both-suffix", "C02", CS, "        return cls._CoreVerify(PK, PK + message, signature, cls.DST)", "        return cls._CoreVerify(PK, message + PK, signature, cls.DST)",
     more=[(CS, "        return cls._CoreSign(SK, PK + message, cls.DST)", "        return cls._CoreSign(SK, message + PK, cls.DST)", 1)], rule="C02.R3")
case("c02-two-final-exps", "C02", CS, "                    G1,\n                    final_exponentiate=False,", "                    G1,\n                    final_exponentiate=True,")
case("c02-same-dst-two-suites", "C02", CS, 'SSWU_RO_AUG_"', 'SSWU_RO_NUL_"', rule="C02.R2")
case("c02-twin-temp-var", "C02", CS, "            return final_exponentiation == FQ12.one()", "            unit = FQ12.one()\n            return unit == final_exponentiation", expect="silent")
# ---------------------------------------------------------------- C03
case("c03-aggregate-skips-first", "C03", CS, "        for signature in signatures:\n            signature_point = signature_to_G2(signature)", "        for signature in signatures[1:]:\n            signature_point = signature_to_G2(signature)")
case("c03-aggregate-seed-not-identity", "C03", CS, "        aggregate = Z2  # Seed with the point at infinity", "        aggregate = G2  # Seed", more=[(CS, "    Z2,\n", "    Z2,\n    G2,\n", 1)], rule="C03.R1")
case("c03-aggregate-allows-empty", "C03", CS, "        if len(signatures) < 1:\n            raise ValidationError(\"Insufficient number of signatures. (n < 1)\")\n", "", rule="C03.R2")
case("c03-aggregate-no-len-gate", "C03", CS, "        for signature in signatures:\n            if not cls._is_valid_signature(signature):\n                raise ValidationError(\"Invalid signature\")\n", "", rule="C03.R2")
case("c03-no-len-eq-gate", "C03", CS, "            if not len(PKs) == len(messages):\n                raise ValidationError(\"Inconsistent number of PKs and messages\")\n", "", rule="C03.R3")
case("c03-aug-no-len-gate", "C03", CS, "        if len(PKs) != len(messages):\n            return False\n        messages = [", "        messages = [", rule="C03.R3")
case("c03-no-n-ge-1", "C03", CS, "            # Preconditions\n            if len(PKs) < 1:\n                raise ValidationError(\"Insufficient number of PKs. (n < 1)\")\n\n            # Procedure\n            signature_point", "            # Procedure\n            signature_point", rule="C03.R4")
case("c03-basic-no-distinct", "C03", CS, "        if len(messages) != len(set(messages)):  # Messages are not unique\n            return False\n", "", rule="C03.R4")
case("c03-sig-factor-in-loop", "C03", CS,
     "                aggregate *= pairing(\n                    message_point, pubkey_point, final_exponentiate=False\n                )\n            aggregate *= pairing(signature_point, neg(G1), final_exponentiate=False)",
     "                aggregate *= pairing(\n                    message_point, pubkey_point, final_exponentiate=False\n                )\n                aggregate *= pairing(signature_point, neg(G1), final_exponentiate=False)", rule="C03.R5")
case("c03-aggpks-empty-ok", "C03", CS, "        if len(PKs) < 1:\n            raise ValidationError(\"Insufficient number of PKs. (n < 1)\")\n\n        aggregate = Z1", "        aggregate = Z1",
     more=[(CS, "            # Preconditions\n            if len(PKs) < 1:\n                raise ValidationError(\"Insufficient number of PKs. (n < 1)\")\n\n            # Procedure\n            aggregate_pubkey", "            # Procedure\n            aggregate_pubkey", 1)])
case("c03-twin-add-order", "C03", CS, "            aggregate = add(aggregate, signature_point)", "            aggregate = add(signature_point, aggregate)", expect="silent")
case("c03-twin-distinct-form", "C03", CS, "        if len(messages) != len(set(messages)):", "        if len(set(messages)) < len(messages):", expect="silent")

HASH = "py_ecc/bls/hash.py"
H2C = "py_ecc/bls/hash_to_curve.py"
# ---------------------------------------------------------------- C09
case("c09-tag-typo", "C09", CS, 'DST = b"BLS_SIG_BLS12381G2_XMD:SHA-256_SSWU_RO_NUL_"', 'DST = b"BLS_SIG_BLS12381G2_XMD:SHA-256_SSWU_RO_NUL"', rule="C09.R1")
case("c09-pop-tag-changed", "C09", CS, 'POP_TAG = b"BLS_POP_BLS12381G2', 'POP_TAG = b"BLS_PoP_BLS12381G2', rule="C09.R1")
case("c09-symmetric-aug-suffix", "C09", CS, "        return cls._CoreVerify(PK, PK + message, signature, cls.DST)", "        return cls._CoreVerify(PK, message + PK, signature, cls.DST)",
     more=[(CS, "        return cls._CoreSign(SK, PK + message, cls.DST)", "        return cls._CoreSign(SK, message + PK, cls.DST)", 1)], rule="C09.R2")
case("c09-pubkey-width-49", "C09", G2P, "    return BLSPubkey(i2osp(z, 48))", "    return BLSPubkey(i2osp(z, 49))")
case("c09-sig-words-swapped", "C09", G2P, "    return BLSSignature(i2osp(z1, 48) + i2osp(z2, 48))", "    return BLSSignature(i2osp(z2, 48) + i2osp(z1, 48))",
     more=[(G2P, "    p = G2Compressed((os2ip(signature[:48]), os2ip(signature[48:])))", "    p = G2Compressed((os2ip(signature[48:]), os2ip(signature[:48])))", 1)], rule="C09.R2")
case("c09-hash-sha512", "C09", CS, "    xmd_hash_function = sha256", "    xmd_hash_function = sha512", more=[(CS, "from hashlib import (\n    sha256,\n)", "from hashlib import (\n    sha256,\n    sha512,\n)", 1)])
case("c09-popprove-signs-with-dst", "C09", CS, "        return cls._CoreSign(SK, pubkey, cls.POP_TAG)", "        return cls._CoreSign(SK, pubkey, cls.DST)",
     more=[(CS, "        return cls._CoreVerify(PK, PK, proof, cls.POP_TAG)", "        return cls._CoreVerify(PK, PK, proof, cls.DST)", 1)])
# ---------------------------------------------------------------- C15
case("c15-zpad-digest-size", "C15", HASH, '    Z_pad = b"\\x00" * r_in_bytes', '    Z_pad = b"\\x00" * (2 * b_in_bytes)', rule="C15.R2")
case("c15-zpad-literal-64", "C15", HASH, '    Z_pad = b"\\x00" * r_in_bytes', '    Z_pad = b"\\x00" * 64', rule="C15.R2")
case("c15-ell-from-block-size", "C15", HASH, "    ell = math.ceil(len_in_bytes / b_in_bytes)", "    ell = math.ceil(len_in_bytes / (r_in_bytes // 2))")
case("c15-dst-guard-ge-256", "C15", HASH, "    if len(DST) > 255:", "    if len(DST) > 256:", rule="C15.R1")
case("c15-dst-guard-removed", "C15", HASH, '    if len(DST) > 255:\n        raise ValueError("DST must be <= 255 bytes")\n', "")
case("c15-ell-guard-256", "C15", HASH, "    if ell > 255:", "    if ell > 256:")
case("c15-xor-prev-wrong-index", "C15", HASH, "xor(b_0, b[i - 2])", "xor(b_0, b[i - 3])", rule="C15.R2")
case("c15-no-xor", "C15", HASH, "hash_function(xor(b_0, b[i - 2]) + i2osp(i, 1) + DST_prime)", "hash_function(b[i - 2] + i2osp(i, 1) + DST_prime)")
case("c15-b1-missing-dst", "C15", HASH, 'b = [hash_function(b_0 + b"\\x01" + DST_prime).digest()]', 'b = [hash_function(b_0 + b"\\x01" + DST).digest()]')
case("c15-lib-after-zero", "C15", HASH, 'Z_pad + msg + l_i_b_str + b"\\x00" + DST_prime', 'Z_pad + msg + b"\\x00" + l_i_b_str + DST_prime')
case("c15-xor-or", "C15", HASH, "    return bytes(_a ^ _b for _a, _b in zip(a, b))", "    return bytes(_a | _b for _a, _b in zip(a, b))", rule="C15.R1")
case("c15-h2f-offset-swapped", "C15", H2C, "            elem_offset = HASH_TO_FIELD_L * (j + i * M)", "            elem_offset = HASH_TO_FIELD_L * (i + j * count)", rule="C15.R3")
case("c15-h2f-L-48", "C15", "py_ecc/bls/constants.py", "HASH_TO_FIELD_L = 64", "HASH_TO_FIELD_L = 48")
case("c15-h2f-no-reduce", "C15", H2C, "        u.append(FQ(os2ip(tv) % field_modulus))", "        u.append(FQ(os2ip(tv[16:])))")
case("c15-twin-reassoc", "C15", HASH, 'Z_pad + msg + l_i_b_str + b"\\x00" + DST_prime', 'Z_pad + (msg + (l_i_b_str + b"\\x00")) + DST_prime', expect="silent")
case("c15-twin-i2osp-zero", "C15", HASH, 'l_i_b_str + b"\\x00" + DST_prime', 'l_i_b_str + i2osp(0, 1) + DST_prime', expect="silent")
# ---------------------------------------------------------------- C16
case("c16-extract-args-swapped", "C16", HASH, "    return hmac.new(salt, ikm, hashlib.sha256).digest()", "    return hmac.new(ikm, salt, hashlib.sha256).digest()", rule="C16.R1")
case("c16-expand-counter-from-zero", "C16", HASH, "text = previous + info + bytes([i + 1])", "text = previous + info + bytes([i])")
case("c16-expand-no-chaining", "C16", HASH, "text = previous + info + bytes([i + 1])", "text = info + bytes([i + 1])")
case("c16-expand-info-first", "C16", HASH, "text = previous + info + bytes([i + 1])", "text = info + previous + bytes([i + 1])")
case("c16-expand-block-64", "C16", HASH, "    n = math.ceil(length / 32)", "    n = math.ceil(length / 64)")
case("c16-keygen-salt-not-rehashed", "C16", CS, "            salt = cls.xmd_hash_function(salt).digest()\n", "", rule="C16.R2")
case("c16-keygen-no-zero-pad", "C16", CS, 'prk = hkdf_extract(salt, IKM + b"\\x00")', "prk = hkdf_extract(salt, IKM)", rule="C16.R2")
case("c16-keygen-pad-prepended", "C16", CS, 'prk = hkdf_extract(salt, IKM + b"\\x00")', 'prk = hkdf_extract(salt, b"\\x00" + IKM)')
case("c16-keygen-len-width-1", "C16", CS, "okm = hkdf_expand(prk, key_info + i2osp(l, 2), l)", "okm = hkdf_expand(prk, key_info + i2osp(l, 1), l)")
case("c16-keygen-32-bytes", "C16", CS, "l = ceil((1.5 * ceil(log2(curve_order))) / 8)", "l = ceil(ceil(log2(curve_order)) / 8)")
case("c16-keygen-info-after-len", "C16", CS, "key_info + i2osp(l, 2)", "i2osp(l, 2) + key_info")
case("c16-keygen-salt-literal", "C16", CS, 'salt = b"BLS-SIG-KEYGEN-SALT-"', 'salt = b"BLS-SIG-KEYGEN-SALT"')
case("c16-keygen-salt-hashed-after", "C16", CS, "            salt = cls.xmd_hash_function(salt).digest()\n            prk = hkdf_extract(salt, IKM + b\"\\x00\")",
     "            prk = hkdf_extract(salt, IKM + b\"\\x00\")\n            salt = cls.xmd_hash_function(salt).digest()")
case("c16-twin-loop-var", "C16", HASH, "    for i in range(0, n):\n        # Concatenate (T(i) || info || i)\n        text = previous + info + bytes([i + 1])",
     "    for j in range(1, n + 1):\n        text = previous + info + bytes([j])", expect="silent")

SWU = "py_ecc/optimized_bls12_381/optimized_swu.py"
OFE = "py_ecc/fields/optimized_field_elements.py"
FE = "py_ecc/fields/field_elements.py"
OPAIR = "py_ecc/optimized_bls12_381/optimized_pairing.py"
# ---------------------------------------------------------------- C20
case("c20-alias-constant-horner", "C20", SWU, "    mapped_values = [FQ2.zero(), FQ2.zero(), FQ2.zero(), FQ2.zero()]\n    z_powers = [z, z**2, z**3]",
     "    mapped_values = POSITIVE_EIGHTH_ROOTS_OF_UNITY\n    mapped_values = list(mapped_values) if False else ETAS\n    z_powers = [z, z**2, z**3]")
case("c20-etas-reverse", "C20", SWU, "    etas = ETAS\n", "    etas = ETAS\n    etas.reverse()\n")
case("c20-module-cache", "C20", "py_ecc/bls/g2_primitives.py", "def subgroup_check(P: Optimized_Point3D[Optimized_Field]) -> bool:\n    return is_inf(multiply(P, curve_order))",
     "_SC_CACHE = {}\n\n\ndef subgroup_check(P: Optimized_Point3D[Optimized_Field]) -> bool:\n    k = repr(P[0])\n    if k not in _SC_CACHE:\n        _SC_CACHE[k] = is_inf(multiply(P, curve_order))\n    return _SC_CACHE[k]")
case("c20-imul-on-fqp", "C20", OFE, "    def __rmul__(self: T_FQP, other: Union[int, T_FQP]) -> T_FQP:\n        return self * other",
     "    def __rmul__(self: T_FQP, other: Union[int, T_FQP]) -> T_FQP:\n        return self * other\n\n    def __imul__(self: T_FQP, other: Union[int, T_FQP]) -> T_FQP:\n        r = self * other\n        self.coeffs = r.coeffs\n        return self")
case("c20-inplace-coeff-update", "C20", OFE, "        return type(self)([-c for c in self.coeffs])\n\n    @cached_property",
     "        b = self.coeffs\n        b = self.modulus_coeffs if False else b\n        self.coeffs = tuple(-c for c in b)\n        return self\n\n    @cached_property")
# lru_cache on a module-level function of hashable immutable arguments is a transparent memo (silent); on a method the
# instance is part of the key and stays flagged; a cached mutable result that a caller writes is seed C20-r2-c
case("c20-twin-lru-cache-on-i2osp", ["C20", "C15", "C09", "C11"], "py_ecc/bls/hash.py", "def i2osp(x: int, xlen: int) -> bytes:",
     "@lru_cache(maxsize=1024)\ndef i2osp(x: int, xlen: int) -> bytes:", expect="silent",
     more=[("py_ecc/bls/hash.py", "import hashlib\n", "from functools import (\n    lru_cache,\n)\nimport hashlib\n", 1)])
case("c20-lru-cache-on-method", "C20", OFE, "    def inv(self: T_FQP) -> T_FQP:", "    @lru_cache(maxsize=128)\n    def inv(self: T_FQP) -> T_FQP:",
     more=[(OFE, "from functools import (\n", "from functools import (\n    lru_cache,\n", 1)])
case("c20-random-nonce", "C20", "py_ecc/secp256k1/secp256k1.py", "import hashlib\nimport hmac\n", "import hashlib\nimport hmac\nimport os\n")
case("c20-mutable-default", "C20", "py_ecc/bls/hash.py", "def xor(a: bytes, b: bytes) -> bytes:", "def xor(a: bytes, b: bytes, scratch: list = []) -> bytes:")
case("c20-param-list-mutated", "C20", "py_ecc/utils.py", "    temp = [x for x in a]\n    o = [0 for x in a]\n    for i in range(dega - degb, -1, -1):\n        o[i] += int(temp[degb + i] / b[degb])",
     "    temp = a\n    o = [0 for x in a]\n    for i in range(dega - degb, -1, -1):\n        o[i] += int(temp[degb + i] / b[degb])")
case("c20-exptable-written", "C20", OPAIR, "def exp_by_p(x: FQ12) -> FQ12:\n    return sum(", "def exp_by_p(x: FQ12) -> FQ12:\n    exptable[0] = FQ12.one()\n    return sum(")
case("c20-set-iteration", "C20", CS, "        if len(messages) != len(set(messages)):  # Messages are not unique\n            return False",
     "        if len(messages) != len(set(messages)):  # Messages are not unique\n            return False\n        messages = list(set(messages))")
case("c20-global-counter", "C20", "py_ecc/bls/hash.py", "def sha256(x: bytes) -> bytes:\n    return hashlib.sha256(x).digest()",
     "_CALLS = 0\n\n\ndef sha256(x: bytes) -> bytes:\n    global _CALLS\n    _CALLS += 1\n    return hashlib.sha256(x).digest()")
case("c20-twin-local-copy", "C20", SWU, "    etas = ETAS\n", "    etas = list(ETAS)\n    etas.reverse()\n    etas.reverse()\n", expect="silent")
case("c20-twin-helper-fills-fresh", "C20", "py_ecc/bls/hash.py", "def sha256(x: bytes) -> bytes:\n    return hashlib.sha256(x).digest()",
     "def _push(buf: list, v: bytes) -> None:\n    buf.append(v)\n\n\ndef sha256(x: bytes) -> bytes:\n    acc: list = []\n    _push(acc, hashlib.sha256(x).digest())\n    return acc[0]", expect="silent")

OC_BLS = "py_ecc/optimized_bls12_381/optimized_curve.py"
OC_BN = "py_ecc/optimized_bn128/optimized_curve.py"
OP_BN = "py_ecc/optimized_bn128/optimized_pairing.py"
SECP = "py_ecc/secp256k1/secp256k1.py"
# ---------------------------------------------------------------- C13
case("c13-add-W-z1z1", "C13", OC_BLS, "    W = z1 * z2\n", "    W = z1 * z1\n", rule="C13.R1")
case("c13-add-dispatch-weakened", "C13", OC_BN, "    if V1 == V2 and U1 == U2:\n        return double(p1)\n    elif V1 == V2:\n        return (one, one, zero)",
     "    if V1 == V2:\n        return double(p1)")
case("c13-add-identity-wrong-operand", "C13", OC_BLS, "        return p1 if p2[2] == zero else p2", "        return p2 if p2[2] == zero else p1")
case("c13-double-coefficient", "C13", OC_BN, "    newy = W * (4 * B - H) - 8 * y * y * S_squared", "    newy = W * (4 * B - H) - 4 * y * y * S_squared")
case("c13-double-newz", "C13", OC_BLS, "    newz = 8 * S * S_squared", "    newz = 8 * S_squared")
case("c13-neg-x", "C13", OC_BLS, "    return (x, -y, z)", "    return (-x, y, z)")
case("c13-eq-no-inf-check", "C13", OC_BLS, "    if is_inf(p1) or is_inf(p2):\n        return is_inf(p1) and is_inf(p2)\n", "", rule="C13.R2")
case("c13-oncurve-wrong-hom", "C13", OC_BN, "    return y**2 * z - x**3 == b * z**3", "    return y**2 * z - x**3 == b * z**2")
case("c13-inverse-returns-garbage", "C13", OC_BN, "        return (one, one, zero)", "        return (one, one, one)")
case("c13-linefunc-tangent-den", "C13", OPAIR, "        m_denominator = 2 * y1 * z1\n", "        m_denominator = 2 * y1\n", rule="C13.R3")
case("c13-linefunc-vertical", "C13", OP_BN, "        return xt * z1 - x1 * zt, z1 * zt", "        return xt * z1 - x1 * zt, z1")
case("c13-jacdouble-M", "C13", SECP, "    M = (3 * p[0] ** 2 + A * p[2] ** 4) % P", "    M = (3 * p[0] ** 2 + A * p[2] ** 2 + p[2] - p[2]) % P", expect="silent")
case("c13-jacdouble-S", "C13", SECP, "    S = (4 * p[0] * ysq) % P", "    S = (2 * p[0] * ysq) % P", rule="C13.R4")
case("c13-jacadd-U-unreduced", "C13", SECP, "    U1 = (p[0] * q[2] ** 2) % P", "    U1 = p[0] * q[2] ** 2", rule="C13.R4")
case("c13-jacadd-nz", "C13", SECP, "    nz = (H * p[2] * q[2]) % P", "    nz = (H * p[2] * p[2]) % P")
case("c13-jacadd-inverse-dispatch", "C13", SECP, "        if S1 != S2:\n            return cast(\"PlainPoint3D\", (0, 0, 1))\n        return jacobian_double(p)", "        return jacobian_double(p)")
case("c13-fromjac-cube", "C13", SECP, "(p[1] * z**3) % P))", "(p[1] * z**2) % P))")
case("c13-twin-reassoc", "C13", OC_BLS, "    A = U * U * W - V_cubed - 2 * V_squared_times_V2", "    A = W * (U * U) - (V_cubed + V_squared_times_V2 + V_squared_times_V2)", expect="silent")
case("c13-twin-pow", "C13", OC_BN, "    W = 3 * x * x\n", "    W = 3 * x**2\n", expect="silent")
case("c13-twin-neq", "C13", OC_BN, "    if V1 == V2 and U1 == U2:", "    if not V1 != V2 and not U1 != U2:", expect="silent")
case("c13-twin-helper", "C13", OC_BLS, "    V_squared = V * V\n", "    V_squared = _sq(V)\n", expect="silent",
     more=[(OC_BLS, "# Elliptic curve addition\ndef add(", "def _sq(v):\n    return v * v\n\n\n# Elliptic curve addition\ndef add(", 1)])

# ---------------------------------------------------------------- C18
case("c18-mul-no-negative", "C18", SECP, "    if n < 0 or n >= N:", "    if n >= N:", rule="C18.R2")
case("c18-mul-mod-P", "C18", SECP, "        return jacobian_multiply(a, n % N)", "        return jacobian_multiply(a, n % P)", rule="C18.R2")
case("c18-mul-no-zero-base", "C18", SECP, "    if a[1] == 0 or n == 0:", "    if a[1] == 0:")
case("c18-mul-odd-no-add", "C18", SECP, "        return jacobian_add(jacobian_double(jacobian_multiply(a, n // 2)), a)", "        return jacobian_double(jacobian_multiply(a, n // 2))")
case("c18-mul-halves-wrong", "C18", SECP, "        return jacobian_double(jacobian_multiply(a, n // 2))", "        return jacobian_double(jacobian_multiply(a, n // 2 + 1))")
case("c18-const-B", "C18", SECP, "B = 7\n", "B = 5\n")
case("c18-const-N", "C18", SECP, "N = 115792089237316195423570985008687907852837564279074904382605163141518161494337", "N = 115792089237316195423570985008687907852837564279074904382605163141518161494339")
case("c18-bytes-to-int-little", "C18", SECP, "        o = (o << 8) + safe_ord(b)", "        o = (o >> 8) + (safe_ord(b) << 248)")
case("c18-privtopub-swapped", "C18", SECP, "    return multiply(G, bytes_to_int(privkey))", "    return multiply(G, bytes_to_int(privkey[::-1]))")
case("c18-add-wrapper-no-conv", "C18", SECP, "    return from_jacobian(jacobian_add(to_jacobian(a), to_jacobian(b)))", "    return from_jacobian(jacobian_add(to_jacobian(a), to_jacobian(a)))")
case("c18-twin-ge-gt", "C18", SECP, "    if n < 0 or n >= N:", "    if n < 0 or n > N:", expect="silent")
case("c18-twin-mul256", "C18", SECP, "        o = (o << 8) + safe_ord(b)", "        o = o * 256 + safe_ord(b)", expect="silent")
case("c18-twin-parity-and", "C18", SECP, "    if (n % 2) == 0:", "    if (n & 1) == 0:", expect="silent", more=[(SECP, "    if (n % 2) == 1:", "    if (n & 1) == 1:", 1)])

# ---------------------------------------------------------------- C19
case("c19-v-widened", "C19", SECP, "    if v not in (27, 28):", "    if v not in (27, 28, 29, 30):", rule="C19.R1")
case("c19-v-gate-removed", "C19", SECP, "    if v not in (27, 28):\n        raise ValueError(f\"value of v was {v}, must be either 27 or 28\")\n", "")
case("c19-no-r-zero-check", "C19", SECP, " or not (r % N) or not (s % N):", " or not (s % N):", rule="C19.R1")
case("c19-no-s-zero-check", "C19", SECP, " or not (r % N) or not (s % N):", " or not (r % N):", rule="C19.R1")
case("c19-no-residue-check", "C19", SECP, "    if (xcubedaxb - y * y) % P != 0 or not (r % N)", "    if not (r % N)", rule="C19.R1")
case("c19-r-zero-plain", "C19", SECP, " or not (r % N) or not (s % N):", " or not r or not s:")
case("c19-parity-inverted", "C19", SECP, "    y = beta if v % 2 ^ beta % 2 else (P - beta)", "    y = (P - beta) if v % 2 ^ beta % 2 else beta", rule="C19.R2")
case("c19-parity-ignored", "C19", SECP, "    y = beta if v % 2 ^ beta % 2 else (P - beta)", "    y = beta")
case("c19-gz-positive", "C19", SECP, "(N - z) % N)", "z % N)", rule="C19.R3")
case("c19-inv-mod-P", "C19", SECP, "    Q = jacobian_multiply(Qr, inv(r, N))", "    Q = jacobian_multiply(Qr, inv(r, P))", rule="C19.R3")
case("c19-raises-keyerror", "C19", SECP, "        raise ValueError(\n            f\"sig is invalid, {r} cannot be the x coord for point on curve\"\n        )", "        raise KeyError(\"sig is invalid\")")
case("c19-exponent-wrong", "C19", SECP, "    beta = pow(xcubedaxb, (P + 1) // 4, P)", "    beta = pow(xcubedaxb, (P - 1) // 4, P)")
case("c19-twin-v-chain", "C19", SECP, "    if v not in (27, 28):", "    if v != 27 and v != 28:", expect="silent")
case("c19-twin-set", "C19", SECP, "    if v not in (27, 28):", "    if v not in [28, 27]:", expect="silent")
case("c19-twin-eq-form", "C19", SECP, "    if (xcubedaxb - y * y) % P != 0 or", "    if (y * y - xcubedaxb) % P != 0 or", expect="silent")

# ---------------------------------------------------------------- C06
case("c06-v-pred-differs", "C06", SECP, "v, r, s = 27 + ((y % 2) ^ (0 if s * 2 < N else 1)), r, s if s * 2 < N else N - s",
     "v, r, s = 27 + ((y % 2) ^ (0 if s * 2 <= N + 2 else 1)), r, s if s * 2 < N else N - s")
case("c06-no-low-s", "C06", SECP, "v, r, s = 27 + ((y % 2) ^ (0 if s * 2 < N else 1)), r, s if s * 2 < N else N - s",
     "v, r, s = 27 + (y % 2), r, s", rule="C06.R1")
case("c06-s-lt-N", "C06", SECP, "r, s if s * 2 < N else N - s", "r, s if s < N else N - s")
case("c06-sequential-assign", "C06", SECP, "    v, r, s = 27 + ((y % 2) ^ (0 if s * 2 < N else 1)), r, s if s * 2 < N else N - s",
     "    s = s if s * 2 < N else N - s\n    v = 27 + ((y % 2) ^ (0 if s * 2 < N else 1))")
case("c06-v-no-flip", "C06", SECP, "27 + ((y % 2) ^ (0 if s * 2 < N else 1))", "27 + (y % 2)", rule="C06.R4")
case("c06-eq-missing-r", "C06", SECP, "    s = inv(k, N) * (z + r * bytes_to_int(priv)) % N", "    s = inv(k, N) * (z + bytes_to_int(priv)) % N", rule="C06.R2")
case("c06-inv-mod-P", "C06", SECP, "    s = inv(k, N) * (z + r * bytes_to_int(priv)) % N", "    s = inv(k, P) * (z + r * bytes_to_int(priv)) % N")
case("c06-nonce-round-dropped", "C06", SECP, "    k = hmac.new(k, v + b\"\\x01\" + priv + msghash, hashlib.sha256).digest()\n    v = hmac.new(k, v, hashlib.sha256).digest()\n", "", rule="C06.R3")
case("c06-nonce-order", "C06", SECP, "    k = hmac.new(k, v + b\"\\x00\" + priv + msghash, hashlib.sha256).digest()", "    k = hmac.new(k, v + b\"\\x00\" + msghash + priv, hashlib.sha256).digest()")
case("c06-nonce-args-swapped", "C06", SECP, "    k = deterministic_generate_k(msghash, priv)", "    k = deterministic_generate_k(priv, msghash)")
case("c06-nonce-sha512", "C06", SECP, "    return bytes_to_int(hmac.new(k, v, hashlib.sha256).digest())", "    return bytes_to_int(hmac.new(k, v, hashlib.sha512).digest())")
case("c06-nonce-init-v", "C06", SECP, '    v = b"\\x01" * 32\n    k = b"\\x00" * 32', '    v = b"\\x00" * 32\n    k = b"\\x01" * 32')
case("c06-twin-flag-var", "C06", SECP, "    v, r, s = 27 + ((y % 2) ^ (0 if s * 2 < N else 1)), r, s if s * 2 < N else N - s",
     "    high = not s * 2 < N\n    v, r, s = 27 + ((y % 2) ^ (1 if high else 0)), r, N - s if high else s", expect="silent")
case("c06-twin-half", "C06", SECP, "r, s if s * 2 < N else N - s", "r, s if 2 * s < N else N - s", expect="silent", more=[(SECP, "(0 if s * 2 < N else 1)", "(0 if 2 * s < N else 1)", 1)])

RC_BN = "py_ecc/bn128/bn128_curve.py"
RC_BLS = "py_ecc/bls12_381/bls12_381_curve.py"
# ---------------------------------------------------------------- C07
case("c07-ref-double-no-order2", "C07", RC_BN, "    if y == type(y).zero():\n        return None\n", "", rule="C07.R1")
case("c07-ref-add-inverse-missing", "C07", RC_BLS, "    elif x2 == x1:\n        return None\n", "    elif x2 == x1 and False:\n        return None\n")
case("c07-ref-add-newy", "C07", RC_BN, "    newy = -m * newx + m * x1 - y1\n    if not newy", "    newy = -m * newx + m * x2 - y1\n    if not newy")
case("c07-ref-double-slope", "C07", RC_BLS, "    m = 3 * x**2 / (2 * y)", "    m = 3 * x**2 / (2 * y) + 0 * x\n    m = 2 * x**2 / (2 * y)")
case("c07-ref-neg", "C07", RC_BN, "    return (x, -y)", "    return (x, y)")
case("c07-ref-oncurve", "C07", RC_BLS, "    return y**2 - x**3 == b", "    return y**2 - x**2 == b")
case("c07-multiply-no-zero", "C07", RC_BN, "    if n == 0:\n        return None\n    elif n == 1:", "    if n == 1:", rule="C07.R3")
case("c07-multiply-odd-drops-add", "C07", OC_BN, "        return add(multiply(double(pt), int(n // 2)), pt)", "        return multiply(double(pt), int(n // 2))", rule="C07.R3")
case("c07-multiply-wrong-half", "C07", OC_BLS, "        return multiply(double(pt), n // 2)", "        return multiply(double(pt), (n + 1) // 2)")
case("c07-twist-coeff-bn", "C07", RC_BN, "    xcoeffs = [_x.coeffs[0] - _x.coeffs[1] * 9, _x.coeffs[1]]", "    xcoeffs = [_x.coeffs[0] - _x.coeffs[1] * 8, _x.coeffs[1]]", rule="C07.R4")
case("c07-twist-position-bls-opt", "C07", OC_BLS, "    nx = FQ12([0] + [xcoeffs[0]] + [0] * 5 + [xcoeffs[1]] + [0] * 4)", "    nx = FQ12([0] + [xcoeffs[0]] + [0] * 4 + [xcoeffs[1]] + [0] * 5)", rule="C07.R4")
case("c07-twist-w-power", "C07", RC_BLS, "    return (nx / w**2, ny / w**3)", "    return (nx / w**2, ny / w**2)", rule="C07.R4")
case("c07-generator-swapped", "C07", OC_BN, "G1 = (FQ(1), FQ(2), FQ(1))", "G1 = (FQ(1), FQ(-2), FQ(1))", rule="C07.R5")
case("c07-curve-order-ref", "C07", RC_BLS, "    52435875175126190479447740508185965837690552500527637822603658699938581184513\n", "    52435875175126190479447740508185965837690552500527637822603658699938581184515\n")
case("c07-b2-bn-opt", "C07", OC_BN, "b2 = FQ2([3, 0]) / FQ2([9, 1])", "b2 = FQ2([3, 0]) / FQ2([1, 9])", rule="C07.R5")
case("c07-fq12-modulus", "C07", "py_ecc/fields/field_properties.py", '"fq12_modulus_coeffs": (2, 0, 0, 0, 0, 0, -2, 0, 0, 0, 0, 0),', '"fq12_modulus_coeffs": (2, 0, 0, 0, 0, 0, 2, 0, 0, 0, 0, 0),')
case("c07-twin-twist-bls-ref-style", "C07", OC_BLS, "    nx = FQ12([0] + [xcoeffs[0]] + [0] * 5 + [xcoeffs[1]] + [0] * 4)\n    ny = FQ12([ycoeffs[0]] + [0] * 5 + [ycoeffs[1]] + [0] * 5)\n    nz = FQ12([0] * 3 + [zcoeffs[0]] + [0] * 5 + [zcoeffs[1]] + [0] * 2)\n    return (nx, ny, nz)",
     "    nx = FQ12([xcoeffs[0]] + [0] * 5 + [xcoeffs[1]] + [0] * 5)\n    ny = FQ12([ycoeffs[0]] + [0] * 5 + [ycoeffs[1]] + [0] * 5)\n    nz = FQ12([zcoeffs[0]] + [0] * 5 + [zcoeffs[1]] + [0] * 5)\n    return (nx * w, ny, nz * w**3)", expect="silent")
case("c07-twin-double-reassoc", "C07", RC_BN, "    newy = -m * newx + m * x - y\n", "    newy = m * (x - newx) - y\n", expect="silent")
case("c07-twin-multiply-iterative-style", "C07", OC_BN, "    elif not n % 2:\n        return multiply(double(pt), n // 2)", "    elif n % 2 == 0:\n        return multiply(double(pt), n // 2)", expect="silent")

# ---------------------------------------------------------------- C17
case("c17-subgroup-true", "C17", G2P, "    return is_inf(multiply(P, curve_order))", "    return True")
case("c17-subgroup-order-minus-1", "C17", G2P, "    return is_inf(multiply(P, curve_order))", "    return is_inf(multiply(P, curve_order - 1))")
case("c17-subgroup-field-modulus", "C17", G2P, "    return is_inf(multiply(P, curve_order))", "    return is_inf(multiply(P, field_modulus))", more=[(G2P, "    curve_order,\n", "    curve_order,\n    field_modulus,\n", 1)])
case("c17-subgroup-not", "C17", G2P, "    return is_inf(multiply(P, curve_order))", "    return not is_inf(multiply(P, curve_order))")
case("c17-subgroup-on-P", "C17", G2P, "    return is_inf(multiply(P, curve_order))", "    return is_inf(P)")
case("c17-heff-g1", "C17", "py_ecc/optimized_bls12_381/constants.py", "H_EFF_G1 = 0xD201000000010001", "H_EFF_G1 = 0xD201000000010000")
case("c17-clear-g2-uses-g1", "C17", "py_ecc/optimized_bls12_381/optimized_clear_cofactor.py", "    return multiply(p, H_EFF_G2)", "    return multiply(p, H_EFF_G1)")
case("c17-twin-local", "C17", G2P, "    return is_inf(multiply(P, curve_order))", "    Q = multiply(P, curve_order)\n    return is_inf(Q)", expect="silent")

RP_BN = "py_ecc/bn128/bn128_pairing.py"
RP_BLS = "py_ecc/bls12_381/bls12_381_pairing.py"
# ---------------------------------------------------------------- C05
case("c05-ref-no-oncurve-Q", "C05", RP_BN, "    if not is_on_curve(Q, b2):\n        raise ValueError(\"Invalid input - point Q is not on the correct curve\")\n", "", rule="C05.R1")
case("c05-opt-oncurve-wrong-coeff", "C05", OPAIR, "    if not is_on_curve(Q, b2):", "    if not is_on_curve(Q, b):", rule="C05.R1")
case("c05-opt-no-oncurve-P", "C05", OP_BN, "    if not is_on_curve(P, b):\n        raise ValueError(\"Invalid input - point P is not on the correct curves\")\n", "", rule="C05.R1")
case("c05-opt-no-inf-shortcut", "C05", OPAIR, "    if P[-1] == (P[-1].zero()) or Q[-1] == (Q[-1].zero()):\n        return FQ12.one()\n", "", rule="C05.R2")
case("c05-opt-inf-only-P", "C05", OP_BN, "    if P[-1] == (P[-1].zero()) or Q[-1] == (Q[-1].zero()):", "    if P[-1] == (P[-1].zero()):", rule="C05.R2")
case("c05-ref-miller-no-none", "C05", RP_BLS, "    if Q is None or P is None:\n        return FQ12.one()\n", "", rule="C05.R2")
case("c05-ref-loop-bound", "C05", RP_BN, "log_ate_loop_count = 63", "log_ate_loop_count = 62", rule="C05.R3")
case("c05-ref-line-after-update", "C05", RP_BLS, "        f = f * f * linefunc(R, R, P)\n        R = double(R)", "        R = double(R)\n        f = f * f * linefunc(R, R, P)", rule="C05.R3")
case("c05-ref-drop-frobenius-add", "C05", RP_BN, "    f = f * linefunc(R, Q1, P)\n    R = add(R, Q1)\n", "    f = f * linefunc(R, Q1, P)\n", rule="C05.R3")
case("c05-ref-final-exponent", "C05", RP_BN, "    return f ** ((field_modulus**12 - 1) // curve_order)\n\n\n# Pairing computation", "    return f ** ((field_modulus**12 - 1) // (curve_order - 1))\n\n\n# Pairing computation", rule="C05.R3")
case("c05-opt-den-not-squared", "C05", OPAIR, "        f_den = f_den * f_den * _d\n", "        f_den = f_den * _d\n", rule="C05.R3")
case("c05-opt-add-wrong-point", "C05", OP_BN, "            _n, _d = linefunc(R, nQ, P)\n            f_num = f_num * _n\n            f_den = f_den * _d\n            R = add(R, nQ)", "            _n, _d = linefunc(R, nQ, P)\n            f_num = f_num * _n\n            f_den = f_den * _d\n            R = add(R, Q)", rule="C05.R3")
case("c05-opt-bls-loop-slice", "C05", OPAIR, "    for v in pseudo_binary_encoding[62::-1]:", "    for v in pseudo_binary_encoding[63::-1]:", rule="C05.R3")
case("c05-opt-nq2-sign", "C05", OP_BN, "    nQ2 = (Q1[0] ** field_modulus, -Q1[1] ** field_modulus, Q1[2] ** field_modulus)", "    nQ2 = (Q1[0] ** field_modulus, Q1[1] ** field_modulus, Q1[2] ** field_modulus)", rule="C05.R3")
case("c05-opt-line-untwisted", "C05", OPAIR, "            _n, _d = linefunc(twist_R, twist_Q, cast_P)", "            _n, _d = linefunc(twist_R, twist(R), cast_P)", rule="C05.R3")
case("c05-ate-count-ref", "C05", RP_BLS, "ate_loop_count = 15132376222941642752", "ate_loop_count = 15132376222941642753")
case("c05-twin-f-reassoc", "C05", RP_BN, "        f = f * f * linefunc(R, R, P)\n", "        l = linefunc(R, R, P)\n        f = l * (f * f)\n", expect="silent")

# ---------------------------------------------------------------- C12
case("c12-cofactor-wrong", "C12", OPAIR, "    cofactor = (field_modulus**4 - field_modulus**2 + 1) // curve_order", "    cofactor = (field_modulus**4 - field_modulus**2 + 1) // curve_order + 1", rule="C12.R1")
case("c12-easy-part-five-frob", "C12", OPAIR, "    p3 = exp_by_p(exp_by_p(exp_by_p(exp_by_p(exp_by_p(exp_by_p(p2)))))) / p2", "    p3 = exp_by_p(exp_by_p(exp_by_p(exp_by_p(exp_by_p(p2))))) / p2", rule="C12.R1")
case("c12-easy-part-mul-not-div", "C12", OPAIR, "exp_by_p(exp_by_p(exp_by_p(exp_by_p(exp_by_p(exp_by_p(p2)))))) / p2", "exp_by_p(exp_by_p(exp_by_p(exp_by_p(exp_by_p(exp_by_p(p2)))))) * p2")
case("c12-exptable-range-11", "C12", OPAIR, "exptable = [FQ12([0] * i + [1] + [0] * (11 - i)) ** field_modulus for i in range(12)]", "exptable = [FQ12([0] * i + [1] + [0] * (11 - i)) ** field_modulus for i in range(11)]", rule="C12.R2")
case("c12-exptable-wrong-power", "C12", OPAIR, "** field_modulus for i in range(12)]", "** (field_modulus - 1) for i in range(12)]", rule="C12.R2")
case("c12-expbyp-seed", "C12", OPAIR, "        FQ12.zero(),\n    )", "        FQ12.one(),\n    )", rule="C12.R2")
case("c12-ref-line-tangent", "C12", RP_BN, "        m = 3 * x1**2 / (2 * y1)\n        return m * (xt - x1) - (yt - y1)", "        m = 3 * x1**2 / (2 * y1)\n        return m * (xt - x1) - (yt + y1)", rule="C12.R3")
case("c12-ref-line-vertical", "C12", RP_BLS, "    else:\n        return xt - x1\n", "    else:\n        return xt - x2 + x1 - x1 + x1\n")
case("c12-flag-ignored", "C12", OP_BN, "        twist(Q), cast_point_to_fq12(P), final_exponentiate=final_exponentiate\n", "        twist(Q), cast_point_to_fq12(P), final_exponentiate=True\n", rule="C12.R4")
case("c12-flag-false-powers", "C12", OPAIR, "    if final_exponentiate:\n        return f ** ((field_modulus**12 - 1) // curve_order)\n    else:\n        return f", "    if final_exponentiate:\n        return f ** ((field_modulus**12 - 1) // curve_order)\n    else:\n        return f ** 3")
case("c12-bn-final-exp-ref", "C12", RP_BN, "def final_exponentiate(p: Field) -> Field:\n    return p ** ((field_modulus**12 - 1) // curve_order)", "def final_exponentiate(p: Field) -> Field:\n    return p ** ((field_modulus**12 - 1) // curve_order - 1)")
case("c12-twin-expbyp-loop", "C12", OPAIR, "    return sum(\n        (table_entry * int(coeff) for table_entry, coeff in zip(exptable, x.coeffs)),\n        FQ12.zero(),\n    )",
     "    acc = FQ12.zero()\n    for i in range(12):\n        acc = acc + exptable[i] * int(x.coeffs[i])\n    return acc", expect="silent")

UT = "py_ecc/utils.py"
# ---------------------------------------------------------------- C08 / C14
case("c08-fq-rsub-swapped", ["C08", "C14"], FE, "        return type(self)((on - self.n) % self.field_modulus)", "        return type(self)((self.n - on) % self.field_modulus)", rule="C08.R1")
case("c08-optfq-rdiv-wrong", ["C08", "C14"], OFE, "            prime_field_inv(self.n, self.field_modulus) * on % self.field_modulus", "            prime_field_inv(on, self.field_modulus) * self.n % self.field_modulus", rule="C08.R1")
case("c08-optfq-neg-unreduced", "C08", OFE, "        return type(self)(-self.n)", "        r = type(self)(0)\n        r.n = -self.n\n        return r")
case("c08-twin-optfqp-mul-ctor-reduces", ["C08", "C14"], OFE, "            return type(self)([x % self.field_modulus for x in b])", "            return type(self)(tuple(FQ_like for FQ_like in b))", expect="silent")
case("c08-optfqp-mul-mctuples-sign", ["C08", "C14"], OFE, "                    b[exp + i] -= top * c", "                    b[exp + i] += top * c", rule="C08.R2")
case("c08-reffqp-mul-reduction-index", ["C08", "C14"], FE, "                exp, top = len(b) - self.degree - 1, b.pop()", "                exp, top = len(b) - self.degree, b.pop()", rule="C08.R2")
case("c08-twin-optfqp-int-mul-ctor-reduces", "C08", OFE, "                [int(c) * other % self.field_modulus for c in self.coeffs]", "                tuple(int(c) * other for c in self.coeffs)", expect="silent")
case("c08-optfqp-sub-as-add", ["C08", "C14"], OFE, "            [int(x - y) % self.field_modulus for x, y in zip(self.coeffs, other.coeffs)]", "            [int(x + y) % self.field_modulus for x, y in zip(self.coeffs, other.coeffs)]")
case("c08-reffqp-neg", ["C08", "C14"], FE, "        return type(self)([-c for c in self.coeffs])", "        return type(self)([c for c in self.coeffs])")
case("c08-euclid-no-zero-case", "C08", UT, "    if a == 0:\n        return 0\n    lm, hm = 1, 0\n    low, high = a % n, n\n    while low > 1:\n        r = high // low\n        nm, new = hm - lm * r, high - low * r\n        lm, low, hm, high = nm, new, lm, low\n    return lm % n\n\n\n# Utility",
     "    lm, hm = 1, 0\n    low, high = a % n, n\n    while low > 1:\n        r = high // low\n        nm, new = hm - lm * r, high - low * r\n        lm, low, hm, high = nm, new, lm, low\n    return lm % n\n\n\n# Utility", rule="C08.R4")
case("c08-euclid-update-wrong", "C08", UT, "        nm, new = hm - lm * r, high - low * r\n        lm, low, hm, high = nm, new, lm, low\n    return lm % n\n\n\n# Utility", "        nm, new = hm + lm * r, high - low * r\n        lm, low, hm, high = nm, new, lm, low\n    return lm % n\n\n\n# Utility", rule="C08.R4")
case("c08-secp-euclid-returns-hm", "C08", SECP, "        lm, low, hm, high = nm, new, lm, low\n    return lm % n", "        lm, low, hm, high = nm, new, lm, low\n    return hm % n", rule="C08.R4")
case("c08-pow-loop-no-square", "C08", OFE, "            other >>= 1\n            t = t * t\n        return o\n\n    def __eq__", "            other >>= 1\n            t = t * self\n        return o\n\n    def __eq__", rule="C08.R5")
case("c08-pow-recursive-again", "C08", FE, "        o = type(self)(1)\n        t = self\n        while other > 0:\n            if other & 1:\n                o = o * t\n            other >>= 1\n            t = t * t\n        return o",
     "        if other == 0:\n            return type(self)(1)\n        elif other == 1:\n            return type(self)(self.n)\n        elif other % 2 == 0:\n            return (self * self) ** (other // 2)\n        else:\n            return ((self * self) ** int(other // 2)) * self", rule="C08.R6")
case("c08-store-n-outside-init", "C08", OFE, "    def __int__(self: T_FQ) -> int:\n        return self.n", "    def __int__(self: T_FQ) -> int:\n        self.n = self.n % self.field_modulus\n        return self.n", rule="C08.R3")
case("c14-sgn0-fq2-simplified", "C14", OFE, "        return sign_0 or (zero_0 and sign_1)", "        return sign_0 or sign_1", rule="C14.R2")
case("c14-sgn0-fqp-zero-update", "C14", OFE, "            zero = zero and zero_i", "            zero = zero_i", rule="C14.R2")
case("c14-sgn0-fq", "C14", OFE, "        return self.n % 2\n", "        return (self.n * 2) // self.field_modulus\n", rule="C14.R2")
case("c08-twin-mul-comm", ["C08", "C14"], OFE, "        return type(self)((self.n * on) % self.field_modulus)", "        return type(self)((on * self.n) % self.field_modulus)", expect="silent")
case("c08-twin-pow-parity-form", "C08", OFE, "            if other & 1:\n                o = o * t\n            other >>= 1\n            t = t * t\n        return o\n\n    def __eq__", "            if other % 2 == 1:\n                o = t * o\n            other = other // 2\n            t = t * t\n        return o\n\n    def __eq__", expect="silent")

# ---------------------------------------------------------------- C11
case("c11-g1-x-gt-q", "C11", PC, "    if x >= q:\n        raise ValueError(f\"Point value", "    if x > q:\n        raise ValueError(f\"Point value", rule="C11.R1")
case("c11-g1-no-cflag", "C11", PC,
     "    c_flag, b_flag, a_flag = get_flags(z)\n\n    # c_flag == 1 indicates the compressed form\n    # MSB should be 1\n    if not c_flag:\n        raise ValueError(\"c_flag should be 1\")\n\n    is_inf_pt = is_point_at_infinity(z)\n",
     "    c_flag, b_flag, a_flag = get_flags(z)\n\n    is_inf_pt = is_point_at_infinity(z)\n", rule="C11.R1")
case("c11-g1-inf-aflag-unchecked", "C11", PC,
     "        if a_flag:\n            raise ValueError(\"a point at infinity should have a_flag == 0\")\n        return Z1", "        return Z1", rule="C11.R1")
case("c11-g1-sign-inverted", "C11", PC, "    if (y * 2) // q != int(a_flag):\n        y = q - y\n    return (FQ(x)",
     "    if (y * 2) // q == int(a_flag):\n        y = q - y\n    return (FQ(x)", rule="C11.R1")
case("c11-g1-sign-gt-half", "C11", PC, "    if (y * 2) // q != int(a_flag):\n        y = q - y\n    return (FQ(x)",
     "    if (y > q // 2) != a_flag and y * 2 != q - 1:\n        y = q - y\n    return (FQ(x)", rule="C11.R1")
case("c11-g1-no-root-check", "C11", PC,
     "    if pow(y, 2, q) != (x**3 + b.n) % q:\n        raise ValueError(\"The given point is not on G1: y**2 = x**3 + b\")\n", "", rule="C11.R1")
case("c11-g1-wrong-exponent", "C11", PC, "    y = pow((x**3 + b.n) % q, (q + 1) // 4, q)", "    y = pow((x**3 + b.n) % q, (q - 1) // 4, q)", rule="C11.R1")
case("c11-g1-mask-382", "C11", PC, "    x = z % POW_2_381\n    if x >= q:", "    x = z % POW_2_382\n    if x >= q:", rule="C11.R1")
case("c11-flags-bflag-bit", "C11", PC, "    b_flag = bool((z >> 382) & 1)", "    b_flag = bool((z >> 381) & 1)", rule="C11.R1")
case("c11-g2-z2-unchecked", "C11", PC,
     "    if z2 >= q:\n        raise ValueError(f\"z2 point value should be less than field modulus. Got {z2}\")\n", "", rule="C11.R1")
case("c11-g2-swap-re-im", "C11", PC, "    x = FQ2([x2, x1])", "    x = FQ2([x1, x2])", rule="C11.R1")
case("c11-g2-sign-only-im", "C11", PC,
     "    if (y_im > 0 and (int(y_im) * 2) // q != int(a_flag1)) or (\n        y_im == 0 and (int(y_re) * 2) // q != int(a_flag1)\n    ):",
     "    if (int(y_im) * 2) // q != int(a_flag1):", rule="C11.R1")
case("c11-g2-inf-z2-ignored", "C11", PC, "    return (z1 % POW_2_381 == 0) and (z2 is None or z2 == 0)", "    return z1 % POW_2_381 == 0", rule="C11.R1")
case("c11-g2-no-oncurve-no-sqrt-arg", "C11", PC, "    y = modular_squareroot_in_FQ2(x**3 + b2)", "    y = modular_squareroot_in_FQ2(x**3 + b)", rule="C11.R1")
case("c11-enc-g2-sign-from-re", "C11", PC,
     "    a_flag1 = (int(y_im) * 2) // q if y_im > 0 else (int(y_re) * 2) // q",
     "    a_flag1 = (int(y_re) * 2) // q if y_re > 0 else (int(y_im) * 2) // q", rule="C11.R3")
case("c11-enc-g1-flag-bit", "C11", PC, "        return G1Compressed(x.n + a_flag * POW_2_381 + POW_2_383)",
     "        return G1Compressed(x.n + a_flag * POW_2_382 + POW_2_383)", rule="C11.R3")
case("c11-enc-g1-inf-no-b", "C11", PC, "        return G1Compressed(POW_2_383 + POW_2_382)", "        return G1Compressed(POW_2_383)", rule="C11.R3")
case("c11-enc-g2-swap-words", "C11", PC, "    z2 = x_re\n", "    z2 = x_im\n", rule="C11.R3")
case("c11-sqrt-skip-root", "C11", PC, "    if check in EIGHTH_ROOTS_OF_UNITY[::2]:", "    if check in EIGHTH_ROOTS_OF_UNITY[:6:2]:", rule="C11.R2")
case("c11-sqrt-wrong-divisor", "C11", PC,
     "            / EIGHTH_ROOTS_OF_UNITY[EIGHTH_ROOTS_OF_UNITY.index(check) // 2]",
     "            / EIGHTH_ROOTS_OF_UNITY[EIGHTH_ROOTS_OF_UNITY.index(check)]", rule="C11.R2")
case("c11-sqrt-exponent", "C11", PC, "    candidate_squareroot = value ** ((FQ2_ORDER + 8) // 16)", "    candidate_squareroot = value ** ((FQ2_ORDER + 8) // 8)", rule="C11.R2")
case("c11-bytes-sig-split", "C11", G2P, "os2ip(signature[:48]), os2ip(signature[48:])", "os2ip(signature[:48]), os2ip(signature[47:])", rule="C11.R3")
case("c11-bytes-pk-len", "C11", G2P, "    return BLSPubkey(i2osp(z, 48))", "    return BLSPubkey(i2osp(z, 49))", rule="C11.R3")
# silent twins
case("c11-twin-flags-mask", "C11", PC, "    x = z % POW_2_381\n    if x >= q:", "    x = z & (POW_2_381 - 1)\n    if not x < q:", expect="silent")
case("c11-twin-sq-mul", "C11", PC, "    if pow(y, 2, q) != (x**3 + b.n) % q:", "    if (y * y) % q != (x**3 + b.n) % q:", expect="silent")
case("c11-twin-g2-neg", "C11", PC, "        y = FQ2((y * -1).coeffs)", "        y = -y", expect="silent")
case("c11-twin-msgs", "C11", PC, "        raise ValueError(\"c_flag should be 1\")", "        raise ValueError(\"compression flag missing\")", count=2, expect="silent")
case("c11-twin-enc-shift", "C11", PC, "        return G1Compressed(x.n + a_flag * POW_2_381 + POW_2_383)",
     "        return G1Compressed(POW_2_383 + (a_flag << 381) + x.n)", expect="silent")
case("c11-twin-exponent-floor", "C11", PC, "    y = pow((x**3 + b.n) % q, (q + 1) // 4, q)", "    y = pow((x**3 + b.n) % q, (q + 3) // 4, q)", expect="silent")
case("c11-twin-sqrt-arg-assoc", "C11", PC, "    y = modular_squareroot_in_FQ2(x**3 + b2)", "    y = modular_squareroot_in_FQ2(b2 + x * x * x)", expect="silent")

# ---------------------------------------------------------------- C10
SWU = "py_ecc/optimized_bls12_381/optimized_swu.py"
H2C = "py_ecc/bls/hash_to_curve.py"
BCONS = "py_ecc/optimized_bls12_381/constants.py"
case("c10-g2-exceptional-den", "C10", SWU, "    if denominator == FQ2.zero():\n        denominator = ISO_3_Z * ISO_3_A", "    if denominator == FQ2.zero():\n        denominator = ISO_3_A", rule="C10.R2")
case("c10-g1-exceptional-dropped", "C10", SWU, "    if denominator == FQ.zero():\n        denominator = ISO_11_Z * ISO_11_A\n", "", rule="C10.R2")
case("c10-g2-sign-after-scaling", "C10", SWU,
     "    if t.sgn0 != y.sgn0:\n        y = -y\n\n    y = y * denominator\n\n    return (numerator, y, denominator)",
     "    y = y * denominator\n\n    if t.sgn0 != y.sgn0:\n        y = -y\n\n    return (numerator, y, denominator)", rule="C10.R3")
case("c10-g1-sign-inverted", "C10", SWU, "    if t.sgn0 != y.sgn0:\n        y = -y\n\n    y = y * denominator\n\n    return numerator, y, denominator",
     "    if t.sgn0 == y.sgn0:\n        y = -y\n\n    y = y * denominator\n\n    return numerator, y, denominator", rule="C10.R3")
case("c10-g2-eta-first-only", "C10", SWU, "    for eta in etas:\n", "    for eta in etas[:3]:\n", rule="C10.R2")
case("c10-g2-roots-short", "C10", SWU, "    for root in roots:\n", "    for root in roots[1:]:\n", rule="C10.R2")
case("c10-g2-x2-not-updated", "C10", SWU, "    if not success:\n        numerator = numerator * iso_3_z_t2\n", "", rule="C10.R2")
case("c10-g1-x2-wrong", "C10", SWU, "        numerator = numerator * iso_11_z_t2\n", "        numerator = numerator * t2\n", rule="C10.R2")
case("c10-g1-sqrt-const", "C10", SWU, "        y = y * t**3 * SQRT_MINUS_11_CUBED", "        y = y * t**3 * ISO_11_Z", rule="C10.R2")
case("c10-g2-u-formula", "C10", SWU, "    u = (numerator**3) + (ISO_3_A * numerator * (denominator**2)) + (ISO_3_B * v)",
     "    u = (numerator**3) + (ISO_3_A * numerator * denominator) + (ISO_3_B * v)", rule="C10.R2")
case("c10-g1-sqrt-exponent", "C10", BCONS, "P_MINUS_3_DIV_4 = (FQ.field_modulus - 3) // 4", "P_MINUS_3_DIV_4 = (FQ.field_modulus - 3) // 2")
case("c10-g2-sqrt-v-power", "C10", SWU, "    temp1 = u * v**7\n    temp2 = temp1 * v**8", "    temp1 = u * v**7\n    temp2 = temp1 * v**6", rule="C10.R2")
case("c10-g2-valid-root-first-wins-broken", "C10", SWU, "        if temp2 == FQ2.zero() and not is_valid_root:\n            is_valid_root = True\n            result = sqrt_candidate",
     "        if temp2 == FQ2.zero() and not is_valid_root:\n            is_valid_root = True\n            result = gamma", rule="C10.R2")
case("c10-iso3-coefficient", "C10", BCONS, "ISO_3_K_2_2 = FQ2.one()", "ISO_3_K_2_2 = FQ2([1, 1])", rule="C10.R4")
case("c10-iso11-ydenominator-z", "C10", SWU,
     "    mapped_values[2] = mapped_values[2] * y  # y-numerator * y\n    mapped_values[3] = mapped_values[3] * z  # y-denominator * z\n\n    z_G1",
     "    mapped_values[2] = mapped_values[2] * y  # y-numerator * y\n\n    z_G1", rule="C10.R4")
case("c10-iso3-horner-order", "C10", SWU, "        for j, k_i_j in enumerate(reversed(k_i[:-1])):\n            mapped_values[i] = mapped_values[i] * x + z_powers[j] * k_i_j\n\n    mapped_values[2] = mapped_values[2] * y  # y-numerator * y\n    mapped_values[3] = mapped_values[3] * z  # y-denominator * z\n\n    z_G2",
     "        for j, k_i_j in enumerate(k_i[:-1]):\n            mapped_values[i] = mapped_values[i] * x + z_powers[j] * k_i_j\n\n    mapped_values[2] = mapped_values[2] * y  # y-numerator * y\n    mapped_values[3] = mapped_values[3] * z  # y-denominator * z\n\n    z_G2", rule="C10.R4")
case("c10-pipeline-no-clear", "C10", H2C, "    r = add(q0, q1)\n    p = clear_cofactor_G2(r)\n    return p", "    r = add(q0, q1)\n    return r", rule="C10.R1")
case("c10-pipeline-same-u", "C10", H2C, "    q0 = map_to_curve_G1(u0)\n    q1 = map_to_curve_G1(u1)", "    q0 = map_to_curve_G1(u0)\n    q1 = map_to_curve_G1(u0)", rule="C10.R1")
case("c10-z-constant", "C10", BCONS, "ISO_3_Z = FQ2([-2, -1])", "ISO_3_Z = FQ2([-2, 1])")
# silent twins
case("c10-twin-g2-loop-break", "C10", SWU,
     "        if temp2 == FQ2.zero() and not is_valid_root:\n            is_valid_root = True\n            result = sqrt_candidate",
     "        if not is_valid_root and temp2 == FQ2.zero():\n            is_valid_root = True\n            result = sqrt_candidate", expect="silent")
case("c10-twin-g1-reassoc", "C10", SWU, "    u = (numerator**3) + (ISO_11_A * numerator * (denominator**2)) + (ISO_11_B * v)",
     "    u = ISO_11_B * v + numerator * (numerator**2 + ISO_11_A * denominator * denominator)", expect="silent")
case("c10-twin-g2-sign-form", "C10", SWU, "    if t.sgn0 != y.sgn0:\n        y = -y\n\n    y = y * denominator\n\n    return (numerator, y, denominator)",
     "    if not (t.sgn0 == y.sgn0):\n        y = y * -1\n\n    y = denominator * y\n\n    return (numerator, y, denominator)", expect="silent")
case("c10-twin-iso-temp", "C10", SWU, "    z_G2 = mapped_values[1] * mapped_values[3]  # x-denominator * y-denominator",
     "    xd, ydz = mapped_values[1], mapped_values[3]\n    z_G2 = ydz * xd", expect="silent")

# ---------------------------------------------------------------- whole-tree twins
CASES.append({"id": "all-twin-reformatted-tree", "props": [f"C{i:02d}" for i in range(1, 21)], "edits": [], "expect": "silent",
              "rule": None, "transform": "unparse"})
case("c10-g1-exceptional-guard-on-t", "C10", SWU, "    if denominator == FQ.zero():\n        denominator = ISO_11_Z * ISO_11_A", "    if t == FQ.zero():\n        denominator = ISO_11_Z * ISO_11_A", rule="C10.R2")

HASHF = "py_ecc/bls/hash.py"
case("c15-twin-xor-int-form", ["C15", "C10"], HASHF, "    return bytes(_a ^ _b for _a, _b in zip(a, b))",
     "    return i2osp(os2ip(a) ^ os2ip(b), len(a))", expect="silent")
case("c15-xor-drops-leading-zeros", "C15", HASHF, "    return bytes(_a ^ _b for _a, _b in zip(a, b))",
     "    x = os2ip(a) ^ os2ip(b)\n    return i2osp(x, (x.bit_length() + 7) // 8)", rule="C15.R1")

SECPF = "py_ecc/secp256k1/secp256k1.py"
_REC = ("    if (n % 2) == 0:\n        return jacobian_double(jacobian_multiply(a, n // 2))\n    if (n % 2) == 1:\n"
        "        return jacobian_add(jacobian_double(jacobian_multiply(a, n // 2)), a)\n"
        "    raise ValueError(\"Unexpected case in jacobian_multiply: This should never happen.\")")
_ITER = ("    result = a\n    for i in range(n.bit_length() - 2, -1, -1):\n        result = jacobian_double(result)\n"
         "        if (n >> i) & 1:\n            result = jacobian_add(result, a)\n    return result")
case("c18-twin-iterative-ladder", ["C18", "C06"], SECPF, _REC, _ITER, expect="silent")
case("c18-iterative-ladder-negative-unguarded", ["C18"], SECPF, _REC, _ITER, rule="C18.R2",
     more=[(SECPF, "    if n < 0 or n >= N:", "    if n >= N:", 1)])
case("c18-iterative-ladder-wrong-start", ["C18"], SECPF, _REC, _ITER.replace("n.bit_length() - 2", "n.bit_length() - 1"), rule="C18.R2")

for _t in ("rename-locals", "flip-comparisons", "square-spelling", "if-else-returns"):
    CASES.append({"id": f"all-twin-{_t}", "props": [f"C{i:02d}" for i in range(1, 21)], "edits": [], "expect": "silent",
                  "rule": None, "transform": _t})

# ---------------------------------------------------------------- shared state: memo tables and shared hash objects
_XMD_HEAD = "    b_in_bytes = hash_function().digest_size\n"
_XMD_TAIL = "    pseudo_random_bytes = b\"\".join(b)\n    return pseudo_random_bytes[:len_in_bytes]"
_XMD_DEF = "def expand_message_xmd(\n"
ALLP = [f"C{i:02d}" for i in range(1, 21)]
# a memo keyed by everything the result depends on changes no result: silent everywhere, C20 included
case("memo-twin-xmd-complete-key", ALLP, HASHF, _XMD_HEAD,
     "    memo_key = (bytes(msg), bytes(DST), len_in_bytes, hash_function)\n    hit = _XMD_MEMO.get(memo_key)\n"
     "    if hit is not None:\n        return hit\n" + _XMD_HEAD, expect="silent",
     more=[(HASHF, _XMD_TAIL, "    pseudo_random_bytes = b\"\".join(b)\n    out = pseudo_random_bytes[:len_in_bytes]\n"
                              "    if len(_XMD_MEMO) > 64:\n        _XMD_MEMO.clear()\n    _XMD_MEMO[memo_key] = out\n    return out", 1),
           (HASHF, _XMD_DEF, "_XMD_MEMO: dict = {}\n\n\n" + _XMD_DEF, 1)])
# the same table keyed without the requested length (which enters b_0): a later call with another length gets the first one's bytes
case("memo-xmd-key-omits-length", ["C15", "C10", "C20"], HASHF, _XMD_HEAD,
     "    memo_key = (bytes(msg), bytes(DST), hash_function)\n    hit = _XMD_MEMO.get(memo_key)\n"
     "    if hit is not None:\n        return hit\n" + _XMD_HEAD, rule=None,
     more=[(HASHF, _XMD_TAIL, "    pseudo_random_bytes = b\"\".join(b)\n    out = pseudo_random_bytes[:len_in_bytes]\n"
                              "    _XMD_MEMO[memo_key] = out\n    return out", 1),
           (HASHF, _XMD_DEF, "_XMD_MEMO: dict = {}\n\n\n" + _XMD_DEF, 1)])
# complete key, but a hit is post-processed differently from a fresh value: cannot be pruned, and C20 keeps its alarm
case("memo-xmd-hit-processed-differently", ["C20"], HASHF, _XMD_HEAD,
     "    memo_key = (bytes(msg), bytes(DST), len_in_bytes, hash_function)\n    hit = _XMD_MEMO.get(memo_key)\n"
     "    if hit is not None:\n        return hit[:-1]\n" + _XMD_HEAD, rule=None,
     more=[(HASHF, _XMD_TAIL, "    pseudo_random_bytes = b\"\".join(b)\n    out = pseudo_random_bytes[:len_in_bytes]\n"
                              "    _XMD_MEMO[memo_key] = out\n    return out", 1),
           (HASHF, _XMD_DEF, "_XMD_MEMO: dict = {}\n\n\n" + _XMD_DEF, 1)])
# subgroup_check memo keyed by the whole projective triple (sound) / by the affine x only (unsound)
_SGC = "    return is_inf(multiply(P, curve_order))"
_SGC_DEF = "def subgroup_check(P: Optimized_Point3D[Optimized_Field]) -> bool:\n"
case("memo-twin-subgroup-check-keyed-by-point", ALLP, G2P, _SGC,
     "    verdict = _SGC_MEMO.get(P)\n    if verdict is None:\n        verdict = is_inf(multiply(P, curve_order))\n"
     "        _SGC_MEMO[P] = verdict\n    return verdict", expect="silent",
     more=[(G2P, _SGC_DEF, "_SGC_MEMO: dict = {}\n\n\n" + _SGC_DEF, 1)])
case("memo-subgroup-check-keyed-by-x", ["C17", "C04", "C20"], G2P, _SGC,
     "    k = repr(P[0] / P[2])\n    verdict = _SGC_MEMO.get(k)\n    if verdict is None:\n        verdict = is_inf(multiply(P, curve_order))\n"
     "        _SGC_MEMO[k] = verdict\n    return verdict",
     more=[(G2P, _SGC_DEF, "_SGC_MEMO: dict = {}\n\n\n" + _SGC_DEF, 1)])
# HKDF-Extract on a module-level HMAC object: updated in place (state) / copied first (pure)
_HK = "    return hmac.new(salt, ikm, hashlib.sha256).digest()"
_HKDEF = "def hkdf_extract("
case("shared-hmac-updated-in-place", ["C16", "C20"], HASHF, _HK,
     "    mac = _UNSALTED if len(salt) == 0 else hmac.new(salt, digestmod=hashlib.sha256)\n    mac.update(ikm)\n    return mac.digest()",
     more=[(HASHF, _HKDEF, "_UNSALTED = hmac.new(b\"\", digestmod=hashlib.sha256)\n\n\n" + _HKDEF, 1)])
case("shared-hmac-twin-copied-first", ["C16", "C01", "C20"], HASHF, _HK,
     "    mac = _UNSALTED.copy() if len(salt) == 0 else hmac.new(salt, digestmod=hashlib.sha256)\n    mac.update(ikm)\n    return mac.digest()",
     expect="silent", more=[(HASHF, _HKDEF, "_UNSALTED = hmac.new(b\"\", digestmod=hashlib.sha256)\n\n\n" + _HKDEF, 1)])
# final exponentiation: easy part by conjugation (x^(p^6) is w -> -w) is the same map; a tripled hard part is not
OPTP = "py_ecc/optimized_bls12_381/optimized_pairing.py"
_FE6 = "    p3 = exp_by_p(exp_by_p(exp_by_p(exp_by_p(exp_by_p(exp_by_p(p2)))))) / p2"
_FEDEF = "def final_exponentiate(p: FQ12) -> FQ12:"
_CONJ = "def conjugate(x: FQ12) -> FQ12:\n    return FQ12([-c if i % 2 else c for i, c in enumerate(x.coeffs)])\n\n\n"
case("c12-twin-easy-part-by-conjugation", ["C12", "C05", "C20"], OPTP, _FE6, "    p3 = conjugate(p2) / p2", expect="silent",
     more=[(OPTP, _FEDEF, _CONJ + _FEDEF, 1)])
case("c12-conjugation-wrong-parity", ["C12"], OPTP, _FE6, "    p3 = conjugate(p2) / p2", rule="C12.R1",
     more=[(OPTP, _FEDEF, _CONJ.replace("-c if i % 2 else c", "c if i % 2 else -c") + _FEDEF, 1)])
case("c12-hard-part-tripled", ["C12"], OPTP, "    return p3**cofactor", "    return p3**cofactor * p3**cofactor * p3**cofactor", rule="C12.R1")
# FQP + int: refused today; adding the scalar to every coefficient is not the field's addition
FE = "py_ecc/fields/field_elements.py"
case("c08-fqp-add-int-to-every-coefficient", ["C08"], FE,
     "    def __add__(self: T_FQP, other: T_FQP) -> T_FQP:\n",
     "    def __add__(self: T_FQP, other: T_FQP) -> T_FQP:\n        if isinstance(other, int):\n"
     "            return type(self)([c + other for c in self.coeffs])\n", rule="C08.R2")
case("c08-twin-fqp-add-int-embedded", ["C08", "C14", "C13"], FE,
     "    def __add__(self: T_FQP, other: T_FQP) -> T_FQP:\n",
     "    def __add__(self: T_FQP, other: T_FQP) -> T_FQP:\n        if isinstance(other, int):\n"
     "            return type(self)([self.coeffs[0] + other] + list(self.coeffs[1:]))\n", expect="silent")

# constructor that reduces only when a coefficient is out of range: correct with >=, leaves p itself with >
OFE = "py_ecc/fields/optimized_field_elements.py"
_CTOR = ("            self.coeffs: Tuple[IntOrFQ, ...] = tuple(\n                coeff % self.field_modulus for coeff in coeffs\n            )\n")
case("c08-twin-ctor-reduces-when-out-of-range", ["C08", "C14", "C13", "C10"], OFE, _CTOR,
     "            if min(coeffs) < 0 or max(coeffs) >= self.field_modulus:\n"
     "                coeffs = [coeff % self.field_modulus for coeff in coeffs]\n"
     "            self.coeffs: Tuple[IntOrFQ, ...] = tuple(coeffs)\n", expect="silent")
case("c08-ctor-keeps-p-unreduced", ["C08", "C14"], OFE, _CTOR,
     "            if min(coeffs) < 0 or max(coeffs) > self.field_modulus:\n"
     "                coeffs = [coeff % self.field_modulus for coeff in coeffs]\n"
     "            self.coeffs: Tuple[IntOrFQ, ...] = tuple(coeffs)\n")

# FQ.__pow__ fast path through the three-argument builtin, guarded by an exact-type test
_POWHEAD = "    def __pow__(self: T_FQ, other: int) -> T_FQ:\n"
case("c08-twin-pow-fast-path-builtin", ["C08", "C14"], FE, _POWHEAD,
     "    def __pow__(self: T_FQ, other: int) -> T_FQ:\n        if type(other) is int and other > 0:\n"
     "            return type(self)(pow(self.n, other, self.field_modulus))\n", expect="silent")
case("c08-pow-fast-path-fermat-fold", ["C08"], FE, _POWHEAD,
     "    def __pow__(self: T_FQ, other: int) -> T_FQ:\n        if type(other) is int and other > 0:\n"
     "            return type(self)(pow(self.n, other % (self.field_modulus - 1), self.field_modulus))\n",
     rule="C08.R5")

# ---- round 5 machinery
INIT = "py_ecc/__init__.py"
UT = "py_ecc/utils.py"
case("c04-no-recursion-provision", "C04", INIT, "_sys.setrecursionlimit(max(100000, _sys.getrecursionlimit()))\n", "", rule="C04.R8")
case("c04-recursion-provision-too-small", "C04", INIT, "max(100000, _sys.getrecursionlimit())", "max(1200, _sys.getrecursionlimit())", rule="C04.R8")
case("c04-twin-recursion-provision-smaller", "C04", INIT, "max(100000, _sys.getrecursionlimit())", "max(20000, _sys.getrecursionlimit())", expect="silent")
case("c04-zip-may-be-shorter-than-keys", ["C04", "C03"], CS, "            if not len(PKs) == len(messages):", "            if len(messages) not in (1, len(PKs)):", rule="C04.R2")
# the zero test of the integer inverse on the raw argument: a non-zero multiple of the modulus is inverted to 1
case("c08-inv-zero-test-on-raw-argument", ["C08", "C07"], UT, "    a %= n\n\n    if a == 0:", "    if a == 0:", rule="C08.R4")
case("c08-twin-inv-zero-test-on-residue", ["C08", "C07", "C14"], UT, "    a %= n\n\n    if a == 0:", "    if a % n == 0:", expect="silent")
# Euclid loop moved into a helper that the optimized operators call directly
_HELPER_RAW = ("def modinv(a: int, n: int) -> int:\n    if a == 0:\n        return 0\n    lm, hm = 1, 0\n    low, high = a % n, n\n"
               "    while low > 1:\n        r = high // low\n        nm, new = hm - lm * r, high - low * r\n"
               "        lm, low, hm, high = nm, new, lm, low\n    return lm % n\n\n\n")
_HELPER_OK = _HELPER_RAW.replace("    if a == 0:\n", "    a %= n\n    if a == 0:\n")
_OLD_INV = "def prime_field_inv(a: int, n: int) -> int:\n"
for _nm, _helper, _exp in (("c08-helper-inverse-raw-zero-test", _HELPER_RAW, "fire"), ("c08-twin-helper-inverse-total", _HELPER_OK, "silent")):
    case(_nm, ["C08", "C14"], UT, _OLD_INV, _helper + _OLD_INV, expect=_exp, rule="C08.R1" if _exp == "fire" else None,
         more=[(OFE, "from py_ecc.utils import (\n", "from py_ecc.utils import (\n    modinv,\n", 1),
               (OFE, "self.n * prime_field_inv(on, self.field_modulus) % self.field_modulus",
                "self.n * modinv(on, self.field_modulus) % self.field_modulus", 1)])

# ---- C08.R8: polynomial Euclid schema (all degrees)
case("c08-fqp-inv-nm-sign", ["C08"], FE, "                    nm[i + j] -= lm[i] * int(r[j])", "                    nm[i + j] += lm[i] * int(r[j])", rule="C08.R8")
case("c08-fqp-inv-truncation-drops-a-term", ["C08"], FE, "                for j in range(self.degree + 1 - i):", "                for j in range(self.degree - i):", rule="C08.R8")
case("c08-fqp-inv-exit-multiplies", ["C08"], FE, "        return type(self)(lm[: self.degree]) / int(low[0])", "        return type(self)(lm[: self.degree]) * int(low[0])", rule="C08.R8")
case("c08-optfqp-inv-low-not-reduced", ["C08"], OFE, "            new = [int(x) % self.field_modulus for x in new]", "            new = [int(x) for x in new]", rule="C08.R8")
case("c08-rounded-div-wrong-leading-coefficient", ["C08"], UT, "        o[i] += int(temp[degb + i] / b[degb])", "        o[i] += int(temp[degb + i] / b[0])", rule="C08.R8")
case("c08-twin-fqp-inv-operands-swapped", ["C08", "C14"], OFE, "                    nm[i + j] -= lm[i] * int(r[j])", "                    nm[i + j] = nm[i + j] - int(r[j]) * lm[i]", expect="silent")
case("c08-twin-rounded-div-true-quotient", ["C08", "C07", "C14"], UT, "            temp[c + i] -= o[c]", "            temp[c + i] -= o[i] * b[c]", expect="silent")

# ---- round 6 machinery
SECP_F = "py_ecc/secp256k1/secp256k1.py"
OBC = "py_ecc/optimized_bls12_381/optimized_curve.py"
case("c19-twin-parity-by-mask", ["C19", "C06"], SECP_F, "    y = beta if v % 2 ^ beta % 2 else (P - beta)", "    y = beta if (v % 2) ^ (beta & 1) else (P - beta)", expect="silent")
case("c19-twin-residue-gate-on-beta", ["C19", "C06"], SECP_F, "    if (xcubedaxb - y * y) % P != 0 or not (r % N) or not (s % N):",
     "    if beta * beta % P != xcubedaxb or not (r % N) or not (s % N):", expect="silent")
# a branch taken only for one particular object: walked (the generic point may be that object), not pruned
case("c07-specialisation-on-generator-object", ["C07", "C17"], OBC, "    elif n == 1:\n        return pt\n", "    elif n == 1:\n        return pt\n    elif pt is G1 and n > 5:\n        return pt\n", rule="C07.R3")
