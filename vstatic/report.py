"""Obligation bookkeeping, known findings, evidence and replay files."""
from __future__ import annotations

import hashlib
import json
import os
import time
from pathlib import Path

from .term import AnalysisError, show

VERIF = Path(__file__).resolve().parent.parent
_OUT = Path(os.environ["VERIF_OUT"]) if os.environ.get("VERIF_OUT") else VERIF
EVIDENCE_DIR = _OUT / "evidence"
REPLAY_DIR = _OUT / "replays"
KNOWN = VERIF / "known_findings.json"


def _short(v, n=300):
    s = v if isinstance(v, str) else show(v)
    return s if len(s) <= n else s[: n - 1] + "…"


class Check:
    def __init__(self, pid, tier="quick", level="other", replay_filter=None):
        self.pid = pid
        self.tier = tier
        self.level = level
        self.t0 = time.time()
        self.obligations = []          # dicts
        self.instances = {}            # rule -> count
        self.minima = {}               # rule -> minimum
        self.not_decided = []
        self.assumptions = []
        self.trusted = []
        self.analysed = {}
        self.explanation = ""
        self.rule_text = {}
        self.replay_filter = replay_filter
        self.depends_on = []
        try:
            self.known = json.loads(KNOWN.read_text()) if KNOWN.exists() else {"findings": [], "fixed": []}
        except Exception as e:
            raise AnalysisError(f"known_findings.json unreadable: {e}")

    # ------------------------------------------------------------------
    def rule(self, rid, text, minimum=1):
        self.rule_text[rid] = text
        self.minima[rid] = minimum
        self.instances.setdefault(rid, 0)

    def ob(self, rule, construct, key, ok, detail="", where="", nontrivial=True):
        """record one obligation (rule instance).  ok False => violation."""
        self.instances[rule] = self.instances.get(rule, 0) + 1
        self.obligations.append({"rule": rule, "construct": construct, "key": _short(key, 200),
                                 "ok": bool(ok), "detail": _short(detail, 600), "where": where,
                                 "nontrivial": bool(nontrivial)})
        return ok

    def count(self, rule, n=1):
        self.instances[rule] = self.instances.get(rule, 0) + n

    def note_analysed(self, **kw):
        for k, v in kw.items():
            if isinstance(v, int) and isinstance(self.analysed.get(k), int):
                self.analysed[k] += v
            elif isinstance(v, list) and isinstance(self.analysed.get(k), list):
                self.analysed[k].extend(x for x in v if x not in self.analysed[k])
            else:
                self.analysed[k] = v

    # ------------------------------------------------------------------
    def finish(self):
        bad = [o for o in self.obligations if not o["ok"]]
        known = {(f["property"], f["rule"], f["construct"], f["key"]): f for f in self.known.get("findings", [])}
        violations, known_hits = [], []
        seen = set()
        for o in bad:
            k = (self.pid, o["rule"], o["construct"], o["key"])
            if k in seen:
                continue
            seen.add(k)
            if k in known:
                known_hits.append((o, known[k]))
            else:
                violations.append(o)
        if not violations:
            # vacuity guard (only when nothing was reported: a reported violation is never masked)
            for rid, mn in self.minima.items():
                if self.instances.get(rid, 0) < mn:
                    raise AnalysisError(f"rule {rid} matched {self.instances.get(rid, 0)} instance(s), "
                                        f"fewer than the {mn} confirmed by hand (vacuous pass refused)")
        if self.replay_filter is not None:
            rf = self.replay_filter
            violations = [o for o in violations
                          if (o["rule"], o["construct"], o["key"]) == (rf["rule"], rf["construct"], rf["key"])]
        for o, f in known_hits:
            print(f"KNOWN-FINDING: property={self.pid} {o['rule']} {o['construct']} [{o['key']}] {f.get('what', '')}")
        REPLAY_DIR.mkdir(exist_ok=True)
        for o in violations:
            h = hashlib.sha1(json.dumps([self.pid, o["rule"], o["construct"], o["key"]]).encode()).hexdigest()[:12]
            rp = REPLAY_DIR / f"{self.pid}-{h}.json"
            rp.write_text(json.dumps({"property": self.pid, **o}, indent=1))
            print(f"VIOLATION property={self.pid} replay={rp}")
            print(f"  rule {o['rule']}: {self.rule_text.get(o['rule'], '')}")
            print(f"  at {o['where']}  construct {o['construct']}  [{o['key']}]")
            print(f"  {o['detail']}")
        if self.replay_filter is None:          # a replay re-evaluates one instance; it is not a coverage run
            self.write_evidence(len(violations), len(known_hits))
        ok_n = sum(1 for o in self.obligations if o["ok"])
        print(f"{self.pid} [{self.tier}] obligations={len(self.obligations)} discharged={ok_n} "
              f"violations={len(violations)} known={len(known_hits)} "
              f"rules={{{', '.join(f'{r}:{n}' for r, n in sorted(self.instances.items()))}}} "
              f"wall={time.time() - self.t0:.2f}s")
        return 1 if violations else 0

    def write_evidence(self, nviol, nknown):
        EVIDENCE_DIR.mkdir(exist_ok=True)
        obs = self.obligations
        distinct = {(o["rule"], o["construct"], o["key"]) for o in obs if o["nontrivial"]}
        samples = []
        per_rule = {}
        for o in obs:
            if per_rule.get(o["rule"], 0) < 2:
                per_rule[o["rule"]] = per_rule.get(o["rule"], 0) + 1
                samples.append({k: o[k] for k in ("rule", "construct", "key", "ok", "where", "detail")})
        cov = {
            "evaluations": len(obs),
            "distinct_nontrivial": len(distinct),
            "rule": "one obligation per (rule, construct, key) instance found in /repo's current source; "
                    "non-trivial = the instance has a reachable sink / a non-syntactic identity / a non-empty term "
                    "(as flagged by the rule); distinct by (rule, construct, key)",
            "samples": samples[:40],
            "obligations": len(obs),
            "discharged": sum(1 for o in obs if o["ok"]),
            "checker_cmd": f"./check {self.pid} --tier {self.tier}",
            "trusted_base": self.trusted or ["python ast module", "the checker's model of the Python fragment (vstatic/interp.py)",
                                             "oracle transcriptions under vstatic/spec"],
            "explanation": self.explanation,
            "rules": {r: {"text": self.rule_text.get(r, ""), "instances": n, "minimum": self.minima.get(r, 0)}
                      for r, n in sorted(self.instances.items())},
            "analysed": self.analysed,
            "not_decided": self.not_decided,
            "depends_on": self.depends_on,
            "known_findings_hit": nknown,
            "exhaustive": False,
        }
        ev = {"property_id": self.pid, "tier": self.tier, "seed": int(os.environ.get("VERIF_SEED", "0") or 0),
              "level": self.level, "coverage": cov, "assumptions": self.assumptions,
              "wall_s": round(time.time() - self.t0, 3), "violations": nviol}
        (EVIDENCE_DIR / f"{self.pid}.json").write_text(json.dumps(ev, indent=1, default=str))


class SubCheck:
    """collects the obligations of another property's rule module so that a dependent property can re-state the ones it
    relies on under its own rule id (e.g. C06's round trip relies on C19's recover obligations)"""

    def __init__(self):
        self.obs = []
        self.known = {}
        self.explanation = ""
        self.not_decided, self.assumptions, self.depends_on, self.trusted = [], [], [], []

    def rule(self, rid, text, minimum=1):
        pass

    def ob(self, rule, construct, key, ok, detail="", where="", nontrivial=True):
        self.obs.append((rule, construct, key, bool(ok), detail, where))
        return ok

    def count(self, rule, n=1):
        pass

    def note_analysed(self, **kw):
        pass


def restate(chk, rule, dep, repo, keep, tier="quick"):
    """run another property's rule module and re-state, under `rule`, the obligations keep(rule_id, construct) selects.
    An analysis error in the dependency is raised again unless one of its obligations failed outright."""
    from .term import AnalysisError
    sub = SubCheck()
    err = None
    try:
        dep.run(sub, repo, tier)
    except AnalysisError as e:
        err = e
    n = 0
    for r, construct, key, ok, detail, where in sub.obs:
        if keep(r, construct):
            chk.ob(rule, construct, f"[{r}] {key}", ok, detail, where)
            n += 1
    if err is not None and all(o[3] for o in sub.obs):
        raise err
    return n
