"""E5: exact accepted set of a validation predicate over one integer quantity.

The predicate's paths are enumerated by the evaluator; each accepting path is a
conjunction of comparison facts between the tracked quantity X and folded
integers (plus one type test).  The accepted set is the union of the paths'
intervals."""
from __future__ import annotations

import math

from .term import AnalysisError, Term, atom_of, show

INF = math.inf


def interval_of_facts(facts, X, allowed_other=()):
    """facts: iterable of (atom, truth).  Returns (lo, hi, others) where others
    are the (atom, truth) pairs not about X."""
    lo, hi = -INF, INF
    holes = []
    others = []
    for atom, truth in facts:
        if not isinstance(atom, Term):
            continue
        if atom.op in ("lt", "eq") and len(atom.args) == 2:
            a, b = atom.args
            if a is X and isinstance(b, int) and not isinstance(b, bool):
                c, side = b, "L"      # X op c
            elif b is X and isinstance(a, int) and not isinstance(a, bool):
                c, side = a, "R"      # c op X
            else:
                others.append((atom, truth))
                continue
            if atom.op == "eq":
                if truth:
                    lo, hi = max(lo, c), min(hi, c)
                else:
                    holes.append(c)
            else:
                if side == "L":      # X < c
                    if truth:
                        hi = min(hi, c - 1)
                    else:
                        lo = max(lo, c)
                else:                # c < X
                    if truth:
                        lo = max(lo, c + 1)
                    else:
                        hi = min(hi, c)
        else:
            others.append((atom, truth))
    while lo in holes:
        lo += 1
    while hi in holes:
        hi -= 1
    return lo, hi, holes, others


def normalise(intervals):
    ivs = sorted((lo, hi) for lo, hi in intervals if lo <= hi)
    out = []
    for lo, hi in ivs:
        if out and lo <= out[-1][1] + 1:
            out[-1] = (out[-1][0], max(out[-1][1], hi))
        else:
            out.append((lo, hi))
    return out


def cut_holes(lo, hi, holes):
    ivs = [(lo, hi)]
    for h in sorted(set(holes)):
        nxt = []
        for a, b in ivs:
            if a <= h <= b:
                nxt.append((a, h - 1))
                nxt.append((h + 1, b))
            else:
                nxt.append((a, b))
        ivs = nxt
    return ivs


def show_set(ivs, names=None):
    names = names or {}

    def s(x):
        if x in names:
            return names[x]
        for k, v in names.items():
            if isinstance(k, int) and isinstance(x, int):
                if x == k - 1:
                    return f"{v}-1"
                if x == k + 1:
                    return f"{v}+1"
        return "-inf" if x == -INF else "+inf" if x == INF else str(x) if abs(x) < 10**9 else f"<{int(x).bit_length()}-bit int>"
    return " ∪ ".join(f"[{s(a)}, {s(b)}]" for a, b in ivs) or "∅"
