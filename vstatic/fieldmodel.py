"""Native model of *concrete* instances of the repository's field classes.

Used by the constant folder (E2) and by every rule that is layered on top of
C08/C14 ("field operators are quotient-ring operations on canonical
representatives"): module-level constants such as b2, G2, ETAS, exptable are
folded with the checker's own arithmetic instead of interpreting the class
bodies.  C08/C14 analyse the class bodies themselves and do not use this model.
"""
from __future__ import annotations

from .term import AnalysisError, AbstractValue, Term, is_sym
from .nt import ExtField, inv_mod

FIELD_BASES = {
    "py_ecc.fields.field_elements.FQ": ("FQ", False),
    "py_ecc.fields.field_elements.FQP": ("FQP", False),
    "py_ecc.fields.optimized_field_elements.FQ": ("FQ", True),
    "py_ecc.fields.optimized_field_elements.FQP": ("FQP", True),
}


def field_kind(cls, repo):
    """('FQ'|'FQP', optimized?) if cls derives from a repository field class"""
    from .loader import ClassInfo
    if not isinstance(cls, ClassInfo):
        return None
    for c in cls.mro(repo):
        k = FIELD_BASES.get(c.qualname)
        if k:
            return k
    return None


class FieldVal:
    """a concrete field element; `cls` is the repository class it models"""
    __slots__ = ("cls", "kind", "opt", "p", "mc", "v", "_F")
    sort = "field"

    def __init__(self, cls, kind, opt, p, mc, v):
        self.cls, self.kind, self.opt, self.p, self.mc, self.v = cls, kind, opt, p, mc, v
        self._F = None

    # ---- helpers ----
    def __deepcopy__(self, memo):
        return self

    @property
    def F(self):
        if self._F is None:
            self._F = ExtField(self.p, self.mc)
        return self._F

    def _mk(self, v):
        return FieldVal(self.cls, self.kind, self.opt, self.p, self.mc, v)

    def __repr__(self):
        from .term import show
        nm = self.cls.name if self.cls is not None else "FQ"
        return f"{nm}({show(self.v)})"

    def __hash__(self):
        return hash((id(self.cls), self.v))

    def same_field(self, o):
        return isinstance(o, FieldVal) and o.kind == self.kind and o.p == self.p and o.mc == self.mc

    # ---- attribute protocol used by the evaluator ----
    def v_getattr(self, name, interp):
        if name == "n" and self.kind == "FQ":
            return self.v
        if name == "coeffs" and self.kind == "FQP":
            if self.opt:
                return self.v
            return tuple(FieldVal(None, "FQ", False, self.p, (), c) for c in self.v)
        if name == "field_modulus":
            return self.p
        if name == "degree" and self.kind == "FQP":
            return len(self.mc)
        if name == "modulus_coeffs" and self.kind == "FQP":
            return self.mc_raw()
        if name == "__class__":
            return self.cls
        if name == "sgn0":
            return self.sgn0()
        if name in ("one", "zero", "inv"):
            return NativeMethod(self, name)
        raise AnalysisError(f"attribute {name!r} of native field value {self!r}")

    def mc_raw(self):
        return tuple(c if c <= self.p // 2 else c - self.p for c in self.mc)

    def one(self):
        return self._mk(1 if self.kind == "FQ" else (1,) + (0,) * (len(self.mc) - 1))

    def zero(self):
        return self._mk(0 if self.kind == "FQ" else (0,) * len(self.mc))

    def inv(self):
        if self.kind == "FQ":
            return self._mk(inv_mod(self.v, self.p))
        return self._mk(self.F.inv(self.v))

    def sgn0(self):
        if self.kind == "FQ":
            return self.v % 2
        sign, zero = 0, 1
        for c in self.v:
            sign = sign or (zero and c % 2)
            zero = zero and c == 0
        return int(bool(sign))

    # ---- arithmetic ----
    def _coerce(self, o, what):
        """operand -> ('int', k) | ('same', FieldVal) ; mirrors the isinstance chains"""
        if isinstance(o, bool):
            o = int(o)
        if isinstance(o, int):
            return "int", o
        if isinstance(o, FieldVal):
            if self.kind == "FQ" and o.kind == "FQ":
                return "same", o
            if self.kind == "FQP" and o.kind == "FQP":
                if o.p != self.p or o.mc != self.mc:
                    raise AnalysisError(f"{what}: operands from different fields")
                return "same", o
            if self.kind == "FQP" and o.kind == "FQ" and not self.opt:
                return "int", o.v
        raise AnalysisError(f"{what}: unsupported operand {o!r} for {self!r}")

    def __add__(self, o):
        k, x = self._coerce(o, "+")
        if self.kind == "FQ":
            return self._mk((self.v + (x if k == "int" else x.v)) % self.p)
        if k != "same":
            raise AnalysisError("FQP + int")
        return self._mk(self.F.add(self.v, x.v))
    __radd__ = __add__

    def __sub__(self, o):
        k, x = self._coerce(o, "-")
        if self.kind == "FQ":
            return self._mk((self.v - (x if k == "int" else x.v)) % self.p)
        if k != "same":
            raise AnalysisError("FQP - int")
        return self._mk(self.F.sub(self.v, x.v))

    def __rsub__(self, o):
        k, x = self._coerce(o, "-")
        if self.kind == "FQ":
            return self._mk(((x if k == "int" else x.v) - self.v) % self.p)
        raise AnalysisError("int - FQP")

    def __mul__(self, o):
        k, x = self._coerce(o, "*")
        if self.kind == "FQ":
            return self._mk(self.v * (x if k == "int" else x.v) % self.p)
        if k == "int":
            return self._mk(self.F.smul(self.v, x))
        return self._mk(self.F.mul(self.v, x.v))
    __rmul__ = __mul__

    def __truediv__(self, o):
        k, x = self._coerce(o, "/")
        if self.kind == "FQ":
            return self._mk(self.v * inv_mod(x if k == "int" else x.v, self.p) % self.p)
        if k == "int":
            return self._mk(self.F.smul(self.v, inv_mod(x, self.p)))
        return self._mk(self.F.mul(self.v, self.F.inv(x.v)))

    def __rtruediv__(self, o):
        k, x = self._coerce(o, "/")
        if self.kind == "FQ":
            return self._mk(inv_mod(self.v, self.p) * (x if k == "int" else x.v) % self.p)
        raise AnalysisError("int / FQP")

    def __pow__(self, n):
        if not isinstance(n, int) or n < 0:
            raise AnalysisError(f"power with exponent {n!r}")
        if self.kind == "FQ":
            return self._mk(pow(self.v, n, self.p))
        return self._mk(self.F.pow(self.v, n))

    def __neg__(self):
        if self.kind == "FQ":
            return self._mk(-self.v % self.p)
        return self._mk(self.F.neg(self.v))

    def __eq__(self, o):
        if isinstance(o, FieldVal):
            if self.kind != o.kind:
                raise AnalysisError("== between FQ and FQP")
            return self.v == o.v
        if isinstance(o, int) and self.kind == "FQ":
            return self.v == o
        if is_sym(o):
            return NotImplemented
        raise AnalysisError(f"== between {self!r} and {o!r}")

    def __ne__(self, o):
        r = self.__eq__(o)
        return r if r is NotImplemented else not r

    def __lt__(self, o):
        if self.kind != "FQ":
            raise AnalysisError("< on FQP")
        return self.v < (o.v if isinstance(o, FieldVal) else o)

    def __gt__(self, o):
        if self.kind != "FQ":
            raise AnalysisError("> on FQP")
        return self.v > (o.v if isinstance(o, FieldVal) else o)

    def __le__(self, o):
        return not self.__gt__(o)

    def __ge__(self, o):
        return not self.__lt__(o)

    def __int__(self):
        if self.kind != "FQ":
            raise AnalysisError("int() of FQP")
        return self.v

    def __bool__(self):
        raise AnalysisError("truth value of a field element")


class NativeMethod:
    __slots__ = ("obj", "name")

    def __init__(self, obj, name):
        self.obj, self.name = obj, name

    def __call__(self, *a):
        return getattr(self.obj, self.name)(*a)


def make_field_value(interp, cls, args, kwargs):
    """class-call hook: instantiate a repository field class natively when all
    arguments are concrete.  Returns NotImplemented otherwise."""
    repo = interp.repo
    k = field_kind(cls, repo)
    if k is None:
        return NotImplemented
    kind, opt = k
    if kwargs:
        return NotImplemented
    p = interp.class_attr(cls, "field_modulus", default=None)
    if not isinstance(p, int):
        return NotImplemented
    if kind == "FQ":
        if len(args) != 1:
            return NotImplemented
        v = args[0]
        if isinstance(v, FieldVal) and v.kind == "FQ":
            return FieldVal(cls, "FQ", opt, p, (), v.v)
        if isinstance(v, bool):
            v = int(v)
        if isinstance(v, int):
            return FieldVal(cls, "FQ", opt, p, (), v % p)
        return NotImplemented
    # FQP family
    if len(args) == 1:
        mcname = None
        for cand in ("FQ2_MODULUS_COEFFS", "FQ12_MODULUS_COEFFS"):
            # the subclass that defines __init__ decides which attribute is read
            pass
        init = interp.find_method(cls, "__init__")
        owner = init.cls.name if init is not None else ""
        mcname = {"FQ2": "FQ2_MODULUS_COEFFS", "FQ12": "FQ12_MODULUS_COEFFS"}.get(owner)
        if mcname is None:
            return NotImplemented
        mc = interp.class_attr(cls, mcname, default=None)
    elif len(args) == 2:
        mc = args[1]
    else:
        return NotImplemented
    if not isinstance(mc, (tuple, list)) or not all(isinstance(c, int) for c in mc):
        return NotImplemented
    coeffs = args[0]
    if not isinstance(coeffs, (tuple, list)):
        return NotImplemented
    vals = []
    for c in coeffs:
        if isinstance(c, FieldVal) and c.kind == "FQ":
            vals.append(c.v % p)
        elif isinstance(c, int):
            vals.append(c % p)
        else:
            return NotImplemented
    if len(vals) != len(mc):
        from .interp import Raised, ExcValue
        raise Raised(ExcValue(Exception, ("coeffs and modulus_coeffs aren't of the same length",)))
    return FieldVal(cls, "FQP", opt, p, tuple(c % p for c in mc), tuple(vals))
