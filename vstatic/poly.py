"""E6: sparse multivariate polynomials over Z (optionally Z/p) and rational
functions.  Normal forms only — no Groebner bases, no solver."""
from __future__ import annotations

from .term import AnalysisError, AbstractValue


class Poly(AbstractValue):
    """immutable sparse polynomial: dict monomial -> coeff, monomial = sorted
    tuple of (var, exp).  `mod` (int or None) reduces coefficients."""
    __slots__ = ("t", "mod", "_h")
    sort = "poly"

    def __init__(self, terms=None, mod=None):
        t = {}
        if terms:
            for m, c in terms.items():
                if mod:
                    c %= mod
                if c:
                    t[m] = c
        self.t = t
        self.mod = mod
        self._h = None

    # -- constructors
    @staticmethod
    def const(c, mod=None):
        return Poly({(): c}, mod)

    @staticmethod
    def var(name, mod=None):
        return Poly({((name, 1),): 1}, mod)

    def _coerce(self, o):
        if isinstance(o, Poly):
            if o.mod != self.mod:
                if o.mod is None:
                    return Poly(o.t, self.mod)
                if self.mod is None:
                    return o
                raise AnalysisError("polynomials over different moduli")
            return o
        if isinstance(o, bool):
            o = int(o)
        if isinstance(o, int):
            return Poly({(): o}, self.mod)
        return None

    # -- ring ops
    def __add__(self, o):
        o = self._coerce(o)
        if o is None:
            return NotImplemented
        mod = self.mod or o.mod
        t = dict(self.t)
        for m, c in o.t.items():
            t[m] = t.get(m, 0) + c
        return Poly(t, mod)
    __radd__ = __add__

    def __neg__(self):
        return Poly({m: -c for m, c in self.t.items()}, self.mod)

    def __sub__(self, o):
        o = self._coerce(o)
        if o is None:
            return NotImplemented
        return self + (-o)

    def __rsub__(self, o):
        o = self._coerce(o)
        if o is None:
            return NotImplemented
        return o + (-self)

    def __mul__(self, o):
        o = self._coerce(o)
        if o is None:
            return NotImplemented
        mod = self.mod or o.mod
        if len(self.t) < len(o.t):
            a, b = self.t, o.t
        else:
            a, b = o.t, self.t
        t = {}
        for m1, c1 in a.items():
            for m2, c2 in b.items():
                m = _mmul(m1, m2)
                t[m] = t.get(m, 0) + c1 * c2
        return Poly(t, mod)
    __rmul__ = __mul__

    def __pow__(self, n):
        if not isinstance(n, int) or n < 0:
            raise AnalysisError(f"polynomial power {n!r}")
        r = Poly({(): 1}, self.mod)
        b = self
        while n:
            if n & 1:
                r = r * b
            n >>= 1
            if n:
                b = b * b
        return r

    # -- queries
    def is_zero(self):
        return not self.t

    def is_const(self):
        return all(m == () for m in self.t)

    def const_value(self):
        return self.t.get((), 0)

    def vars(self):
        return {v for m in self.t for v, _ in m}

    def degree_in(self, v):
        return max((e for m in self.t for x, e in m if x == v), default=0)

    def __eq__(self, o):
        o2 = self._coerce(o) if not isinstance(o, Poly) else o
        if o2 is None:
            return NotImplemented
        return self.t == o2.t

    def __ne__(self, o):
        r = self.__eq__(o)
        return r if r is NotImplemented else not r

    def __hash__(self):
        if self._h is None:
            self._h = hash(frozenset(self.t.items()))
        return self._h

    def __bool__(self):
        raise AnalysisError("python truth value of a polynomial")

    def __deepcopy__(self, memo):
        return self

    def subs(self, mapping):
        """substitute variables by polynomials/ints"""
        if not any(v in mapping for v in self.vars()):
            return self
        res = Poly({}, self.mod)
        cache = {}
        for m, c in self.t.items():
            term = Poly({(): c}, self.mod)
            rest = []
            for v, e in m:
                if v in mapping:
                    key = (v, e)
                    if key not in cache:
                        mv = mapping[v]
                        if not isinstance(mv, Poly):
                            mv = Poly({(): mv}, self.mod)
                        cache[key] = mv ** e
                    term = term * cache[key]
                else:
                    rest.append((v, e))
            if rest:
                term = term * Poly({tuple(rest): 1}, self.mod)
            res = res + term
        return res

    def coeffs_in(self, v):
        """dict exp -> Poly (coefficients as polynomials in the other vars)"""
        out = {}
        for m, c in self.t.items():
            e = 0
            rest = []
            for x, k in m:
                if x == v:
                    e = k
                else:
                    rest.append((x, k))
            d = out.setdefault(e, {})
            rm = tuple(rest)
            d[rm] = d.get(rm, 0) + c
        return {e: Poly(d, self.mod) for e, d in out.items()}

    def content_factor_out(self, v):
        """if every monomial contains v, return (k, self / v^k) with k maximal"""
        if not self.t:
            return 0, self
        k = min(dict(m).get(v, 0) for m in self.t)
        if k == 0:
            return 0, self
        t = {}
        for m, c in self.t.items():
            nm = tuple((x, e - k if x == v else e) for x, e in m)
            nm = tuple((x, e) for x, e in nm if e)
            t[nm] = c
        return k, Poly(t, self.mod)

    def __repr__(self):
        if not self.t:
            return "0"
        parts = []
        for m, c in sorted(self.t.items(), key=lambda kv: (len(kv[0]), str(kv[0]))):
            ms = "*".join(f"{v}^{e}" if e > 1 else str(v) for v, e in m)
            if not ms:
                parts.append(str(c) if abs(c) < 10**9 else f"<{c.bit_length()}b>")
            elif c == 1:
                parts.append(ms)
            elif c == -1:
                parts.append("-" + ms)
            else:
                parts.append((str(c) if abs(c) < 10**9 else f"<{c.bit_length()}b>") + "*" + ms)
            if len(parts) > 12:
                parts.append(f"…({len(self.t)} terms)")
                break
        return " + ".join(parts).replace("+ -", "- ")


def _mmul(m1, m2):
    if not m1:
        return m2
    if not m2:
        return m1
    d = dict(m1)
    for v, e in m2:
        d[v] = d.get(v, 0) + e
    return tuple(sorted(d.items(), key=lambda x: str(x[0])))


def P(x, mod=None):
    if isinstance(x, Poly):
        return x
    if isinstance(x, int):
        return Poly.const(x, mod)
    if isinstance(x, str):
        return Poly.var(x, mod)
    raise AnalysisError(f"cannot make a polynomial of {x!r}")


def reduce_by(poly: Poly, rules):
    """rewrite with rules [(var, k, replacement Poly)] meaning var^k -> repl,
    applied until no monomial has var-degree >= k (a normal form when the rules
    are a Groebner basis such as y_i^2 -> x_i^3 + b)."""
    changed = True
    while changed:
        changed = False
        for v, k, repl in rules:
            if poly.degree_in(v) < k:
                continue
            res = Poly({}, poly.mod)
            for m, c in poly.t.items():
                d = dict(m)
                e = d.get(v, 0)
                if e >= k:
                    q, r = divmod(e, k)
                    if r:
                        d[v] = r
                    else:
                        del d[v]
                    base = Poly({tuple(sorted(d.items(), key=lambda x: str(x[0]))): c}, poly.mod)
                    res = res + base * (repl ** q)
                    changed = True
                else:
                    res = res + Poly({m: c}, poly.mod)
            poly = res
    return poly


class Rat(AbstractValue):
    """rational function num/den (not normalised; equality by cross-multiplication)"""
    __slots__ = ("n", "d")
    sort = "rat"

    def __init__(self, n, d=None):
        self.n = P(n)
        self.d = P(d) if d is not None else Poly.const(1, self.n.mod)

    @staticmethod
    def of(x):
        return x if isinstance(x, Rat) else Rat(P(x))

    def __add__(self, o):
        o = Rat.of(o)
        if self.d == o.d:
            return Rat(self.n + o.n, self.d)
        return Rat(self.n * o.d + o.n * self.d, self.d * o.d)
    __radd__ = __add__

    def __sub__(self, o):
        o = Rat.of(o)
        if self.d == o.d:
            return Rat(self.n - o.n, self.d)
        return Rat(self.n * o.d - o.n * self.d, self.d * o.d)

    def __rsub__(self, o):
        return Rat.of(o) - self

    def __neg__(self):
        return Rat(-self.n, self.d)

    def __mul__(self, o):
        o = Rat.of(o)
        return Rat(self.n * o.n, self.d * o.d)
    __rmul__ = __mul__

    def __truediv__(self, o):
        o = Rat.of(o)
        return Rat(self.n * o.d, self.d * o.n)

    def __rtruediv__(self, o):
        return Rat.of(o) / self

    def __pow__(self, k):
        return Rat(self.n ** k, self.d ** k)

    def equals(self, o, reducer=None):
        o = Rat.of(o)
        z = self.n * o.d - o.n * self.d
        if reducer:
            z = reducer(z)
        return z.is_zero(), z

    def __repr__(self):
        return f"({self.n!r}) / ({self.d!r})"

    def __deepcopy__(self, memo):
        return self


# ---------------------------------------------------------------------------
# exact division by a single polynomial (lex order) and non-zero reasoning
# ---------------------------------------------------------------------------

def _lex_key(m, order):
    d = dict(m)
    return tuple(d.get(v, 0) for v in order)


def divide_exact(p: Poly, f: Poly):
    """quotient q with p == q*f, or None.  Integer coefficients only (a
    non-integral coefficient means 'does not divide over Z')."""
    if f.is_zero():
        return None
    order = sorted(p.vars() | f.vars(), key=str)
    lf = max(f.t, key=lambda m: _lex_key(m, order))
    cf = f.t[lf]
    dlf = dict(lf)
    q = {}
    r = dict(p.t)
    guard = 0
    while r:
        guard += 1
        if guard > 20000:
            return None
        lr = max(r, key=lambda m: _lex_key(m, order))
        cr = r[lr]
        dlr = dict(lr)
        if any(dlr.get(v, 0) < e for v, e in dlf.items()) or cr % cf:
            return None
        for v, e in dlf.items():
            ne = dlr[v] - e
            if ne:
                dlr[v] = ne
            else:
                del dlr[v]
        mono = tuple(sorted(dlr.items(), key=lambda x: str(x[0])))
        c = cr // cf
        q[mono] = q.get(mono, 0) + c
        for mf, cff in f.t.items():
            mm = _mmul(mono, mf)
            nv = r.get(mm, 0) - c * cff
            if nv:
                r[mm] = nv
            else:
                r.pop(mm, None)
    return Poly(q, p.mod)


def _only_2_3(c):
    c = abs(c)
    if c == 0:
        return False
    for q in (2, 3):
        while c % q == 0:
            c //= q
    return c == 1


def known_nonzero(p: Poly, nonzero_factors, allow_const=_only_2_3):
    """is p a product of (powers of) the given non-zero polynomials and a
    constant that is a unit in every characteristic > 3?"""
    if p.is_zero():
        return False
    factors = [f for f in nonzero_factors if not f.is_const()]
    changed = True
    while changed and not p.is_const():
        changed = False
        for f in factors:
            q = divide_exact(p, f)
            if q is not None:
                p = q
                changed = True
                break
            q = divide_exact(p, -f)
            if q is not None:
                p = -q
                changed = True
                break
    return p.is_const() and allow_const(p.const_value())
