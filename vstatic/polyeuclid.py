"""C08.R8: FQP.inv() — the polynomial extended Euclid of the extension-field classes — decided by a loop schema for any degree
(the path-by-path walk of fieldcheck.check_inv_paths is feasible for degree 2 only: the degree tests on twelve symbolic
coefficients split into thousands of paths).

The loop
        while deg(low):
            r = <rounded division>(high, low); pad r
            nm, new = hm − lm·r, high − low·r        (double loop over i + j <= degree)
            lm, low, hm, high = nm, new, lm, low
        return type(self)(lm[:degree]) / low[0]
is walked ONCE per pair (deg high, deg low) on a generic state: symbolic coefficients below the stated degrees, a non-zero
leading coefficient, literal zeros above.  Obligations, each a formal identity in the coefficients:

  init    lm = 1, hm = 0, low = a, high = m  (so lm·a ≡ low and hm·a ≡ high modulo m)
  deg     the loop test is deg(low), and deg returns the index of the highest non-zero coefficient (0 for the zero list)
  quot    the quotient r has degree <= deg high − deg low and cancels the leading coefficient of high (r = 0 when deg high < deg low)
  step    the new state is (hm − lm·r, high − low·r, lm, low) coefficient by coefficient, nothing lost by the truncation i + j <= degree
  canon   the entries of `low` that the next deg() test reads are canonical (a stored p would count as non-zero)
  exit    with low = c the function returns lm·inv0(c) on the first `degree` coefficients, lm[degree] being 0

What follows from them (the argument, not re-derived per run): the congruences lm·a ≡ low, hm·a ≡ high (mod m) are preserved
by *any* r; deg lm + deg high <= degree and deg hm + deg low <= degree are preserved, so the truncation never drops a term;
deg high + deg low decreases on every round that is not a mere swap, and a swap is followed by a decreasing round; on exit
low = c is a constant with lm·a ≡ c, c ≠ 0 unless a ≡ 0 because m is irreducible (checked): the result is a⁻¹, or 0 for 0."""
from __future__ import annotations

import ast
import copy

from .term import AnalysisError, show
from .poly import Poly, Rat
from .interp import Interp, Instance
from .ecalg import FieldSym, PolyCond, AlgState, alg_paths
from .fieldcheck import UTILS_INV


class _Stop(Exception):
    pass


def _roles(st):
    """(lm, low, hm, high) variable names from the rotation `lm, low, hm, high = nm, new, lm, low` that ends the loop body"""
    last = st.body[-1]
    if isinstance(last, ast.Assign) and len(last.targets) == 1 and isinstance(last.targets[0], ast.Tuple) and \
            isinstance(last.value, ast.Tuple) and len(last.targets[0].elts) == 4 and len(last.value.elts) == 4 and \
            all(isinstance(e, ast.Name) for e in last.targets[0].elts + last.value.elts):
        t = [e.id for e in last.targets[0].elts]
        v = [e.id for e in last.value.elts]
        if v[2] == t[0] and v[3] == t[1] and len(set(t)) == 4 and v[0] not in t and v[1] not in t:
            return tuple(t)
    return None


def check_inv_schema(S, combos=None):
    """-> list of (key, ok, detail, where).  S: fieldcheck.FieldSubject of an FQP class"""
    from .nt import ExtField, inv_mod
    out = []
    it0 = Interp(S.world, native_fields=False)
    m = it0.find_method(S.cls, "inv")
    if m is None or S.kind != "FQP":
        return out
    p, d = S.p, S.d
    loops = [n for n in m.node.body if isinstance(n, ast.While)]
    if len(loops) != 1:
        raise AnalysisError(f"{m.where}: inv() is not a single Euclid loop ({len(loops)} top-level while statements)")
    st = loops[0]
    roles = _roles(st)
    if roles is None:
        raise AnalysisError(f"{m.where}: Euclid loop of inv() not recognised (no rotation `lm, low, hm, high = nm, new, lm, low` at its end)")
    LM, LOW, HM, HIGH = roles
    test = st.test
    if not (isinstance(test, ast.Call) and len(test.args) == 1 and isinstance(test.args[0], ast.Name) and test.args[0].id == LOW
            and not test.keywords):
        raise AnalysisError(f"{m.where}: loop test `{ast.unparse(test)}` is not deg({LOW})")

    def inv_rat(it, f, args, kw, node):
        a, n = args
        if n != p:
            raise AnalysisError(f"{it.where(node)}: prime_field_inv called with modulus {n!r}, expected the field modulus")
        if isinstance(a, bool):
            a = int(a)
        if isinstance(a, int):
            return inv_mod(a, p)
        if not isinstance(a, FieldSym):
            raise AnalysisError(f"{it.where(node)}: prime_field_inv of {a!r}")
        z = it.alg.is_zero(a.r)
        if z is None:
            z = it.truth(PolyCond(a.r, True), node)
        if z:
            return 0
        return FieldSym(Rat(Poly.const(1)) / a.r, a.cls, True)

    results = {}            # key -> (ok, detail)   (idempotent across replays of the walk)
    state = {"types": None}

    def rec(key, ok, det=""):
        if key not in results or (results[key][0] and not ok):
            results[key] = (ok, det)

    def val(x, it):
        """value of a list entry as a rational function, and whether it is stored canonically (what `== 0` sees)"""
        if isinstance(x, Instance):
            n = x.attrs.get("n")
            v, _ = val(n, it)
            return v, True                      # an FQ object compares by its reduced n
        if isinstance(x, bool):
            x = int(x)
        if isinstance(x, int):
            return Rat(Poly.const(x % p, p)), 0 <= x < p
        if isinstance(x, FieldSym):
            return x.r, bool(x.reduced)
        raise AnalysisError(f"list entry {show(x)[:60]} in the Euclid state")

    def zero(r, it):
        return it.alg.is_zero(r) is True

    def hook(it, st_, fr):
        env0 = dict(fr.env)
        alg0 = it.alg.copy()
        ntrace0 = len(it.oracle.trace)
        lists0 = {k: fr.env.get(k) for k in roles}
        if not all(isinstance(v, list) and len(v) == d + 1 for v in lists0.values()):
            raise AnalysisError(f"{it.where(st_)}: Euclid state is not four lists of length degree + 1")
        # ---- init
        a_inst = fr.env.get("self")
        acoef = [val(c, it)[0] for c in a_inst.attrs["coeffs"]]
        one, zer = Rat(Poly.const(1, p)), Rat(Poly.const(0, p))
        ok_init = zero(val(lists0[LM][0], it)[0] - one, it) and all(zero(val(x, it)[0], it) for x in lists0[LM][1:]) \
            and all(zero(val(x, it)[0], it) for x in lists0[HM]) \
            and all(zero(val(lists0[LOW][k], it)[0] - acoef[k], it) for k in range(d)) and zero(val(lists0[LOW][d], it)[0], it) \
            and all(zero(val(lists0[HIGH][k], it)[0] - Rat(Poly.const(S.mc[k] % p, p)), it) for k in range(d)) \
            and zero(val(lists0[HIGH][d], it)[0] - one, it)
        rec("init: lm = 1, hm = 0, low = a, high = m (monic, the class's modulus coefficients)", ok_init,
            "" if ok_init else f"{LM}={show(lists0[LM])[:60]} {LOW}={show(lists0[LOW])[:60]} {HIGH}={show(lists0[HIGH])[:60]}")
        # element kinds seen in the real initial state: what the generic states are built from
        low_proto = lists0[LOW][0]
        fqcls = low_proto.cls if isinstance(low_proto, Instance) else None

        def elem(name, kind, nonzero=False):
            """kind: 'fq' an FQ object, 'int' a raw integer (unreduced), 'res' an integer stored reduced"""
            v = S.var(name, reduced=(kind == "res"))
            if nonzero:
                it.alg.assume_nonzero(Rat(Poly.var(name, p)), "leading coefficient")
            if kind == "fq":
                return it.instantiate(fqcls, [v], {})
            return v

        def zero_elem(kind):
            if kind == "fq":
                return it.instantiate(fqcls, [0], {})
            return 0

        def generic(name, deg_, kind, lead_nonzero, top_kind=None):
            xs = []
            for k in range(d + 1):
                if k < deg_:
                    xs.append(elem(f"{name}{k}", kind))
                elif k == deg_:
                    xs.append(elem(f"{name}{k}", kind, nonzero=lead_nonzero))
                else:
                    xs.append(zero_elem(top_kind if (k == d and top_kind) else kind))
            return xs
        # type configurations of (low, high, lm/hm): the optimized classes keep reduced ints throughout; the reference classes
        # start from FQ objects (low), plain ints (high = modulus coefficients, lm, hm) and produce FQ objects for low/high
        if fqcls is None:
            configs = [("res", "res", "res", None)]
        else:
            configs = [("fq", "int", "int", "first"), ("fq", "fq", "int", "second"), ("fq", "fq", "int", None)]
        todo = combos if combos is not None else [(dh, dl) for dh in range(1, d + 1) for dl in range(1, d)]
        ncombo = 0
        for lowk, highk, lmk, when in configs:
            for dh, dl in todo:
                if when == "first" and dh != d:
                    continue                     # high is the modulus (plain ints) only before the first round
                if when == "second" and dh >= d:
                    continue                     # afterwards high is the previous low: FQ objects with the literal 0 on top
                ncombo += 1
                tag = f"deg high = {dh}, deg low = {dl}" + (f" ({when} round)" if when else "")
                it.alg = alg0.copy()
                fr.env.clear()
                fr.env.update(env0)
                low0 = generic("l", dl, lowk, True, top_kind=("int" if fqcls is not None else None))
                high0 = generic("h", dh, highk, True, top_kind=("int" if when == "second" else None))
                lm0 = generic("u", d - dh, lmk, False)
                hm0 = generic("v", d - dl, lmk, False)
                fr.env[LOW], fr.env[HIGH], fr.env[LM], fr.env[HM] = list(low0), list(high0), list(lm0), list(hm0)
                nt = len(it.oracle.trace)
                try:
                    it.exec_block(st_.body, fr)
                except AnalysisError as e:
                    raise AnalysisError(f"Euclid loop body, {tag}: {e}")
                if len(it.oracle.trace) != nt:
                    raise AnalysisError(f"{it.where(st_)}: Euclid loop body branches on a coefficient for {tag} "
                                        f"({it.oracle.trace[nt][1] if len(it.oracle.trace) > nt else ''}): outside the schema")
                after = {k: fr.env.get(k) for k in roles}
                if not all(isinstance(v, list) and len(v) == d + 1 for v in after.values()):
                    rec(f"step: state stays four lists of length degree + 1", False, tag)
                    continue
                # the quotient: found as the list the body multiplies with — take it from the formula check below instead of a name
                L0 = [val(x, it)[0] for x in low0]
                H0 = [val(x, it)[0] for x in high0]
                U0 = [val(x, it)[0] for x in lm0]
                V0 = [val(x, it)[0] for x in hm0]
                L1 = [val(x, it) for x in after[LOW]]
                U1 = [val(x, it)[0] for x in after[LM]]
                # rotation
                ok_rot = all(zero(val(after[HM][k], it)[0] - U0[k], it) for k in range(d + 1)) and \
                    all(zero(val(after[HIGH][k], it)[0] - L0[k], it) for k in range(d + 1))
                rec("step: (hm, high) receive the old (lm, low)", ok_rot, "" if ok_rot else tag)
                # quotient recovered from new = high − low·r by back-substitution from the top (low has a unit leading coefficient):
                # r_j for j = dh − dl … 0; for deg high < deg low the quotient must be 0
                q = max(dh - dl, -1)
                R = [zer] * (d + 1)
                if q >= 0:
                    # solve (high − new)[dl + j] = Σ_{i} low[i]·r[dl + j − i] downwards
                    inv_lead = Rat(Poly.const(1, p)) / L0[dl]
                    for j in range(q, -1, -1):
                        acc = H0[dl + j] - L1[dl + j][0]
                        for i in range(0, dl):
                            jj = dl + j - i
                            if 0 <= jj <= q and jj > j:
                                acc = acc - L0[i] * R[jj]
                        R[j] = it.alg.norm(acc * inv_lead)
                # step formulas with this r, full (untruncated) convolution
                ok_new, ok_nm = True, True
                for k in range(d + 1):
                    conv_l, conv_u = zer, zer
                    for j in range(0, q + 1):
                        i = k - j
                        if 0 <= i <= d:
                            conv_l = conv_l + L0[i] * R[j]
                            conv_u = conv_u + U0[i] * R[j]
                    if not zero(L1[k][0] - (H0[k] - conv_l), it):
                        ok_new = False
                    if not zero(U1[k] - (V0[k] - conv_u), it):
                        ok_nm = False
                # nothing beyond index d: deg(low·r) <= dh and deg(lm·r) <= d − dl by construction of the generic state and q
                rec("step: new low = high − low·r for one polynomial r of degree <= deg high − deg low (r = 0 when deg high < deg low), "
                    "no term lost by the truncation", ok_new, "" if ok_new else tag)
                rec("step: new lm = hm − lm·r with the same r", ok_nm, "" if ok_nm else tag)
                if q >= 0:
                    top = all(zero(L1[k][0], it) for k in range(dh, d + 1))
                    rec("quot: the leading coefficient of high is cancelled (deg high + deg low decreases)", top, "" if top else tag)
                canon = all(c for _v, c in L1)
                rec("canon: entries of the new low are stored canonically (deg() compares them with 0)", canon, "" if canon else tag)
        state["ncombo"] = ncombo
        if len(it.oracle.trace) != ntrace0:
            raise AnalysisError("Euclid schema: unexpected branching while walking the loop body")
        # ---- exit state: low = c (any constant, zero or not), lm generic of degree <= d − 1
        it.alg = alg0.copy()
        fr.env.clear()
        fr.env.update(env0)
        lk = "res" if fqcls is None else "fq"
        fr.env[LOW] = [elem("c", lk)] + [zero_elem(lk) for _ in range(d)]
        fr.env[LM] = generic("w", d - 1, "res" if fqcls is None else "int", False)
        fr.env[HM] = generic("v", d - 1, "res" if fqcls is None else "int", False)
        fr.env[HIGH] = generic("h", 1, lk, True)
        return None

    def run(it):
        a, _av = S.element(it, "a")
        return it.call_func(m, [a], {})
    paths = alg_paths(S.world, run, AlgState(modulus=p), native_fields=False, summaries={UTILS_INV: inv_rat},
                      while_hooks={m.qualname: hook}, fuel=50_000_000, max_paths=8)
    # exit obligation on the returned object
    bad = []
    nret = 0
    for pth in paths:
        if pth.outcome != "return":
            bad.append(f"raises {pth.value.clsname()} at {pth.value.where}")
            continue
        r = pth.value
        if not isinstance(r, Instance) or r.cls is not S.cls:
            bad.append(f"returns {show(r)[:60]}")
            continue
        nret += 1
        cs = r.attrs.get("coeffs", ())
        c = Rat(Poly.var("c", p))
        cz = pth.alg.is_zero(c)
        for k in range(d):
            x = cs[k]
            if isinstance(x, Instance):
                x = x.attrs.get("n")
            v = Rat(Poly.const(int(x) % p, p)) if isinstance(x, int) else x.r
            want = Rat(Poly.const(0, p)) if cz is True else Rat(Poly.var(f"w{k}", p)) / c
            if pth.alg.is_zero(v - want) is not True:
                bad.append(f"coefficient {k} of the result is not lm[{k}]·inv0(low[0]) (low[0] {'= 0' if cz else '≠ 0'})")
                break
    rec("exit: returns lm[:degree]·inv0(low[0]) (0 for the zero element, lm/c otherwise)", not bad and nret >= 2,
        "; ".join(bad[:2]) or f"{nret} exit paths")
    # ---- deg(): index of the highest non-zero coefficient
    degf = None
    try:
        b = S.repo.resolve_binding(m.module, test.func.id) if isinstance(test.func, ast.Name) else None
        if b is not None and b[0] == "func":
            degf = b[1]
    except AnalysisError:
        degf = None
    if degf is None:
        raise AnalysisError(f"{m.where}: the loop test's function `{ast.unparse(test.func)}` is not a package function")
    okdeg, ndeg = True, 0
    for k in list(range(d + 1)) + [None]:
        pre = AlgState(modulus=p)

        def rund(it, k=k):
            xs = []
            for i in range(d + 1):
                if k is not None and i < k:
                    xs.append(S.var(f"x{i}", reduced=True))
                elif k is not None and i == k:
                    it.alg.assume_nonzero(Rat(Poly.var(f"x{i}", p)), "leading coefficient")
                    xs.append(S.var(f"x{i}", reduced=True))
                else:
                    xs.append(0)
            return it.call_func(degf, [xs], {})
        ps = alg_paths(S.world, rund, pre, native_fields=False, max_paths=4)
        ndeg += 1
        want = 0 if k is None else k
        if not (len(ps) == 1 and ps[0].outcome == "return" and ps[0].value == want):
            okdeg = False
    rec(f"deg: {degf.qualname} returns the index of the highest non-zero coefficient (0 for the zero list)", okdeg, f"{ndeg} shapes")
    irreducible = ExtField(p, S.mc).is_irreducible()
    rec("exit: the modulus polynomial is irreducible over F_p (so low = 0 on exit only for a = 0)", irreducible, "checker's own arithmetic")
    for key, (ok, det) in results.items():
        out.append((f"inv() schema, degree {d}: {key}", ok, det or f"{state.get('ncombo', 0)} generic states", m.where))
    return out


def _worker(args):
    root, q, syn = args
    import sys
    sys.setrecursionlimit(20000)
    from .loader import Repo
    from .interp import World
    from .fieldcheck import FieldSubject
    repo = Repo(root)
    try:
        S = FieldSubject(World(repo), repo.cls(q))
        return q, check_inv_schema(S), None
    except AnalysisError as e:
        return q, [], str(e)


def schema_obligations(repo, qualnames, jobs=8):
    """check_inv_schema for several concrete classes, one process each (the walks are independent and CPU-bound).
    -> list of (class, key, ok, detail, where); raises AnalysisError if a walk was undecided and none failed"""
    import multiprocessing as mp
    from concurrent.futures import ProcessPoolExecutor
    out, errs = [], []
    if getattr(repo, "from_sources", False) or jobs <= 1:
        res = [_worker((repo.root, q, None)) for q in qualnames]
    else:
        with ProcessPoolExecutor(min(jobs, len(qualnames)), mp_context=mp.get_context("fork")) as ex:
            res = list(ex.map(_worker, [(str(repo.root), q, None) for q in qualnames]))
    for q, obs, err in res:
        for key, ok, det, where in obs:
            out.append((q, key, ok, det, where))
        if err:
            errs.append(f"{q}: {err}")
    if errs and all(o[2] for o in out):
        raise AnalysisError(errs[0])
    return out
