"""The checker's own arithmetic (oracle side of E2): integers, F_p, F_p[X]/(m),
short-Weierstrass curves in affine form.  Independent of the repository."""
from __future__ import annotations

_SMALL_PRIMES = [2, 3, 5, 7, 11, 13, 17, 19, 23, 29, 31, 37, 41, 43, 47, 53, 59, 61, 67, 71,
                 73, 79, 83, 89, 97, 101, 103, 107, 109, 113, 127, 131, 137, 139, 149, 151, 157,
                 163, 167, 173]


def is_prime(n: int) -> bool:
    """Miller-Rabin with 40 fixed prime bases (deterministic below 3.3e24,
    error < 4^-40 above)."""
    if n < 2:
        return False
    for p in _SMALL_PRIMES:
        if n % p == 0:
            return n == p
    d, s = n - 1, 0
    while d % 2 == 0:
        d //= 2
        s += 1
    for a in _SMALL_PRIMES:
        x = pow(a, d, n)
        if x in (1, n - 1):
            continue
        for _ in range(s - 1):
            x = x * x % n
            if x == n - 1:
                break
        else:
            return False
    return True


def inv_mod(a, p):
    a %= p
    if a == 0:
        return 0            # inv0 convention
    return pow(a, -1, p)


def sqrt_mod(a, p):
    """square root in F_p for p = 3 mod 4, else Tonelli-Shanks; None if none"""
    a %= p
    if a == 0:
        return 0
    if pow(a, (p - 1) // 2, p) != 1:
        return None
    if p % 4 == 3:
        return pow(a, (p + 1) // 4, p)
    q, s = p - 1, 0
    while q % 2 == 0:
        q //= 2
        s += 1
    z = 2
    while pow(z, (p - 1) // 2, p) != p - 1:
        z += 1
    m, c, t, r = s, pow(z, q, p), pow(a, q, p), pow(a, (q + 1) // 2, p)
    while t != 1:
        i, t2 = 0, t
        while t2 != 1:
            t2 = t2 * t2 % p
            i += 1
        b = pow(c, 1 << (m - i - 1), p)
        m, c, t, r = i, b * b % p, t * b * b % p, r * b % p
    return r


class ExtField:
    """F_p[X]/(X^d + sum m_i X^i); elements are tuples of ints (low to high)."""

    def __init__(self, p, mod_coeffs):
        self.p = p
        self.mc = tuple(c % p for c in mod_coeffs)
        self.d = len(self.mc)

    def el(self, coeffs):
        c = tuple(int(x) % self.p for x in coeffs)
        if len(c) != self.d:
            raise ValueError("wrong length")
        return c

    def zero(self):
        return (0,) * self.d

    def one(self):
        return (1,) + (0,) * (self.d - 1)

    def add(self, a, b):
        return tuple((x + y) % self.p for x, y in zip(a, b))

    def sub(self, a, b):
        return tuple((x - y) % self.p for x, y in zip(a, b))

    def neg(self, a):
        return tuple(-x % self.p for x in a)

    def smul(self, a, k):
        return tuple(x * k % self.p for x in a)

    def mul(self, a, b):
        d, p = self.d, self.p
        t = [0] * (2 * d - 1)
        for i, x in enumerate(a):
            if x:
                for j, y in enumerate(b):
                    t[i + j] += x * y
        for k in range(2 * d - 2, d - 1, -1):
            top = t[k] % p
            if top:
                for i, m in enumerate(self.mc):
                    if m:
                        t[k - d + i] -= top * m
        return tuple(x % p for x in t[:d])

    def pow(self, a, n):
        if n < 0:
            return self.pow(self.inv(a), -n)
        r, t = self.one(), a
        while n:
            if n & 1:
                r = self.mul(r, t)
            t = self.mul(t, t)
            n >>= 1
        return r

    def inv(self, a):
        """extended Euclid on polynomials over F_p; inv0(0) = 0"""
        p = self.p
        if not any(a):
            return self.zero()

        def trim(x):
            x = list(x)
            while x and x[-1] % p == 0:
                x.pop()
            return x

        def divmod_(x, y):
            x = trim(x)
            y = trim(y)
            q = [0] * max(1, len(x) - len(y) + 1)
            iy = pow(y[-1], -1, p)
            while len(x) >= len(y) and x:
                c = x[-1] * iy % p
                s = len(x) - len(y)
                q[s] = c
                for i, yc in enumerate(y):
                    x[s + i] = (x[s + i] - c * yc) % p
                x = trim(x)
            return q, x

        def psub(x, y):
            n = max(len(x), len(y))
            x = list(x) + [0] * (n - len(x))
            y = list(y) + [0] * (n - len(y))
            return [(u - v) % p for u, v in zip(x, y)]

        def pmul(x, y):
            if not x or not y:
                return []
            r = [0] * (len(x) + len(y) - 1)
            for i, u in enumerate(x):
                for j, v in enumerate(y):
                    r[i + j] = (r[i + j] + u * v) % p
            return r
        r0, r1 = list(self.mc) + [1], trim(a)
        s0, s1 = [], [1]
        while r1:
            q, r = divmod_(r0, r1)
            r0, r1 = r1, r
            s0, s1 = s1, trim(psub(s0, pmul(q, s1)))
        # r0 is a non-zero constant (modulus irreducible)
        r0 = trim(r0)
        if len(r0) != 1:
            raise ValueError("element not invertible (modulus reducible?)")
        c = pow(r0[0], -1, p)
        res = [x * c % p for x in s0] + [0] * self.d
        return tuple(res[: self.d])

    def div(self, a, b):
        return self.mul(a, self.inv(b))

    def is_irreducible(self):
        """Rabin's test for X^d + mc over F_p (d small)"""
        # work in F_p[X] with explicit polynomial arithmetic modulo f
        d, p = self.d, self.p
        x = (0, 1) + (0,) * (d - 2) if d >= 2 else None
        if d == 1:
            return True

        def frob_pow(k):          # X^(p^k) mod f
            r = x
            for _ in range(k):
                r = self.pow(r, p)
            return r
        # X^(p^d) == X mod f
        if frob_pow(d) != x:
            return False
        for q in {q for q in _SMALL_PRIMES if d % q == 0}:
            h = self.sub(frob_pow(d // q), x)
            if self._gcd_is_nontrivial(h):
                return False
        return True

    def _gcd_is_nontrivial(self, h):
        p = self.p

        def trim(v):
            v = list(v)
            while v and v[-1] % p == 0:
                v.pop()
            return v
        a, b = list(self.mc) + [1], trim(h)
        while b:
            ib = pow(b[-1], -1, p)
            a = trim(a)
            while len(a) >= len(b) and a:
                c = a[-1] * ib % p
                s = len(a) - len(b)
                for i, bc in enumerate(b):
                    a[s + i] = (a[s + i] - c * bc) % p
                a = trim(a)
            a, b = b, a
        return len(trim(a)) > 1


class Curve:
    """y^2 = x^3 + a x + b over a field given by an arithmetic object with
    add/sub/mul/inv/neg working on elements; affine, None = infinity."""

    def __init__(self, F, a, b):
        self.F, self.a, self.b = F, a, b

    def on_curve(self, P):
        if P is None:
            return True
        F = self.F
        x, y = P
        return F.mul(y, y) == F.add(F.add(F.mul(F.mul(x, x), x), F.mul(self.a, x)), self.b)

    def add(self, P, Q):
        F = self.F
        if P is None:
            return Q
        if Q is None:
            return P
        x1, y1 = P
        x2, y2 = Q
        if x1 == x2:
            if y1 != y2 or y1 == F.zero():
                return None
            three = F.smul(F.one(), 3)
            m = F.mul(F.add(F.mul(three, F.mul(x1, x1)), self.a), F.inv(F.add(y1, y1)))
        else:
            m = F.mul(F.sub(y2, y1), F.inv(F.sub(x2, x1)))
        x3 = F.sub(F.sub(F.mul(m, m), x1), x2)
        y3 = F.sub(F.mul(m, F.sub(x1, x3)), y1)
        return (x3, y3)

    def mul(self, P, n):
        if n < 0:
            P, n = (P[0], self.F.neg(P[1])) if P else None, -n
        R = None
        while n:
            if n & 1:
                R = self.add(R, P)
            P = self.add(P, P)
            n >>= 1
        return R


class PrimeField:
    def __init__(self, p):
        self.p = p

    def zero(self):
        return 0

    def one(self):
        return 1

    def add(self, a, b):
        return (a + b) % self.p

    def sub(self, a, b):
        return (a - b) % self.p

    def mul(self, a, b):
        return a * b % self.p

    def neg(self, a):
        return -a % self.p

    def smul(self, a, k):
        return a * k % self.p

    def inv(self, a):
        return inv_mod(a, self.p)

    def pow(self, a, n):
        return pow(a, n, self.p)
