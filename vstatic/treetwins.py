"""Whole-tree behaviour-preserving transformations for the self-test (every check must stay silent on the result)."""
from __future__ import annotations

import ast
import builtins


class RenameLocals(ast.NodeTransformer):
    """alpha-rename the local variables of every function (not parameters: keyword calls use their names)"""

    def visit_FunctionDef(self, node):
        params = {a.arg for a in node.args.posonlyargs + node.args.args + node.args.kwonlyargs}
        if node.args.vararg:
            params.add(node.args.vararg.arg)
        if node.args.kwarg:
            params.add(node.args.kwarg.arg)
        stored = set()
        nested = False
        for n in ast.walk(node):
            if isinstance(n, ast.Name) and isinstance(n.ctx, ast.Store):
                stored.add(n.id)
            if isinstance(n, (ast.Global, ast.Nonlocal)):
                nested = True
            if isinstance(n, (ast.FunctionDef, ast.Lambda, ast.ClassDef)) and n is not node:
                nested = True
        if nested:
            return node
        locs = {x for x in stored - params if not x.startswith("__")}
        if not locs:
            return node

        class R(ast.NodeTransformer):
            def visit_Name(self, n):
                if n.id in locs:
                    return ast.copy_location(ast.Name(id=n.id + "_rn", ctx=n.ctx), n)
                return n

            def visit_ExceptHandler(self, h):
                self.generic_visit(h)
                if h.name in locs:
                    h.name = h.name + "_rn"
                return h
        node.body = [R().visit(st) for st in node.body]
        return node


class FlipComparisons(ast.NodeTransformer):
    """not a == b -> a != b (outside __ne__, which is defined that way) ; a < b -> b > a for simple operands"""

    def visit_FunctionDef(self, node):
        if node.name in ("__ne__", "__eq__", "__lt__", "__gt__", "__le__", "__ge__"):
            return node
        self.generic_visit(node)
        return node

    def visit_UnaryOp(self, node):
        self.generic_visit(node)
        if isinstance(node.op, ast.Not) and isinstance(node.operand, ast.Compare) and len(node.operand.ops) == 1 \
                and isinstance(node.operand.ops[0], ast.Eq):
            c = node.operand
            return ast.copy_location(ast.Compare(left=c.left, ops=[ast.NotEq()], comparators=c.comparators), node)
        return node

    def visit_Compare(self, node):
        self.generic_visit(node)
        if len(node.ops) == 1 and isinstance(node.ops[0], (ast.Lt, ast.Gt, ast.LtE, ast.GtE)):
            flip = {ast.Lt: ast.Gt, ast.Gt: ast.Lt, ast.LtE: ast.GtE, ast.GtE: ast.LtE}[type(node.ops[0])]
            if isinstance(node.left, (ast.Name, ast.Constant, ast.Attribute)) and isinstance(node.comparators[0], (ast.Name, ast.Constant, ast.Attribute)):
                return ast.copy_location(ast.Compare(left=node.comparators[0], ops=[flip()], comparators=[node.left]), node)
        return node


class SquareSpelling(ast.NodeTransformer):
    """x ** 2 -> x * x for simple x ; x * x -> x ** 2   (not inside operator methods, which define these operators)"""

    def visit_FunctionDef(self, node):
        if node.name.startswith("__") and node.name.endswith("__"):
            return node
        self.generic_visit(node)
        return node

    def visit_BinOp(self, node):
        self.generic_visit(node)
        simple = (ast.Name, ast.Attribute, ast.Subscript)
        if isinstance(node.op, ast.Pow) and isinstance(node.right, ast.Constant) and node.right.value == 2 \
                and isinstance(node.left, ast.Name):
            return ast.copy_location(ast.BinOp(left=node.left, op=ast.Mult(), right=node.left), node)
        if isinstance(node.op, ast.Mult) and isinstance(node.left, ast.Name) and isinstance(node.right, ast.Name) \
                and node.left.id == node.right.id:
            return ast.copy_location(ast.BinOp(left=node.left, op=ast.Pow(), right=ast.Constant(value=2)), node)
        return node


class IfElseReturns(ast.NodeTransformer):
    """`if c: return A` followed by `return B` at the end of a block  ->  `if c: return A` / `else: return B`"""

    def _fix(self, body):
        out = list(body)
        if len(out) >= 2 and isinstance(out[-2], ast.If) and not out[-2].orelse and isinstance(out[-1], ast.Return) \
                and out[-2].body and isinstance(out[-2].body[-1], (ast.Return, ast.Raise)):
            iff = out[-2]
            iff.orelse = [out[-1]]
            out = out[:-1]
        return out

    def visit_FunctionDef(self, node):
        self.generic_visit(node)
        node.body = self._fix(node.body)
        return node


TRANSFORMS = {
    "unparse": None,
    "rename-locals": lambda t: RenameLocals().visit(t),
    "flip-comparisons": lambda t: FlipComparisons().visit(t),
    "square-spelling": lambda t: SquareSpelling().visit(t),
    "if-else-returns": lambda t: IfElseReturns().visit(t),
}
