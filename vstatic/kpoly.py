"""Dense univariate polynomials over a finite field K (nt.PrimeField / nt.ExtField).

K[t] is a principal ideal domain: zero tests modulo a path condition f(t) = 0
and 'non-zero wherever the path is feasible' are decided exactly with Euclid's
algorithm.  Used by C10 (simplified SWU, isogeny identities)."""
from __future__ import annotations

from .term import AnalysisError


class KT:
    __slots__ = ("K", "c")

    def __init__(self, K, coeffs):
        z = K.zero()
        c = list(coeffs)
        while c and c[-1] == z:
            c.pop()
        self.K, self.c = K, c

    # ---- constructors
    @staticmethod
    def const(K, k):
        return KT(K, [k])

    @staticmethod
    def var(K):
        return KT(K, [K.zero(), K.one()])

    # ---- basics
    def deg(self):
        return len(self.c) - 1

    def is_zero(self):
        return not self.c

    def is_const(self):
        return len(self.c) <= 1

    def lead(self):
        return self.c[-1]

    def __eq__(self, o):
        return isinstance(o, KT) and self.c == o.c

    def __hash__(self):
        return hash(tuple(self.c))

    def __add__(self, o):
        K = self.K
        n = max(len(self.c), len(o.c))
        z = K.zero()
        a = self.c + [z] * (n - len(self.c))
        b = o.c + [z] * (n - len(o.c))
        return KT(K, [K.add(x, y) for x, y in zip(a, b)])

    def __neg__(self):
        return KT(self.K, [self.K.neg(x) for x in self.c])

    def __sub__(self, o):
        return self + (-o)

    def scale(self, k):
        K = self.K
        return KT(K, [K.mul(x, k) for x in self.c])

    def __mul__(self, o):
        K = self.K
        if not self.c or not o.c:
            return KT(K, [])
        z = K.zero()
        out = [z] * (len(self.c) + len(o.c) - 1)
        for i, x in enumerate(self.c):
            if x == z:
                continue
            for j, y in enumerate(o.c):
                if y == z:
                    continue
                out[i + j] = K.add(out[i + j], K.mul(x, y))
        return KT(K, out)

    def __pow__(self, n):
        if not isinstance(n, int) or n < 0 or n > 4096:
            raise AnalysisError(f"polynomial power {n}")
        r = KT.const(self.K, self.K.one())
        b = self
        while n:
            if n & 1:
                r = r * b
            b = b * b
            n >>= 1
        return r

    def divmod(self, d):
        K = self.K
        if d.is_zero():
            raise AnalysisError("polynomial division by zero")
        r = list(self.c)
        q = [K.zero()] * max(0, len(r) - len(d.c) + 1)
        li = K.inv(d.lead())
        dd = d.deg()
        z = K.zero()
        for k in range(len(r) - 1, dd - 1, -1):
            if r[k] == z:
                continue
            f = K.mul(r[k], li)
            q[k - dd] = f
            for i, y in enumerate(d.c):
                if y != z:
                    r[k - dd + i] = K.sub(r[k - dd + i], K.mul(f, y))
        return KT(K, q), KT(K, r[:dd] if dd >= 0 else [])

    def __mod__(self, d):
        return self.divmod(d)[1]

    def __floordiv__(self, d):
        return self.divmod(d)[0]

    def monic(self):
        if self.is_zero():
            return self
        return self.scale(self.K.inv(self.lead()))

    def derivative(self):
        K = self.K
        return KT(K, [K.smul(x, i) if hasattr(K, "smul") else K.mul(x, i) for i, x in enumerate(self.c)][1:])

    def eval(self, x):
        K = self.K
        r = K.zero()
        for c in reversed(self.c):
            r = K.add(K.mul(r, x), c)
        return r

    def compose_scaled(self):
        raise NotImplementedError

    def __repr__(self):
        if not self.c:
            return "0"
        return f"<poly deg {self.deg()}>"


def gcd(a: KT, b: KT) -> KT:
    while not b.is_zero():
        a, b = b, a % b
    return a.monic()


def squarefree(f: KT) -> KT:
    """f / gcd(f, f'); valid because the characteristic exceeds every degree met here"""
    if f.is_const():
        return f
    g = gcd(f, f.derivative())
    return (f // g).monic()


def coprime_part(f: KT, nz: KT) -> KT:
    """divide out of f every factor it shares with nz (repeatedly); the result is constant iff every irreducible
    factor of f divides nz"""
    g = f
    while not g.is_const():
        h = gcd(g, nz)
        if h.is_const():
            break
        g = g // h
    return g


def field_size(K):
    return K.p ** getattr(K, "d", 1)


def rational_part(f: KT) -> KT:
    """gcd(f, t^|K| − t): the product of the distinct linear factors of f, i.e. exactly its roots in K"""
    K = f.K
    if f.is_const():
        return f
    f = f.monic()
    if f.deg() == 1:
        return f
    q = field_size(K)
    t = KT.var(K) % f
    r = KT.const(K, K.one())
    b = t
    n = q
    while n:                      # t^q mod f by square-and-multiply
        if n & 1:
            r = (r * b) % f
        b = (b * b) % f
        n >>= 1
    return gcd(r - t, f)


def has_root(f: KT) -> bool:
    return not rational_part(f).is_const()
