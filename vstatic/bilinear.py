"""Formal bilinear domain: points are Z[scalars]-linear combinations of symbolic
base points, pairing values are exponent vectors over pairs of bases.
pairing(aQ, bP) -> (Q,P): a*b ; product -> sum ; final_exponentiate -> identity
on exponents.  Conditional on bilinearity (C05, not decided)."""
from __future__ import annotations

from .term import AnalysisError, Term, show
from .poly import Poly
from .fieldmodel import FieldVal


class Bilinear:
    def __init__(self, g1_const, z1_const=None, z2_const=None, roundtrip=True):
        self.g1 = g1_const
        self.zs = [z for z in (z1_const, z2_const) if z is not None]
        self.roundtrip = roundtrip
        self.notes = []

    def scalar(self, n):
        if isinstance(n, bool):
            n = int(n)
        if isinstance(n, int):
            return Poly.const(n)
        if isinstance(n, Term):
            if n.op == "var":
                return Poly.var(n.args[0])
            return Poly.var(show(n))
        raise AnalysisError(f"scalar {n!r}")

    def point(self, X):
        """-> dict (base, summed?) -> Poly.  `summed` marks a term that stands
        under a sum over the elements of the (one) signer index set."""
        if X == self.g1:
            return {("G1", False): Poly.const(1)}
        if X in self.zs:
            return {}
        if isinstance(X, tuple) and len(X) == 3 and isinstance(X[2], Term) and X[2].op == "fieldval" \
                and X[2].args[1] in (0, (0, 0)):
            return {}
        if isinstance(X, Term):
            if X.op == "multiply":
                n = self.scalar(X.args[1])
                return {b: c * n for b, c in self.point(X.args[0]).items()}
            if X.op == "neg":
                return {b: -c for b, c in self.point(X.args[0]).items()}
            if X.op == "add":
                return self._sum(self.point(X.args[0]), self.point(X.args[1]))
            if X.op in ("pubkey_to_G1", "signature_to_G2") and self.roundtrip:
                inner = X.args[0]
                enc = {"pubkey_to_G1": "G1_to_pubkey", "signature_to_G2": "G2_to_signature"}[X.op]
                if isinstance(inner, Term) and inner.op == enc:
                    return self.point(inner.args[0])
            if X.op == "fold":
                name, init, body, acc, seq = X.args
                res = self.point(init)
                inc = self._fold_increment(body, acc, "add")
                if inc is None:
                    raise AnalysisError(f"fold body is not acc + f(elem): {show(body)[:200]}")
                e = {}
                for (b, sm), c in self.point(inc).items():
                    if sm:
                        raise AnalysisError("nested sums in a point fold")
                    e[(b, True)] = c
                return self._sum(res, e)
            return {(X, False): Poly.const(1)}
        raise AnalysisError(f"not a point value: {show(X)[:200]}")

    @staticmethod
    def _sum(a, b):
        r = dict(a)
        for k, c in b.items():
            r[k] = r.get(k, Poly.const(0)) + c
        return {k: c for k, c in r.items() if not c.is_zero()}

    @staticmethod
    def _fold_increment(body, acc, op):
        """body == op(acc, X) or op(X, acc)  ->  X"""
        ops = {"add": ("add",), "fmul": ("fmul",)}[op]
        if isinstance(body, Term) and body.op in ops and len(body.args) == 2:
            a, b = body.args
            if a is acc and not _mentions(b, acc):
                return b
            if b is acc and not _mentions(a, acc):
                return a
        return None

    def gt(self, V):
        """-> (dict (baseQ, baseP, summed?) -> Poly, number of final exponentiations applied)"""
        if isinstance(V, FieldVal):
            if V.kind == "FQP" and V.v == (1,) + (0,) * (len(V.v) - 1):
                return {}, 0
            raise AnalysisError(f"GT constant other than one: {V!r}")
        if isinstance(V, Term):
            if V.op == "fieldval" and V.args[1] == (1,) + (0,) * 11:
                return {}, 0
            if V.op == "pairing":
                Q, P, fe = V.args
                e = {}
                for (bq, sq), cq in self.point(Q).items():
                    for (bp, sp), cp in self.point(P).items():
                        if sq and sp:
                            raise AnalysisError("pairing of two aggregated (summed) points: double sum")
                        k = (bq, bp, sq or sp)
                        e[k] = e.get(k, Poly.const(0)) + cq * cp
                return {k: c for k, c in e.items() if not c.is_zero()}, (1 if fe else 0)
            if V.op == "fmul":
                a, fa = self.gt(V.args[0])
                b, fb = self.gt(V.args[1])
                if fa != fb:
                    self.notes.append("product of an exponentiated and a non-exponentiated Miller value")
                return self._sum(a, b), max(fa, fb)
            if V.op == "final_exponentiate":
                a, fa = self.gt(V.args[0])
                return a, fa + 1
            if V.op == "fold":
                name, init, body, acc, seq = V.args
                res, f0 = self.gt(init)
                inc = self._fold_increment(body, acc, "fmul")
                if inc is None:
                    raise AnalysisError(f"fold body is not acc * f(elem): {show(body)[:200]}")
                e, f1 = self.gt(inc)
                e2 = {}
                for (bq, bp, sm), c in e.items():
                    if sm:
                        raise AnalysisError("nested sums in a GT fold")
                    e2[(bq, bp, True)] = c
                return self._sum(res, e2), max(f0, f1)
        raise AnalysisError(f"not a GT value: {show(V)[:200]}")


def _mentions(t, sub):
    from .term import subterms
    return any(s is sub for s in subterms(t))


def accepting_equation(v):
    """value returned on an accepting path: eq(one, X) -> X, or None"""
    if isinstance(v, Term) and v.op == "eq" and len(v.args) == 2:
        a, b = v.args
        for one, x in ((a, b), (b, a)):
            if isinstance(one, FieldVal) and one.kind == "FQP" and one.v == (1,) + (0,) * (len(one.v) - 1):
                return x
    return None
