"""launcher: ./check <ID> [--tier quick|thorough] [--replay path]"""
from __future__ import annotations

import argparse
import importlib
import json
import os
import sys
import traceback

from .term import AnalysisError, HISTORY, SHARED_SEEN
from .report import Check
from .loader import Repo


HIST_TEXT = ("no function walked for this property returns a value read from module- or class-level state whose key does not "
             "determine it, or absorbs data into a shared hash object (def-use dataflow over the reader: vstatic/memo.py)")


def history_obligations(chk, pid):
    """shared mutable state met during the walk: history-dependent reads are violations of the walked property"""
    if not HISTORY and not SHARED_SEEN:
        return
    rid = f"{pid}.H"
    chk.rule(rid, HIST_TEXT, 0)
    done = set()
    for h in HISTORY:
        k = (h.construct, h.key)
        if k in done:
            continue
        done.add(k)
        chk.ob(rid, h.construct, f"shared state {h.key}", False, h.detail, h.where)
    for (mod, name, fn), (kind, detail, where) in SHARED_SEEN.items():
        if (fn, f"{mod}.{name}") in done or kind == "history":
            continue
        chk.ob(rid, fn, f"shared state {mod}.{name}", True, f"{kind}: {detail}", where)


def main(argv=None):
    ap = argparse.ArgumentParser()
    ap.add_argument("pid")
    ap.add_argument("--tier", default=os.environ.get("VERIF_TIER", "quick"), choices=["quick", "thorough"])
    ap.add_argument("--replay", default=None)
    a = ap.parse_args(argv)
    pid = a.pid
    # watchdog: a check that does not finish is a broken check, not a pass
    import signal

    def _timeout(signum, frame):
        print(f"ANALYSIS-ERROR property={pid} analysis did not finish within the time limit")
        sys.stdout.flush()
        os._exit(2)
    signal.signal(signal.SIGALRM, _timeout)
    signal.alarm(int(os.environ.get("VERIF_TIMEOUT", "900" if a.tier == "quick" else "7200")))
    rf = None
    if a.replay:
        rf = json.load(open(a.replay))
        print(f"replaying {rf['rule']} {rf['construct']} [{rf['key']}] on the current tree")
    try:
        mod = importlib.import_module(f"vstatic.rules.{pid}")
    except ModuleNotFoundError:
        print(f"ANALYSIS-ERROR property={pid} no rule module")
        return 2
    chk = None
    try:
        chk = Check(pid, a.tier, getattr(mod, "LEVEL", "other"), rf)
        repo = Repo()
        chk.note_analysed(modules=repo.stats["modules"], functions_in_package=repo.stats["functions"],
                          classes_in_package=repo.stats["classes"], source_digest=repo.digest.hexdigest()[:16])
        mod.run(chk, repo, a.tier)
        history_obligations(chk, pid)
        return chk.finish()
    except AnalysisError as e:
        if os.environ.get("VERIF_DEBUG"):
            traceback.print_exc()
        print(f"ANALYSIS-ERROR property={pid} {e}")
        if chk is not None:
            history_obligations(chk, pid)
        # violations found before the analysis stopped are still reported
        if chk is not None and any(not o["ok"] for o in chk.obligations):
            try:
                if chk.finish() == 1:
                    return 1
            except AnalysisError:
                pass
        return 2
    except RecursionError:
        print(f"ANALYSIS-ERROR property={pid} checker recursion limit")
        return 2
    except Exception:
        traceback.print_exc()
        print(f"ANALYSIS-ERROR property={pid} internal error in checker")
        return 2


if __name__ == "__main__":
    sys.setrecursionlimit(20000)
    rc = main()
    sys.stdout.flush()
    os._exit(rc)
