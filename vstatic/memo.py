"""Key-completeness of memo tables (def-use dataflow over one function).

A module- or class-level container that some function writes is state shared between calls.  A function that reads it
returns, on a hit, the value an *earlier* call stored under an equal key.  That value is what the current call would
compute only if everything the stored value depends on can be recovered from the key.  This module decides, from the
function's syntax tree alone:

  complete  – every parameter the stored value (data- or control-)depends on occurs injectively in the key, and the
              read and the store use the same key expression: a hit returns what the miss path would compute, so the
              evaluator may walk the miss path only;
  history   – the stored value depends on a parameter through a route that does not pass through a key component and
              that parameter is not recoverable from the key: two calls that agree on the key and differ in that
              parameter get the first call's value – the result depends on the call history;
  undecided – anything else (reader and writer in different functions, different key expressions, no key at all).
"""
from __future__ import annotations

import ast

MUTATORS = {"clear", "update", "pop", "popitem", "setdefault", "append", "extend", "insert", "remove", "add", "discard",
            "sort", "reverse", "appendleft", "move_to_end"}
# wrappers that lose nothing of their argument
INJECTIVE_CALLS = {"bytes", "tuple", "int", "str", "repr", "bytearray", "list"}      # not id() (reused after collection), not set/frozenset (order, multiplicity)
INJECTIVE_ATTRS = {"n", "coeffs", "__qualname__", "__name__", "__class__"}


def _is_ref(node, name):
    return (isinstance(node, ast.Name) and node.id == name) or (isinstance(node, ast.Attribute) and node.attr == name)


def _dump(e):
    return ast.dump(e, annotate_fields=False)


def written_shared_names(repo):
    """{(module name, container name): [(function qualname, line, how)]} for names a function body mutates without
    binding them locally"""
    cached = getattr(repo, "_memo_written", None)
    if cached is not None:
        return cached
    out = {}
    for f in repo.all_functions():
        fn = f.node
        local = {a.arg for a in fn.args.args + fn.args.kwonlyargs + fn.args.posonlyargs}
        if fn.args.vararg:
            local.add(fn.args.vararg.arg)
        if fn.args.kwarg:
            local.add(fn.args.kwarg.arg)
        globs = set()
        for n in ast.walk(fn):
            if isinstance(n, ast.Global):
                globs |= set(n.names)
            elif isinstance(n, ast.Name) and isinstance(n.ctx, ast.Store):
                local.add(n.id)
        local -= globs

        def base_name(e):
            if isinstance(e, ast.Name):
                return None if e.id in local else e.id
            if isinstance(e, ast.Attribute) and isinstance(e.value, ast.Name):
                return e.attr
            return None

        def note(e, how, node):
            nm = base_name(e)
            if nm is not None:
                out.setdefault((f.module.name, nm), []).append((f.qualname, node.lineno, how))
        for n in ast.walk(fn):
            if isinstance(n, (ast.Assign, ast.AugAssign, ast.AnnAssign, ast.Delete)):
                tg = n.targets if isinstance(n, (ast.Assign, ast.Delete)) else [n.target]
                for t in tg:
                    for s in ast.walk(t):
                        if isinstance(s, ast.Subscript) and isinstance(s.ctx, (ast.Store, ast.Del)):
                            note(s.value, "subscript store", n)
            elif isinstance(n, ast.Call) and isinstance(n.func, ast.Attribute) and n.func.attr in MUTATORS:
                note(n.func.value, f".{n.func.attr}()", n)
            elif isinstance(n, ast.Global):
                for g in n.names:
                    out.setdefault((f.module.name, g), []).append((f.qualname, n.lineno, "global rebinding"))
    repo._memo_written = out
    return out


class _Flow:
    """flow-insensitive definitions of the local names of one function, each with the structured conditions it sits under"""

    def __init__(self, fn):
        self.fn = fn
        a = fn.args
        self.params = [x.arg for x in a.posonlyargs + a.args + a.kwonlyargs]
        if a.vararg:
            self.params.append(a.vararg.arg)
        if a.kwarg:
            self.params.append(a.kwarg.arg)
        self.defs = {}        # name -> [(value nodes, condition nodes)]
        self.stores = []      # (container ref node, key node, value node, conds, stmt)
        self.uses = []        # (expression node, condition nodes) for every evaluated statement-level expression
        self._block(fn.body, [])

    def _bind(self, target, value, conds):
        if isinstance(target, ast.Name):
            self.defs.setdefault(target.id, []).append(([value], list(conds)))
        elif isinstance(target, (ast.Tuple, ast.List)):
            if isinstance(value, (ast.Tuple, ast.List)) and len(value.elts) == len(target.elts) \
                    and not any(isinstance(e, ast.Starred) for e in list(value.elts) + list(target.elts)):
                for t, v in zip(target.elts, value.elts):
                    self._bind(t, v, conds)
            else:
                for t in target.elts:
                    self._bind(t.value if isinstance(t, ast.Starred) else t, value, conds)
        elif isinstance(target, ast.Subscript):
            self.stores.append((target.value, target.slice, value, list(conds), target))
        elif isinstance(target, ast.Starred):
            self._bind(target.value, value, conds)

    def _walrus(self, expr, conds):
        self.uses.append((expr, list(conds)))
        for n in ast.walk(expr):
            if isinstance(n, ast.NamedExpr):
                self._bind(n.target, n.value, conds)
            elif isinstance(n, ast.Call) and isinstance(n.func, ast.Attribute) and n.func.attr == "setdefault" and len(n.args) == 2:
                self.stores.append((n.func.value, n.args[0], n.args[1], list(conds), n))

    def _block(self, body, conds):
        for st in body:
            if isinstance(st, ast.Assign):
                self._walrus(st.value, conds)
                for t in st.targets:
                    self._bind(t, st.value, conds)
            elif isinstance(st, ast.AnnAssign):
                if st.value is not None:
                    self._walrus(st.value, conds)
                    self._bind(st.target, st.value, conds)
            elif isinstance(st, ast.AugAssign):
                self._walrus(st.value, conds)
                if isinstance(st.target, ast.Name):
                    self.defs.setdefault(st.target.id, []).append(([st.value, ast.Name(st.target.id, ast.Load())], list(conds)))
                else:
                    self._bind(st.target, st.value, conds)
            elif isinstance(st, ast.If):
                self._walrus(st.test, conds)
                self._block(st.body, conds + [st.test])
                self._block(st.orelse, conds + [st.test])
            elif isinstance(st, ast.While):
                self._walrus(st.test, conds)
                self._block(st.body, conds + [st.test])
                self._block(st.orelse, conds + [st.test])
            elif isinstance(st, ast.For):
                self.uses.append((st.iter, list(conds)))
                self._bind(st.target, st.iter, conds)
                self._block(st.body, conds + [st.iter])
                self._block(st.orelse, conds)
            elif isinstance(st, ast.With):
                for it in st.items:
                    if it.optional_vars is not None:
                        self._bind(it.optional_vars, it.context_expr, conds)
                self._block(st.body, conds)
            elif isinstance(st, ast.Try):
                self._block(st.body, conds)
                for h in st.handlers:
                    self._block(h.body, conds)
                self._block(st.orelse, conds)
                self._block(st.finalbody, conds)
            elif isinstance(st, (ast.Expr, ast.Return)):
                if st.value is not None:
                    self._walrus(st.value, conds)
            elif isinstance(st, (ast.FunctionDef, ast.ClassDef)):
                continue


def _returns_of(h):
    out = []
    for n in ast.walk(h):
        if isinstance(n, (ast.FunctionDef, ast.Lambda)) and n is not h:
            continue
        if isinstance(n, ast.Return):
            out.append(n.value)
    return out


def injective_params(e, fl, helpers, depth=0, pseudo=()):
    """names among fl.params (and `pseudo` names) whose value the expression e determines: built from them with constructors
    that lose nothing (tuple / list displays and concatenations, bytes/tuple/int/str wrappers, .n / .coeffs, element-wise
    images `tuple(g(c) for c in p)` with g injective, calls of module-level helpers whose every non-None return is injective)"""
    if depth > 6 or e is None:
        return set()
    if isinstance(e, ast.Name):
        if e.id in pseudo:
            return {e.id}
        if e.id in fl.params and e.id not in fl.defs:
            return {e.id}
        ds = fl.defs.get(e.id, [])
        if len(ds) == 1 and len(ds[0][0]) == 1:
            return injective_params(ds[0][0][0], fl, helpers, depth + 1, pseudo)
        return set()
    if isinstance(e, ast.Starred):
        return injective_params(e.value, fl, helpers, depth + 1, pseudo)
    if isinstance(e, (ast.Tuple, ast.List)):
        out = set()
        for x in e.elts:
            out |= injective_params(x, fl, helpers, depth + 1, pseudo)
        return out
    if isinstance(e, ast.BinOp) and isinstance(e.op, ast.Add):
        return injective_params(e.left, fl, helpers, depth + 1, pseudo) | injective_params(e.right, fl, helpers, depth + 1, pseudo)
    if isinstance(e, ast.Attribute) and e.attr in INJECTIVE_ATTRS:
        return injective_params(e.value, fl, helpers, depth + 1, pseudo)
    if isinstance(e, ast.Call) and isinstance(e.func, ast.Name) and not e.keywords:
        if e.func.id in INJECTIVE_CALLS and len(e.args) == 1:
            a = e.args[0]
            if isinstance(a, (ast.GeneratorExp, ast.ListComp)) and len(a.generators) == 1 and not a.generators[0].ifs \
                    and isinstance(a.generators[0].target, ast.Name):
                g = a.generators[0]
                c = g.target.id
                if c in injective_params(a.elt, fl, helpers, depth + 1, tuple(pseudo) + (c,)):
                    return injective_params(g.iter, fl, helpers, depth + 1, pseudo)
                return set()
            return injective_params(a, fl, helpers, depth + 1, pseudo)
        h = (helpers or {}).get(e.func.id)
        if h is not None and not any(isinstance(a, ast.Starred) for a in e.args):
            hfl = _Flow(h)
            hparams = [x.arg for x in h.args.posonlyargs + h.args.args]
            rets = [r for r in _returns_of(h) if not (r is None or (isinstance(r, ast.Constant) and r.value is None))]
            if not rets or len(e.args) > len(hparams):
                return set()
            inj = None
            for r in rets:
                ir = injective_params(r, hfl, helpers, depth + 1)
                inj = ir if inj is None else (inj & ir)
            out = set()
            for pn in inj or ():
                i = hparams.index(pn)
                if i < len(e.args):
                    out |= injective_params(e.args[i], fl, helpers, depth + 1, pseudo)
            return out
    return set()


def helper_may_return_none(e, fl, helpers):
    """the key expression is a call (possibly through one local name) of a helper that can return None"""
    if isinstance(e, ast.Name) and len(fl.defs.get(e.id, [])) == 1:
        e = fl.defs[e.id][0][0][0]
    if isinstance(e, ast.Call) and isinstance(e.func, ast.Name) and (helpers or {}).get(e.func.id) is not None:
        h = helpers[e.func.id]
        rs = _returns_of(h)
        falls_off = not (h.body and isinstance(h.body[-1], (ast.Return, ast.Raise)))
        return falls_off or any(r is None or (isinstance(r, ast.Constant) and r.value is None) for r in rs)
    return False


def classify(fn, name, helpers=None):
    """decide the memo discipline of function `fn` (ast.FunctionDef) for the shared container called `name`.
    `helpers`: module-level functions by name (key construction may be delegated to one).
    returns (kind, detail) with kind in {'complete', 'history', 'undecided', 'unread'}"""
    fl = _Flow(fn)
    reads = []     # key nodes
    read_exprs = []
    read_nodes = []
    for n in ast.walk(fn):
        if isinstance(n, ast.Call) and isinstance(n.func, ast.Attribute) and n.func.attr == "get" and _is_ref(n.func.value, name) and n.args:
            reads.append(n.args[0])
            read_exprs.append(n)
            read_nodes.append(n)
        elif isinstance(n, ast.Subscript) and isinstance(n.ctx, ast.Load) and _is_ref(n.value, name):
            reads.append(n.slice)
            read_exprs.append(n)
            read_nodes.append(n)
        elif isinstance(n, ast.Compare) and len(n.ops) == 1 and isinstance(n.ops[0], (ast.In, ast.NotIn)) and _is_ref(n.comparators[0], name):
            reads.append(n.left)
            read_nodes.append(n)
    stores = [s for s in fl.stores if _is_ref(s[0], name)]
    if not reads:
        return "unread", "no keyed read"
    if not stores:
        return "undecided", "the function reads the container but the writer is another function"
    keys = {_dump(k) for k in reads} | {_dump(s[1]) for s in stores}
    if len(keys) != 1:
        return "undecided", "read and store use different key expressions: " + " / ".join(sorted({ast.unparse(k) for k in reads} | {ast.unparse(s[1]) for s in stores}))
    K = reads[0]
    # look through a local name bound once to a tuple
    comps_src = K
    if isinstance(K, ast.Name) and K.id not in fl.params and len(fl.defs.get(K.id, [])) == 1:
        v = fl.defs[K.id][0][0][0]
        if isinstance(v, ast.Tuple):
            comps_src = v
    comps = []
    for e in (comps_src.elts if isinstance(comps_src, ast.Tuple) else [comps_src]):
        comps.append(e.value if isinstance(e, ast.Starred) else e)
    stop_dumps = {_dump(c) for c in comps} | {_dump(K)}
    stop_names = set()
    covered = set()        # parameters recoverable from the key

    def injective_source(e, depth=0):
        """the parameter (or local) name that expression e determines injectively, else None"""
        if isinstance(e, ast.Name):
            if e.id in fl.params and e.id not in fl.defs:
                return e.id
            ds = fl.defs.get(e.id, [])
            if len(ds) == 1 and len(ds[0][0]) == 1 and depth < 4:
                stop_names.add(e.id)
                return injective_source(ds[0][0][0], depth + 1)
            return None
        if isinstance(e, ast.Call) and isinstance(e.func, ast.Name) and e.func.id in INJECTIVE_CALLS and len(e.args) == 1 and not e.keywords:
            return injective_source(e.args[0], depth + 1)
        if isinstance(e, ast.Attribute) and e.attr in INJECTIVE_ATTRS:
            return injective_source(e.value, depth + 1)
        return None

    for c in comps:
        if isinstance(c, ast.Name):
            stop_names.add(c.id)
        elif isinstance(c, ast.Attribute) and c.attr in INJECTIVE_ATTRS and isinstance(c.value, ast.Name):
            stop_names.add(c.value.id)
        src = injective_source(c)
        if src is not None:
            covered.add(src)
        covered |= injective_params(c, fl, helpers)
    if helper_may_return_none(K, fl, helpers):
        # None is the helper's "no key" marker: it must never be stored under
        def guarded(conds):
            for cnd in conds:
                for k in ast.walk(cnd):
                    if isinstance(k, ast.Compare) and len(k.ops) == 1 and isinstance(k.ops[0], ast.IsNot) \
                            and isinstance(k.comparators[0], ast.Constant) and k.comparators[0].value is None \
                            and _dump(k.left) == _dump(K):
                        return True
            return False
        if not all(guarded(st[3]) for st in stores):
            covered = set()

    # parameters pinned to one value by a condition that dominates every read and every store (`hash_function is sha256`)
    def conjuncts(e, depth=0):
        if isinstance(e, ast.BoolOp) and isinstance(e.op, ast.And):
            for v in e.values:
                yield from conjuncts(v, depth)
        elif isinstance(e, ast.Name) and e.id not in fl.params and len(fl.defs.get(e.id, [])) == 1 and depth < 3:
            yield from conjuncts(fl.defs[e.id][0][0][0], depth + 1)
        else:
            yield e

    def pins_of(conds):
        out = set()
        for c in conds:
            for k in conjuncts(c):
                if isinstance(k, ast.Compare) and len(k.ops) == 1 and isinstance(k.ops[0], (ast.Is, ast.Eq)):
                    for a, b in ((k.left, k.comparators[0]), (k.comparators[0], k.left)):
                        if isinstance(a, ast.Name) and a.id in fl.params and a.id not in fl.defs \
                                and not any(isinstance(n, ast.Name) and (n.id in fl.params or n.id in fl.defs) for n in ast.walk(b)):
                            out.add(a.id)
        return out

    def conds_of_read(rx):
        for e, conds in fl.uses:
            if any(n is rx for n in ast.walk(e)):
                return conds
        return None
    pin_sets = []
    for rx in read_nodes:
        cs = conds_of_read(rx)
        pin_sets.append(pins_of(cs) if cs is not None else set())
    for _c, _k, _v, conds, _st in stores:
        pin_sets.append(pins_of(conds))
    pinned = set.intersection(*pin_sets) if pin_sets else set()
    covered |= pinned

    seen = set()

    def deps_expr(e):
        if e is None:
            return set()
        if _dump(e) in stop_dumps:
            return set()
        if _is_ref(e, name):
            return set()
        if isinstance(e, ast.Name):
            return deps_name(e.id)
        out = set()
        for ch in ast.iter_child_nodes(e):
            if isinstance(ch, (ast.expr_context, ast.operator, ast.cmpop, ast.boolop, ast.unaryop)):
                continue
            out |= deps_expr(ch)
        return out

    def deps_name(n):
        if n in stop_names and n not in fl.params:
            return set()
        if n in stop_names:
            return set()
        if n in seen:
            return set()
        seen.add(n)
        out = set()
        if n in fl.params:
            out.add(n)
        for vals, conds in fl.defs.get(n, []):
            for v in vals + conds:
                out |= deps_expr(v)
        return out

    uncovered = set()
    for _c, _k, v, conds, _st in stores:
        for e in [v] + conds:
            uncovered |= deps_expr(e)
    uncovered -= covered
    if uncovered:
        return "history", (f"key `{ast.unparse(K)}`" + (f" = {ast.unparse(comps_src)}" if comps_src is not K else "") +
                           f" does not determine {', '.join(sorted(uncovered))}, on which the stored value depends")
    # a hit must be used exactly as the freshly computed value is: same variable, or a return of the same expression
    ok, why = _direct(fn, fl, stores, read_exprs)
    if not ok:
        return "undecided", f"key `{ast.unparse(K)}` determines the stored value, but {why}"
    return "complete", f"key `{ast.unparse(K)}` determines every input of the stored value and a hit is used like a fresh value"


def _direct(fn, fl, stores, read_exprs):
    svals = {_dump(s[2]) for s in stores}
    if len(svals) != 1 or not isinstance(stores[0][2], ast.Name):
        return False, "the stored value is not a single local name"
    s = stores[0][2].id
    sd = _dump(ast.Name(s, ast.Load()))
    rdumps = {_dump(r) for r in read_exprs}
    # names bound directly to a read
    rnames = set()
    for n, ds in fl.defs.items():
        for vals, _c in ds:
            if len(vals) == 1 and _dump(vals[0]) in rdumps:
                rnames.add(n)
    if not rnames and not read_exprs:
        return False, "no read"
    rets = [n for n in ast.walk(fn) if isinstance(n, ast.Return) and n.value is not None]
    retd = [_dump(r.value) for r in rets]
    for r in rets:
        d = _dump(r.value)
        uses_read = any(x in d for x in rdumps) or any(_dump(ast.Name(x, ast.Load())) in d for x in rnames if x != s)
        if not uses_read:
            continue
        d2 = d
        for x in rdumps:
            d2 = d2.replace(x, sd)
        for x in rnames:
            d2 = d2.replace(_dump(ast.Name(x, ast.Load())), sd)
        if not any(o == d2 and o is not d for o in retd if o != d) and d2 != d:
            return False, f"a hit returns `{ast.unparse(r.value)}`, which no miss path returns"
    # every other use of a hit name that is not the stored name must be a None/identity test
    for x in rnames - {s}:
        for n in ast.walk(fn):
            if isinstance(n, ast.Name) and n.id == x and isinstance(n.ctx, ast.Load):
                par = _parent(fn, n)
                if isinstance(par, ast.Compare) and all(isinstance(o, (ast.Is, ast.IsNot)) for o in par.ops):
                    continue
                if isinstance(par, ast.Return) or (isinstance(par, ast.Subscript) and isinstance(_parent(fn, par), ast.Return)):
                    continue
                return False, f"the hit value `{x}` is processed differently from a fresh value"
    return True, ""


def _parent(root, node):
    for p in ast.walk(root):
        for ch in ast.iter_child_nodes(p):
            if ch is node:
                return p
    return None


def first_read(fn, name):
    for n in ast.walk(fn):
        if isinstance(n, ast.Call) and isinstance(n.func, ast.Attribute) and n.func.attr == "get" and _is_ref(n.func.value, name):
            return n
        if isinstance(n, ast.Subscript) and isinstance(n.ctx, ast.Load) and _is_ref(n.value, name):
            return n
        if isinstance(n, ast.Compare) and _is_ref(n.comparators[0], name):
            return n
    return None


EVICTIONS = {"clear", "pop", "popitem", "move_to_end"}      # evictions and LRU reordering: hits become misses at most


def transparent_memo(repo, f, name):
    """(True, reason) when the module-/class-level container `name` written in function f is a memo table that cannot
    change any result: f is its only reader and writer in the package, its key determines the stored value and a hit is
    used like a fresh value (classify == complete), and every other mutation is an eviction (which only turns hits into
    misses).  (False, reason) otherwise."""
    mod = f.module
    others = []
    for g in repo.all_functions():
        if g is f or g.module is not mod:
            continue
        for n in ast.walk(g.node):
            if _is_ref(n, name):
                others.append(g.qualname)
                break
    if others:
        return False, f"also used by {', '.join(sorted(set(others))[:3])}"
    for n in ast.walk(f.node):
        if isinstance(n, ast.Call) and isinstance(n.func, ast.Attribute) and _is_ref(n.func.value, name):
            if n.func.attr in MUTATORS and n.func.attr not in EVICTIONS:
                return False, f"mutated with .{n.func.attr}()"
            if n.func.attr in ("values", "items", "keys", "copy"):
                return False, f"its contents are enumerated with .{n.func.attr}()"
        if isinstance(n, (ast.For, ast.comprehension)) and _is_ref(n.iter, name):
            return False, "its contents are iterated over"
        if isinstance(n, ast.Return) and n.value is not None and _is_ref(n.value, name):
            return False, "the table itself is returned"
    helpers = {n: g.node for n, g in f.module.functions.items()}
    kind, detail = classify(f.node, name, helpers)
    return kind == "complete", detail
