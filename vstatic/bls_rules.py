"""helpers shared by the ciphersuite rules"""
from __future__ import annotations

from .term import AnalysisError, Term, var, t_len, t_eq, atom_of, show, subterms
from .interp import enumerate_paths, Interp, Raised
from .ranges import interval_of_facts, normalise, cut_holes, show_set, INF
from .bls_model import Model, SUITES, CS, hp


def predicate_accept_set(M: Model, suite, meth, kind):
    """Enumerate the paths of a one-argument validation predicate on an
    untyped symbolic argument.  kind 'int': track the value itself, type test
    isinstance(v, int); kind 'bytes': track len(v), type test isinstance(v, bytes).
    Returns dict(accept=[intervals], type_required=bool, npaths, where, problems)."""
    cls = M.suite(suite)
    m = M.method(cls, meth)
    v = var("v", "any")
    tname = "int" if kind == "int" else "bytes"
    type_atom = Term("isinstance", (v, tname), "bool")
    X = v if kind == "int" else Term("len", (v,), "int")

    def run(it):
        recv = [] if (m.kind == "staticmethod" or m.cls is None) else [cls]
        r = it.call_func(m, recv + [v], {})
        return it.truth(r)          # force a decision on a returned boolean term

    # the key-validating override in the PoP suite calls KeyValidate; for the
    # *length* predicate we only need its own conjuncts, so KeyValidate is opaque here
    extra = {}
    kv = M.method(cls, "KeyValidate")
    extra[kv.qualname] = lambda it, f, args, kwargs, node: Term("KeyValidate", (hp(args[-1]),), "bool")
    summ = dict(M.summ)
    summ.update(extra)
    paths = enumerate_paths(M.world, run, summaries=summ, class_hooks=list(M.class_hooks))
    accept, problems = [], []
    type_required = True
    extra_required = set()
    for p in paths:
        if p.outcome == "raise":
            problems.append(f"predicate raises {p.value.clsname()} at {p.value.where}")
            continue
        if p.value is not True:
            continue
        facts = [(a, t) for a, t, _ in p.facts]
        lo, hi, holes, others = interval_of_facts(facts, X)
        has_type = False
        for a, t in others:
            if a is type_atom:
                if t:
                    has_type = True
                else:
                    problems.append("accepting path with negative type test")
            elif a.op == "KeyValidate" and t:
                extra_required.add("KeyValidate")
            elif a.op == "isinstance":
                problems.append(f"unexpected type test {show(a)}={t}")
            else:
                problems.append(f"unrecognised conjunct {show(a)}={t}")
        if not has_type:
            type_required = False
        if kind == "bytes":
            lo = max(lo, 0)
        accept.extend(cut_holes(lo, hi, holes))
    return {"accept": normalise(accept), "type_required": type_required, "npaths": len(paths),
            "where": m.where, "qual": m.qualname, "problems": problems, "extra": extra_required}


def has_fact(facts, atom, truth):
    if isinstance(atom, bool):
        return atom == truth
    a, pol = atom_of(atom)
    return a in facts and facts[a] == (truth == pol)


def len_gate(facts, x, n):
    """is `len(x) == n` established (or concretely true) for value x"""
    return has_fact(facts, t_eq(t_len(x), n), True)


def mentions(t, sub):
    return any(s is sub for s in subterms(t))
