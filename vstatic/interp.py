"""E0: abstract evaluator over the syntax tree (path-forking by replay).

The evaluator interprets the closed Python fragment that py_ecc uses, under
abstract semantics: concrete where the source is concrete, symbolic (Term or a
rule-supplied domain value) where a rule makes an input symbolic.  A branch the
facts/domain cannot decide forks; forks are explored by *replay*: every path is
a fresh evaluation driven by a decision prefix (no state copying).

No repository code is ever executed by CPython: function bodies are walked
node by node by this module.
"""
from __future__ import annotations

import ast
import os
import builtins as _b
import math
import operator

from .term import (AnalysisError, AbstractValue, Term, is_sym, t_concat, t_len, t_arith,
                   t_not, t_eq, t_cmp, atom_of, show, sort_of, var)
from .loader import Repo, FuncRef, ClassInfo, ModuleInfo, External
from . import fieldmodel
from .fieldmodel import FieldVal, NativeMethod

# ---------------------------------------------------------------------------
# control-flow signals and runtime objects
# ---------------------------------------------------------------------------


class ExcValue:
    def __init__(self, cls, args=(), where=None):
        self.cls, self.args, self.where = cls, tuple(args), where
        self.chain = []

    def clsname(self):
        c = self.cls
        if isinstance(c, External):
            return c.qual
        if isinstance(c, ClassInfo):
            return c.qualname
        if isinstance(c, type):
            return "builtins." + c.__name__
        return repr(c)

    def __repr__(self):
        return f"{self.clsname()}@{self.where}"


class Raised(Exception):
    def __init__(self, exc):
        self.exc = exc


class Infeasible(Exception):
    """the current replay does not correspond to an execution (e.g. the 'go round again' exit of a summarised loop)"""


class _Return(Exception):
    def __init__(self, value):
        self.value = value


class _Break(Exception):
    pass


class _Continue(Exception):
    pass


class Instance:
    """instance of a repository class whose body is interpreted"""

    def __init__(self, cls):
        self.cls = cls
        self.attrs = {}

    def __repr__(self):
        return f"<{self.cls.name} {({k: show(v) for k, v in self.attrs.items()})}>"


class BoundMethod:
    __slots__ = ("func", "recv")

    def __init__(self, func, recv):
        self.func, self.recv = func, recv

    def __repr__(self):
        return f"<bound {self.func.qualname}>"


class SuperProxy:
    __slots__ = ("start_after", "recv")

    def __init__(self, start_after, recv):
        self.start_after, self.recv = start_after, recv


class IdentityFn:
    def __init__(self, name):
        self.name = name

    def __repr__(self):
        return f"<identity {self.name}>"


class SymSeq(AbstractValue):
    """a symbolic sequence described by its generic element and its length"""
    __slots__ = ("name", "elem", "length", "src")
    sort = "seq"

    def __init__(self, name, elem, length, src=()):
        self.name, self.elem, self.length, self.src = name, elem, length, src

    def sym_len(self):
        return self.length

    def __repr__(self):
        return f"SymSeq({self.name})"

    def __deepcopy__(self, memo):
        return self


class SymMap(AbstractValue):
    """{k(e): v(e) for e in S} over a symbolic sequence: a mapping with one entry per *distinct* key — its values/keys/items are
    a different (deduplicated) sequence than S"""
    sort = "map"

    def __init__(self, name, key, value, src):
        self.name, self.key, self.value, self.src = name, key, value, src

    def v_getattr(self, attr, it):
        if attr in ("values", "keys", "items"):
            elem = {"values": self.value, "keys": self.key, "items": (self.key, self.value)}[attr]
            n = Term("len_distinct", (_hashable(self.key), _hashable(self.src)), "int")
            return lambda: SymSeq(f"{attr}({self.name})", elem, n, ("distinct", self.src))
        raise AnalysisError(f"attribute {attr} of a symbolic mapping")

    def sym_len(self):
        return Term("len_distinct", (_hashable(self.key), _hashable(self.src)), "int")

    def __repr__(self):
        return f"SymMap({self.name})"

    def __deepcopy__(self, memo):
        return self


class HashObj:
    """result of hash_function(data) / hmac.new(key, msg, fn)"""

    def __init__(self, fn, data, key=None):
        self.fn, self.data, self.key = fn, data, key


class DescriptorWrap:
    """staticmethod(f) / classmethod(f) used as a call"""

    def __init__(self, kind, fn):
        self.kind, self.fn = kind, fn

    def __deepcopy__(self, memo):
        return self


class LockObj:
    """threading.Lock() / RLock(): no effect on values"""

    def __deepcopy__(self, memo):
        return self


class IdentityDecorator:
    """functools.lru_cache(...) / cache used as a call: the wrapped function computes the same values"""

    def __deepcopy__(self, memo):
        return self


class HashFn:
    """a concrete, named hash function (hashlib.sha256 …)"""
    _sizes = {"sha256": (32, 64), "sha512": (64, 128), "sha384": (48, 128), "sha1": (20, 64),
              "sha224": (28, 64), "sha3_256": (32, 136), "sha3_512": (64, 72), "blake2b": (64, 128),
              "blake2s": (32, 64), "md5": (16, 64), "sha3_384": (48, 104), "sha3_224": (28, 144)}
    _cache: dict = {}

    def __new__(cls, name):
        h = cls._cache.get(name)
        if h is None:
            h = object.__new__(cls)
            h.name = name
            h.digest_size, h.block_size = cls._sizes[name]
            cls._cache[name] = h
        return h

    def __repr__(self):
        return self.name

    def __deepcopy__(self, memo):
        return self


class Frame:
    __slots__ = ("func", "module", "env", "cls_ctx", "first", "parent", "gen")

    def __init__(self, func, module, env, cls_ctx=None, first=None, parent=None):
        self.func, self.module, self.env, self.cls_ctx, self.first, self.parent = func, module, env, cls_ctx, first, parent
        self.gen = None


class Closure:
    """a nested function / lambda together with its defining frame (free variables are read from it)"""
    __slots__ = ("node", "frame", "name")

    def __init__(self, node, frame):
        self.node, self.frame = node, frame
        self.name = getattr(node, "name", "<lambda>")

    def __repr__(self):
        return f"<closure {self.name}>"


class Oracle:
    def __init__(self, prefix=()):
        self.prefix = list(prefix)
        self.trace = []        # (choice, info)

    def next(self, info):
        i = len(self.trace)
        c = self.prefix[i] if i < len(self.prefix) else True
        self.trace.append((c, info))
        return c


class StrictOracle(Oracle):
    """the oracle of an evaluator that is not driven by enumerate_paths: the walked code is expected to be straight-line
    on the symbolic inputs; a data-dependent branch there would silently be explored on one side only, so it is an
    analysis error instead"""

    def next(self, info):
        if os.environ.get("VERIF_LAX_ORACLE"):
            return super().next(info)
        raise AnalysisError(f"{info}: branch on a symbolic condition in code walked as straight-line (single evaluation, "
                            "no path enumeration)")


class Path:
    def __init__(self):
        self.outcome = None      # 'return' | 'raise'
        self.value = None
        self.facts = []          # (atom, truth, where)
        self.events = []
        self.decisions = []
        self.env = None

    def branch_lines(self):
        return [f"{w}:{'T' if c else 'F'}" for c, w in self.decisions]


class World:
    """state shared by all replays of one rule: repo + folded globals"""

    def __init__(self, repo: Repo):
        self.repo = repo
        self.global_cache = {}
        self.class_attr_cache = {}


_BUILTIN_EXC = {n: getattr(_b, n) for n in dir(_b)
                if isinstance(getattr(_b, n), type) and issubclass(getattr(_b, n), BaseException)}
EXTERNAL_EXC_BASES = {"eth_utils.ValidationError": "Exception"}


def exc_name(c):
    if isinstance(c, External):
        q = c.qual
        return q[len("builtins."):] if q.startswith("builtins.") else q
    if isinstance(c, type):
        return c.__name__
    if isinstance(c, ClassInfo):
        return c.qualname
    raise AnalysisError(f"not an exception class: {c!r}")


def exc_issubclass(a, b):
    """is exception class a (name) a subclass of b (name)"""
    an, bn = exc_name(a), exc_name(b)
    if an == bn:
        return True
    if an in EXTERNAL_EXC_BASES:
        an = EXTERNAL_EXC_BASES[an]
        if an == bn:
            return True
    if bn in EXTERNAL_EXC_BASES:
        return False
    if an in _BUILTIN_EXC and bn in _BUILTIN_EXC:
        return issubclass(_BUILTIN_EXC[an], _BUILTIN_EXC[bn])
    raise AnalysisError(f"unknown exception classes {an}, {bn}")


_BINOPS = {ast.Add: "add", ast.Sub: "sub", ast.Mult: "mul", ast.Div: "truediv", ast.FloorDiv: "floordiv",
           ast.Mod: "mod", ast.Pow: "pow", ast.LShift: "lshift", ast.RShift: "rshift", ast.BitAnd: "and",
           ast.BitOr: "or", ast.BitXor: "xor"}
_PYOP = {"add": operator.add, "sub": operator.sub, "mul": operator.mul, "truediv": operator.truediv,
         "floordiv": operator.floordiv, "mod": operator.mod, "pow": operator.pow,
         "lshift": operator.lshift, "rshift": operator.rshift, "and": operator.and_,
         "or": operator.or_, "xor": operator.xor}
_DUNDER = {"add": "__add__", "sub": "__sub__", "mul": "__mul__", "truediv": "__truediv__",
           "floordiv": "__floordiv__", "mod": "__mod__", "pow": "__pow__"}
_RDUNDER = {"add": "__radd__", "sub": "__rsub__", "mul": "__rmul__", "truediv": "__rtruediv__",
            "floordiv": "__rfloordiv__", "mod": "__rmod__", "pow": "__rpow__"}
_CMPOPS = {ast.Eq: "==", ast.NotEq: "!=", ast.Lt: "<", ast.LtE: "<=", ast.Gt: ">", ast.GtE: ">="}
_CMPDUNDER = {"==": "__eq__", "!=": "__ne__", "<": "__lt__", "<=": "__le__", ">": "__gt__", ">=": "__ge__"}
_CMPSWAP = {"==": "==", "!=": "!=", "<": ">", "<=": ">=", ">": "<", ">=": "<="}
_PYCMP = {"==": operator.eq, "!=": operator.ne, "<": operator.lt, "<=": operator.le,
          ">": operator.gt, ">=": operator.ge}


class Interp:
    def __init__(self, world: World, oracle: Oracle = None, summaries=None, class_hooks=None,
                 domain=None, fuel=3_000_000, native_fields=True, while_hooks=None,
                 attr_hooks=None, method_hooks=None, call_term_hook=None, loop_hooks=None,
                 int_bindings=None):
        self.world = world
        self.repo = world.repo
        self.oracle = oracle or StrictOracle()
        self.summaries = summaries or {}
        self.class_hooks = list(class_hooks or [])
        if native_fields:
            self.class_hooks.append(fieldmodel.make_field_value)
        self.native_fields = native_fields
        self.domain = domain
        self.fuel = fuel
        self.facts = {}
        self.fact_log = []
        self.events = []
        self.stack = []
        self.while_hooks = while_hooks or {}
        self.loop_hooks = loop_hooks or {}
        self.attr_hooks = attr_hooks or []
        self.method_hooks = method_hooks or {}
        self.call_term_hook = call_term_hook
        self.loop_counter = 0
        self.sym_loop_depth = 0
        self.int_bindings = int_bindings or {}     # case split: integer term -> concrete value
        self.cache_key = (native_fields, tuple(sorted(self.summaries)) if summaries else ())

    # ------------------------------------------------------------------ util
    def where(self, node=None):
        f = self.stack[-1] if self.stack else None
        if f is None:
            return "<toplevel>"
        ln = getattr(node, "lineno", "?")
        fn = f.func.qualname if f.func else f.module.name
        return f"{f.module.relpath}:{ln}({fn.rsplit('.', 1)[-1]})"

    def tick(self, n=1):
        self.fuel -= n
        if self.fuel < 0:
            raise AnalysisError("evaluation budget exhausted (unbounded loop/recursion in analysed region?)")

    def emit(self, kind, **data):
        data["kind"] = kind
        data["loop_depth"] = self.sym_loop_depth
        data.setdefault("where", self.where(data.pop("node", None)))
        self.events.append(data)

    def raise_exc(self, clsname, msg="", node=None):
        cls = External("builtins." + clsname) if "." not in clsname else External(clsname)
        e = ExcValue(cls, (msg,), self.where(node))
        raise Raised(e)

    # --------------------------------------------------------------- globals
    def eval_global(self, module: ModuleInfo, name, node=None):
        key = (module.name, name, self.cache_key)
        gc = self.world.global_cache
        if key in gc:
            v = gc[key]
            if v is _INPROGRESS:
                raise AnalysisError(f"cyclic global evaluation {module.name}.{name}")
            return v
        r = self.repo.resolve_binding(module, name)
        if r is None:
            if hasattr(_b, name):
                return External("builtins." + name)
            raise AnalysisError(f"{module.relpath}: unresolved name {name!r}")
        kind, payload = r
        if kind in ("func", "class", "module", "external"):
            v = payload
            if kind == "external":
                v = self.external_value(payload)
        elif kind == "typing":
            v = External("typing-only." + name)
        else:
            m2, value_node, idx, st = payload
            if name in m2.toplevel_touched:
                v = self.exec_toplevel_for(m2, name, st)
                gc[key] = v
                if isinstance(v, (dict, list, set, bytearray, HashObj)):
                    self.world.__dict__.setdefault("shared_objs", {})[id(v)] = (m2.name, name, v)
                return v
            gc[key] = _INPROGRESS
            saved = (self.stack, self.oracle)
            try:
                self.stack = []
                ntrace = len(self.oracle.trace)
                fr = Frame(None, m2, {})
                self.stack.append(fr)
                try:
                    v = self.eval(value_node, fr)
                except AnalysisError:
                    # import-time code runs as the package runs it: retry without the summaries / hooks of the analysis in
                    # progress (a table built by a helper that the analysis models abstractly)
                    hooks = {k: getattr(self, k) for k in ("summaries", "loop_hooks", "while_hooks") if getattr(self, k, None)}
                    if not hooks:
                        raise
                    try:
                        for k, hv in hooks.items():
                            setattr(self, k, type(hv)())
                        self.stack = [fr]
                        v = self.eval(value_node, fr)
                    finally:
                        for k, hv in hooks.items():
                            setattr(self, k, hv)
                if len(self.oracle.trace) != ntrace:
                    raise AnalysisError(f"module-level constant {m2.name}.{name} depends on a symbolic decision")
                self.stack, _ = saved
                if idx is not None:
                    v = self.index(v, idx, value_node)
            finally:
                self.stack = saved[0]
                if gc.get(key) is _INPROGRESS:
                    del gc[key]
        gc[key] = v
        if kind not in ("func", "class", "module", "external", "typing") and isinstance(v, (dict, list, set, bytearray, HashObj)):
            self.world.__dict__.setdefault("shared_objs", {})[id(v)] = (m2.name, name, v)
        return v

    def exec_toplevel_for(self, m2, name, defining):
        """value of a module-level name that module-level statements keep modifying after its definition (a table filled by
        a loop): the defining assignment and those statements are executed in source order, concretely — a symbolic decision
        or anything outside the fragment leaves it undecided"""
        key = (m2.name, name, self.cache_key)
        gc = self.world.global_cache
        gc[key] = _INPROGRESS
        saved = (self.stack, self.oracle)
        # import-time code runs as the package runs it: none of the summaries / hooks of the analysis in progress apply
        hooks = {k: getattr(self, k) for k in ("summaries", "loop_hooks", "while_hooks", "class_hooks") if hasattr(self, k)}
        try:
            for k, v in hooks.items():
                setattr(self, k, type(v)())
            self.stack = []
            ntrace = len(self.oracle.trace)
            fr = Frame(None, m2, {})
            self.stack.append(fr)
            todo = [st for st in m2.tree.body if st is defining or st in m2.toplevel_touching.get(name, ())]
            if defining not in todo:
                raise AnalysisError(f"{m2.relpath}: `{name}` is modified at module level but its definition was not found")
            try:
                for st in todo:
                    self.exec_stmt(st, fr)
            except (_Return, _Break, _Continue, Raised) as ex:
                raise AnalysisError(f"{m2.relpath}: module-level code for `{name}` does not run to completion ({type(ex).__name__})")
            if len(self.oracle.trace) != ntrace:
                raise AnalysisError(f"module-level value {m2.name}.{name} depends on a symbolic decision")
            if name not in fr.env:
                raise AnalysisError(f"{m2.relpath}: `{name}` not bound by its module-level statements")
            return fr.env[name]
        finally:
            for k, v in hooks.items():
                setattr(self, k, v)
            self.stack = saved[0]
            if gc.get(key) is _INPROGRESS:
                del gc[key]

    def external_value(self, ext: External):
        q = ext.qual
        if q.startswith("hashlib.") and q.split(".", 1)[1] in HashFn._sizes:
            return HashFn(q.split(".", 1)[1])
        if q in ("eth_typing.BLSPubkey", "eth_typing.BLSSignature"):
            return IdentityFn(q)
        return ext

    def class_attr(self, cls: ClassInfo, name, default=_b.NotImplemented, want_owner=False):
        key = (cls.qualname, id(cls), name, self.cache_key)
        cache = self.world.class_attr_cache
        if key in cache:
            r = cache[key]
            return r if want_owner else r[0]
        res = None
        for c in cls.mro(self.repo):
            if name in c.dyn_attrs:
                res = (c.dyn_attrs[name], c)
                break
            if name in c.methods:
                res = (c.methods[name], c)
                break
            if name in c.attr_nodes:
                saved = self.stack
                env = {}
                for nn in ast.walk(c.attr_nodes[name]):     # class-body scope: earlier class attributes
                    if isinstance(nn, ast.Name) and nn.id in c.attr_nodes and nn.id != name:
                        env[nn.id] = self.class_attr(c, nn.id)
                self.stack = [Frame(None, c.module, env)]
                try:
                    v = self.eval(c.attr_nodes[name], self.stack[0])
                finally:
                    self.stack = saved
                res = (v, c)
                if isinstance(v, (dict, list, set, bytearray, HashObj)):
                    self.world.__dict__.setdefault("shared_objs", {})[id(v)] = (c.module.name, name, v)
                break
        if res is None:
            if default is _b.NotImplemented:
                raise AnalysisError(f"class {cls.qualname} has no attribute {name!r}")
            return (default, None) if want_owner else default
        cache[key] = res
        return res if want_owner else res[0]

    def find_method(self, cls: ClassInfo, name, after=None):
        mro = cls.mro(self.repo)
        if after is not None:
            mro = mro[mro.index(after) + 1:]
        for c in mro:
            if name in c.methods:
                return c.methods[name]
            if name in c.attr_nodes:
                # `name = staticmethod(f)` / `name = f` in the class body
                v = self.class_attr(c, name, default=None)
                if isinstance(v, DescriptorWrap) and isinstance(v.fn, FuncRef):
                    return v.fn
                if isinstance(v, FuncRef):
                    return v
        return None

    def has_class_attr(self, cls, name):
        for c in cls.mro(self.repo):
            if name in c.dyn_attrs or name in c.methods or name in c.attr_nodes:
                return True
            if c.node is not None:
                for st in c.node.body:      # bare annotations do not create attributes
                    pass
        return False

    # ----------------------------------------------------------------- calls
    def call(self, fn, args, kwargs=None, node=None):
        kwargs = kwargs or {}
        self.tick()
        if isinstance(fn, IdentityDecorator):
            if len(args) != 1 or kwargs:
                raise AnalysisError(f"{self.where(node)}: memoising decorator applied to {len(args)} arguments")
            return args[0]
        if isinstance(fn, FuncRef):
            return self.call_func(fn, args, kwargs, node)
        if isinstance(fn, BoundMethod):
            return self.call_func(fn.func, [fn.recv] + list(args), kwargs, node)
        if isinstance(fn, ClassInfo):
            return self.instantiate(fn, args, kwargs, node)
        if isinstance(fn, External):
            return self.call_external(fn, args, kwargs, node)
        if isinstance(fn, Closure):
            return self.call_closure(fn, args, kwargs, node)
        if isinstance(fn, IdentityFn):
            return args[0]
        if isinstance(fn, HashFn) or (isinstance(fn, Term) and fn.sort == "hashfn"):
            return HashObj(fn, args[0] if args else b"")
        if isinstance(fn, Term):
            if self.call_term_hook:
                r = self.call_term_hook(self, fn, args, kwargs)
                if r is not NotImplemented:
                    return r
            raise AnalysisError(f"{self.where(node)}: call of symbolic value {fn!r}")
        if isinstance(fn, (NativeMethod, _BuiltinMethod)) or callable(fn):
            return fn(*args, **kwargs)
        raise AnalysisError(f"{self.where(node)}: cannot call {fn!r}")

    def call_func(self, f: FuncRef, args, kwargs, node=None):
        s = self.summaries.get(f.qualname)
        if s is None and self.summaries:
            for al in self.repo.aliases_of(f.qualname):      # a summary keyed by a name the function is re-exported under
                if al in self.summaries:
                    s = self.summaries[al]
                    break
        if s is not None:
            r = s(self, f, list(args), dict(kwargs), node)
            if r is not NotImplemented:
                return r
        s = self.summaries.get("*")
        if s is not None:
            r = s(self, f, list(args), dict(kwargs), node)
            if r is not NotImplemented:
                return r
        if len(self.stack) > 400:
            raise AnalysisError(f"call depth exceeded at {f.qualname}")
        # bind parameters
        a = f.node.args
        if a.kwarg:
            raise AnalysisError(f"{f.where}: **kwargs parameter outside the fragment")
        params = [x.arg for x in a.posonlyargs + a.args]
        extra_pos = ()
        if len(args) > len(params):
            if not a.vararg:
                raise AnalysisError(f"{self.where(node)}: too many arguments for {f.qualname}")
            extra_pos = tuple(args[len(params):])
        env = dict(zip(params, args))
        if a.vararg:
            env[a.vararg.arg] = extra_pos
        kwonly = [x.arg for x in a.kwonlyargs]
        for k, v in kwargs.items():
            if (k not in params and k not in kwonly) or k in env:
                raise AnalysisError(f"{self.where(node)}: bad keyword {k} for {f.qualname}")
            env[k] = v
        for x, dn in zip(a.kwonlyargs, a.kw_defaults):
            if x.arg not in env:
                if dn is None:
                    raise AnalysisError(f"{self.where(node)}: missing keyword-only argument {x.arg} for {f.qualname}")
                env[x.arg] = self.eval(dn, Frame(None, f.module, {}))
        defaults = a.defaults
        for i, dn in enumerate(defaults):
            p = params[len(params) - len(defaults) + i]
            if p not in env:
                fr0 = Frame(None, f.module, {})
                env[p] = self.eval(dn, fr0)
        missing = [p for p in params if p not in env]
        if missing:
            raise AnalysisError(f"{self.where(node)}: missing arguments {missing} for {f.qualname}")
        fr = Frame(f, f.module, env, f.cls, args[0] if args and f.kind != "staticmethod" and f.cls else None)
        if _is_generator(f.node):
            # a generator function is run to exhaustion (its loops must be concrete); what it raises is kept and re-raised
            # only by a consumer that runs past the last item
            fr.gen = GenItems()
            self.stack.append(fr)
            try:
                self.exec_block(f.node.body, fr)
            except _Return:
                pass
            except Raised as ex:
                fr.gen.exc = ex.exc
            finally:
                self.stack.pop()
            return fr.gen
        self.stack.append(fr)
        try:
            self.exec_block(f.node.body, fr)
            return None
        except _Return as r:
            v = r.value
            if f.node.decorator_list and isinstance(v, (dict, list, set, bytearray, HashObj)):
                from .effects import is_memoised
                if is_memoised(f):
                    # one object per argument tuple, handed to every caller: shared state
                    self.world.__dict__.setdefault("shared_objs", {})[id(v)] = (f.module.name, f"{f.node.name}(…) [memoised result]", v)
            return v
        finally:
            self.stack.pop()

    def call_closure(self, c, args, kwargs, node=None):
        a = c.node.args
        if a.vararg or a.kwarg or a.kwonlyargs:
            raise AnalysisError(f"{self.where(node)}: star-parameters are outside the fragment")
        params = [x.arg for x in a.posonlyargs + a.args]
        if len(args) > len(params):
            raise AnalysisError(f"{self.where(node)}: too many arguments for {c.name}")
        env = dict(zip(params, args))
        for k, v in kwargs.items():
            if k not in params or k in env:
                raise AnalysisError(f"{self.where(node)}: bad keyword {k} for {c.name}")
            env[k] = v
        for i, dn in enumerate(a.defaults):
            pn = params[len(params) - len(a.defaults) + i]
            if pn not in env:
                env[pn] = self.eval(dn, c.frame)
        if [pn for pn in params if pn not in env]:
            raise AnalysisError(f"{self.where(node)}: missing arguments for {c.name}")
        pf = c.frame
        fr = Frame(pf.func, pf.module, env, pf.cls_ctx, pf.first, parent=pf)
        self.stack.append(fr)
        try:
            if isinstance(c.node, ast.Lambda):
                return self.eval(c.node.body, fr)
            self.exec_block(c.node.body, fr)
            return None
        except _Return as r:
            return r.value
        finally:
            self.stack.pop()

    def instantiate(self, cls: ClassInfo, args, kwargs, node=None):
        for h in self.class_hooks:
            r = h(self, cls, list(args), dict(kwargs))
            if r is not NotImplemented:
                return r
        if len(args) == 1 and not kwargs:
            # FQ2(x.coeffs) for an opaque field-valued term x: the element itself (a copy with equal coefficients)
            a0 = args[0]
            src = None
            if isinstance(a0, Term) and a0.op == "attr" and a0.args[1] == "coeffs" and isinstance(a0.args[0], Term):
                src = a0.args[0]
            elif isinstance(a0, (tuple, list)) and a0 and all(isinstance(c, Term) and c.op == "coeff" and c.args[1] == i and
                                                             c.args[0] is a0[0].args[0] for i, c in enumerate(a0)):
                src = a0[0].args[0]
            if src is not None and getattr(src, "sort", None) in ("field", "any"):
                from .fieldmodel import field_kind
                k = field_kind(cls, self.repo)
                if k is not None and k[0] == "FQP":
                    return src
        inst = Instance(cls)
        init = self.find_method(cls, "__init__")
        if init is not None:
            self.call_func(init, [inst] + list(args), kwargs, node)
        elif args or kwargs:
            raise AnalysisError(f"{self.where(node)}: {cls.qualname}() takes no arguments")
        return inst

    def bind(self, member, recv, cls):
        """descriptor protocol for an attribute found on a class"""
        if isinstance(member, DescriptorWrap):
            # `name = staticmethod(f)` / `classmethod(f)` in a class body
            if member.kind == "staticmethod":
                return member.fn
            return BoundMethod(member.fn, cls) if isinstance(member.fn, FuncRef) else member.fn
        if isinstance(member, FuncRef):
            if member.kind == "staticmethod":
                return member
            if member.kind == "classmethod":
                return BoundMethod(member, cls)
            if member.kind in ("cached_property", "property"):
                if recv is None:
                    return member
                return self.call_func(member, [recv], {})
            if recv is None:
                return member
            return BoundMethod(member, recv)
        return member

    # ------------------------------------------------------------ attributes
    def getattr(self, obj, name, node=None):
        for h in self.attr_hooks:
            r = h(self, obj, name)
            if r is not NotImplemented:
                return r
        if isinstance(obj, FuncRef) and name == "__wrapped__" and obj.node.decorator_list:
            return obj                # functools wrappers expose the undecorated function; decorators are transparent here
        if isinstance(obj, Instance):
            if name in obj.attrs:
                return obj.attrs[name]
            if name == "__class__":
                return obj.cls
            m = self.class_attr(obj.cls, name, default=_MISSING)
            if m is _MISSING:
                raise AnalysisError(f"{self.where(node)}: {obj.cls.qualname} instance has no attribute {name}")
            return self.bind(m, obj, obj.cls)
        if isinstance(obj, ClassInfo):
            ov = getattr(self, "class_overlay", None)
            if ov and (obj.qualname, name) in ov:
                return ov[(obj.qualname, name)]
            if name == "__dict__":
                return _ClassDict(obj)
            m = self.class_attr(obj, name, default=_MISSING)
            if m is _MISSING:
                if name in ("__name__", "__qualname__"):
                    return obj.name
                if name == "__new__":
                    return _BuiltinMethod(self, "object.__new__", obj)      # allocation without __init__
                if self.facts.get(Term("dict_has", (f"classdict:{obj.qualname}", name), "bool")) is True:
                    # attribute created at run time by an earlier call (state): an unknown mutable object
                    return self.class_state_object(obj, name)
                raise AnalysisError(f"{self.where(node)}: class {obj.qualname} has no attribute {name}")
            return self.bind(m, None, obj)
        if isinstance(obj, _ClassDict) and name == "get":
            def _get(key, default=None, _cd=obj):
                if is_sym(key) or not isinstance(key, str):
                    raise AnalysisError(f"{self.where(node)}: cls.__dict__.get with a computed name")
                has = self.contains(_cd, key, node)
                if not self.truth(has, node):
                    return default
                return self.getattr(_cd.cls, key, node)
            return _get
        if isinstance(obj, SuperProxy):
            recv = obj.recv
            cls = recv if isinstance(recv, ClassInfo) else recv.cls
            m = self.find_method(cls, name, after=obj.start_after)
            if m is None:
                raise AnalysisError(f"{self.where(node)}: super() has no {name}")
            return self.bind(m, None if isinstance(recv, ClassInfo) else recv, cls)
        if isinstance(obj, ModuleInfo):
            return self.eval_global(obj, name, node)
        if isinstance(obj, FieldVal):
            return obj.v_getattr(name, self)
        if isinstance(obj, External):
            return self.external_value(External(f"{obj.qual}.{name}"))
        if isinstance(obj, HashObj):
            if name == "digest":
                return _BuiltinMethod(self, "hash.digest", obj)
            if name == "digest_size":
                from .term import t_digest_size
                return t_digest_size(obj.fn)
            if name == "block_size":
                from .term import t_block_size
                return t_block_size(obj.fn)
            if name in ("update", "copy", "hexdigest"):
                return _BuiltinMethod(self, "hash." + name, obj)
            if name == "name":
                return Term("hash_name", (_hashable(obj.fn),), "str")
        from .builtins_model import StructObj
        if isinstance(obj, StructObj) and name == "pack":
            return _BuiltinMethod(self, "struct.pack_method", obj)
        if isinstance(obj, HashFn) and name in ("digest_size", "block_size"):
            return getattr(obj, name)
        if isinstance(obj, Term):
            return self.term_getattr(obj, name, node)
        if hasattr(obj, "v_getattr"):
            return obj.v_getattr(name, self)
        if isinstance(obj, (list, bytearray, bytes, tuple, dict, int, str, set)):
            return _BuiltinMethod(self, f"{type(obj).__name__}.{name}", obj)
        if isinstance(obj, AbstractValue):
            try:
                return _b.getattr(obj, name)
            except AttributeError:
                pass
        raise AnalysisError(f"{self.where(node)}: attribute {name} of {obj!r}")

    def term_getattr(self, t: Term, name, node):
        if t.sort == "bytes" or t.sort == "int":
            return _BuiltinMethod(self, f"{t.sort}.{name}", t)
        if name in ("one", "zero"):
            return _BuiltinMethod(self, f"field.{name}", t)
        if name == "n":
            return Term("attr", (t, "n"), "int")
        if name == "coeffs":
            # when the path has established the exact extension class, the coefficient tuple has its degree
            for a, tv in self.facts.items():
                if tv is True and isinstance(a, Term) and a.op == "type_is" and a.args[0] is t and isinstance(a.args[1], str):
                    try:
                        cls = self.repo.cls(a.args[1])
                        deg = self.class_attr(cls, "degree", default=None)
                    except AnalysisError:
                        deg = None
                    if isinstance(deg, int) and 0 < deg <= 12:
                        return tuple(Term("coeff", (t, i), "int") for i in range(deg))
            return Term("attr", (t, "coeffs"), "seq")
        if name == "sgn0":
            return Term("attr", (t, "sgn0"), "int")
        if name == "__class__":
            return Term("type", (t,), "any")
        raise AnalysisError(f"{self.where(node)}: attribute {name} of symbolic {t!r}")

    def setattr(self, obj, name, value, node=None):
        if isinstance(obj, Instance):
            obj.attrs[name] = value
            return
        if isinstance(obj, ClassInfo):
            # run-time store to a class attribute: shared state; visible to the rest of this path only
            if not hasattr(self, "class_overlay"):
                self.class_overlay = {}
            self.class_overlay[(obj.qualname, name)] = value
            if isinstance(value, dict):
                self.shared_name(value)
            self.emit("shared_store", target=f"{obj.qualname}.{name}", key=None, node=node)
            return
        raise AnalysisError(f"{self.where(node)}: attribute store on {obj!r}")

    # ------------------------------------------------------------ statements
    def exec_block(self, body, fr):
        for st in body:
            self.exec_stmt(st, fr)

    def exec_stmt(self, st, fr):
        self.tick()
        t = type(st)
        if t is ast.Expr:
            if isinstance(st.value, ast.Constant):
                return
            self.eval(st.value, fr)
        elif t is ast.Assign:
            v = self.eval(st.value, fr)
            for tg in st.targets:
                self.assign(tg, v, fr)
        elif t is ast.AnnAssign:
            if st.value is not None:
                self.assign(st.target, self.eval(st.value, fr), fr)
        elif t is ast.AugAssign:
            self.exec_augassign(st, fr)
        elif t is ast.Return:
            raise _Return(self.eval(st.value, fr) if st.value is not None else None)
        elif t is ast.With:
            # only mutual-exclusion locks: entering and leaving them has no effect on values
            for item in st.items:
                cm = self.eval(item.context_expr, fr)
                if not (isinstance(cm, LockObj) and item.optional_vars is None):
                    raise AnalysisError(f"{self.where(st)}: with-statement on {cm!r} outside the fragment")
            self.exec_block(st.body, fr)
        elif t is ast.If:
            if self.truth(self.eval(st.test, fr), st.test):
                self.exec_block(st.body, fr)
            else:
                self.exec_block(st.orelse, fr)
        elif t is ast.For:
            self.exec_for(st, fr)
        elif t is ast.While:
            self.exec_while(st, fr)
        elif t is ast.Raise:
            self.exec_raise(st, fr)
        elif t is ast.Try:
            self.exec_try(st, fr)
        elif t is ast.Pass:
            return
        elif t is ast.Break:
            raise _Break()
        elif t is ast.Continue:
            raise _Continue()
        elif t is ast.Assert:
            if not self.truth(self.eval(st.test, fr), st.test):
                self.raise_exc("AssertionError", "assertion failed", st)
        elif t is ast.FunctionDef:
            if st.decorator_list:
                raise AnalysisError(f"{self.where(st)}: decorated nested function outside the fragment")
            for nn in ast.walk(st):
                if isinstance(nn, (ast.Nonlocal, ast.Global, ast.Yield, ast.YieldFrom)):
                    raise AnalysisError(f"{self.where(st)}: nonlocal/global/yield in a nested function outside the fragment")
            fr.env[st.name] = Closure(st, fr)
        elif t in (ast.Import, ast.ImportFrom):
            raise AnalysisError(f"{self.where(st)}: import inside function")
        else:
            raise AnalysisError(f"{self.where(st)}: statement {t.__name__} outside the fragment")

    def exec_raise(self, st, fr):
        if st.exc is None or st.cause is not None:
            raise AnalysisError(f"{self.where(st)}: bare raise / raise-from outside the fragment")
        v = self.eval(st.exc, fr)
        if isinstance(v, ExcValue):
            if v.where is None:
                v.where = self.where(st)
            raise Raised(v)
        if isinstance(v, (External, ClassInfo)):
            raise Raised(ExcValue(v, (), self.where(st)))
        raise AnalysisError(f"{self.where(st)}: raise of non-exception {v!r}")

    def exec_try(self, st, fr):
        if st.finalbody:
            try:
                self._exec_try_core(st, fr)
            finally:
                # the finally block runs on every exit (a control-flow signal raised inside it replaces the pending one, as in CPython)
                self.exec_block(st.finalbody, fr)
            return
        self._exec_try_core(st, fr)

    def _exec_try_core(self, st, fr):
        try:
            self.exec_block(st.body, fr)
        except Raised as r:
            for h in st.handlers:
                if h.type is None:
                    match = True
                else:
                    hv = self.eval(h.type, fr)
                    classes = hv if isinstance(hv, tuple) else (hv,)
                    match = any(exc_issubclass(r.exc.cls, c) for c in classes)
                if match:
                    r.exc.chain.append(("caught", self.where(h)))
                    if h.name:
                        fr.env[h.name] = r.exc
                    self.emit("caught", exc=r.exc.clsname(), raised_at=r.exc.where, node=h)
                    self.exec_block(h.body, fr)
                    return
            raise
        else:
            self.exec_block(st.orelse, fr)

    def exec_augassign(self, st, fr):
        op = _BINOPS[type(st.op)]
        tg = st.target
        if isinstance(tg, ast.Name):
            cur = self.lookup(tg.id, fr, tg)
            val = self.eval(st.value, fr)
            if isinstance(cur, list) and op == "add":
                cur.extend(self.iter_concrete(val, st))
                return
            fr.env[tg.id] = self.binop(op, cur, val, st)
        elif isinstance(tg, ast.Subscript):
            base = self.eval(tg.value, fr)
            idx = self.eval_index(tg.slice, fr)
            cur = self.index(base, idx, tg)
            val = self.eval(st.value, fr)
            self.store_index(base, idx, self.binop(op, cur, val, st), tg)
        elif isinstance(tg, ast.Attribute):
            obj = self.eval(tg.value, fr)
            cur = self.getattr(obj, tg.attr, tg)
            val = self.eval(st.value, fr)
            self.setattr(obj, tg.attr, self.binop(op, cur, val, st), tg)
        else:
            raise AnalysisError(f"{self.where(st)}: augmented assignment target")

    def assign(self, tg, v, fr):
        if isinstance(tg, ast.Name):
            fr.env[tg.id] = v
        elif isinstance(tg, (ast.Tuple, ast.List)):
            n = len(tg.elts)
            items = self.unpack(v, n, tg)
            for e, x in zip(tg.elts, items):
                self.assign(e, x, fr)
        elif isinstance(tg, ast.Subscript):
            base = self.eval(tg.value, fr)
            idx = self.eval_index(tg.slice, fr)
            self.store_index(base, idx, v, tg)
        elif isinstance(tg, ast.Attribute):
            self.setattr(self.eval(tg.value, fr), tg.attr, v, tg)
        else:
            raise AnalysisError(f"{self.where(tg)}: assignment target {type(tg).__name__}")

    def unpack(self, v, n, node):
        if isinstance(v, (tuple, list)):
            if len(v) != n:
                self.raise_exc("ValueError", "unpack length mismatch", node)
            return list(v)
        if hasattr(v, "v_unpack"):
            return v.v_unpack(n, self)
        if isinstance(v, SymSeq):
            # exactly n elements, else ValueError
            if not self.truth(self.compare(ast.Eq(), v.length, n, node), node):
                self.raise_exc("ValueError", "unpack length mismatch", node)
            e = v.elem
            sort = e.sort if isinstance(e, Term) else "any"
            return [Term("at", (_hashable(e), v.name, i), sort) for i in range(n)]
        if isinstance(v, Term):
            if v.op == "tuple":
                if len(v.args) != n:
                    self.raise_exc("ValueError", "unpack length mismatch", node)
                return list(v.args)
            sorts = _item_sorts(v, n)
            return [Term("item", (v, i), sorts[i]) for i in range(n)]
        if isinstance(v, FieldVal):
            raise AnalysisError(f"{self.where(node)}: unpack of field value")
        raise AnalysisError(f"{self.where(node)}: cannot unpack {v!r}")

    def shared_read(self, obj, key, node, how):
        """a keyed read of a container: returns 'plain' (not shared state / never written by a function), 'miss'
        (key-complete memo: the miss path is the whole behaviour), or 'fork' (contents unknown); raises
        HistoryDependence when the key does not determine the stored value"""
        from . import memo
        from .term import HistoryDependence, SHARED_SEEN
        so = self.world.__dict__.get("shared_objs", {}).get(id(obj))
        if so is None or so[2] is not obj:
            return "plain"
        mod, name, _ = so
        fr = next((f for f in reversed(self.stack) if f.func is not None), None)
        if id(obj) in self.world.__dict__.get("class_state_objs", {}):
            # run-time class state: the reader knows it under a local name
            if fr is None:
                return "fork"
            local = [k for k, v in fr.env.items() if v is obj]
            if not local:
                return "fork"
            writers = [(fr.func.qualname, fr.func.node.lineno, "")]
            lname = local[0]
        else:
            writers = memo.written_shared_names(self.repo).get((mod, name))
            lname = name
        if not writers:
            return "plain"
        if fr is None:
            return "plain"
        kind, detail = memo.classify(fr.func.node, lname, {n: g.node for n, g in fr.func.module.functions.items()})
        if node is None:
            node = memo.first_read(fr.func.node, name)
        where = self.where(node)
        SHARED_SEEN[(mod, name, fr.func.qualname)] = (kind, detail, where)
        if kind == "history":
            raise HistoryDependence(fr.func.qualname, f"{mod}.{name}", f"{how}: {detail}; written at " +
                                    ", ".join(f"{q.rsplit('.', 1)[-1]}:{ln}" for q, ln, _h in writers[:3]), where)
        if kind == "complete":
            return "miss"
        return "fork"

    def class_state_object(self, cls, name):
        """the mutable object an earlier call stored on a class (setattr / cls.__dict__): contents unknown, one object per
        (class, attribute) and walk; keyed reads of it go through the memo classifier under the local name it is bound to"""
        reg = self.world.__dict__.setdefault("class_state", {})
        key = (cls.qualname, name, id(self))
        if key not in reg:
            d = {}
            reg[key] = d
            self.shared_name(d)
            self.world.__dict__.setdefault("shared_objs", {})[id(d)] = (cls.module.name, f"{cls.name}.{name}", d)
            self.world.__dict__.setdefault("class_state_objs", {})[id(d)] = d
        return reg[key]

    def shared_name(self, obj):
        reg = self.world.__dict__.setdefault("shared_names", {})
        if id(obj) not in reg:
            reg[id(obj)] = (f"mapping#{len(reg) + 1}", obj)
        return reg[id(obj)][0]

    def store_index(self, base, idx, v, node):
        if isinstance(base, dict) and _has_abstract(idx):
            self.emit("shared_store", target=self.shared_name(base), key=_hashable(idx), node=node)
            return
        if isinstance(base, (list, dict, bytearray)) and not is_sym(idx):
            try:
                base[idx] = v
            except (IndexError, KeyError):
                self.raise_exc("IndexError", "store index", node)
            return
        raise AnalysisError(f"{self.where(node)}: subscript store on {type(base).__name__} with index {idx!r}")

    # ----------------------------------------------------------------- loops
    def iter_concrete(self, it, node):
        if isinstance(it, (list, tuple, range, bytes, bytearray, dict, _ConcreteIter)):
            return list(it)
        if isinstance(it, (set, frozenset)):
            raise AnalysisError(f"{self.where(node)}: iteration over a set (order-dependent)")
        raise AnalysisError(f"{self.where(node)}: iteration over {it!r}")

    def exec_for(self, st, fr):
        it = self.eval(st.iter, fr)
        if is_sym(it):
            if st.orelse:
                raise AnalysisError(f"{self.where(st)}: for/else over a symbolic sequence outside the fragment")
            return self.exec_sym_for(st, it, fr)
        items = self.iter_concrete(it, st)
        chook = self.loop_hooks.get("concrete")
        if chook is not None and not st.orelse:
            r = chook(self, st, items, fr)
            if r is not NotImplemented:
                return r
        broke = False
        for x in items:
            self.assign(st.target, x, fr)
            try:
                self.exec_block(st.body, fr)
            except _Break:
                broke = True
                break
            except _Continue:
                continue
        if not broke and getattr(it, "exc", None) is not None:
            raise Raised(it.exc)
        if st.orelse and not broke:
            self.exec_block(st.orelse, fr)

    def e_Yield(self, e, fr):
        f = fr
        while f is not None and f.gen is None:
            f = f.parent
        if f is None:
            raise AnalysisError(f"{self.where(e)}: yield outside a generator function")
        f.gen.append(self.eval(e.value, fr) if e.value is not None else None)
        return None

    def generic_elem(self, it, node):
        if isinstance(it, SymSeq):
            return it.elem
        if isinstance(it, Term):
            if it.sort == "bytes":
                return Term("elem", (it,), "int")
            if it.sort == "seq":
                return Term("elem", (it,), "any")
        raise AnalysisError(f"{self.where(node)}: iteration over symbolic {it!r}")

    def exec_sym_for(self, st, it, fr):
        """generic-iteration summary of a loop over a symbolic sequence"""
        hook = self.loop_hooks.get((fr.func.qualname if fr.func else None, st.lineno)) \
            or self.loop_hooks.get("*")
        if hook is not None:
            r = hook(self, st, it, fr)
            if r is not NotImplemented:
                return r
        self.loop_counter += 1
        lid = f"L{self.loop_counter}@{self.where(st)}"
        elem = self.generic_elem(it, st)
        if isinstance(it, SymSeq) and isinstance(it.src, tuple) and len(it.src) == 2 and it.src[0] == "map":
            it = it.src[1]              # an element-wise image (map): the loop ranges over the underlying sequence
        assigned = _assigned_names(st.body)
        targets = _assigned_names_target(st.target)
        carried = {}
        for nm in assigned:
            if nm in fr.env and nm not in targets:
                acc = Term("acc", (lid, nm), sort_of(fr.env[nm]))
                carried[nm] = (fr.env[nm], acc)
                fr.env[nm] = acc
        self.assign(st.target, elem, fr)
        self.emit("loop_enter", loop=lid, seq=it, node=st)
        self.sym_loop_depth += 1
        try:
            self.exec_block(st.body, fr)
        except (_Break, _Continue):
            raise AnalysisError(f"{self.where(st)}: break/continue in a loop over a symbolic sequence")
        finally:
            self.sym_loop_depth -= 1
        # normal completion of the generic iteration
        folds = {}
        for nm, (init, acc) in carried.items():
            new = fr.env.get(nm)
            if new is acc:
                fr.env[nm] = init           # not modified on this path
            else:
                if isinstance(new, (list, dict, Instance)):
                    raise AnalysisError(f"{self.where(st)}: loop-carried mutable {nm}")
                f = Fold(lid, nm, init, new, acc, it)
                fr.env[nm] = f
                folds[nm] = f
        for nm in assigned - set(carried):
            fr.env[nm] = Term("after_loop", (lid, nm), "any")
        for nm in targets:
            fr.env[nm] = Term("after_loop", (lid, nm), "any")
        self.emit("loop_exit", loop=lid, seq=it, folds=folds, node=st)

    def exec_while(self, st, fr):
        key = (fr.func.qualname if fr.func else None)
        hook = self.while_hooks.get(key) or self.while_hooks.get("*")
        if hook is not None:
            r = hook(self, st, fr)
            if r is not NotImplemented:
                return r
        if st.orelse:
            raise AnalysisError(f"{self.where(st)}: while/else outside the fragment")
        n = 0
        nsym = 0
        while True:
            c = self.eval(st.test, fr)
            if is_sym(c) or (isinstance(c, Instance)):
                raise AnalysisError(f"{self.where(st)}: while loop with symbolic condition {c!r} and no invariant rule")
            if not self.truth(c, st.test):
                break
            n += 1
            if n > 200000:
                raise AnalysisError(f"{self.where(st)}: while loop does not terminate within bound")
            ntr = len(self.oracle.trace)
            if nsym > 24:
                # `while True:` (or a concrete test) whose rounds keep branching on symbolic values: the exit depends on the
                # input and there is no invariant rule — unrolling it would never end
                raise AnalysisError(f"{self.where(st)}: loop that keeps branching on symbolic values with no invariant rule")
            try:
                self.exec_block(st.body, fr)
                if len(self.oracle.trace) != ntr:
                    nsym += 1
            except _Break:
                break
            except _Continue:
                continue

    # ----------------------------------------------------------- expressions
    def lookup(self, name, fr, node=None):
        f = fr
        while f is not None:
            if name in f.env:
                v = f.env[name]
                if isinstance(v, Term) and v.sort == "bool":
                    return self.concretize(v)
                return v
            f = f.parent
        return self.eval_global(fr.module, name, node)

    def e_Lambda(self, e, fr):
        return Closure(e, fr)

    def e_NamedExpr(self, e, fr):
        v = self.eval(e.value, fr)
        self.assign(e.target, v, fr)
        return v

    def e_SetComp(self, e, fr):
        r = self.comprehension(e, fr)
        if isinstance(r, list):
            if any(is_sym(x) for x in r):
                raise AnalysisError(f"{self.where(e)}: set of symbolic values")
            return set(r)
        raise AnalysisError(f"{self.where(e)}: set comprehension over a symbolic sequence")

    def e_Set(self, e, fr):
        vals = [self.eval(x, fr) for x in e.elts]
        if any(is_sym(x) for x in vals):
            raise AnalysisError(f"{self.where(e)}: set of symbolic values")
        return set(vals)

    def concretize(self, v):
        """a boolean term whose atom is already decided on this path becomes a
        concrete bool"""
        if isinstance(v, Term) and v.sort == "bool":
            atom, pol = atom_of(v)
            if atom in self.facts:
                return self.facts[atom] == pol
        return v

    def eval(self, e, fr):
        self.tick()
        m = getattr(self, "e_" + type(e).__name__, None)
        if m is None:
            raise AnalysisError(f"{self.where(e)}: expression {type(e).__name__} outside the fragment")
        return m(e, fr)

    def e_Constant(self, e, fr):
        return e.value

    def e_Name(self, e, fr):
        return self.lookup(e.id, fr, e)

    def e_JoinedStr(self, e, fr):
        # f-strings are mostly error messages; one built from concrete str/int pieces only (an attribute name, …) is folded
        parts = []
        for v in e.values:
            if isinstance(v, ast.Constant) and isinstance(v.value, str):
                parts.append(v.value)
            elif isinstance(v, ast.FormattedValue) and v.conversion == -1 and v.format_spec is None \
                    and isinstance(v.value, (ast.Name, ast.Constant)):
                try:
                    x = self.eval(v.value, fr)
                except AnalysisError:
                    return "<f-string>"
                if isinstance(x, (str, int)) and not isinstance(x, bool):
                    parts.append(str(x))
                else:
                    return "<f-string>"
            else:
                return "<f-string>"
        return "".join(parts)

    def _display(self, e, fr):
        out = []
        for x in e.elts:
            if isinstance(x, ast.Starred):
                v = self.eval(x.value, fr)
                if isinstance(v, Term) and v.op == "tuple":
                    out.extend(v.args)
                elif is_sym(v):
                    out.append(Term("star", (_hashable(v),), "any"))
                else:
                    out.extend(self.iter_concrete(v, x))
            else:
                out.append(self.eval(x, fr))
        return out

    def e_Tuple(self, e, fr):
        out = tuple(self._display(e, fr))
        if len(out) == 3 and all(isinstance(x, Term) and x.op == "item" and x.args[1] == i for i, x in enumerate(out)):
            base = out[0].args[0]
            if all(x.args[0] is base for x in out) and isinstance(base, Term) and base.sort == "point":
                return base              # (P[0], P[1], P[2]) of an opaque projective point is that point (an equal tuple)
        return out

    def e_List(self, e, fr):
        return self._display(e, fr)

    def e_Dict(self, e, fr):
        return {self.eval(k, fr): self.eval(v, fr) for k, v in zip(e.keys, e.values)}

    def e_Attribute(self, e, fr):
        return self.getattr(self.eval(e.value, fr), e.attr, e)

    def e_UnaryOp(self, e, fr):
        v = self.eval(e.operand, fr)
        if isinstance(e.op, ast.Not):
            return self.logical_not(v, e)
        if isinstance(e.op, ast.USub):
            return self.neg(v, e)
        if isinstance(e.op, ast.UAdd):
            return v
        raise AnalysisError(f"{self.where(e)}: unary {type(e.op).__name__}")

    def logical_not(self, v, node):
        if not is_sym(v) and not isinstance(v, (Instance, FieldVal)):
            return not v
        c = self.as_cond(v, node)
        if hasattr(c, "negate"):
            return c.negate()
        return t_not(c)

    def neg(self, v, node):
        if isinstance(v, Instance):
            m = self.find_method(v.cls, "__neg__")
            if m is None:
                raise AnalysisError(f"{self.where(node)}: no __neg__ on {v.cls.qualname}")
            return self.call_func(m, [v], {}, node)
        if isinstance(v, Term):
            if v.sort in ("int", "bool"):
                return t_arith("sub", 0, v)
            return Term("neg", (v,), v.sort)
        return -v

    def e_BinOp(self, e, fr):
        a = self.eval(e.left, fr)
        b = self.eval(e.right, fr)
        return self.binop(_BINOPS[type(e.op)], a, b, e)

    def binop(self, op, a, b, node=None):
        self.tick()
        if isinstance(a, Instance):
            m = self.find_method(a.cls, _DUNDER.get(op, "?"))
            if m is not None:
                return self.call_func(m, [a, b], {}, node)
            if op == "truediv":
                m = self.find_method(a.cls, "__truediv__")
            raise AnalysisError(f"{self.where(node)}: {a.cls.qualname} has no {_DUNDER.get(op)}")
        if isinstance(b, Instance):
            m = self.find_method(b.cls, _RDUNDER.get(op, "?"))
            if m is not None and not hasattr(a, "v_binop"):
                return self.call_func(m, [b, a], {}, node)
            if m is not None:
                # a symbolic int on the left: its own operator does not know the class (NotImplemented), so Python calls the
                # reflected method of the object on the right
                r = a.v_binop(op, b, False, self)
                if r is not NotImplemented:
                    return r
                return self.call_func(m, [b, a], {}, node)
            if m is None:
                raise AnalysisError(f"{self.where(node)}: {b.cls.qualname} has no {_RDUNDER.get(op)}")
        if hasattr(a, "v_binop"):
            r = a.v_binop(op, b, False, self)
            if r is not NotImplemented:
                return r
        if hasattr(b, "v_binop"):
            r = b.v_binop(op, a, True, self)
            if r is not NotImplemented:
                return r
        if isinstance(a, Term) or isinstance(b, Term):
            r = self.term_binop(op, a, b, node)
            if self.int_bindings and r in self.int_bindings:
                self.emit("case_split", term=r, value=self.int_bindings[r], node=node)
                return self.int_bindings[r]
            return r
        if isinstance(a, (bytes, bytearray)) and isinstance(b, (bytes, bytearray)) and op == "add":
            return bytes(a) + bytes(b) if isinstance(a, bytes) else a + b
        try:
            return _PYOP[op](a, b)
        except ZeroDivisionError:
            self.raise_exc("ZeroDivisionError", "", node)
        except AnalysisError:
            raise
        except TypeError as ex:
            plain = (int, float, str, bytes, bytearray, bool, type(None), tuple, list)
            if isinstance(a, plain) and isinstance(b, plain) and not _has_abstract(a) and not _has_abstract(b):
                # two concrete Python values: the TypeError is the program's own
                self.raise_exc("TypeError", str(ex), node)
            raise AnalysisError(f"{self.where(node)}: {op} on {show(a)} and {show(b)}: {ex}")

    def term_binop(self, op, a, b, node):
        if isinstance(a, Fold):
            a = a.as_term()
        if isinstance(b, Fold):
            b = b.as_term()
        sa, sb = sort_of(a), sort_of(b)
        if "bytes" in (sa, sb):
            if op == "add":
                return t_concat([a, b])
            if op == "mul":
                bs, k = (a, b) if sa == "bytes" else (b, a)
                if isinstance(k, int) and not is_sym(bs):
                    return bs * k
                return Term("repeat", (bs, k), "bytes")
            raise AnalysisError(f"{self.where(node)}: {op} on bytes")
        if "field" in (sa, sb) or "point" in (sa, sb):
            return Term("f" + op, (a, b), "field")
        if isinstance(a, FieldVal) or isinstance(b, FieldVal):
            return Term("f" + op, (a, b), "field")
        if sa in ("int", "bool", "any") and sb in ("int", "bool", "any"):
            if op == "truediv":
                return Term("truediv", (a, b), "float")
            if op == "mod" and b == 2 and not isinstance(b, bool) and isinstance(a, Term) and a.op == "xor" and sa == "int":
                # parity of a ^ b is parity(a) ^ parity(b)
                return self.term_binop("xor", self.term_binop("mod", a.args[0], 2, node) if is_sym(a.args[0]) else a.args[0] % 2,
                                       self.term_binop("mod", a.args[1], 2, node) if is_sym(a.args[1]) else a.args[1] % 2, node)
            if op == "and" and sa == "int" and sb == "int":
                # x & (2^k − 1) = x mod 2^k for every Python int (negative ones too): one normal form for both spellings
                for x_, m_ in ((a, b), (b, a)):
                    if isinstance(m_, int) and not isinstance(m_, bool) and m_ > 0 and (m_ & (m_ + 1)) == 0 and isinstance(x_, Term):
                        return self.term_binop("mod", x_, m_ + 1, node)
            if op == "rshift" and sa == "int" and isinstance(b, int) and not isinstance(b, bool) and 0 <= b < 4096 and isinstance(a, Term):
                return self.term_binop("floordiv", a, 1 << b, node)      # x >> k = x // 2^k for every int
            if op == "mod" and isinstance(a, Term) and isinstance(b, int) and not isinstance(b, bool) and b > 0 \
                    and (sa == "int" or self.facts.get(Term("isinstance", (a, "int"), "bool")) is True):
                # x % m is x when the path has established 0 <= x < m
                from .ranges import interval_of_facts
                lo, hi, _holes, _ = interval_of_facts(list(self.facts.items()), a)
                if lo >= 0 and hi <= b - 1:
                    return a
            return t_arith(op, a, b)
        if sa == "float" or sb == "float":
            return Term(op, (a, b), "float")
        if isinstance(a, list) and op == "add" or isinstance(b, list) and op == "add":
            raise AnalysisError(f"{self.where(node)}: list + symbolic")
        raise AnalysisError(f"{self.where(node)}: {op} on sorts {sa}, {sb}")

    def e_BoolOp(self, e, fr):
        is_and = isinstance(e.op, ast.And)
        v = None
        for i, x in enumerate(e.values):
            v = self.eval(x, fr)
            if i == len(e.values) - 1:
                return v
            t = self.truth(v, x)
            if is_and and not t:
                return False if _is_boolish(v) else v
            if not is_and and t:
                return True if _is_boolish(v) else v
        return v

    def e_IfExp(self, e, fr):
        if self.truth(self.eval(e.test, fr), e.test):
            return self.eval(e.body, fr)
        return self.eval(e.orelse, fr)

    def e_Compare(self, e, fr):
        left = self.eval(e.left, fr)
        res = True
        for i, (op, rn) in enumerate(zip(e.ops, e.comparators)):
            right = self.eval(rn, fr)
            res = self.compare(op, left, right, e)
            if i < len(e.ops) - 1:
                if not self.truth(res, e):
                    return res
            left = right
        return res

    def compare(self, op, a, b, node):
        self.tick()
        t = type(op)
        if t in (ast.Is, ast.IsNot):
            if b is None or a is None:
                x = a if b is None else b
                if isinstance(x, Term) and x.sort in ("optional", "any") and x.op != "H":
                    r = Term("isnone", (x,), "bool")
                else:
                    r = x is None
            elif any(isinstance(x, Term) and x.op == "type" for x in (a, b)) and a is not b:
                # the exact type of a symbolic value (an int may be a bool or a subclass …) is not known: both outcomes
                ty, other = (a, b) if isinstance(a, Term) and a.op == "type" else (b, a)
                r = Term("type_is", (ty.args[0], getattr(other, "qual", None) or getattr(other, "qualname", None) or repr(other)), "bool")
            elif a is not b and any(hasattr(x, "v_identity") for x in (a, b)) and \
                    (lambda s_, o_: s_.v_identity(o_, self))(*((a, b) if hasattr(a, "v_identity") else (b, a))) is not NotImplemented:
                s_, o_ = (a, b) if hasattr(a, "v_identity") else (b, a)
                r = s_.v_identity(o_, self)
            elif a is not b and not any(isinstance(x, (bool, ClassInfo)) or x is None for x in (a, b)) and \
                    any(is_sym(x) or isinstance(x, AbstractValue) or (isinstance(x, (tuple, list)) and _has_abstract(x)) for x in (a, b)):
                fnlike = lambda x: isinstance(x, (HashFn, External, FuncRef, IdentityFn)) or type(x).__name__ in ("HashFn", "IdentityFn")
                sym, other = (a, b) if (is_sym(a) and isinstance(a, Term)) else (b, a)
                if isinstance(sym, Term) and fnlike(other):
                    # a symbolic function-valued parameter (`hash_function is sha256`): either outcome is possible; the branch
                    # taken for the particular function is walked with the parameter still generic (it stands for that function too)
                    r = Term("same_object", (sym, repr(other)), "bool")
                    return t_not(r) if t is ast.IsNot else r
                # a generic input compared by identity with one particular object (`pt is G1`): the input may be that very object.
                # The branch taken for it cannot be walked on a generic value — undecided, never "not the same object"
                raise AnalysisError(f"{self.where(node)}: identity test of a symbolic value against an object "
                                    f"({show(a)[:40]} is {show(b)[:40]}): a specialisation on one object is outside the fragment")
            else:
                r = a is b
            if t is ast.IsNot:
                return t_not(r) if is_sym(r) else (not r)
            return r
        if t in (ast.In, ast.NotIn):
            r = self.contains(b, a, node)
            if t is ast.NotIn:
                return t_not(r) if isinstance(r, Term) else self.logical_not(r, node)
            return r
        o = _CMPOPS[t]
        if isinstance(a, Instance):
            m = self.find_method(a.cls, _CMPDUNDER[o])
            if m is not None:
                return self.call_func(m, [a, b], {}, node)
            if o == "!=":
                m = self.find_method(a.cls, "__eq__")
                if m is not None:
                    return self.logical_not(self.call_func(m, [a, b], {}, node), node)
            if o in (">", ">=", "<=") and self.find_method(a.cls, "__lt__"):
                # functools.total_ordering
                lt = self.find_method(a.cls, "__lt__")
                eq = self.find_method(a.cls, "__eq__")
                if o == ">":      # not (a < b) and a != b
                    l = self.call_func(lt, [a, b], {}, node)
                    if self.truth(l, node):
                        return False
                    return self.logical_not(self.call_func(eq, [a, b], {}, node), node)
                if o == "<=":
                    l = self.call_func(lt, [a, b], {}, node)
                    if self.truth(l, node):
                        return True
                    return self.call_func(eq, [a, b], {}, node)
                if o == ">=":
                    return self.logical_not(self.call_func(lt, [a, b], {}, node), node)
            raise AnalysisError(f"{self.where(node)}: comparison {o} on {a.cls.qualname}")
        if isinstance(b, Instance):
            return self.compare(_swap_op(t)(), b, a, node)
        if isinstance(a, (tuple, list)) and isinstance(b, (tuple, list)) and o in ("==", "!=") \
                and (_has_abstract(a) or _has_abstract(b)):
            # structural comparison, element by element, like CPython
            if type(a) is not type(b):
                res = False
            elif len(a) != len(b):
                res = False
            else:
                res = True
                for x, y in zip(a, b):
                    r = self.compare(ast.Eq(), x, y, node)
                    if not self.truth(r, node):
                        res = False
                        break
            return res if o == "==" else (not res)
        if isinstance(a, (tuple, list)) and isinstance(b, (tuple, list)) and type(a) is type(b) and o in ("<", "<=", ">", ">=") \
                and (_has_abstract(a) or _has_abstract(b)):
            # lexicographic order, element by element, like CPython: the first differing pair decides
            for x, y in zip(a, b):
                r = self.compare(ast.Eq(), x, y, node)
                if not self.truth(r, node):
                    strict = {"<": ast.Lt, "<=": ast.Lt, ">": ast.Gt, ">=": ast.Gt}[o]()
                    return self.compare(strict, x, y, node)
            return _PYCMP[o](len(a), len(b))
        if (a is None or b is None) and o in ("==", "!=") and not is_sym(a) and not is_sym(b):
            return (a is b) if o == "==" else (a is not b)
        if hasattr(a, "v_compare"):
            r = a.v_compare(o, b, self)
            if r is not NotImplemented:
                return r
        if hasattr(b, "v_compare"):
            r = b.v_compare(_CMPSWAP[o], a, self)
            if r is not NotImplemented:
                return r
        if is_sym(a) or is_sym(b):
            if isinstance(a, (Term, int, bytes, str, bool, FieldVal, tuple, type(None), float)) and \
               isinstance(b, (Term, int, bytes, str, bool, FieldVal, tuple, type(None), float)):
                a, b = self.concretize(a), self.concretize(b)
                if o in ("==", "!="):
                    # bool-term against a concrete bool: eq(t, True) is t itself
                    for x, y in ((a, b), (b, a)):
                        if isinstance(x, Term) and x.sort == "bool" and isinstance(y, bool):
                            r = x if y else t_not(x)
                            return r if o == "==" else t_not(r)
                return t_cmp(o, a, b)
            raise AnalysisError(f"{self.where(node)}: comparison of {a!r} and {b!r}")
        try:
            return _PYCMP[o](a, b)
        except TypeError as ex:
            raise AnalysisError(f"{self.where(node)}: compare {show(a)} {o} {show(b)}: {ex}")

    def contains(self, container, x, node):
        if isinstance(container, (tuple, list)):
            res = False
            for c in container:
                r = self.compare(ast.Eq(), x, c, node)
                if self.truth(r, node):
                    return True
            return res
        if isinstance(container, range) and container.step == 1 and is_sym(x):
            # start <= x < stop (x an integer: callers test isinstance first; a non-int would compare unequal to every element)
            lo = self.compare(ast.GtE(), x, container.start, node)
            if not self.truth(lo, node):
                return False
            return self.compare(ast.Lt(), x, container.stop, node)
        if isinstance(container, _ClassDict):
            ov = getattr(self, "class_overlay", None)
            if ov and (container.cls.qualname, x) in ov:
                return True
            if not is_sym(x) and (x in container.cls.methods or x in container.cls.attr_nodes or x in container.cls.dyn_attrs):
                return True
            return Term("dict_has", (f"classdict:{container.cls.qualname}", _hashable(x)), "bool")
        if isinstance(container, dict):
            sr = self.shared_read(container, x, node, "membership test")
            if sr == "miss":
                return False
            if sr == "fork":
                return Term("dict_has", (self.shared_name(container), _hashable(x)), "bool")
        if isinstance(container, dict) and not _has_abstract(x):
            return x in container
        if isinstance(container, dict):
            # mutable mapping queried with a symbolic key: its contents are state, not a function of the inputs
            return Term("dict_has", (self.shared_name(container), _hashable(x)), "bool")
        if isinstance(container, (set, frozenset)) and not is_sym(x):
            return x in container
        if isinstance(container, (bytes, str)) and not is_sym(x):
            return x in container
        raise AnalysisError(f"{self.where(node)}: `in` on {container!r}")

    # ------------------------------------------------------------- subscript
    def eval_index(self, s, fr):
        if isinstance(s, ast.Slice):
            return slice(self.eval(s.lower, fr) if s.lower else None,
                         self.eval(s.upper, fr) if s.upper else None,
                         self.eval(s.step, fr) if s.step else None)
        return self.eval(s, fr)

    def e_Subscript(self, e, fr):
        base = self.eval(e.value, fr)
        idx = self.eval_index(e.slice, fr)
        return self.index(base, idx, e)

    def index(self, base, idx, node=None):
        if base is None:
            self.raise_exc("TypeError", "'NoneType' object is not subscriptable", node)
        if hasattr(base, "v_index"):
            return base.v_index(idx, self)
        if isinstance(idx, slice):
            parts = (idx.start, idx.stop, idx.step)
            if not is_sym(base) and not any(is_sym(p) for p in parts):
                return base[idx]
            if isinstance(base, SymSeq):
                nm = f"{base.name}[{show(idx.start)}:{show(idx.stop)}:{show(idx.step)}]"
                return SymSeq(nm, base.elem, Term("slice_len", (_hashable(base), _hashable(parts)), "int"), (base,))
            if idx.step is not None:
                if sort_of(base) == "bytes":
                    return Term("slice_step", (_hashable(base), idx.start, idx.stop, idx.step), "bytes")
                raise AnalysisError(f"{self.where(node)}: symbolic slice with step")
            if sort_of(base) != "bytes":
                raise AnalysisError(f"{self.where(node)}: symbolic slice of non-bytes {base!r}")
            return self.bytes_slice(base, idx.start, idx.stop, node)
        if isinstance(base, Term):
            if is_sym(idx):
                raise AnalysisError(f"{self.where(node)}: symbolic index into symbolic value")
            if base.op == "tuple":
                return base.args[idx]
            if base.sort == "bytes":
                return Term("byte", (base, idx), "int")
            return Term("item", (base, idx), _item_sorts(base, None, idx))
        if isinstance(base, SymSeq):
            if is_sym(idx) or not isinstance(idx, int):
                raise AnalysisError(f"{self.where(node)}: indexing a symbolic sequence with {idx!r}")
            # the element at one fixed position: in range only if the length allows it
            inr = self.compare(ast.Lt(), idx if idx >= 0 else -idx - 1, base.length, node)
            if not self.truth(inr, node):
                self.raise_exc("IndexError", "sequence index out of range", node)
            e = base.elem
            sort = e.sort if isinstance(e, Term) else "any"
            return Term("at", (_hashable(e), base.name, idx), sort)
        if isinstance(base, dict):
            sr = self.shared_read(base, idx, node, "subscript read")
            if sr == "miss":
                self.raise_exc("KeyError", "memo miss", node)
            if sr == "fork":
                return Term("dict_get", (self.shared_name(base), _hashable(idx)), "any")
        if isinstance(base, dict) and _has_abstract(idx):
            return Term("dict_get", (self.shared_name(base), _hashable(idx)), "any")
        if is_sym(idx) and isinstance(base, (tuple, list)) and base and isinstance(idx, Term) and idx.sort == "int" \
                and all(isinstance(x, bytes) for x in base):
            # a table that tabulates I2OSP(k, n) for k = 0 .. len-1 is that function on 0 <= k < len
            n = len(base[0])
            if all(len(x) == n and x == k.to_bytes(n, "big") for k, x in enumerate(base) if k < 256 ** n) and len(base) <= 256 ** n:
                from .ranges import interval_of_facts
                lo, _hi, _h, _o = interval_of_facts(list(self.facts.items()), idx)
                if idx.op in ("len", "range_elem") and (idx.op == "len" or (isinstance(idx.args[0], int) and idx.args[0] >= 0)):
                    lo = max(lo, 0)
                if lo < 0:
                    raise AnalysisError(f"{self.where(node)}: possibly negative index {idx!r} into a lookup table")
                hi_ok = self.compare(ast.Lt(), idx, len(base), node)
                if not self.truth(hi_ok, node):
                    self.raise_exc("IndexError", "tuple index out of range", node)
                return Term("i2osp", (idx, n), "bytes")
        if is_sym(idx):
            raise AnalysisError(f"{self.where(node)}: symbolic index {idx!r} into concrete container")
        if isinstance(base, External) or isinstance(base, ClassInfo):
            return base       # typing subscripts
        try:
            return base[idx]
        except (IndexError, KeyError):
            self.raise_exc("IndexError", "index out of range", node)
        except TypeError as ex:
            raise AnalysisError(f"{self.where(node)}: index {show(base)}[{idx!r}]: {ex}")

    def bytes_slice(self, base, lo, hi, node):
        from .term import t_slice
        if (isinstance(lo, int) and lo < 0) or (isinstance(hi, int) and hi < 0):
            raise AnalysisError(f"{self.where(node)}: negative symbolic slice bound")
        return t_slice(base, lo, hi)

    # ---------------------------------------------------------- comprehension
    def e_ListComp(self, e, fr):
        return self.comprehension(e, fr)

    def e_DictComp(self, e, fr):
        if len(e.generators) != 1:
            raise AnalysisError(f"{self.where(e)}: nested comprehension outside the fragment")
        g = e.generators[0]
        it = self.eval(g.iter, fr)
        saved = dict(fr.env)
        try:
            if is_sym(it):
                if g.ifs:
                    raise AnalysisError(f"{self.where(e)}: filtered comprehension over symbolic sequence")
                self.assign(g.target, self.generic_elem(it, e), fr)
                k, v = self.eval(e.key, fr), self.eval(e.value, fr)
                return SymMap(f"dict@{self.where(e)}", k, v, it)
            out = {}
            for x in self.iter_concrete(it, e):
                self.assign(g.target, x, fr)
                if all(self.truth(self.eval(c, fr), c) for c in g.ifs):
                    out[self.eval(e.key, fr)] = self.eval(e.value, fr)
            return out
        finally:
            for nm in _assigned_names_target(g.target):
                if nm in saved:
                    fr.env[nm] = saved[nm]
                else:
                    fr.env.pop(nm, None)

    def e_GeneratorExp(self, e, fr):
        r = self.comprehension(e, fr)
        if isinstance(r, list):
            return _ConcreteIter(r)
        return r

    def comprehension(self, e, fr):
        if len(e.generators) != 1:
            return self._nested_comprehension(e, fr, 0)
        g = e.generators[0]
        it = self.eval(g.iter, fr)
        saved = dict(fr.env)
        try:
            if is_sym(it):
                if g.ifs:
                    raise AnalysisError(f"{self.where(e)}: filtered comprehension over symbolic sequence")
                elem = self.generic_elem(it, e)
                self.assign(g.target, elem, fr)
                v = self.eval(e.elt, fr)
                if isinstance(it, Term) and it.sort == "bytes":
                    return Term("map", (v, it), "seq")
                return SymSeq(f"comp@{self.where(e)}", v, t_len(it), (it,))
            out = []
            for x in self.iter_concrete(it, e):
                self.assign(g.target, x, fr)
                if all(self.truth(self.eval(c, fr), c) for c in g.ifs):
                    out.append(self.eval(e.elt, fr))
            return out
        finally:
            names = _assigned_names_target(g.target)
            for nm in names:
                if nm in saved:
                    fr.env[nm] = saved[nm]
                else:
                    fr.env.pop(nm, None)

    def _nested_comprehension(self, e, fr, k):
        """several `for` clauses: every iterable must be concrete (a symbolic one has no generic-element summary here)"""
        if k == len(e.generators):
            return [self.eval(e.elt, fr)]
        g = e.generators[k]
        itv = self.eval(g.iter, fr)
        if is_sym(itv):
            raise AnalysisError(f"{self.where(e)}: nested comprehension over a symbolic sequence outside the fragment")
        saved = dict(fr.env)
        out = []
        try:
            for x in self.iter_concrete(itv, e):
                self.assign(g.target, x, fr)
                if all(self.truth(self.eval(c, fr), c) for c in g.ifs):
                    out.extend(self._nested_comprehension(e, fr, k + 1))
        finally:
            for nm in _assigned_names_target(g.target):
                if nm in saved:
                    fr.env[nm] = saved[nm]
                else:
                    fr.env.pop(nm, None)
        return out

    # ------------------------------------------------------------------ call
    def e_Call(self, e, fr):
        # super() needs the frame
        if isinstance(e.func, ast.Name) and e.func.id == "super" and "super" not in fr.env:
            if e.args or not fr.cls_ctx:
                raise AnalysisError(f"{self.where(e)}: super() with arguments / outside a class")
            return SuperProxy(fr.cls_ctx, fr.first)
        if isinstance(e.func, ast.Name) and e.func.id == "globals":
            return _GlobalsProxy(fr.module)
        fn = self.eval(e.func, fr)
        args = []
        for a in e.args:
            if isinstance(a, ast.Starred):
                sv = self.eval(a.value, fr)
                if isinstance(sv, (tuple, list)):
                    args.extend(sv)
                    continue
                raise AnalysisError(f"{self.where(e)}: star-argument of a symbolic sequence outside the fragment")
            args.append(self.eval(a, fr))
        kwargs = {}
        for k in e.keywords:
            if k.arg is None:
                raise AnalysisError(f"{self.where(e)}: **kwargs outside the fragment")
            kwargs[k.arg] = self.eval(k.value, fr)
        return self.call(fn, args, kwargs, e)

    # ----------------------------------------------------------------- truth
    def as_cond(self, v, node):
        """symbolic value -> symbolic boolean (python truthiness)"""
        if hasattr(v, "v_truth"):
            return v.v_truth(self)
        if hasattr(v, "decide"):
            return v
        if isinstance(v, Term):
            if v.sort == "bool":
                return v
            if v.sort == "int":
                return t_not(t_eq(v, 0))
            if v.sort in ("bytes", "seq"):
                return t_not(t_eq(t_len(v), 0))
            if v.sort == "optional":
                return t_not(Term("isnone", (v,), "bool"))
            raise AnalysisError(f"{self.where(node)}: truth value of {v!r} (sort {v.sort})")
        if isinstance(v, SymSeq):
            return t_not(t_eq(v.length, 0))
        if isinstance(v, Instance):
            if self.find_method(v.cls, "__bool__") or self.find_method(v.cls, "__len__"):
                raise AnalysisError(f"{self.where(node)}: __bool__/__len__ dispatch")
            return True
        raise AnalysisError(f"{self.where(node)}: truth value of {v!r}")

    def truth(self, v, node=None):
        if not is_sym(v) and not isinstance(v, (Instance, FieldVal)):
            if isinstance(v, _ConcreteIter):
                return True
            return bool(v)
        if isinstance(v, FieldVal):
            raise AnalysisError(f"{self.where(node)}: truth value of field element")
        c = self.as_cond(v, node)
        if isinstance(c, bool):
            return c
        if hasattr(c, "decide"):
            # domain-owned condition
            d = c.decide(self)
            if d is not None:
                return d
            choice = self.oracle.next(self.where(node))
            c.assume(self, choice)
            self.fact_log.append((c, choice, self.where(node)))
            return choice
        atom, pol = atom_of(c)
        if atom in self.facts:
            return self.facts[atom] == pol
        if self.domain is not None:
            d = self.domain.decide(self, atom)
            if d is not None:
                return d == pol
        d = self._interval_decide(atom)
        if d is not None:
            return d == pol
        choice = self.oracle.next(self.where(node))
        self.facts[atom] = (choice == pol)
        self.fact_log.append((atom, choice == pol, self.where(node)))
        if self.domain is not None:
            self.domain.assume(self, atom, choice == pol)
        return choice

    def _interval_decide(self, atom):
        """a comparison of a term with an integer constant that the interval facts of the path already settle"""
        if not (isinstance(atom, Term) and atom.op in ("lt", "eq") and len(atom.args) == 2):
            return None
        a, b = atom.args
        if isinstance(a, Term) and isinstance(b, int) and not isinstance(b, bool):
            X, c, left = a, b, True
        elif isinstance(b, Term) and isinstance(a, int) and not isinstance(a, bool):
            X, c, left = b, a, False
        else:
            return None
        from .ranges import interval_of_facts
        lo, hi, holes, _ = interval_of_facts(list(self.facts.items()), X)
        if lo == -math.inf and hi == math.inf and not holes:
            return None
        if atom.op == "eq":
            if c < lo or c > hi or c in holes:
                return False
            if lo == hi == c:
                return True
            return None
        if left:            # X < c
            if hi < c:
                return True
            if lo >= c:
                return False
        else:               # c < X
            if lo > c:
                return True
            if hi <= c:
                return False
        return None

    def assume(self, cond, truth=True, why="assumption"):
        atom, pol = atom_of(cond)
        if isinstance(atom, bool):
            return
        self.facts[atom] = (truth == pol)
        self.fact_log.append((atom, truth == pol, why))

    # ------------------------------------------------------------- externals
    def call_external(self, ext: External, args, kwargs, node):
        from .builtins_model import call_builtin
        return call_builtin(self, ext, args, kwargs, node)


_INPROGRESS = object()
_MISSING = object()


class _ConcreteIter(list):
    """a fully evaluated generator expression"""


class GenItems(_ConcreteIter):
    """the items a generator function yields, and the exception (if any) it raises after the last of them"""
    exc = None


def _is_generator(fn_node):
    cached = getattr(fn_node, "_vs_isgen", None)
    if cached is None:
        cached = False
        stack = list(fn_node.body)
        while stack:
            n = stack.pop()
            if isinstance(n, (ast.Yield, ast.YieldFrom)):
                cached = True
                break
            if isinstance(n, (ast.FunctionDef, ast.Lambda, ast.ClassDef)):
                continue
            stack.extend(ast.iter_child_nodes(n))
        fn_node._vs_isgen = cached
    return cached


class _GlobalsProxy:
    def __init__(self, module):
        self.module = module


class _ClassDict:
    """cls.__dict__ of a repository class (own attributes; run-time additions are state)"""

    def __init__(self, cls):
        self.cls = cls


class _BuiltinMethod:
    __slots__ = ("interp", "name", "obj")

    def __init__(self, interp, name, obj):
        self.interp, self.name, self.obj = interp, name, obj

    def __call__(self, *args, **kwargs):
        from .builtins_model import call_method
        return call_method(self.interp, self.name, self.obj, list(args), kwargs)


class Fold(AbstractValue):
    """value of a loop-carried variable after a loop over a symbolic sequence:
    fold(lambda acc, elem: body, init, seq)"""
    __slots__ = ("loop", "name", "init", "body", "acc", "seq")

    def __init__(self, loop, name, init, body, acc, seq):
        self.loop, self.name, self.init, self.body, self.acc, self.seq = loop, name, init, body, acc, seq

    @property
    def sort(self):
        return sort_of(self.init)

    def as_term(self):
        return Term("fold", (self.name, _hashable(self.init), _hashable(self.body), self.acc,
                             _hashable(self.seq)), sort_of(self.init))

    def __repr__(self):
        return f"fold({self.name}: {show(self.acc)} -> {show(self.body)}; init={show(self.init)}; over {self.seq!r})"


def _is_boolish(v):
    """a symbolic value of boolean sort whose truth has just been decided on this path equals that truth value"""
    return (isinstance(v, AbstractValue) and getattr(v, "sort", None) == "bool") or isinstance(v, bool)


def _hashable(v):
    if isinstance(v, SymSeq):
        return Term("symseq", (v.name, _hashable(v.elem), _hashable(v.length)), "seq")
    if isinstance(v, list):
        return tuple(_hashable(x) for x in v)
    if isinstance(v, tuple):
        return tuple(_hashable(x) for x in v)
    if isinstance(v, Fold):
        return v.as_term()
    if isinstance(v, FieldVal):
        return Term("fieldval", (v.cls.qualname if v.cls else "FQ", v.v), "field")
    return v


def _has_abstract(v):
    if isinstance(v, (tuple, list)):
        return any(_has_abstract(x) for x in v)
    return is_sym(v) or isinstance(v, Instance)


def _item_sorts(t, n, idx=None):
    s = "any"
    if t.sort == "point":
        s = "field"
    if idx is not None:
        return s
    return [s] * n


def _swap_op(t):
    return {ast.Eq: ast.Eq, ast.NotEq: ast.NotEq, ast.Lt: ast.Gt, ast.Gt: ast.Lt,
            ast.LtE: ast.GtE, ast.GtE: ast.LtE}[t]


def _assigned_names(body):
    out = set()
    for st in body:
        for n in ast.walk(st):
            if isinstance(n, ast.Name) and isinstance(n.ctx, ast.Store):
                out.add(n.id)
    return out


def _assigned_names_target(t):
    return {n.id for n in ast.walk(t) if isinstance(n, ast.Name)}


def havoc_while(it, st, fr):
    """while-hook: summarise `while test: body` whose test is concretely true on
    entry (so the body runs at least once) by ONE generic last iteration: the
    loop-carried variables are arbitrary on entry to that iteration, the body is
    evaluated once, and the exit condition (test false) is assumed on the result.
    Sound for every property of the state after the loop that holds for an
    arbitrary carried state; the carried inputs are emitted for rules that
    compare the body with a specification."""
    c0 = it.eval(st.test, fr)
    if is_sym(c0):
        raise AnalysisError(f"{it.where(st)}: loop test symbolic on entry")
    if not it.truth(c0, st.test):
        return None
    carried = {}
    for nm in sorted(_assigned_names(st.body)):
        if nm in fr.env:
            h = Term("havoc", (nm, it.where(st)), sort_of(fr.env[nm]))
            carried[nm] = (fr.env[nm], h)
            fr.env[nm] = h
    it.emit("while_enter", carried={k: v for k, v in carried.items()}, node=st)
    assigned = sorted(_assigned_names(st.body))
    it.sym_loop_depth += 1
    try:
        it.exec_block(st.body, fr)
    except (_Break, _Continue):
        raise AnalysisError(f"{it.where(st)}: break/continue in summarised while loop")
    except _Return:
        # the loop is left from inside the generic iteration
        it.emit("while_exit", carried={k: v for k, v in carried.items()},
                final={k: fr.env.get(k) for k in assigned}, exit_cond="return", node=st)
        raise
    finally:
        it.sym_loop_depth -= 1
    c1 = it.eval(st.test, fr)
    if not is_sym(c1):
        if it.truth(c1, st.test):
            # the test is constantly true: the loop is left only from inside the body (return / raise); a replay that completes
            # the generic iteration without leaving stands for "go round again" and is covered by the iteration itself
            it.emit("while_exit", carried={k: v for k, v in carried.items()},
                    final={k: fr.env.get(k) for k in carried}, exit_cond="exit inside body", node=st)
            raise Infeasible()
    else:
        cond = it.as_cond(c1, st.test)
        it.assume(cond, False, f"loop exit {it.where(st)}")
    it.emit("while_exit", carried={k: v for k, v in carried.items()},
            final={k: fr.env.get(k) for k in assigned}, exit_cond=c1, node=st)
    return None


# ---------------------------------------------------------------------------
# path enumeration by replay
# ---------------------------------------------------------------------------

def enumerate_paths(world, run, max_paths=4000, **interp_kw):
    """run(interp) -> value.  Returns list[Path] covering every decision
    sequence.  `run` is re-evaluated once per path."""
    paths = []
    work = [[]]
    while work:
        prefix = work.pop()
        orc = Oracle(prefix)
        it = Interp(world, orc, **interp_kw)
        p = Path()
        try:
            p.value = run(it)
            p.outcome = "return"
        except Raised as r:
            p.outcome = "raise"
            p.value = r.exc
        except _Return as r:
            p.outcome = "return"
            p.value = r.value
        except Infeasible:
            p.outcome = "infeasible"
        p.facts = list(it.fact_log)
        p.events = it.events
        p.decisions = list(orc.trace)
        p.interp = it
        if p.outcome != "infeasible":
            paths.append(p)
        if len(paths) > max_paths:
            raise AnalysisError(f"more than {max_paths} paths")
        for i in range(len(prefix), len(orc.trace)):
            if orc.trace[i][0] is True:
                work.append([c for c, _ in orc.trace[:i]] + [False])
    return paths
