"""E6 on the evaluator: field elements as rational functions, branch conditions
as polynomial (in)equations, equalities eliminated by substitution.

Used by C13 / C07 / C18 / C12 (curve formulas) — the repository's curve code is
walked by the evaluator with FieldSym arguments; `+ - * / **` are ring
operations (that is what C08 establishes for the field classes)."""
from __future__ import annotations

from .term import AnalysisError, AbstractValue
from .poly import Poly, Rat, P, divide_exact, known_nonzero
from .interp import Interp, World, enumerate_paths, Raised, Infeasible


class AlgState:
    def __init__(self, nonzero=(), subst=(), modulus=None):
        self.subst = list(subst)        # (var, Rat)
        self.nonzero = list(nonzero)    # Poly
        self.zeros = []                 # equalities that could not be eliminated
        self.log = []
        self.modulus = modulus          # a concrete prime characteristic: a constant is a unit iff it is not a multiple of it

    def _unit(self):
        if self.modulus is None:
            return {}
        p = self.modulus
        return {"allow_const": lambda c: c % p != 0}

    def norm(self, r: Rat) -> Rat:
        r = Rat.of(r)
        for _ in range(len(self.subst) + 1):
            vs = r.n.vars() | r.d.vars()
            hit = [(v, s) for v, s in self.subst if v in vs]
            if not hit:
                break
            for v, s in hit:
                r = rat_subs(r, v, s)
        return r

    def is_zero(self, r: Rat):
        """True / False / None for the normalised numerator"""
        n = self.norm(r).n
        if n.is_zero():
            return True
        for z in self.zeros:
            if divide_exact(n, z) is not None:
                return True
        if known_nonzero(n, self.nonzero, **self._unit()):
            return False
        return None

    def assume_zero(self, r: Rat, why=""):
        n = self.norm(r).n
        if n.is_zero():
            return
        n = self.strip(n)
        # eliminate a variable in which n is linear with a coefficient known non-zero
        best = None
        for v in sorted(n.vars(), key=str, reverse=True):
            cs = n.coeffs_in(v)
            if set(cs) <= {0, 1} and 1 in cs:
                a = cs[1]
                if known_nonzero(a, self.nonzero, **self._unit()):
                    best = (v, a, cs.get(0, Poly.const(0)))
                    break
        if best is None:
            self.zeros.append(n)
            self.log.append(f"kept equality {n!r} = 0 ({why})")
            return
        v, a, b = best
        self.subst.append((v, Rat(-b, a)))
        self.log.append(f"{v} := {(-b)!r} / {a!r} ({why})")

    def assume_nonzero(self, r: Rat, why=""):
        n = self.strip(self.norm(r).n)
        if not n.is_const():
            self.nonzero.append(n)
            self.log.append(f"{n!r} != 0 ({why})")

    def strip(self, n: Poly) -> Poly:
        """divide out factors already known to be non-zero"""
        changed = True
        while changed and not n.is_const():
            changed = False
            for f in self.nonzero:
                if f.is_const():
                    continue
                q = divide_exact(n, f)
                if q is not None:
                    n = q
                    changed = True
        return n

    def copy(self):
        s = AlgState(self.nonzero, self.subst, self.modulus)
        s.zeros = list(self.zeros)
        s.log = list(self.log)
        return s


def rat_subs(r: Rat, v, s: Rat) -> Rat:
    """substitute variable v by rational s in r"""
    def sub_poly(p):
        cs = p.coeffs_in(v)
        if set(cs) == {0} or not cs:
            return Rat(p)
        d = max(cs)
        num = Poly.const(0)
        for e, c in cs.items():
            num = num + c * (s.n ** e) * (s.d ** (d - e))
        return Rat(num, s.d ** d)
    a = sub_poly(r.n)
    b = sub_poly(r.d)
    return Rat(a.n * b.d, a.d * b.n)


class PolyCond(AbstractValue):
    """symbolic boolean  r == 0  (eq=True)  or  r != 0"""
    sort = "bool"

    def __init__(self, r: Rat, eq: bool):
        self.r, self.eq = r, eq

    def negate(self):
        return PolyCond(self.r, not self.eq)

    def decide(self, it):
        z = it.alg.is_zero(self.r)
        if z is None:
            return None
        return z == self.eq

    def assume(self, it, truth):
        if truth == self.eq:
            it.alg.assume_zero(self.r, it.where())
        else:
            it.alg.assume_nonzero(self.r, it.where())

    def __repr__(self):
        return f"({self.r.n!r} {'==' if self.eq else '!='} 0)"


class FieldSymClass:
    def __init__(self, modulus=None, tag=None):
        self.modulus = modulus
        self.tag = tag            # the concrete field class (ClassInfo) the symbolic coordinates stand for, when a run is typed

    def v_getattr(self, name, it):
        if name == "zero":
            return lambda: FieldSym(Rat(Poly.const(0)), self)
        if name == "one":
            return lambda: FieldSym(Rat(Poly.const(1)), self)
        raise AnalysisError(f"class attribute {name} of symbolic field")

    def __call__(self, v):
        if isinstance(v, FieldSym):
            return v
        if isinstance(v, int):
            return FieldSym(Rat(Poly.const(v)), self)
        raise AnalysisError(f"symbolic field constructor on {v!r}")


class FieldSym(AbstractValue):
    """a field element given as a rational function of the symbolic inputs"""
    sort = "field"
    __slots__ = ("r", "cls", "reduced")

    def __init__(self, r, cls=None, reduced=True):
        self.r = Rat.of(r)
        self.cls = cls or _DEFAULT_CLS
        self.reduced = reduced

    @staticmethod
    def var(name, cls=None):
        return FieldSym(Rat(Poly.var(name)), cls)

    def _lift(self, o):
        if isinstance(o, FieldSym):
            return o.r
        if isinstance(o, bool):
            o = int(o)
        if isinstance(o, int):
            return Rat(Poly.const(o))
        if hasattr(o, "kind") and hasattr(o, "v") and getattr(o, "kind") == "FQ":
            return Rat(Poly.const(o.v))
        return None

    def v_binop(self, op, other, reflected, it):
        if op == "pow":
            if reflected or not isinstance(other, int):
                raise AnalysisError(f"power with symbolic exponent/base: {other!r}")
            return FieldSym(self.r ** other, self.cls, False)
        if op == "mod" and not reflected:
            if isinstance(other, int) and self.cls.modulus == other:
                return FieldSym(self.r, self.cls, True)      # reduction modulo the field prime: same element
            if isinstance(other, int) and not isinstance(other, bool) and other > 0:
                # reduction by another modulus: not a function of the residue class — an unrelated, unreduced value
                return FieldSym(Rat(Poly.var(f"(({self.r.n!r})/({self.r.d!r}) mod {other:#x})"[:120])), self.cls, False)
            raise AnalysisError(f"% {other!r} on a symbolic field element")
        o = self._lift(other)
        if o is None:
            if op == "mul" and getattr(other, "kind", None) == "FQP" and hasattr(other, "mc_raw"):
                from .tower import TowerSym      # concrete tower constant times a symbolic scalar
                return TowerSym(other.v, other.mc_raw(), other.p, other.cls).v_binop("mul", self, False, it)
            return NotImplemented
        a, b = (o, self.r) if reflected else (self.r, o)
        if op == "add":
            return FieldSym(a + b, self.cls, False)
        if op == "sub":
            return FieldSym(a - b, self.cls, False)
        if op == "mul":
            return FieldSym(a * b, self.cls, False)
        if op == "truediv":
            return FieldSym(a / b, self.cls, False)
        raise AnalysisError(f"operator {op} on a symbolic field element")

    def __neg__(self):
        return FieldSym(-self.r, self.cls, False)

    def v_compare(self, op, other, it):
        o = self._lift(other)
        if o is None:
            return NotImplemented
        if self.cls.modulus is not None and (not self.reduced or (isinstance(other, FieldSym) and not other.reduced)):
            it.emit("unreduced_compare", expr=f"{self!r} {op} {other!r}")
        if op == "==":
            return PolyCond(self.r - o, True)
        if op == "!=":
            return PolyCond(self.r - o, False)
        # ordering of field elements is not a field notion: an opaque predicate (both outcomes are explored)
        from .term import Term
        return Term("field_order", (op, repr(self), repr(other)), "bool")

    def v_pow3(self, args, it):
        """pow(a, n, m) with a symbolic residue a, concrete n >= 0 and m the field modulus: a**n as a canonical residue"""
        if len(args) != 3 or args[0] is not self:
            raise AnalysisError("three-argument pow with a symbolic exponent or modulus")
        _a, n, m = args
        if isinstance(n, bool) or not isinstance(n, int) or n < 0 or n > 64:
            raise AnalysisError(f"three-argument pow with exponent {n!r}")
        if self.cls.modulus is None or m != self.cls.modulus:
            raise AnalysisError("three-argument pow with a modulus that is not the field modulus")
        r = FieldSym(Rat(Poly.const(1, self.cls.modulus)), self.cls, True)
        out = r.r
        for _ in range(n):
            out = out * self.r
        return FieldSym(out, self.cls, True)

    def v_truth(self, it):
        if self.cls.modulus is not None and not self.reduced:
            it.emit("unreduced_compare", expr=f"truth of {self!r}")
        return PolyCond(self.r, False)

    def v_getattr(self, name, it):
        if name in ("one", "zero"):
            return self.cls.v_getattr(name, it)
        if name == "__class__":
            return self.cls
        raise AnalysisError(f"attribute {name} of a symbolic field element")

    def v_type(self, it):
        return self.cls

    def v_int(self, it):
        return self          # int() of a canonical residue is the residue

    def v_isinstance(self, T, it):
        if T == "int":
            return self.cls.modulus is not None      # secp256k1 codes field elements as ints
        tag = getattr(self.cls, "tag", None)
        if tag is not None and hasattr(T, "mro") and hasattr(tag, "mro"):
            return T in tag.mro(it.repo)
        return NotImplemented

    def __repr__(self):
        return f"<{self.r!r}>"

    def __deepcopy__(self, memo):
        return self


_DEFAULT_CLS = FieldSymClass()


class AlgInterp(Interp):
    def __init__(self, *a, alg=None, **kw):
        super().__init__(*a, **kw)
        self.alg = alg.copy() if alg is not None else AlgState()


class PathList(list):
    truncated = False


def alg_paths(world, run, alg: AlgState, max_paths=500, partial=False, **kw):
    """enumerate paths of run(it) with the algebraic state `alg` as precondition; with partial=True a walk that exceeds
    max_paths returns the paths found so far, marked truncated (each is a real path: a violation on one of them stands,
    but their agreement proves nothing)"""
    from .interp import Oracle, Path, _Return
    paths = PathList()
    work = [[]]
    while work:
        prefix = work.pop()
        orc = Oracle(prefix)
        it = AlgInterp(world, orc, alg=alg, **kw)
        p = Path()
        try:
            p.value = run(it)
            p.outcome = "return"
        except Raised as r:
            p.outcome = "raise"
            p.value = r.exc
        except Infeasible:
            p.outcome = "infeasible"
        p.facts = list(it.fact_log)
        p.events = it.events
        p.decisions = list(orc.trace)
        p.interp = it
        p.alg = it.alg
        if p.outcome != "infeasible":
            paths.append(p)
        if len(paths) > max_paths:
            if partial:
                paths.truncated = True
                return paths
            raise AnalysisError(f"more than {max_paths} algebraic paths")
        for i in range(len(prefix), len(orc.trace)):
            if orc.trace[i][0] is True:
                work.append([c for c, _ in orc.trace[:i]] + [False])
    return paths
