"""Shared set-up for the BLS ciphersuite rules (C01-C04, C09): symbolic inputs,
protocol-level summaries, entry-point runners."""
from __future__ import annotations

from .term import AnalysisError, Term, var, is_sym, t_len, show
from .interp import (Interp, World, SymSeq, enumerate_paths, Raised, ExcValue, _hashable, Fold,
                     Instance)
from .loader import External, FuncRef, ClassInfo
from .fieldmodel import FieldVal

CS = "py_ecc.bls.ciphersuites"
SUITES = ["G2Basic", "G2MessageAugmentation", "G2ProofOfPossession"]


def resolve(repo, modname, name):
    m = repo.module(modname)
    r = repo.resolve_binding(m, name)
    if r is None or r[0] not in ("func", "class"):
        # the users of `name` may have moved to another module of the package that modname re-exports them from:
        # look the name up in the home modules of the functions modname re-exports (it must be unambiguous)
        found = {}
        for bn in list(m.bindings):
            try:
                rb = repo.resolve_binding(m, bn)
            except AnalysisError:
                continue
            if rb and rb[0] == "func" and rb[1].module is not m:
                try:
                    r2 = repo.resolve_binding(rb[1].module, name)
                except AnalysisError:
                    r2 = None
                if r2 and r2[0] in ("func", "class"):
                    found[id(r2[1])] = r2[1]
        if len(found) == 1:
            return next(iter(found.values()))
        raise AnalysisError(f"anchor vanished: {modname} no longer binds {name} to a function/class")
    return r[1]


def hp(v):
    return _hashable(v)


def all_concrete(v):
    if isinstance(v, (tuple, list)):
        return all(all_concrete(x) for x in v)
    return not is_sym(v) and not isinstance(v, Instance)


def sym_field_ctor(it, cls, args, kwargs):
    """class hook: a repository field class applied to symbolic data is an
    opaque, hash-consed constructor term"""
    from .fieldmodel import field_kind
    if field_kind(cls, it.repo) is None:
        return NotImplemented
    if all_concrete(args):
        return NotImplemented
    return Term("mkfield", (cls.qualname,) + tuple(hp(a) for a in args), "field")


class Model:
    """mode 'D': byte decoders are inlined (every raise site is met);
    mode 'P': decoders/encoders are opaque protocol-level terms."""

    def __init__(self, repo, mode="D"):
        self.repo = repo
        self.mode = mode
        self.world = World(repo)
        self.summ = {}
        self.anchors = {}
        R = lambda n, mod=CS: resolve(repo, mod, n)
        G2P = "py_ecc.bls.g2_primitives"
        H2C = "py_ecc.bls.hash_to_curve"
        PC = "py_ecc.bls.point_compression"
        a = self.anchors
        for n in ("multiply", "add", "neg", "pairing", "final_exponentiate", "G1_to_pubkey",
                  "G2_to_signature", "is_inf", "pubkey_to_G1", "signature_to_G2", "subgroup_check",
                  "hash_to_G2", "hkdf_expand", "hkdf_extract", "i2osp", "os2ip"):
            a[n] = R(n)
        a["decompress_G1"] = R("decompress_G1", G2P)
        a["decompress_G2"] = R("decompress_G2", G2P)
        a["msqrt"] = R("modular_squareroot_in_FQ2", PC)
        a["is_on_curve"] = R("is_on_curve", PC)
        a["map_to_curve_G2"] = R("map_to_curve_G2", H2C)
        a["clear_cofactor_G2"] = R("clear_cofactor_G2", H2C)
        a["h2c_add"] = R("add", H2C)
        a["hash_to_field_FQ2"] = R("hash_to_field_FQ2", H2C)
        a["g2p_multiply"] = R("multiply", G2P)
        a["g2p_is_inf"] = R("is_inf", G2P)
        S = self.summ
        S[a["multiply"].qualname] = self.s_multiply
        S[a["g2p_multiply"].qualname] = self.s_multiply
        S[a["add"].qualname] = self.s_opaque("add", "point")
        S[a["h2c_add"].qualname] = self.s_opaque("add", "point")
        S[a["neg"].qualname] = self.s_opaque("neg", "point")
        S[a["is_inf"].qualname] = self.s_pred("is_inf")
        S[a["g2p_is_inf"].qualname] = self.s_pred("is_inf")
        S[a["subgroup_check"].qualname] = self.s_subgroup
        S[a["pairing"].qualname] = self.s_pairing
        S[a["final_exponentiate"].qualname] = self.s_opaque("final_exponentiate", "field")
        S[a["hash_to_G2"].qualname] = self.s_hash_to_G2
        S[a["map_to_curve_G2"].qualname] = self.s_opaque("map_to_curve_G2", "point")
        S[a["clear_cofactor_G2"].qualname] = self.s_opaque("clear_cofactor_G2", "point")
        S[a["msqrt"].qualname] = self.s_msqrt
        S[a["is_on_curve"].qualname] = self.s_pred("is_on_curve", inline_concrete=True)
        S[a["G1_to_pubkey"].qualname] = self.s_encode("G1_to_pubkey", 48)
        S[a["G2_to_signature"].qualname] = self.s_encode("G2_to_signature", 96)
        if mode == "P":
            S[a["pubkey_to_G1"].qualname] = self.s_decode("pubkey_to_G1")
            S[a["signature_to_G2"].qualname] = self.s_decode("signature_to_G2")
        else:
            S[a["pubkey_to_G1"].qualname] = self.s_decode_inline("pubkey_to_G1")
            S[a["signature_to_G2"].qualname] = self.s_decode_inline("signature_to_G2")
        self.class_hooks = [sym_field_ctor]
        self.encoder_lengths()

    def encoder_lengths(self):
        """derive the fixed output length of the two byte encoders from their
        bodies (compress_* opaque): G1_to_pubkey -> 48, G2_to_signature -> 96"""
        from . import term as T
        G2P = "py_ecc.bls.g2_primitives"
        self.enc_len = {}
        for op, comp, shape in (("G1_to_pubkey", "compress_G1", "int"), ("G2_to_signature", "compress_G2", "pair")):
            cf = resolve(self.repo, G2P, comp)

            def s(it, f, args, kwargs, node, shape=shape):
                if shape == "int":
                    return var("z", "int")
                return (var("z1", "int"), var("z2", "int"))
            it = Interp(self.world, summaries={cf.qualname: s})
            r = it.call_func(self.anchors[op], [var("pt", "point")], {})
            n = t_len(r)
            if not isinstance(n, int):
                raise AnalysisError(f"{op}: output length is not a constant ({show(n)})")
            self.enc_len[op] = n
            T.LEN_OF_OP[op] = n

    def s_decode_inline(self, op):
        def s(it, f, args, kwargs, node):
            x = hp(args[0])
            it.emit("decode", fn=op, arg=x, facts=dict(it.facts), node=node,
                    caller=it.stack[-1].func.qualname if it.stack and it.stack[-1].func else None)
            saved = it.summaries.pop(f.qualname)
            try:
                r = it.call_func(f, args, kwargs, node)
            finally:
                it.summaries[f.qualname] = saved
            it.emit("decoded", fn=op, arg=x, result=hp(r), node=node)
            return r
        return s

    # ---- summaries -----------------------------------------------------
    def s_opaque(self, op, sort):
        def s(it, f, args, kwargs, node):
            it.emit("call", fn=op, args=[hp(x) for x in args], node=node)
            return Term(op, tuple(hp(x) for x in args) + tuple((k, hp(v)) for k, v in sorted(kwargs.items())), sort)
        return s

    def s_pred(self, op, inline_concrete=True):
        def s(it, f, args, kwargs, node):
            if inline_concrete and all_concrete(args):
                return NotImplemented
            return Term(op, tuple(hp(x) for x in args), "bool")
        return s

    def s_subgroup(self, it, f, args, kwargs, node):
        it.emit("subgroup_check", arg=hp(args[0]), node=node)
        return Term("subgroup_check", (hp(args[0]),), "bool")

    def s_multiply(self, it, f, args, kwargs, node):
        pt, n = args
        it.emit("scalar_mul", point=hp(pt), scalar=n, facts=dict(it.facts), node=node,
                caller=it.stack[-1].func.qualname if it.stack and it.stack[-1].func else None)
        return Term("multiply", (hp(pt), hp(n)), "point")

    def s_pairing(self, it, f, args, kwargs, node):
        Q, P = args[0], args[1]
        fe = kwargs.get("final_exponentiate", args[2] if len(args) > 2 else True)
        it.emit("pairing", Q=hp(Q), P=hp(P), fe=fe, facts=dict(it.facts), node=node,
                caller=it.stack[-1].func.qualname if it.stack and it.stack[-1].func else None)
        ok = Term("pairing_args_on_curve", (hp(Q), hp(P)), "bool")
        if not it.truth(ok, node):
            raise Raised(ExcValue(External("builtins.ValueError"), ("pairing: off-curve",), it.where(node)))
        return Term("pairing", (hp(Q), hp(P), fe), "field")

    def s_hash_to_G2(self, it, f, args, kwargs, node):
        if len(args) != 3 or kwargs:
            # not the three-argument function of the specification: walk the body instead of summarising it
            it.emit("hash_to_G2_nonstandard_call", nargs=len(args), kw=sorted(kwargs), node=node)
            saved = it.summaries.pop(f.qualname)
            try:
                return it.call_func(f, args, kwargs, node)
            finally:
                it.summaries[f.qualname] = saved
        msg, dst, hfn = args
        if self.mode == "D":
            # walk the real body once so that every raise site inside it is met
            saved = it.summaries.pop(f.qualname)
            try:
                it.call_func(f, args, kwargs, node)
            finally:
                it.summaries[f.qualname] = saved
        it.emit("hash_to_G2", msg=hp(msg), dst=hp(dst), hfn=hfn, node=node,
                caller=it.stack[-1].func.qualname if it.stack and it.stack[-1].func else None)
        return Term("hash_to_G2", (hp(msg), hp(dst), hfn), "point")

    def s_msqrt(self, it, f, args, kwargs, node):
        v = hp(args[0])
        if it.truth(Term("has_sqrt_FQ2", (v,), "bool"), node):
            return Term("sqrt_FQ2", (v,), "field")
        return None

    def s_encode(self, op, n):
        def s(it, f, args, kwargs, node):
            it.emit("encode", fn=op, arg=hp(args[0]), node=node)
            return Term(op, (hp(args[0]),), "bytes")
        return s

    def s_decode(self, op):
        def s(it, f, args, kwargs, node):
            x = hp(args[0])
            it.emit("decode", fn=op, arg=x, facts=dict(it.facts), node=node)
            if not it.truth(Term("decodes_" + op, (x,), "bool"), node):
                raise Raised(ExcValue(External("builtins.ValueError"), ("decode",), it.where(node)))
            return Term(op, (x,), "point")
        return s

    # ---- inputs --------------------------------------------------------
    @staticmethod
    def sym_bytes(name):
        return var(name, "bytes")

    @staticmethod
    def sym_seq(name, sort="bytes"):
        return SymSeq(name, Term("elem", (name,), sort), Term("len", (var(name, "seq"),), "int"))

    def suite(self, name):
        return self.repo.cls(f"{CS}.{name}")

    def method(self, suite_cls, name):
        it = Interp(self.world)
        m = it.find_method(suite_cls, name)
        if m is None:
            raise AnalysisError(f"anchor vanished: {suite_cls.qualname}.{name}")
        return m

    def paths(self, suite_name, meth, args, extra_summaries=None, force_bool=False, **kw):
        cls = self.suite(suite_name)
        m = self.method(cls, meth)
        summ = dict(self.summ)
        if extra_summaries:
            summ.update(extra_summaries)

        def run(it):
            recv = [] if (m.kind == "staticmethod" or m.cls is None) else [cls]
            r = it.call_func(m, recv + list(args), {})
            if force_bool and isinstance(r, Term) and r.sort == "bool":
                return it.truth(r)      # split on a returned boolean term
            return r
        return enumerate_paths(self.world, run, summaries=summ, class_hooks=list(self.class_hooks), **kw), m


LEN_ATOM_CACHE = {}


def tlen(v):
    return t_len(v)
